package main

import (
	"fmt"
	"math/rand"
	"net"
	"os"
	"path/filepath"
	"runtime"
	"strings"
	"sync"
	"sync/atomic"
	"time"

	"github.com/fatedier/frp/pkg/msg"
	"github.com/fatedier/frp/pkg/nathole"

	"verif/h"
)

// kase is one (server, proxy kind, termination path) scenario.
type kase struct {
	c    *h.Case
	e    *env
	kind string
	path string
	rng  *rand.Rand
	pfx  string
	tag  string
	sc   *scope

	V, B, P *actor
	actors  []*actor
	vs, bs  *spec
	sib     *spec // second proxy of the victim's session (paths where the session survives)
	sameGrp bool
	taken   []int
	variant []string

	keyOverride string // while set, ledger and traffic findings are reported under "<keyOverride>-<kind>"
}

var s1Paths = []string{"close", "drop-after-reply", "drop-before-reply", "drop-traffic",
	"drop-gate-afterQuota", "drop-gate-afterExist", "drop-gate-afterRun", "drop-gate-afterAdd",
	"relogin", "partial-fail", "name-race"}
var s2Paths = []string{"close", "drop-after-reply", "heartbeat", "pool"}

type combo struct {
	env  int // 1 or 2
	kind string
	path string
}

func allCombos() []combo {
	var out []combo
	for _, p := range s1Paths {
		for _, k := range kinds {
			out = append(out, combo{1, k, p})
		}
	}
	for _, p := range s2Paths {
		for _, k := range kinds {
			out = append(out, combo{2, k, p})
		}
	}
	// the control connection ends after Login was read and before LoginResp / the session's workers
	for _, e := range []int{1, 2} {
		for _, k := range kinds {
			out = append(out, combo{e, k, "login-cut"})
		}
	}
	// a udp proxy closed while its work-connection fetch is in progress (forced both ways)
	for _, e := range []int{1, 2} {
		out = append(out, combo{e, "udp", "udp-fetch-close"})
	}
	// groups with several live members and a stranger whose join is refused at the group check
	for _, e := range []int{1, 2} {
		for _, k := range []string{"tcp-group", "http-group", "tcpmux-group"} {
			out = append(out, combo{e, k, "stranger-join"})
		}
	}
	return out
}

// crossCombos: session A closes p, session W registers the identical p, then A's session ends. These run before
// everything else, and the kinds whose Close is idempotent first: if a stale proxy is closed a second time the other
// kinds panic (close of a closed channel), which ends the process and with it every monitor.
func crossCombos() (out []combo, nSafe int) {
	safe := []string{"tcp", "udp", "http", "stcp", "sudp", "xtcp", "http-group"}
	rest := []string{"https", "tcpmux", "tcp-group", "tcpmux-group"}
	for _, ks := range [][]string{safe, rest} {
		for _, k := range ks {
			for _, e := range []int{1, 2} {
				out = append(out, combo{e, k, "cross-session-reuse"})
			}
		}
	}
	return out, 2 * len(safe)
}

func (k *kase) actor(id, runID string, pool int, autoWork bool) *actor {
	a, err := newActor(k.c, k.e, id, runID, pool, autoWork)
	if err != nil {
		k.c.Ev("login-failed", "actor", id, "err", err.Error())
		return nil
	}
	k.actors = append(k.actors, a)
	k.sc.rids[a.rid] = id
	return a
}

func (k *kase) takePort() int {
	if k.e.auto {
		return 0
	}
	p := takePort()
	k.taken = append(k.taken, p)
	k.sc.ports[p] = true
	return p
}

func (k *kase) domain(role string, i int) string {
	return fmt.Sprintf("%s%d.%s.test", role, i, k.tag)
}

// newSpec generates the registration of `role` ("v" victim, "b" bystander) for the case's kind.
func (k *kase) newSpec(role string) *spec {
	r := k.rng
	s := &spec{Kind: k.kind, Name: k.pfx + role}
	switch baseKind(k.kind) {
	case "tcp", "udp":
		s.Port = k.takePort()
		s.Enc, s.Comp = r.Intn(3) == 0, r.Intn(3) == 0
		if k.kind == "tcp" && r.Intn(4) == 0 {
			s.Limit = "512KB"
		}
	case "http":
		nd := 1
		if k.kind == "http" {
			nd += r.Intn(2)
			if r.Intn(3) == 0 {
				s.Locations = []string{"/a", "/b"}
			}
			if r.Intn(3) == 0 {
				s.SubDomain = fmt.Sprintf("%ss-%s", role, k.tag)
			}
		}
		for i := 0; i < nd; i++ {
			s.Domains = append(s.Domains, k.domain(role, i))
		}
		if r.Intn(4) == 0 {
			s.RouteUser = "u" + role
		}
		s.Enc, s.Comp = r.Intn(3) == 0, r.Intn(3) == 0
		if r.Intn(4) == 0 {
			s.Limit = "512KB"
		}
	case "https", "tcpmux":
		nd := 1
		if !strings.HasSuffix(k.kind, "-group") {
			nd += r.Intn(2)
			if r.Intn(3) == 0 {
				s.SubDomain = fmt.Sprintf("%ss-%s", role, k.tag)
			}
		}
		for i := 0; i < nd; i++ {
			s.Domains = append(s.Domains, k.domain(role, i))
		}
	case "stcp", "sudp", "xtcp":
		s.Sk = "sk-" + k.tag
		if k.kind != "xtcp" {
			s.Enc, s.Comp = r.Intn(3) == 0, r.Intn(3) == 0
		}
	}
	if strings.HasSuffix(k.kind, "-group") {
		s.Group = k.pfx + "g" + role
		s.GroupKey = "gk" + role
	}
	return s
}

// joinGroupOf makes b a fellow member of a's load-balancing group (same endpoint, same key).
func joinGroupOf(b, a *spec) {
	b.Group, b.GroupKey = a.Group, a.GroupKey
	b.Port, b.Domains, b.SubDomain, b.Locations, b.RouteUser = a.Port, a.Domains, a.SubDomain, a.Locations, a.RouteUser
}

func (k *kase) inconclusive(why string) {
	if strings.Contains(why, "barrier") && os.Getenv("C10_DEBUG") != "" {
		dumpGoroutines(fmt.Sprintf("barrier-c%d-%s-%s.txt", k.c.Idx, k.kind, k.path))
	}
	k.c.Ev("inconclusive", "why", why)
	run.Inconclusive(why)
}

func (k *kase) key(what string) string {
	if k.keyOverride != "" {
		return k.keyOverride + "-" + k.kind
	}
	return fmt.Sprintf("%s-%s-%s", what, k.kind, k.path)
}

// owners for sid lookups of xtcp probes
func (k *kase) owners() []*actor { return k.actors }

// expectServed probes a live registration: every endpoint must be answered by one of `allowed` actors for this name.
func (k *kase) expectServed(when string, s *spec, allowed ...*actor) {
	ok := map[string]bool{}
	names := []string{s.Name}
	if k.sameGrp && k.bs != nil && k.vs != nil {
		names = append(names, k.bs.Name, k.vs.Name)
	}
	for _, a := range allowed {
		for _, n := range names {
			ok[a.id+"|"+n] = true
		}
	}
	var rs []probeResult
	good := false
	for attempt := 0; attempt < 2 && !good; attempt++ {
		rs = probeSpec(k.e, s, k.P, k.owners())
		good = len(rs) > 0
		for _, r := range rs {
			if !ok[r.Who] {
				good = false
			}
		}
	}
	run.Count("traffic_probes", int64(len(rs)))
	k.c.Ev("probe-live", "when", when, "name", s.Name, "results", describe(rs))
	if good {
		return
	}
	for _, a := range allowed {
		if a.p.Closed() {
			k.inconclusive("owner session ended while probing (loaded machine / heartbeat)")
			return
		}
	}
	if k.P != nil && k.P.p.Closed() {
		k.inconclusive("prober session ended while probing")
		return
	}
	var ids []string
	for _, a := range allowed {
		ids = append(ids, a.id)
	}
	for _, r := range rs {
		if r.Who == "" || ok[r.Who] {
			continue
		}
		for _, a := range k.actors {
			if strings.HasPrefix(r.Who, a.id+"|"+k.pfx) {
				k.c.Violation(k.key("traffic-served-by-another-session"), "%s: proxy %s (%s) is registered by %v, but a request was answered by %s (a session that gave the route up or never had it): %s",
					when, s.Name, s.Kind, ids, r.Who, describe(rs))
				return
			}
		}
	}
	k.c.Violation(k.key("live-proxy-not-served-by-owner"), "%s: proxy %s (%s) should be served by %v, probes saw %s", when, s.Name, s.Kind, ids, describe(rs))
}

// expectGone probes a released registration: no endpoint may be answered by a session in `dead`.
func (k *kase) expectGone(when string, s *spec, dead *actor, others ...*actor) {
	if s.Kind == "udp" {
		return // a dead udp endpoint is silent; the ledger's OS line (port not bound) decides
	}
	rs := probeSpec(k.e, s, k.P, k.owners())
	run.Count("traffic_probes", int64(len(rs)))
	k.c.Ev("probe-gone", "when", when, "name", s.Name, "results", describe(rs))
	for _, r := range rs {
		if r.Who == dead.id+"|"+s.Name {
			k.c.Violation(k.key("released-proxy-still-served"), "%s: endpoint of released proxy %s (%s) is still answered by the former owner: %s", when, s.Name, s.Kind, describe(rs))
			return
		}
	}
}

func (k *kase) mustRegister(when string, a *actor, s *spec, vioKey string) bool {
	resp, err := a.register(s)
	run.Count("registrations", 1)
	if err != nil {
		if a.p.Closed() && k.e.heartbeat > 0 {
			k.inconclusive("session ended during registration on the heartbeat server")
			return false
		}
		k.c.Violation(k.key("registration-no-reply"), "%s: registration of %s (%s) got no reply: %v", when, s.Name, s.Kind, err)
		return false
	}
	if resp.Error != "" {
		if vioKey == "" {
			k.inconclusive("initial registration refused: " + trimErr(resp.Error))
			return false
		}
		k.c.Violation(k.key(vioKey), "%s: identical registration of %s (%s) refused: %s", when, s.Name, s.Kind, resp.Error)
		return false
	}
	if s.real != 0 {
		k.sc.ports[s.real] = true
	}
	return true
}

// dumpGoroutines writes every goroutine's stack to the run directory (diagnosis of wedged teardowns).
func dumpGoroutines(file string) {
	buf := make([]byte, 64<<20)
	n := runtime.Stack(buf, true)
	_ = os.WriteFile(filepath.Join(h.RunDir(prop), file), buf[:n], 0o644)
}

func trimErr(e string) string {
	if i := strings.LastIndex(e, ": "); i >= 0 {
		e = e[i+2:]
	}
	if len(e) > 40 {
		e = e[:40]
	}
	return e
}

func (k *kase) sessionGone(when string, a *actor) bool {
	if waitSessionGone(k.e, a.rid, 15*time.Second) {
		return true
	}
	dumpGoroutines(fmt.Sprintf("stuck-c%d.txt", k.c.Idx))
	k.c.Violation(k.key("session-not-removed"), "%s: session %s (%s) still in the session table 15 s after its control connection ended", when, a.id, a.rid)
	return false
}

func (k *kase) liveB() []live {
	if k.bs == nil || k.B == nil {
		return nil
	}
	return []live{{k.bs, k.B}}
}

func (k *kase) withSib(lv []live) []live {
	if k.sib != nil {
		lv = append(lv, live{k.sib, k.V})
	}
	return lv
}

// runCase executes one scenario.
func runCase(c *h.Case, e *env, kind, path string) {
	k := &kase{c: c, e: e, kind: kind, path: path, rng: c.Rng, pfx: fmt.Sprintf("c%d.", c.Idx), tag: fmt.Sprintf("k%dk", c.Idx)}
	k.sc = &scope{e: e, pfx: k.pfx, tag: k.tag, ports: map[int]bool{}, rids: map[string]string{}}
	c.Data["env"], c.Data["kind"], c.Data["path"] = e.name, kind, path
	defer func() {
		for _, a := range k.actors {
			a.close()
		}
		for _, a := range k.actors {
			waitSessionGone(e, a.rid, 10*time.Second)
		}
		for _, p := range k.taken {
			givePort(p)
		}
	}()
	rmP, trace := h.Perturb(k.rng, k.pfx)
	defer rmP()

	pool := 0
	if k.rng.Intn(3) == 0 {
		pool = 1 + k.rng.Intn(2)
	}
	if path == "udp-fetch-close" {
		pool = 0
	}
	k.V = k.actor("V", "", pool, path != "pool" && path != "udp-fetch-close")
	k.B = k.actor("B", "", 0, true)
	k.P = k.actor("P", "", 0, true)
	if k.V == nil || k.B == nil || k.P == nil {
		k.inconclusive("login failed")
		return
	}
	k.B.keepAlive()
	k.P.keepAlive()
	if path != "heartbeat" {
		k.V.keepAlive()
	}
	rmV, traceV := h.Perturb(k.rng, k.V.rid)
	defer rmV()

	k.vs = k.newSpec("v")
	k.bs = k.newSpec("b")
	if strings.HasSuffix(kind, "-group") && path != "partial-fail" && path != "name-race" && k.rng.Intn(2) == 0 {
		joinGroupOf(k.bs, k.vs)
		k.sameGrp = true
	}
	if (kind == "http" || kind == "tcpmux") && path != "partial-fail" && path != "name-race" && k.rng.Intn(3) == 0 {
		// the bystander lives on the victim's host name: another location (http) / another route user (tcpmux)
		k.bs.Domains, k.bs.SubDomain = []string{k.vs.Domains[0]}, ""
		if kind == "http" {
			k.vs.Locations, k.bs.Locations, k.bs.RouteUser = []string{"/a", "/b"}, []string{"/c"}, k.vs.RouteUser
		} else {
			k.vs.RouteUser, k.bs.RouteUser = "uv", "ub"
		}
		k.variant = append(k.variant, "shared-host")
	}
	k.variant = append(k.variant, fmt.Sprintf("pool%d", pool), fmt.Sprintf("grp%v", k.sameGrp),
		fmt.Sprintf("d%d", len(k.vs.Domains)), fmt.Sprintf("l%d", len(k.vs.Locations)), fmt.Sprintf("sub%v", k.vs.SubDomain != ""),
		fmt.Sprintf("u%v", k.vs.RouteUser != ""), fmt.Sprintf("e%vc%v", k.vs.Enc, k.vs.Comp), "lim"+k.vs.Limit)
	c.Data["victim"], c.Data["bystander"] = k.vs, k.bs

	switch path {
	case "stranger-join":
		k.strangerJoin()
	case "partial-fail":
		k.partialFail()
	case "name-race":
		k.nameRace()
	default:
		if !k.mustRegister("setup", k.B, k.bs, "") {
			return
		}
		k.expectServed("setup", k.bs, k.B)
		switch path {
		case "close":
			k.pathClose()
		case "relogin":
			k.pathRelogin()
		case "heartbeat":
			k.pathHeartbeat()
		case "pool":
			k.pathPool()
		case "login-cut":
			k.pathLoginCut()
		case "udp-fetch-close":
			k.pathUDPFetchClose()
		case "cross-session-reuse":
			k.pathCrossSessionReuse()
		default:
			k.pathDrop()
		}
	}
	// bystander: still there, still its own
	if k.B != nil && k.bs != nil && !k.B.p.Closed() && c.Violations() == 0 && path != "name-race" && path != "partial-fail" && path != "stranger-join" {
		k.expectServed("end of case (bystander)", k.bs, k.bystanderOwners()...)
	}
	run.Count("cases_"+e.name, 1)
	run.Distinct(fmt.Sprintf("%s|%s|%s|%s|%s|%s", e.name, kind, path, strings.Join(k.variant, ","), h.TraceSig(trace()), h.TraceSig(traceV())))
	if c.Idx%53 == 0 {
		run.Sample(map[string]any{"env": e.name, "kind": kind, "path": path, "victim": k.vs, "bystander": k.bs, "variant": k.variant})
	}
}

func (k *kase) bystanderOwners() []*actor {
	out := []*actor{k.B}
	if k.sameGrp {
		for _, a := range k.actors {
			if a != k.B && a != k.P && !a.p.Closed() {
				out = append(out, a)
			}
		}
	}
	return out
}

func (k *kase) servers(a *actor) []*actor {
	if k.sameGrp {
		return []*actor{a, k.B}
	}
	return []*actor{a}
}

func (k *kase) registerSibling() bool {
	k.sib = &spec{Kind: "stcp", Name: k.pfx + "sib", Sk: "sk-" + k.tag}
	if !k.mustRegister("setup (sibling)", k.V, k.sib, "") {
		k.sib = nil
		return false
	}
	return true
}

// ---------------------------------------------------------------------------------------------
// explicit close, with the identical registration sent right behind the close request

func (k *kase) pathClose() {
	if !k.registerSibling() {
		return
	}
	reps := 2
	if kd := baseKind(k.kind); kd == "tcp" || kd == "udp" {
		reps = k.e.quota + 2 // a quota unit lost per cycle shows before the loop ends (sibling holds no port)
	}
	// udp: the forwarder goroutine calls Close a second time; hold that call until the next owner of the
	// port is registered (both orders of "late second Close" vs "next registration" are legal schedules)
	var late *lateClose
	if k.kind == "udp" && !k.e.auto && k.rng.Intn(4) != 0 {
		late = newLateClose(k.vs.Name)
		defer func() { late.remove(); late.releaseParked() }()
		k.variant = append(k.variant, "late-second-close")
	}
	for i := 0; i < reps; i++ {
		when := fmt.Sprintf("cycle %d", i)
		vio := "reregistration-after-close-refused"
		if i == 0 {
			vio = ""
		}
		if late != nil {
			late.arm(i == 0)
		}
		if !k.mustRegister(when, k.V, k.vs, vio) {
			return
		}
		if late != nil && i > 0 {
			late.releaseParked()
			if !k.checkLedger(when+": after the previous proxy's late second Close", k.withSib(append(k.liveB(), live{k.vs, k.V}))) {
				return
			}
		}
		k.expectServed(when, k.vs, k.servers(k.V)...)
		if baseKind(k.kind) == "http" {
			// leave an idle keep-alive backend connection behind
			for _, d := range k.vs.allDomains() {
				r := probeHTTP(k.e, d, k.vs.locs()[0], k.vs.RouteUser, true)
				k.c.Ev("keepalive-request", "domain", d, "result", r.String())
			}
		}
		if i == 0 && !k.checkLedger(when+": registered", k.withSib(append(k.liveB(), live{k.vs, k.V}))) {
			return
		}
		if err := k.V.p.CloseProxy(k.vs.Name); err != nil {
			k.inconclusive("close request could not be sent")
			return
		}
		run.Count("closes", 1)
	}
	if k.kind == "xtcp" && !k.natHoleVisitorDuringClose() {
		return
	}
	if err := k.V.barrier(); err != nil {
		k.inconclusive("close barrier missing")
		return
	}
	if late != nil {
		// from here on every Close passes: a Close parked inside the session teardown would hold the session's lock
		late.remove()
		late.releaseParked()
	}
	if !k.checkLedger("after CloseProxy", k.withSib(k.liveB())) {
		return
	}
	k.expectGone("after CloseProxy", k.vs, k.V)
	k.workConnsReleased("after CloseProxy", k.V, k.vs)
	k.expectServed("after CloseProxy (sibling of the closed proxy)", k.sib, k.V)
	// and once more, then end the session
	if !k.mustRegister("after close barrier", k.V, k.vs, "reregistration-after-close-refused") {
		return
	}
	k.expectServed("after close barrier", k.vs, k.servers(k.V)...)
	k.V.close()
	if !k.sessionGone("after session end", k.V) {
		return
	}
	k.sib = nil
	k.checkLedger("after session end", k.liveB())
}

// natHoleVisitorDuringClose: a visitor request that has looked the xtcp proxy up is parked while the proxy is closed
// (the last CloseProxy of the loop is already on the wire); its NAT-hole session entry must not stay behind.
func (k *kase) natHoleVisitorDuringClose() bool {
	// the proxy of the last cycle is closed by now or about to be; register once more so that the visitor finds it
	if err := k.V.barrier(); err != nil {
		k.inconclusive("close barrier missing")
		return false
	}
	if !k.mustRegister("before the parked visitor", k.V, k.vs, "reregistration-after-close-refused") {
		return false
	}
	var sid string
	var mu sync.Mutex
	rm := h.OnHook("nathole.visitor.afterLookup", k.vs.Name, func(_ string, args []any) {
		if len(args) == 2 {
			mu.Lock()
			sid, _ = args[1].(string)
			mu.Unlock()
		}
	})
	defer rm()
	g := h.NewGate("nathole.visitor.afterLookup", k.vs.Name, 1)
	defer g.Release()
	ts := time.Now().Unix()
	if err := k.P.p.Send(&msg.NatHoleVisitor{TransactionID: "tx-parked-" + k.tag, ProxyName: k.vs.Name, Protocol: "quic",
		SignKey: h.AuthKey(k.vs.Sk, ts), Timestamp: ts, MappedAddrs: []string{"127.0.0.1:30001"}}); err != nil {
		k.inconclusive("visitor request could not be sent")
		return false
	}
	if !g.WaitArrived(10 * time.Second) {
		k.inconclusive("nathole visitor gate not reached")
		return false
	}
	run.Count("gate_nathole_visitor_forced", 1)
	if err := k.V.p.CloseProxy(k.vs.Name); err != nil || k.V.barrier() != nil {
		k.inconclusive("close barrier missing")
		return false
	}
	g.Release()
	mu.Lock()
	s := sid
	mu.Unlock()
	gone := h.Eventually(time.Duration(3*nathole.NatHoleTimeout+10)*time.Second, func() bool {
		for _, x := range k.e.srv.Snapshot().NatHoleSess {
			if x == s {
				return false
			}
		}
		return true
	})
	if !gone {
		k.c.Violation("nathole-session-left-after-proxy-close", "visitor request for %s was between its lookup and the hand-over of the sid when the proxy was closed: its session %s is still in the NAT-hole session table %d s later (the request's goroutine never ends)",
			k.vs.Name, s, 3*nathole.NatHoleTimeout+10)
		return false
	}
	return true
}

// workConnsReleased: work connections handed to the closed proxy (idle http backend connections, the udp
// proxy's message channel, ...) must be closed by the server; user connections are all finished by now.
func (k *kase) workConnsReleased(when string, a *actor, s *spec) {
	ok := h.Eventually(8*time.Second, func() bool { return a.openFor(s.Name) == 0 })
	run.Count("work_conn_release_checks", 1)
	if !ok {
		key := fmt.Sprintf("work-connection-of-closed-proxy-left-open-%s", k.kind)
		if s.Limit != "" {
			key += "-server-limiter"
		}
		k.c.Violation(key,
			"%s: %d work connection(s) the server took for proxy %s (%s) are still open 8 s after the proxy was closed and no user connection is in progress",
			when, a.openFor(s.Name), s.Name, s.Kind)
	}
}

// lateClose parks every Close of a udp proxy after the first one of a registration.
type lateClose struct {
	mu      sync.Mutex
	n       int
	parked  []chan struct{}
	remove  func()
	arrived chan struct{}
}

func newLateClose(name string) *lateClose {
	l := &lateClose{arrived: make(chan struct{}, 16)}
	l.remove = h.OnHook("server.proxy.udp.close.enter", name, func(string, []any) {
		l.mu.Lock()
		l.n++
		if l.n == 1 {
			l.mu.Unlock()
			return
		}
		ch := make(chan struct{})
		l.parked = append(l.parked, ch)
		l.mu.Unlock()
		select {
		case l.arrived <- struct{}{}:
		default:
		}
		select {
		case <-ch:
		case <-time.After(20 * time.Second):
		}
	})
	return l
}

// arm: wait (bounded) for the previous registration's second Close to be parked, then start counting anew.
func (l *lateClose) arm(first bool) {
	if !first {
		select {
		case <-l.arrived:
			run.Count("udp_second_close_parked", 1)
		case <-time.After(5 * time.Second):
		}
	}
	l.mu.Lock()
	l.n = 0
	l.mu.Unlock()
}

func (l *lateClose) releaseParked() {
	l.mu.Lock()
	p := l.parked
	l.parked = nil
	l.mu.Unlock()
	for _, ch := range p {
		close(ch)
	}
	if len(p) > 0 {
		time.Sleep(20 * time.Millisecond) // let the released Close run to its end (a few statements)
	}
}

// ---------------------------------------------------------------------------------------------
// control connection dropped at a chosen point

func (k *kase) pathDrop() {
	var held []net.Conn
	defer func() {
		for _, c := range held {
			c.Close()
		}
	}()
	switch {
	case k.path == "drop-after-reply" || k.path == "drop-traffic":
		if !k.mustRegister("setup", k.V, k.vs, "") {
			return
		}
		k.expectServed("before the drop", k.vs, k.servers(k.V)...)
		if !k.checkLedger("registered", append(k.liveB(), live{k.vs, k.V})) {
			return
		}
		if k.path == "drop-traffic" {
			held = k.openUserConns()
			k.variant = append(k.variant, fmt.Sprintf("held%d", len(held)))
		}
	case k.path == "drop-before-reply":
		specByName.Store(k.vs.Name, k.vs)
		if err := k.V.p.Send(k.vs.msg()); err != nil {
			k.inconclusive("send failed")
			return
		}
		if d := k.rng.Intn(4); d > 0 {
			time.Sleep(time.Duration(k.rng.Intn(3000)) * time.Microsecond)
		}
	default: // drop-gate-<point>
		pt := strings.TrimPrefix(k.path, "drop-gate-")
		g := h.NewGate("server.registerProxy."+pt, k.V.rid, 1)
		defer g.Release()
		specByName.Store(k.vs.Name, k.vs)
		if err := k.V.p.Send(k.vs.msg()); err != nil {
			k.inconclusive("send failed")
			return
		}
		if !g.WaitArrived(15 * time.Second) {
			k.inconclusive("registration gate not reached: " + pt)
			return
		}
		run.Count("gate_"+pt+"_forced", 1)
		// the connection ends while the registration is parked between two of its steps
		k.V.stopKeepAlive()
		k.V.p.Close()
		time.Sleep(time.Duration(k.rng.Intn(5)) * time.Millisecond)
		g.Release()
	}
	k.V.close()
	run.Count("session_drops", 1)
	if !k.sessionGone("after the drop", k.V) {
		return
	}
	if !k.checkLedger("after the drop", k.liveB()) {
		return
	}
	k.expectGone("after the drop", k.vs, k.V)
	k.reRegisterOnNewSession("after the drop")
}

// openUserConns leaves user connections open on the victim's endpoint (stream kinds with a public port).
func (k *kase) openUserConns() []net.Conn {
	var out []net.Conn
	if k.kind != "tcp" && k.kind != "tcp-group" {
		return nil
	}
	for i := 0; i < 1+k.rng.Intn(3); i++ {
		c, err := net.DialTimeout("tcp", fmt.Sprintf("127.0.0.1:%d", k.vs.port()), 3*time.Second)
		if err != nil {
			continue
		}
		if i%2 == 0 {
			_, _ = c.Write([]byte("hello-from-user\n"))
			_, _ = readIdentLine(c, probeTimeout)
			_ = c.SetReadDeadline(time.Time{})
		}
		out = append(out, c)
	}
	return out
}

// reRegisterOnNewSession: the identical registration from a fresh session must succeed and carry traffic.
func (k *kase) reRegisterOnNewSession(when string) {
	W := k.actor("W", "", 0, true)
	if W == nil {
		k.inconclusive("login failed")
		return
	}
	W.keepAlive()
	if !k.mustRegister(when+" (new session)", W, k.vs, "reregistration-on-new-session-refused") {
		return
	}
	k.expectServed(when+" (new session)", k.vs, k.servers(W)...)
	k.checkLedger(when+" (re-registered by a new session)", append(k.liveB(), live{k.vs, W}))
}

// ---------------------------------------------------------------------------------------------
// replacement by a login with the same run id

func (k *kase) pathRelogin() {
	if !k.mustRegister("setup", k.V, k.vs, "") {
		return
	}
	k.expectServed("before re-login", k.vs, k.servers(k.V)...)
	k.V.stopKeepAlive()
	W := k.actor("W", k.V.rid, 0, true)
	if W == nil {
		k.inconclusive("re-login failed")
		return
	}
	W.keepAlive()
	k.sc.rids[W.rid] = "W"
	run.Count("relogins", 1)
	if !k.mustRegister("right after re-login", W, k.vs, "reregistration-after-relogin-refused") {
		return
	}
	// the replaced connection belongs to the same client (same run id): work connections it still offers in answer
	// to requests sent before the replacement are legitimately accepted for the run id, so V may answer as well
	k.expectServed("after re-login", k.vs, append(k.servers(W), k.V)...)
	if !k.V.p.WaitClosed(15 * time.Second) {
		k.c.Violation(k.key("replaced-control-connection-left-open"), "replaced session's control connection is still open 15 s after the re-login was acknowledged")
	}
	k.checkLedger("after re-login", append(k.liveB(), live{k.vs, W}))
}

// ---------------------------------------------------------------------------------------------
// heartbeat timeout (server with transport.heartbeatTimeout)

func (k *kase) pathHeartbeat() {
	if !k.mustRegister("setup", k.V, k.vs, "") {
		return
	}
	t0 := time.Now()
	k.expectServed("before the timeout", k.vs, k.servers(k.V)...)
	// the victim stays connected but never sends a heartbeat
	grace := time.Duration(3*k.e.heartbeat+15) * time.Second
	if !k.V.p.WaitClosed(grace) {
		k.c.Violation(k.key("heartbeat-timeout-session-not-closed"), "session without heartbeats still connected after %v (heartbeatTimeout %d s)", grace, k.e.heartbeat)
		return
	}
	run.Count("heartbeat_timeouts", 1)
	k.c.Ev("heartbeat-closed", "after_ms", time.Since(t0).Milliseconds())
	if !k.sessionGone("after heartbeat timeout", k.V) {
		return
	}
	if !k.checkLedger("after heartbeat timeout", k.liveB()) {
		return
	}
	k.expectGone("after heartbeat timeout", k.vs, k.V)
	k.reRegisterOnNewSession("after heartbeat timeout")
}

// ---------------------------------------------------------------------------------------------
// pooled work connections (server without tcp multiplexing: every work connection is its own socket)

func (k *kase) pathPool() {
	if !k.mustRegister("setup", k.V, k.vs, "") {
		return
	}
	var wcs []*h.WorkConn
	n := 2 + k.rng.Intn(3)
	for i := 0; i < n; i++ {
		wc, err := k.V.p.OpenWorkConn()
		if err != nil {
			k.inconclusive("work connection could not be opened")
			return
		}
		wcs = append(wcs, wc)
	}
	// wait until they sit in the pool
	h.Eventually(5*time.Second, func() bool {
		for _, ss := range k.e.srv.Snapshot().Sessions {
			if ss.RunID == k.V.rid {
				return ss.PoolLen >= n-1 // the udp / xtcp proxy may have taken one
			}
		}
		return false
	})
	k.variant = append(k.variant, fmt.Sprintf("pooled%d", n))
	k.V.stopKeepAlive()
	k.V.p.CloseControlOnly()
	run.Count("session_drops", 1)
	if !k.sessionGone("after the control connection ended", k.V) {
		return
	}
	for _, wc := range wcs {
		_ = wc.Conn.SetReadDeadline(time.Now().Add(10 * time.Second))
		buf := make([]byte, 4096)
		var err error
		for err == nil {
			_, err = wc.Conn.Read(buf)
		}
		run.Count("pooled_conns_checked", 1)
		if ne, ok := err.(net.Error); ok && ne.Timeout() {
			k.c.Violation(fmt.Sprintf("pooled-work-connection-left-open-%s", k.kind),
				"work connection %d offered to session %s is still open 10 s after the session ended (session gone from the table)", wc.ID, k.V.rid)
			break
		}
	}
	if !k.checkLedger("after the control connection ended", k.liveB()) {
		return
	}
	k.reRegisterOnNewSession("after the control connection ended")
}

// ---------------------------------------------------------------------------------------------
// registration failing part-way

func (k *kase) partialFail() {
	if !k.registerSibling() {
		return
	}
	kd := baseKind(k.kind)
	switch {
	case k.kind == "tcp" || k.kind == "udp" || k.kind == "tcp-group":
		// listen fails after the port was acquired: the harness takes the port at the hook between the two steps
		point, key := "server.proxy."+k.kind+".afterAcquire", k.vs.Name
		if k.kind == "tcp-group" {
			point, key = "server.group.tcp.afterAcquire", k.vs.Group
		}
		var mu sync.Mutex
		var squat []interface{ Close() error }
		rm := h.OnHook(point, key, func(_ string, args []any) {
			port, _ := args[len(args)-1].(int)
			mu.Lock()
			defer mu.Unlock()
			if k.kind == "udp" {
				if u, err := net.ListenUDP("udp", &net.UDPAddr{IP: net.IPv4(127, 0, 0, 1), Port: port}); err == nil {
					squat = append(squat, u)
				}
			} else if l, err := net.Listen("tcp", fmt.Sprintf("127.0.0.1:%d", port)); err == nil {
				squat = append(squat, l)
			}
		})
		unsquat := func() {
			mu.Lock()
			for _, s := range squat {
				s.Close()
			}
			squat = nil
			mu.Unlock()
		}
		defer unsquat()
		defer rm()
		if !k.mustRegister("setup", k.B, k.bs, "") {
			return
		}
		// first: refused at the name check (the name is the bystander's); nothing may be charged to the session
		for i := 0; i < 2; i++ {
			taken := *k.vs
			taken.Name = k.bs.Name
			resp, err := k.V.register(&taken)
			specByName.Store(k.bs.Name, k.bs)
			if err != nil {
				k.inconclusive("no reply to failing registration")
				return
			}
			if resp.Error == "" {
				k.c.Violation(k.key("conflicting-registration-accepted"), "registration of the taken name %s was accepted", taken.Name)
				return
			}
			run.Count("partial_failures", 1)
		}
		if !k.checkLedger("after registrations refused for a taken name", k.withSib(k.liveB())) {
			return
		}
		for i := 0; i < k.e.quota+1; i++ {
			resp, err := k.V.register(k.vs)
			if err != nil {
				k.inconclusive("no reply to failing registration")
				return
			}
			if resp.Error == "" {
				k.inconclusive("port could not be taken between acquisition and listen")
				return
			}
			run.Count("partial_failures", 1)
			mu.Lock()
			n := len(squat)
			mu.Unlock()
			unsquat()
			// the port must be back (free, not bound, quota returned) after every failed attempt
			if !k.checkLedger(fmt.Sprintf("after failed attempt %d (%s)", i, trimErr(resp.Error)), k.withSib(k.liveB())) {
				return
			}
			if n == 0 {
				k.inconclusive("registration failed before the port was acquired: " + trimErr(resp.Error))
				return
			}
		}
		rm()
	case kd == "http" || kd == "https" || kd == "tcpmux":
		if strings.HasSuffix(k.kind, "-group") {
			// a grouped proxy with two host names: the group holds one route, the second route is refused
			k.vs.Domains = []string{k.domain("v", 0), k.domain("v", 1)}
			if !k.mustRegister("setup", k.B, k.bs, "") {
				return
			}
		} else {
			// the last route of the victim is already taken by the bystander
			k.vs.SubDomain = ""
			k.vs.Domains = []string{k.domain("v", 0), k.domain("v", 1)}
			if kd == "http" && len(k.vs.Locations) > 0 && k.rng.Intn(2) == 0 {
				k.vs.Domains = k.vs.Domains[:1]
				k.bs.Domains, k.bs.Locations = []string{k.vs.Domains[0]}, []string{k.vs.Locations[len(k.vs.Locations)-1]}
			} else {
				k.bs.Domains, k.bs.Locations = []string{k.vs.Domains[1]}, k.vs.Locations
			}
			k.bs.SubDomain, k.bs.RouteUser = "", k.vs.RouteUser
			if !k.mustRegister("setup", k.B, k.bs, "") {
				return
			}
		}
		resp, err := k.V.register(k.vs)
		if err != nil {
			k.inconclusive("no reply to failing registration")
			return
		}
		if resp.Error == "" {
			k.c.Violation(k.key("conflicting-registration-accepted"), "registration of %s whose last route conflicts with an existing one was accepted", k.vs.Name)
			return
		}
		run.Count("partial_failures", 1)
	default: // stcp, sudp, xtcp: one resource only; the name is taken
		k.bs.Name = k.vs.Name
		if !k.mustRegister("setup", k.B, k.bs, "") {
			return
		}
		resp, err := k.V.register(k.vs)
		specByName.Store(k.bs.Name, k.bs)
		if err != nil {
			k.inconclusive("no reply to failing registration")
			return
		}
		if resp.Error == "" {
			k.c.Violation(k.key("conflicting-registration-accepted"), "registration of the taken name %s was accepted", k.vs.Name)
			return
		}
		run.Count("partial_failures", 1)
	}
	if !k.checkLedger("after the failed registration", k.withSib(k.liveB())) {
		return
	}
	k.expectServed("after the failed registration (bystander)", k.bs, k.B)
	k.expectServed("after the failed registration (sibling)", k.sib, k.V)
	// remove the obstacle; the identical registration must now succeed
	switch {
	case strings.HasSuffix(k.kind, "-group") && kd != "tcp":
		k.vs.Domains = k.vs.Domains[:1] // the two-route registration can never succeed; same name, group and first route
	case kd == "http" || kd == "https" || kd == "tcpmux" || kd == "stcp" || kd == "sudp" || kd == "xtcp":
		if err := k.B.p.CloseProxy(k.bs.Name); err != nil || k.B.barrier() != nil {
			k.inconclusive("bystander close barrier missing")
			return
		}
		k.bs = nil
	}
	if !k.mustRegister("after the obstacle was removed", k.V, k.vs, "registration-after-failed-attempt-refused") {
		return
	}
	k.expectServed("after the obstacle was removed", k.vs, k.V)
	k.checkLedger("registered after the failed attempts", k.withSib(append(k.liveB(), live{k.vs, k.V})))
}

// ---------------------------------------------------------------------------------------------
// the name is taken by another session between the existence check and the insertion

func (k *kase) nameRace() {
	if !k.registerSibling() {
		return
	}
	k.bs.Name = k.vs.Name
	k.bs.Enc, k.bs.Comp, k.bs.Limit = k.vs.Enc, k.vs.Comp, k.vs.Limit
	pt := []string{"afterExist", "afterRun"}[k.rng.Intn(2)]
	k.variant = append(k.variant, pt)
	g := h.NewGate("server.registerProxy."+pt, k.V.rid, 1)
	defer g.Release()
	specByName.Store(k.vs.Name, k.vs)
	if err := k.V.p.Send(k.vs.msg()); err != nil {
		k.inconclusive("send failed")
		return
	}
	if !g.WaitArrived(15 * time.Second) {
		// the registration was refused before the gate (cannot happen for a fresh name)
		k.inconclusive("registration gate not reached: " + pt)
		return
	}
	run.Count("gate_"+pt+"_forced", 1)
	respB, errB := k.B.register(k.bs)
	g.Release()
	m, err := k.V.p.WaitMsg(20*time.Second, func(x msg.Message) bool {
		r, ok := x.(*msg.NewProxyResp)
		return ok && r.ProxyName == k.vs.Name
	})
	if err != nil || errB != nil {
		k.inconclusive("no reply in name race")
		return
	}
	respV := m.(*msg.NewProxyResp)
	k.c.Ev("name-race", "point", pt, "victim_resp", respV, "bystander_resp", respB)
	var lv []live
	switch {
	case respV.Error == "" && respB.Error == "":
		k.c.Violation(k.key("name-registered-twice"), "both concurrent registrations of the name %s were accepted", k.vs.Name)
		return
	case respV.Error != "" && respB.Error != "":
		// both refused: legal (each saw the other's resources), nothing may remain
		k.variant = append(k.variant, "both-refused")
	case respB.Error == "":
		lv = []live{{k.bs, k.B}}
		k.variant = append(k.variant, "bystander-won")
	default:
		if k.vs.Port == 0 {
			fmt.Sscanf(respV.RemoteAddr, ":%d", &k.vs.real)
		}
		lv = []live{{k.vs, k.V}}
		specByName.Store(k.vs.Name, k.vs)
		k.variant = append(k.variant, "victim-won")
	}
	run.Count("name_races", 1)
	if !k.checkLedger("after the name race", k.withSib(lv)) {
		return
	}
	for _, l := range lv {
		k.expectServed("after the name race (winner)", l.s, l.owner)
	}
	k.expectServed("after the name race (sibling)", k.sib, k.V)
	// winner leaves; the loser's identical registration must then succeed
	for _, l := range lv {
		if err := l.owner.p.CloseProxy(l.s.Name); err != nil || l.owner.barrier() != nil {
			k.inconclusive("close barrier missing")
			return
		}
	}
	k.bs = nil
	if !k.checkLedger("after the winner closed", k.withSib(nil)) {
		return
	}
	if !k.mustRegister("after the winner closed", k.V, k.vs, "registration-after-name-race-refused") {
		return
	}
	k.expectServed("after the winner closed", k.vs, k.V)
	k.checkLedger("registered after the name race", k.withSib([]live{{k.vs, k.V}}))
}

// ---------------------------------------------------------------------------------------------
// a stranger's join of a load-balancing group with several live members is refused at the group check

// groupMembers returns (member count, listed) of the group in the server's own group table.
func (k *kase) groupMembers(group string) (int, bool) {
	sn := k.e.srv.Snapshot()
	switch k.kind {
	case "tcp-group":
		n, ok := sn.TCPGroups[group]
		return n, ok
	case "http-group":
		l, ok := sn.HTTPGroups[group]
		return len(l), ok
	default:
		n, ok := sn.TCPMuxGroups[group]
		return n, ok
	}
}

// expectGroupServed: several requests to the group's endpoint, each answered by a live member under its own name.
func (k *kase) expectGroupServed(when string, lv []live) bool {
	ok := map[string]bool{}
	for _, l := range lv {
		ok[l.owner.id+"|"+l.s.Name] = true
	}
	seen := map[string]bool{}
	for i := 0; i < 2*len(lv); i++ {
		var rs []probeResult
		good := false
		for attempt := 0; attempt < 2 && !good; attempt++ {
			rs = probeSpec(k.e, lv[0].s, k.P, k.owners())
			good = len(rs) > 0
			for _, r := range rs {
				if !ok[r.Who] {
					good = false
				}
			}
		}
		run.Count("traffic_probes", int64(len(rs)))
		if !good {
			for _, l := range lv {
				if l.owner.p.Closed() {
					k.inconclusive("member session ended while probing")
					return false
				}
			}
			k.c.Ev("probe-group", "when", when, "results", describe(rs))
			k.c.Violation(fmt.Sprintf("group-endpoint-not-served-by-members-%s", k.kind), "%s: the endpoint of group %s has %d live members %v, a request saw %s",
				when, lv[0].s.Group, len(lv), sortedKeys(ok), describe(rs))
			return false
		}
		for _, r := range rs {
			seen[r.Who] = true
		}
	}
	k.c.Ev("probe-group", "when", when, "answered_by", sortedKeys(seen))
	return true
}

func (k *kase) strangerJoin() {
	// members: V, B and (sometimes) a third session; P is the stranger
	members := []*actor{k.V, k.B}
	specs := []*spec{k.vs, k.bs}
	joinGroupOf(k.bs, k.vs)
	k.bs.Enc, k.bs.Comp, k.bs.Limit = k.vs.Enc, k.vs.Comp, k.vs.Limit
	if k.rng.Intn(2) == 0 {
		m3 := k.actor("M", "", 0, true)
		if m3 == nil {
			k.inconclusive("login failed")
			return
		}
		m3.keepAlive()
		s3 := *k.bs
		s3.Name, s3.real = k.pfx+"m", 0
		members, specs = append(members, m3), append(specs, &s3)
	}
	k.sameGrp = true
	k.variant = append(k.variant, fmt.Sprintf("members%d", len(members)))
	group := k.vs.Group
	var lv []live
	for i, m := range members {
		if !k.mustRegister("setup", m, specs[i], "") {
			return
		}
		lv = append(lv, live{specs[i], m})
	}
	defer func() { k.bs = nil }()
	if !k.checkLedger("group formed", lv) || !k.expectGroupServed("group formed", lv) {
		return
	}

	// refused joins of the stranger: wrong key, then a different endpoint
	forgotten := false
	attempts := []string{"wrong-key", "other-endpoint"}
	if k.rng.Intn(2) == 0 {
		attempts[0], attempts[1] = attempts[1], attempts[0]
	}
	for _, how := range attempts {
		st := *k.vs
		st.Name, st.real = k.pfx+"stranger", 0
		switch how {
		case "wrong-key":
			st.GroupKey = "not-the-key"
		default:
			switch k.kind {
			case "tcp-group":
				if k.e.auto {
					st.Port = 20949 // the group asked for "any port": a fixed one is a different endpoint
				} else {
					st.Port = k.takePort()
				}
			case "http-group":
				if k.rng.Intn(2) == 0 {
					st.Locations = []string{"/elsewhere"}
				} else {
					st.Domains = []string{k.domain("s", 0)}
				}
			default:
				st.Domains = []string{k.domain("s", 0)}
			}
		}
		resp, err := k.P.register(&st)
		if err != nil {
			k.inconclusive("no reply to the stranger's join")
			return
		}
		if resp.Error == "" {
			k.c.Violation(fmt.Sprintf("stranger-join-accepted-%s", k.kind), "join of group %s with %s was accepted", group, how)
			return
		}
		run.Count("stranger_joins_refused", 1)
		k.variant = append(k.variant, how)
		// other proxies' resources are untouched by the registration that failed at the group check
		if n, listed := k.groupMembers(group); !listed || n != len(lv) {
			k.c.Violation(fmt.Sprintf("group-forgotten-after-strangers-failed-join-%s", k.kind),
				"a stranger's join of group %s (%s) was refused (%s); the group table now lists the group: %v with %d members, but %d members are registered and hold its endpoint",
				group, how, trimErr(resp.Error), listed, n, len(lv))
			forgotten = true // go on: the consequence for the members' identical re-registration is the second witness
			break
		}
		if !k.checkLedger("after the stranger's refused join ("+how+")", lv) {
			return
		}
	}
	if !forgotten && !k.expectGroupServed("after the stranger's refused joins", lv) {
		return
	}

	// one member closes and submits the identical registration right behind the close request
	mi := k.rng.Intn(len(members))
	if err := members[mi].p.CloseProxy(specs[mi].Name); err != nil {
		k.inconclusive("close request could not be sent")
		return
	}
	run.Count("closes", 1)
	if !k.mustRegister("member re-registers after the stranger's refused join", members[mi], specs[mi],
		"member-reregistration-refused-after-strangers-failed-join") {
		return
	}
	// a new legitimate member (the former stranger, now with the right key and endpoint)
	legit := *specs[0]
	legit.Name, legit.real = k.pfx+"newmember", 0
	if !k.mustRegister("new member joins after the stranger's refused join", k.P, &legit,
		"new-member-refused-after-strangers-failed-join") {
		return
	}
	lv = append(lv, live{&legit, k.P})
	if !k.checkLedger("after re-registration and new member", lv) || !k.expectGroupServed("after re-registration and new member", lv) {
		return
	}

	// everybody leaves: explicit closes and session ends mixed
	for i, l := range lv {
		if i%2 == 0 {
			if err := l.owner.p.CloseProxy(l.s.Name); err != nil || l.owner.barrier() != nil {
				k.inconclusive("close barrier missing")
				return
			}
		} else {
			l.owner.close()
			if !k.sessionGone("member session end", l.owner) {
				return
			}
		}
	}
	if !k.checkLedger("after every member left", nil) {
		return
	}
	if n, listed := k.groupMembers(group); listed {
		k.c.Violation(fmt.Sprintf("group-left-behind-%s", k.kind), "group %s is still listed (%d members) after every member left", group, n)
	}
	rs := probeSpec(k.e, specs[0], k.P, k.owners())
	k.c.Ev("probe-gone", "when", "after every member left", "results", describe(rs))
	for _, r := range rs {
		if strings.Contains(r.Who, "|"+k.pfx) {
			k.c.Violation(fmt.Sprintf("group-endpoint-still-served-%s", k.kind), "after every member left, the endpoint of group %s is still answered: %s", group, describe(rs))
			break
		}
	}
}

// ---------------------------------------------------------------------------------------------
// the control connection ends in the login window: after frps read Login (the session is already in the session
// table), before LoginResp is written and the session's workers are started

// cutInLoginWindow logs in with runID through a relay, parks the server between "session added" and "session
// started", cuts the TCP connection (RST or FIN) and lets the server go on. It reports whether the window was hit.
func cutInLoginWindow(c *h.Case, e *env, runID string, pool int, rst bool, settle time.Duration) (hit bool, why string) {
	relay, err := h.StartTCPRelay(h.PortsSub(prop, 19, 20).Get(), fmt.Sprintf("127.0.0.1:%d", e.bind), 0)
	if err != nil {
		return false, "relay could not be started"
	}
	defer relay.Close()
	g := h.NewGate("server.registerControl.beforeStart", runID, 1)
	defer g.Release()
	done := make(chan *h.Peer, 1)
	go func() {
		p, _ := h.DialPeer(h.PeerOpts{ServerPort: relay.Port, TCPMux: e.tcpMux, Token: token, RunID: runID, PoolCount: pool})
		done <- p
	}()
	if !g.WaitArrived(20 * time.Second) {
		g.Release()
		if p := <-done; p != nil {
			p.Close()
		}
		return false, "login gate not reached"
	}
	for _, pr := range relay.Pairs() {
		if tc, ok := pr.Server.(*net.TCPConn); ok && rst {
			_ = tc.SetLinger(0)
		}
		pr.Close()
	}
	time.Sleep(settle) // lets the server notice the end of the connection (or not): both are legal schedules
	g.Release()
	select {
	case p := <-done:
		if p != nil {
			if p.LoggedIn() {
				p.Close()
				return false, "login answered although the connection was cut"
			}
			p.Close()
		}
	case <-time.After(30 * time.Second):
		return false, "scripted client did not notice the cut"
	}
	c.Ev("login-cut", "run_id", runID, "rst", rst, "settle_ms", settle.Milliseconds(), "pool", pool)
	run.Count("login_window_cuts", 1)
	return true, ""
}

func (k *kase) pathLoginCut() {
	rst := k.rng.Intn(2) == 0
	settle := []time.Duration{0, 2 * time.Millisecond, 40 * time.Millisecond, 40 * time.Millisecond, 120 * time.Millisecond}[k.rng.Intn(5)]
	replace := k.rng.Intn(2) == 0
	pool := k.rng.Intn(3)
	k.variant = append(k.variant, fmt.Sprintf("rst%v", rst), fmt.Sprintf("settle%v", settle), fmt.Sprintf("replace%v", replace), fmt.Sprintf("lpool%d", pool))
	runID := fmt.Sprintf("c%dlogin%s", k.c.Idx, k.tag)
	if replace {
		// the cut login replaces a live session of the same run id that holds the proxy
		if !k.mustRegister("setup", k.V, k.vs, "") {
			return
		}
		k.expectServed("before the cut re-login", k.vs, k.servers(k.V)...)
		runID = k.V.rid
		k.V.stopKeepAlive()
	}
	k.sc.rids[runID] = "W"
	hit, why := cutInLoginWindow(k.c, k.e, runID, pool, rst, settle)
	if !hit {
		k.inconclusive(why)
		return
	}
	run.Count("session_drops", 1)
	if !waitSessionGone(k.e, runID, 20*time.Second) {
		dumpGoroutines(fmt.Sprintf("stuck-c%d.txt", k.c.Idx))
		k.c.Violation("session-cut-in-login-window-never-released",
			"control connection of run id %s was cut (%s) after frps had read Login and put the session into its table, before LoginResp / the start of the session's workers: the session is still in the session table 20 s later (%s, %s)",
			runID, map[bool]string{true: "RST", false: "FIN"}[rst], k.e.name, k.kind)
	}
	if replace && !k.V.p.WaitClosed(15*time.Second) {
		k.c.Violation(k.key("replaced-control-connection-left-open"), "the session replaced by the cut re-login still has its control connection open")
	}
	if k.c.Violations() == 0 && !k.checkLedger("after the cut in the login window", k.liveB()) {
		return
	}
	if replace {
		k.expectGone("after the cut in the login window", k.vs, k.V)
	}
	// the same client comes back: same run id, same names and ports
	W, err := newActor(k.c, k.e, "W", runID, 0, true)
	if err != nil {
		k.c.Violation("login-blocked-after-session-cut-in-login-window", "a client logging in with run id %s after its previous session was cut in the login window gets no LoginResp: %v", runID, err)
		return
	}
	k.actors = append(k.actors, W)
	W.keepAlive()
	if !k.mustRegister("after the cut in the login window (same run id)", W, k.vs, "reregistration-after-login-window-cut-refused") {
		return
	}
	k.expectServed("after the cut in the login window (same run id)", k.vs, k.servers(W)...)
	k.checkLedger("re-registered after the cut in the login window", append(k.liveB(), live{k.vs, W}))
}

// ---------------------------------------------------------------------------------------------
// a udp proxy is closed while it fetches its work connection; the connection arrives for the closed proxy

func (k *kase) pathUDPFetchClose() {
	mirror := k.c.Idx%2 == 0 // both forced orders in every tier (the enumeration visits this path on even and odd indices)
	k.variant = append(k.variant, fmt.Sprintf("mirror%v", mirror))
	point := "server.control.getWorkConn.beforeTake"
	var fetches atomic.Int32
	var g *h.Gate
	if mirror {
		// the fetch is parked right before it looks into the pool; the connection is pooled and the proxy closed meanwhile
		g = h.NewGate(point, k.V.rid, 1)
		defer g.Release()
	} else {
		rm := h.OnHook(point, k.V.rid, func(string, []any) { fetches.Add(1) })
		defer rm()
	}
	if !k.mustRegister("setup", k.V, k.vs, "") {
		return
	}
	var wc *h.WorkConn
	var err error
	closeIt := func() bool {
		if e := k.V.p.CloseProxy(k.vs.Name); e != nil || k.V.barrier() != nil {
			k.inconclusive("close barrier missing")
			return false
		}
		run.Count("closes", 1)
		return true
	}
	if mirror {
		if !g.WaitArrived(15 * time.Second) {
			k.inconclusive("work connection fetch gate not reached")
			return
		}
		if wc, err = k.V.p.OpenWorkConn(); err != nil {
			k.inconclusive("work connection could not be opened")
			return
		}
		pooled := h.Eventually(10*time.Second, func() bool {
			for _, ss := range k.e.srv.Snapshot().Sessions {
				if ss.RunID == k.V.rid {
					return ss.PoolLen >= 1
				}
			}
			return false
		})
		if !pooled {
			k.inconclusive("offered work connection did not reach the pool")
			return
		}
		if !closeIt() {
			return
		}
		g.Release()
	} else {
		// the pool is empty: the fetch asks the client and waits; the client answers only after the close
		asked := h.Eventually(15*time.Second, func() bool { return fetches.Load() > 0 && k.V.p.ReqWorkConnSeen.Load() > 0 })
		if !asked {
			k.inconclusive("the udp proxy did not ask for a work connection")
			return
		}
		if !closeIt() {
			return
		}
		if wc, err = k.V.p.OpenWorkConn(); err != nil {
			k.inconclusive("work connection could not be opened")
			return
		}
	}
	run.Count("udp_fetch_close_forced", 1)
	// the server must close the connection it took for the closed proxy (bounded progress, far below the proxy's 60 s read deadline)
	st, rerr := wc.ReadStart(10 * time.Second)
	k.c.Ev("late-work-conn", "start", st, "err", fmt.Sprint(rerr))
	taken := st != nil
	open := false
	if taken {
		_ = wc.Conn.SetReadDeadline(time.Now().Add(10 * time.Second))
		buf := make([]byte, 4096)
		var e error
		for e == nil {
			_, e = wc.Conn.Read(buf)
		}
		ne, isNet := e.(net.Error)
		open = isNet && ne.Timeout()
	} else if ne, isNet := rerr.(net.Error); isNet && ne.Timeout() {
		// never handed out: it sits in the pool of the live session (the fetch had given up) - legal
		k.inconclusive("late work connection stayed pooled (fetch had given up)")
		wc.Conn.Close()
		return
	}
	if open {
		k.c.Violation("work-connection-fetched-during-close-left-open-udp",
			"udp proxy %s was closed (CloseProxy acknowledged) while it was fetching its work connection (%s); the connection it then took (StartWorkConn for %q) is still open 10 s later",
			k.vs.Name, map[bool]string{true: "fetch parked before the pool lookup, connection pooled meanwhile", false: "empty pool, client answered ReqWorkConn after the close"}[mirror], st.ProxyName)
		wc.Conn.Close()
		return
	}
	wc.Conn.Close()
	if !k.checkLedger("after the close during the fetch", k.liveB()) {
		return
	}
	if !k.mustRegister("after the close during the fetch", k.V, k.vs, "reregistration-after-close-refused") {
		return
	}
	if !closeIt() {
		return
	}
	k.checkLedger("closed again", k.liveB())
}

// ---------------------------------------------------------------------------------------------
// session A closes p; session W registers the identical p; then A's session ends: W's p must be untouched

func (k *kase) pathCrossSessionReuse() {
	ends := []string{"drop", "relogin"}
	if k.e.heartbeat > 0 {
		ends = append(ends, "heartbeat")
	}
	end := ends[k.rng.Intn(len(ends))]
	k.variant = append(k.variant, "end-"+end)
	if !k.mustRegister("setup", k.V, k.vs, "") {
		return
	}
	k.expectServed("first owner", k.vs, k.servers(k.V)...)
	if err := k.V.p.CloseProxy(k.vs.Name); err != nil || k.V.barrier() != nil {
		k.inconclusive("close barrier missing")
		return
	}
	run.Count("closes", 1)
	// (a mismatch here is reported, and the sequence goes on to its consequence for the second owner)
	k.checkLedger("first owner closed the proxy", k.liveB())
	W := k.actor("W", "", 0, true)
	if W == nil {
		k.inconclusive("login failed")
		return
	}
	W.keepAlive()
	if !k.mustRegister("second owner", W, k.vs, "reregistration-on-new-session-refused") {
		return
	}
	lv := append(k.liveB(), live{k.vs, W})
	k.expectServed("second owner", k.vs, k.servers(W)...)
	k.checkLedger("second owner registered", lv)
	// the first owner's session ends; it no longer owns anything
	switch end {
	case "drop":
		k.V.close()
	case "heartbeat":
		k.V.stopKeepAlive()
		if !k.V.p.WaitClosed(time.Duration(3*k.e.heartbeat+15) * time.Second) {
			k.c.Violation(k.key("heartbeat-timeout-session-not-closed"), "session without heartbeats still connected (heartbeatTimeout %d s)", k.e.heartbeat)
			return
		}
		run.Count("heartbeat_timeouts", 1)
	case "relogin":
		k.V.stopKeepAlive()
		X := k.actor("X", k.V.rid, 0, true)
		if X == nil {
			k.inconclusive("re-login failed")
			return
		}
		X.keepAlive()
		run.Count("relogins", 1)
		if !k.V.p.WaitClosed(15 * time.Second) {
			k.c.Violation(k.key("replaced-control-connection-left-open"), "replaced session's control connection is still open 15 s after the re-login was acknowledged")
			return
		}
	}
	run.Count("session_drops", 1)
	if end != "relogin" && !k.sessionGone("first owner's session end", k.V) {
		return
	}
	k.keyOverride = "other-session-proxy-removed-by-ended-session"
	defer func() { k.keyOverride = "" }()
	if !k.checkLedger("after the first owner's session ended ("+end+")", lv) {
		return
	}
	k.expectServed("after the first owner's session ended ("+end+")", k.vs, k.servers(W)...)
}
