package main

import (
	"bufio"
	"crypto/tls"
	"encoding/base64"
	"encoding/binary"
	"fmt"
	"io"
	"net"
	"net/http"
	"sort"
	"strings"
	"sync"
	"sync/atomic"
	"time"

	"github.com/fatedier/frp/pkg/msg"

	"verif/h"
)

// env is one real frps running in this process.
type env struct {
	name      string
	srv       *h.Server
	bind      int
	httpPort  int
	httpsPort int
	muxPort   int
	tcpMux    bool
	auto      bool // tcp/udp proxies ask for remotePort = 0 (server picks the port)
	heartbeat int  // seconds, 0 = none
	quota     int
}

// spec describes one proxy registration (the "identical registration" of the property is the same spec again).
type spec struct {
	Kind      string   `json:"kind"`
	Name      string   `json:"name"`
	Port      int      `json:"port,omitempty"` // requested port (0 = server picks)
	Domains   []string `json:"domains,omitempty"`
	SubDomain string   `json:"subdomain,omitempty"`
	Locations []string `json:"locations,omitempty"`
	RouteUser string   `json:"route_user,omitempty"`
	Group     string   `json:"group,omitempty"`
	GroupKey  string   `json:"group_key,omitempty"`
	Sk        string   `json:"sk,omitempty"`
	Enc       bool     `json:"enc,omitempty"`
	Comp      bool     `json:"comp,omitempty"`
	Limit     string   `json:"limit,omitempty"`

	real int // port reported by the server for the current registration
}

var kinds = []string{"tcp", "udp", "http", "https", "tcpmux", "stcp", "sudp", "xtcp", "tcp-group", "http-group", "tcpmux-group"}

func baseKind(k string) string { return strings.TrimSuffix(k, "-group") }

func (s *spec) msg() *msg.NewProxy {
	m := &msg.NewProxy{ProxyName: s.Name, ProxyType: baseKind(s.Kind), UseEncryption: s.Enc, UseCompression: s.Comp,
		Group: s.Group, GroupKey: s.GroupKey}
	if s.Limit != "" {
		m.BandwidthLimit = s.Limit
		m.BandwidthLimitMode = "server"
	}
	switch baseKind(s.Kind) {
	case "tcp", "udp":
		m.RemotePort = s.Port
	case "http":
		m.CustomDomains = s.Domains
		m.SubDomain = s.SubDomain
		m.Locations = s.Locations
		m.RouteByHTTPUser = s.RouteUser
	case "https":
		m.CustomDomains = s.Domains
		m.SubDomain = s.SubDomain
	case "tcpmux":
		m.Multiplexer = "httpconnect"
		m.CustomDomains = s.Domains
		m.SubDomain = s.SubDomain
		m.RouteByHTTPUser = s.RouteUser
	case "stcp", "sudp", "xtcp":
		m.Sk = s.Sk
		m.AllowUsers = []string{"*"}
	}
	return m
}

// allDomains lists every host name the registration routes (custom domains + sub domain).
func (s *spec) allDomains() []string {
	out := append([]string(nil), s.Domains...)
	if s.SubDomain != "" {
		out = append(out, s.SubDomain+"."+subHost)
	}
	return out
}

func (s *spec) locs() []string {
	if len(s.Locations) == 0 {
		return []string{""}
	}
	return s.Locations
}

func (s *spec) port() int {
	if s.real != 0 {
		return s.real
	}
	return s.Port
}

// spec registry: the scripted backend needs the transport settings of the proxy named in StartWorkConn.
var specByName sync.Map

func lookupSpec(name string) *spec {
	if v, ok := specByName.Load(name); ok {
		return v.(*spec)
	}
	return nil
}

// ---------------------------------------------------------------------------------------------
// actors: scripted sessions that also play the backend on their work connections

type actor struct {
	id  string
	e   *env
	p   *h.Peer
	c   *h.Case
	rid string

	pingMu   sync.Mutex // one Ping outstanding at a time (barrier and keep-alive pinger share the Pong stream)
	stopPing chan struct{}
	pingOnce sync.Once

	mu       sync.Mutex
	open     map[string]int // proxy name -> work connections handed to that proxy and still open
	started  map[string]int // proxy name -> work connections ever started for it
	sids     map[string]string
	lastOpen atomic.Int64
}

func newActor(c *h.Case, e *env, id string, runID string, pool int, autoWork bool) (*actor, error) {
	a := &actor{id: id, e: e, c: c, open: map[string]int{}, started: map[string]int{}, sids: map[string]string{}, stopPing: make(chan struct{})}
	p, err := h.DialPeer(h.PeerOpts{ServerPort: e.bind, TCPMux: e.tcpMux, Token: token, RunID: runID, PoolCount: pool,
		AutoWork: autoWork, WorkHandler: a.backend})
	if err != nil || !p.LoggedIn() {
		if p != nil {
			p.Close()
			return nil, fmt.Errorf("login: %v %q", err, p.LoginResp.Error)
		}
		return nil, fmt.Errorf("login: %v", err)
	}
	a.p = p
	a.rid = p.RunID
	return a, nil
}

// keepAlive sends heartbeats until the actor is stopped (needed on the server with a heartbeat timeout).
func (a *actor) keepAlive() {
	if a.e.heartbeat == 0 {
		return
	}
	go func() {
		t := time.NewTicker(400 * time.Millisecond)
		defer t.Stop()
		for {
			select {
			case <-a.stopPing:
				return
			case <-t.C:
				a.pingMu.Lock()
				_, err := a.p.Ping(10 * time.Second)
				a.pingMu.Unlock()
				if err != nil {
					return
				}
			}
		}
	}()
}

func (a *actor) stopKeepAlive() { a.pingOnce.Do(func() { close(a.stopPing) }) }

func (a *actor) close() {
	a.stopKeepAlive()
	a.p.Close()
}

// barrier: Pong acknowledges every message sent before on this session.
func (a *actor) barrier() error {
	a.pingMu.Lock()
	defer a.pingMu.Unlock()
	_, err := a.p.Ping(15 * time.Second)
	return err
}

func (a *actor) register(s *spec) (*msg.NewProxyResp, error) {
	specByName.Store(s.Name, s)
	resp, err := a.p.NewProxy(s.msg(), 20*time.Second)
	if err == nil && resp.Error == "" {
		s.real = 0
		if k := baseKind(s.Kind); k == "tcp" || k == "udp" {
			fmt.Sscanf(resp.RemoteAddr, ":%d", &s.real)
		}
	}
	a.c.Ev("register", "actor", a.id, "name", s.Name, "kind", s.Kind, "resp", resp, "err", fmt.Sprint(err))
	return resp, err
}

func (a *actor) openFor(name string) int { a.mu.Lock(); defer a.mu.Unlock(); return a.open[name] }

func (a *actor) track(name string, d int) {
	a.mu.Lock()
	a.open[name] += d
	if d > 0 {
		a.started[name]++
	}
	a.mu.Unlock()
}

func (a *actor) sidSeen(sid string) bool {
	a.mu.Lock()
	defer a.mu.Unlock()
	_, ok := a.sids[sid]
	return ok
}

// backend plays the local service on a work connection, according to the kind of the proxy named in StartWorkConn.
// Every answer carries "<actor id>|<proxy name>|", so the user side sees which session and proxy served it.
func (a *actor) backend(p *h.Peer, wc *h.WorkConn) {
	name := wc.Start.ProxyName
	defer wc.Conn.Close()
	s := lookupSpec(name)
	if s == nil || wc.Start.Error != "" {
		return
	}
	a.track(name, 1)
	defer a.track(name, -1)
	ident := a.id + "|" + name + "|"
	if s.Kind == "xtcp" {
		_ = wc.Conn.SetReadDeadline(time.Now().Add(20 * time.Second))
		var m msg.NatHoleSid
		if err := msg.ReadMsgInto(wc.Conn, &m); err == nil {
			a.mu.Lock()
			a.sids[m.Sid] = name
			a.mu.Unlock()
		}
		return
	}
	rwc, err := h.Wrap(wc.Conn, token, s.Enc, s.Comp)
	if err != nil {
		return
	}
	switch baseKind(s.Kind) {
	case "http":
		br := bufio.NewReader(rwc)
		for {
			req, err := http.ReadRequest(br)
			if err != nil {
				return
			}
			_, _ = io.Copy(io.Discard, req.Body)
			body := ident
			if _, err = fmt.Fprintf(rwc, "HTTP/1.1 200 OK\r\nContent-Length: %d\r\nContent-Type: text/plain\r\n\r\n%s", len(body), body); err != nil {
				return
			}
		}
	case "udp":
		for {
			m, err := msg.ReadMsg(rwc)
			if err != nil {
				return
			}
			if pk, ok := m.(*msg.UDPPacket); ok {
				in, _ := base64.StdEncoding.DecodeString(pk.Content)
				out := &msg.UDPPacket{Content: base64.StdEncoding.EncodeToString(append([]byte(ident), in...)), RemoteAddr: pk.RemoteAddr}
				if err := msg.WriteMsg(rwc, out); err != nil {
					return
				}
			}
		}
	default: // stream kinds: answer after the first bytes of the user, then drain
		buf := make([]byte, 4096)
		if _, err := rwc.Read(buf); err != nil {
			return
		}
		if _, err := rwc.Write([]byte(ident + "\n")); err != nil {
			return
		}
		for {
			if _, err := rwc.Read(buf); err != nil {
				return
			}
		}
	}
}

// ---------------------------------------------------------------------------------------------
// user side probes

type probeResult struct {
	Who     string // "<actor>|<proxy>" when served
	Refused bool   // endpoint absent (connect refused / 404 / unknown host / unknown name)
	Err     string // anything else (uninformative)
}

func (r probeResult) String() string {
	switch {
	case r.Refused:
		return "refused"
	case r.Err != "":
		return "err(" + r.Err + ")"
	}
	return r.Who
}

func parseIdent(line string) string {
	parts := strings.Split(strings.TrimSpace(line), "|")
	if len(parts) >= 2 {
		return parts[0] + "|" + parts[1]
	}
	return line
}

func readIdentLine(c net.Conn, timeout time.Duration) (string, error) {
	_ = c.SetReadDeadline(time.Now().Add(timeout))
	br := bufio.NewReader(c)
	line, err := br.ReadString('\n')
	if err != nil {
		return "", fmt.Errorf("%v (got %q)", err, line)
	}
	return parseIdent(line), nil
}

var helloCache sync.Map

func clientHello(sni string) []byte {
	if v, ok := helloCache.Load(sni); ok {
		return v.([]byte)
	}
	c1, c2 := net.Pipe()
	defer c1.Close()
	defer c2.Close()
	go func() {
		_ = tls.Client(c1, &tls.Config{ServerName: sni, InsecureSkipVerify: true}).Handshake()
	}()
	_ = c2.SetReadDeadline(time.Now().Add(10 * time.Second))
	hd := make([]byte, 5)
	if _, err := io.ReadFull(c2, hd); err != nil {
		return nil
	}
	body := make([]byte, int(binary.BigEndian.Uint16(hd[3:5])))
	if _, err := io.ReadFull(c2, body); err != nil {
		return nil
	}
	out := append(hd, body...)
	helloCache.Store(sni, out)
	return out
}

const probeTimeout = 12 * time.Second

func probeTCP(port int) probeResult {
	c, err := net.DialTimeout("tcp", fmt.Sprintf("127.0.0.1:%d", port), 3*time.Second)
	if err != nil {
		return probeResult{Refused: true}
	}
	defer c.Close()
	if _, err := c.Write([]byte("hello-from-user\n")); err != nil {
		return probeResult{Err: err.Error()}
	}
	who, err := readIdentLine(c, probeTimeout)
	if err != nil {
		return probeResult{Err: err.Error()}
	}
	return probeResult{Who: who}
}

func probeUDP(port int) probeResult {
	c, err := net.DialUDP("udp", nil, &net.UDPAddr{IP: net.IPv4(127, 0, 0, 1), Port: port})
	if err != nil {
		return probeResult{Err: err.Error()}
	}
	defer c.Close()
	buf := make([]byte, 2048)
	deadline := time.Now().Add(probeTimeout)
	for time.Now().Before(deadline) {
		if _, err := c.Write([]byte("dgram")); err != nil {
			// ICMP port unreachable of an earlier datagram
			time.Sleep(100 * time.Millisecond)
			continue
		}
		_ = c.SetReadDeadline(time.Now().Add(400 * time.Millisecond))
		n, err := c.Read(buf)
		if err == nil {
			return probeResult{Who: parseIdent(string(buf[:n]))}
		}
	}
	return probeResult{Err: "no datagram answered"}
}

func probeHTTP(e *env, domain, path, user string, keepAlive bool) probeResult {
	if path == "" {
		path = "/"
	}
	auth := ""
	if user != "" {
		auth = "Authorization: Basic " + base64.StdEncoding.EncodeToString([]byte(user+":x")) + "\r\n"
	}
	conn := "close"
	if keepAlive {
		conn = "keep-alive"
	}
	raw := fmt.Sprintf("GET %s HTTP/1.1\r\nHost: %s\r\n%sConnection: %s\r\n\r\n", path, domain, auth, conn)
	resp, body, err := h.RawHTTP(fmt.Sprintf("127.0.0.1:%d", e.httpPort), []byte(raw), probeTimeout)
	if err != nil {
		return probeResult{Err: err.Error()}
	}
	if resp.StatusCode == 404 {
		return probeResult{Refused: true}
	}
	if resp.StatusCode != 200 {
		return probeResult{Err: fmt.Sprintf("status %d", resp.StatusCode)}
	}
	return probeResult{Who: parseIdent(string(body))}
}

func probeHTTPS(e *env, domain string) probeResult {
	c, err := net.DialTimeout("tcp", fmt.Sprintf("127.0.0.1:%d", e.httpsPort), 3*time.Second)
	if err != nil {
		return probeResult{Err: err.Error()}
	}
	defer c.Close()
	if _, err := c.Write(clientHello(domain)); err != nil {
		return probeResult{Err: err.Error()}
	}
	_ = c.SetReadDeadline(time.Now().Add(probeTimeout))
	br := bufio.NewReader(c)
	line, err := br.ReadString('\n')
	if err != nil {
		if line == "" && (err == io.EOF || strings.Contains(err.Error(), "reset")) {
			return probeResult{Refused: true} // the muxer closes connections for unknown server names
		}
		return probeResult{Err: err.Error()}
	}
	return probeResult{Who: parseIdent(line)}
}

func probeMux(e *env, domain, user string) probeResult {
	c, err := net.DialTimeout("tcp", fmt.Sprintf("127.0.0.1:%d", e.muxPort), 3*time.Second)
	if err != nil {
		return probeResult{Err: err.Error()}
	}
	defer c.Close()
	_ = c.SetDeadline(time.Now().Add(probeTimeout))
	auth := ""
	if user != "" {
		auth = "Proxy-Authorization: Basic " + base64.StdEncoding.EncodeToString([]byte(user+":x")) + "\r\n"
	}
	fmt.Fprintf(c, "CONNECT %s:80 HTTP/1.1\r\nHost: %s:80\r\n%s\r\n", domain, domain, auth)
	br := bufio.NewReader(c)
	resp, err := http.ReadResponse(br, &http.Request{Method: "CONNECT"})
	if err != nil {
		return probeResult{Refused: true}
	}
	if resp.StatusCode != 200 {
		return probeResult{Refused: true}
	}
	if _, err := c.Write([]byte("hello-from-user\n")); err != nil {
		return probeResult{Err: err.Error()}
	}
	line, err := br.ReadString('\n')
	if err != nil {
		return probeResult{Err: err.Error()}
	}
	return probeResult{Who: parseIdent(line)}
}

func probeVisitor(prober *actor, name, sk string) probeResult {
	ts := time.Now().Unix()
	conn, resp, err := prober.p.OpenVisitorConn(&msg.NewVisitorConn{RunID: prober.rid, ProxyName: name, Timestamp: ts, SignKey: h.AuthKey(sk, ts)}, probeTimeout)
	if err != nil {
		return probeResult{Err: err.Error()}
	}
	defer conn.Close()
	if resp.Error != "" {
		if strings.Contains(resp.Error, "doesn't exist") {
			return probeResult{Refused: true}
		}
		return probeResult{Err: resp.Error}
	}
	if _, err := conn.Write([]byte("hello-from-visitor\n")); err != nil {
		return probeResult{Err: err.Error()}
	}
	who, err := readIdentLine(conn, probeTimeout)
	if err != nil {
		return probeResult{Err: err.Error()}
	}
	return probeResult{Who: who}
}

var txSeq atomic.Int64

// probeXTCP sends a signed (non pre-check) NatHoleVisitor; the owner of the name receives the sid on a work connection.
func probeXTCP(prober *actor, owners []*actor, name, sk string) probeResult {
	tx := fmt.Sprintf("tx-%s-%d", prober.rid, txSeq.Add(1))
	var sid atomic.Value
	rm := h.OnHook("nathole.visitor.afterLookup", name, func(_ string, args []any) {
		if len(args) == 2 && args[0] == name {
			if s, ok := args[1].(string); ok {
				sid.CompareAndSwap(nil, s)
			}
		}
	})
	defer rm()
	ts := time.Now().Unix()
	if err := prober.p.Send(&msg.NatHoleVisitor{TransactionID: tx, ProxyName: name, Protocol: "quic", SignKey: h.AuthKey(sk, ts), Timestamp: ts,
		MappedAddrs: []string{"127.0.0.1:30001"}}); err != nil {
		return probeResult{Err: err.Error()}
	}
	deadline := time.Now().Add(probeTimeout)
	for time.Now().Before(deadline) {
		m, err := prober.p.WaitMsg(50*time.Millisecond, func(x msg.Message) bool {
			r, ok := x.(*msg.NatHoleResp)
			return ok && r.TransactionID == tx
		})
		if err == nil {
			r := m.(*msg.NatHoleResp)
			if strings.Contains(r.Error, "doesn't exist") {
				return probeResult{Refused: true}
			}
			return probeResult{Err: "nathole resp: " + r.Error}
		}
		if err == h.ErrPeerClosed {
			return probeResult{Err: "prober closed"}
		}
		if s, _ := sid.Load().(string); s != "" {
			for _, o := range owners {
				if o != nil && o.sidSeen(s) {
					return probeResult{Who: o.id + "|" + name}
				}
			}
		}
	}
	return probeResult{Err: "no sid delivered"}
}

// probeSpec probes every endpoint of the registration and returns the distinct outcomes.
func probeSpec(e *env, s *spec, prober *actor, owners []*actor) []probeResult {
	var out []probeResult
	switch baseKind(s.Kind) {
	case "tcp":
		if s.port() == 0 {
			return []probeResult{{Refused: true}}
		}
		out = append(out, probeTCP(s.port()))
	case "udp":
		out = append(out, probeUDP(s.port()))
	case "http":
		for _, d := range s.allDomains() {
			for _, l := range s.locs() {
				out = append(out, probeHTTP(e, d, l, s.RouteUser, false))
			}
		}
	case "https":
		for _, d := range s.allDomains() {
			out = append(out, probeHTTPS(e, d))
		}
	case "tcpmux":
		for _, d := range s.allDomains() {
			out = append(out, probeMux(e, d, s.RouteUser))
		}
	case "stcp", "sudp":
		out = append(out, probeVisitor(prober, s.Name, s.Sk))
	case "xtcp":
		out = append(out, probeXTCP(prober, owners, s.Name, s.Sk))
	}
	return out
}

func describe(rs []probeResult) string {
	var l []string
	for _, r := range rs {
		l = append(l, r.String())
	}
	return strings.Join(l, ",")
}

func allServedBy(rs []probeResult, who string) bool {
	if len(rs) == 0 {
		return false
	}
	for _, r := range rs {
		if r.Who != who {
			return false
		}
	}
	return true
}

// ---------------------------------------------------------------------------------------------
// helpers

func waitSessionGone(e *env, rid string, timeout time.Duration) bool {
	return h.Eventually(timeout, func() bool {
		for _, ss := range e.srv.Snapshot().Sessions {
			if ss.RunID == rid {
				return false
			}
		}
		return true
	})
}

func sortedKeys(m map[string]bool) []string {
	var l []string
	for k := range m {
		l = append(l, k)
	}
	sort.Strings(l)
	return l
}

// explicit port allocator for the server with explicit remote ports
var portMu sync.Mutex
var portNext int
var portLo, portHi int
var portBusy = map[int]bool{}

func takePort() int {
	portMu.Lock()
	defer portMu.Unlock()
	for i := 0; i < 4*(portHi-portLo+1); i++ {
		p := portNext
		portNext++
		if portNext > portHi {
			portNext = portLo
		}
		if portBusy[p] {
			continue
		}
		l, err := net.Listen("tcp", fmt.Sprintf("127.0.0.1:%d", p))
		if err != nil {
			continue
		}
		l.Close()
		u, err := net.ListenUDP("udp", &net.UDPAddr{IP: net.IPv4(127, 0, 0, 1), Port: p})
		if err != nil {
			continue
		}
		u.Close()
		portBusy[p] = true
		return p
	}
	panic("c10: no free explicit port")
}

func givePort(p int) {
	portMu.Lock()
	delete(portBusy, p)
	portMu.Unlock()
}
