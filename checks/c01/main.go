// C01 — TCP-class tunnels are byte-transparent end to end and never cross-wired.
//
// Real frps instances (4 server-wide option sets) and, per case, one or two real frpc instances run in this
// process; the harness plays every user and every backend. Monitors (DESIGN.md §5/C01):
//  1. stream monitor per direction: every read of a receiver is compared online with the regenerated
//     PRNG stream the sender was told to write (loss, duplication, reordering, alteration, injection);
//  2. identity: each connection carries a nonce; the backend that receives it must be the backend of the
//     proxy whose public endpoint was dialed (and no nonce may arrive twice, no connection unattributed);
//  3. orderly close: "A writes n bytes and closes, B only reads" must give B exactly n bytes and then
//     end-of-stream (both directions; kcp excluded), and every close must reach the other end;
//  4. bounded progress: while both ends stay open all bytes arrive (60 s no-progress watchdog);
//  5. anchored rate bound: bytes delivered by a limited proxy by time t <= L + L*(t-t0), both directions
//     and all connections together, timestamps taken after the read returns (a lower bound on time only);
//  6. declared prefixes: PROXY protocol header (own parser; source = user's socket, destination = dialed
//     address for directly exposed proxies), sniffed ClientHello / CONNECT request replayed byte-exactly.
//  7. long-lived connections (script longidle, one extra case per server running next to the others): every proxy
//     kind, data in both directions again 35 s after the connection was opened;
//  8. tunnels ending in client plugins (plugin.go) next to many short compressed connections of other proxies;
//  9. route churn (churn.go): duplicate registrations for a served route are refused and change nothing; a sibling
//     vhost route is removed and re-added; identity of the others throughout;
//
// 10. control-connection loss with tcpMux off (client behind a relay): established tunnels of every kind outlive it.
//
// Violation keys (stable identities): stream-altered-up|down, bytes-injected, cross-wired, connection-duplicated,
// unattributed-backend-connection, orderly-close-truncated-up|down, unprompted-close, delivery-stalled,
// close-not-propagated-to-backend|user[-server-side-limit|-kcp-without-tcpmux], bandwidth-limit-exceeded-
// server-mode|client-mode[-compressed], proxy-protocol-*, sniffed-prefix-not-replayed, tcpmux-early-data-lost,
// tcpmux-connect-not-answered, https-tls-handshake-failed, greeting-not-delivered,
// visitor-connection-dropped-when-backend-speaks-first, backend-connection-left-open,
// long-lived-connection-broken-after-idle-<kind>, cross-wired-after-sibling-route-removed,
// cross-wired-user-route-shadowed-by-shared-route, cross-wired-after-refused-duplicate-registration, route-lost-after-refused-duplicate-registration,
// duplicate-route-registration-accepted[-after-refused-one], established-tunnel-cut-by-control-connection-loss-without-tcpmux, stream-altered-down|unprompted-close|delivery-stalled-via-client-plugin.
package main

import (
	"crypto/sha256"
	"fmt"
	"math/rand"
	"os"
	"path/filepath"
	"runtime/debug"
	"sort"
	"strings"
	"sync"
	"sync/atomic"
	"time"

	"verif/h"
)

const prop = "C01"
const token = "c01-token"

var run *h.Run
var plans sync.Map // nonce -> *plan
var pa *h.PortAlloc

type srvInfo struct {
	s           *h.Server
	idx         int
	tcpMux      bool
	shared      bool // vhostHTTPSPort == bindPort
	passthrough bool
	bindPort    int
	kcpPort     int
	quicPort    int
	httpsPort   int
	tcpmuxPort  int
}

func startServers() ([]*srvInfo, error) {
	var out []*srvInfo
	for i := 0; i < 4; i++ {
		sv := &srvInfo{idx: i, tcpMux: i < 2, shared: i%2 == 1, passthrough: i%2 == 1}
		ps := pa.Block(5)
		sv.bindPort, sv.kcpPort, sv.quicPort, sv.httpsPort, sv.tcpmuxPort = ps[0], ps[1], ps[2], ps[3], ps[4]
		if sv.shared {
			sv.httpsPort = sv.bindPort
		}
		text := fmt.Sprintf(`
bindAddr = "127.0.0.1"
bindPort = %d
kcpBindPort = %d
quicBindPort = %d
vhostHTTPSPort = %d
tcpmuxHTTPConnectPort = %d
tcpmuxPassthrough = %v
auth.token = %q
allowPorts = [{start=11000,end=11999}]
userConnTimeout = 60
transport.tcpMux = %v
transport.maxPoolCount = 5
`, sv.bindPort, sv.kcpPort, sv.quicPort, sv.httpsPort, sv.tcpmuxPort, sv.passthrough, token, sv.tcpMux)
		s, err := h.StartServerText(prop, text)
		if err != nil {
			return nil, fmt.Errorf("server %d: %w", i, err)
		}
		sv.s = s
		out = append(out, sv)
	}
	return out, nil
}

func main() {
	run = h.NewRun(prop, "exploration")
	run.Rule = "case = (server option set, control transport, TLS mode, pool size; 2-3 proxies each with kind, encryption, compression, limiter side+rate, PROXY version, greeting; tcpmux domains served by a user-routed and a shared proxy; 3-8 (sometimes 16-36 small simultaneous) connection scripts each with payload sizes, content classes, chunkings, close order); the first cases form a greedy all-pairs covering array over the option factors, the rest are PRNG extras, plus four long-lived cases running next to the others (one per server: every proxy kind, data again in both directions 35 s after the connection was opened) and eleven (thorough: 23) fixed cases (control-connection loss with tcpMux off behind a relay, on both such servers; route churn: sibling tcpmux routes told apart by routeByHTTPUser / sibling https domains plus a wildcard route, one sibling removed by frpc reload or frpc exit and re-added; compressed tunnels ending in client plugins next to many short compressed connections, on two servers; kcp without tcpMux; visitor hand-over parked at a hook while the backend speaks first, on two servers; quic streams whose last read carries data and end-of-stream through a 4 KB/s limiter on either side); distinct = distinct full case signature; every counted connection moved checked bytes or a checked close through a real frpc-frps tunnel"
	run.Assumptions = []string{
		"'eventually delivered' is decided as bounded progress: 60 s without a byte on a connection whose both ends are open is a stall; a close must reach the other end within 30 s",
		"kcp is excluded from the completeness clause of orderly close (the property says reliable transports); prefix, identity and close propagation are still judged over kcp",
		"the rate bound is anchored at an idle instant before the first connection of the proxy; receiver timestamps are taken after the read returns, so machine load can only make the bound easier to satisfy; golang.org/x/time/rate itself over-issues tokens when WaitN has concurrent callers (excess = rate x scheduling delay; up to 8 % seen at machine load 70), so proxies with concurrent traffic are judged with 25 % tolerance and proxies driven by one unidirectional stream at a time (single caller, exact bound) with 1 %",
		"wss is not driven (frps does not terminate wss itself); xtcp is driven through its fallback to an stcp visitor (STUN unreachable)",
		"tcpMux has the same value on both ends (a mismatch is not a supported configuration)",
		"plugin tunnels with encryption or compression carry one request per connection: a second request on such a keep-alive connection is cut by frp's plugin conn wrapper, which is property C02's listed finding (keepalive-connection-dropped-via-*-enc-or-comp) and is not judged again here",
	}
	if os.Getenv("C01_DEBUG_SHORT_GRACE") != "" { // debugging aid only: not a verdict configuration
		stallGrace, closeGrace = 8*time.Second, 5*time.Second
	}
	pa = h.Ports(prop)
	servers, err := startServers()
	if err != nil {
		fmt.Fprintln(os.Stderr, err)
		os.Exit(h.ExitHarnessError)
	}
	if err := initTLS(); err != nil {
		fmt.Fprintln(os.Stderr, "tls material:", err)
		os.Exit(h.ExitHarnessError)
	}

	n := run.N(48, 1200)
	cases, covered := genCases(n, run.Thorough(), func(i int) *rand.Rand { return run.RandFor("cfg", i) }, servers)
	run.Set("option_pairs_covered", covered)
	run.Set("option_pairs_total", totalPairs())

	// one fixed extra case: kcp control transport without stream multiplexing (excluded from the generated
	// cases, see genCases): kcp has no end-of-stream signal of its own
	cases = append(cases, kcpNoMuxCase())
	// and one with the server's visitor hand-over parked (when the hook point exists) while a backend that
	// speaks first already sends: the data must not overtake NewVisitorConnResp
	cases = append(cases, visitorEarlyDataCase(0), visitorEarlyDataCase(1))
	// and one where every stream ends with a read that carries data together with end-of-stream (quic), through a
	// slow limiter on either side: those last bytes count like any others
	cases = append(cases, limiterLastReadCase())
	// and two where compressed tunnels that end in client plugins (the plugin keeps the connection after its
	// handler returned) run slow keep-alive downloads while many short compressed connections come and go
	cases = append(cases, pluginCase(0), pluginCase(2))
	// and route churn: two sibling routes plus a wildcard route; one sibling is removed (frpc reload or frpc exit)
	// and re-added; the others must stay bridged to their own backends throughout
	cases = append(cases, churnCases(run.Thorough(), run.RandFor("churn", 0))...)
	// and control-connection loss without stream multiplexing: established tunnels must outlive it
	cases = append(cases, ctlLossCase(2, run.Thorough()), ctlLossCase(3, run.Thorough()))
	n = len(cases)

	// Long-lived connections: one case per server, started now and running next to the cases below. Each opens
	// connections of every proxy kind, exchanges some data, leaves them untouched until 35 s after they were opened
	// (longer than the 30 s deadlines frps arms while it sniffs vhost connections), then moves data in both
	// directions again and closes. They are mostly idle, so they cost the run (almost) no wall time.
	var lwg sync.WaitGroup
	for i := range servers {
		idx := longLivedBase + i
		if run.OnlyCase >= 0 && run.OnlyCase != idx {
			continue
		}
		lwg.Add(1)
		go func() {
			defer lwg.Done()
			c := run.NewCase(idx)
			defer func() {
				if p := recover(); p != nil {
					st := string(debug.Stack())
					if strings.Contains(st, "github.com/fatedier/frp") {
						c.Violation("panic:"+h.TopFrpFrame(st), "panic on the calling goroutine: %v\n%s", p, st)
					} else {
						fmt.Fprintf(os.Stderr, "harness panic in long-lived case %d: %v\n%s\n", idx, p, st)
						run.Inconclusive("harness panic")
					}
				}
			}()
			runCase(c, longLivedCase(servers[i], run.RandFor("long", i), run.Thorough()), servers[i])
			run.Eval(1)
		}()
	}

	onlyLimited := os.Getenv("C01_DEBUG_ONLY_LIMITED") != "" // debugging aid only
	run.Parallel(n, 12, func(c *h.Case) {
		if c.Idx >= len(cases) {
			return
		}
		if onlyLimited {
			any := false
			for _, p := range cases[c.Idx].Proxies {
				any = any || p.Limit != ""
			}
			if !any {
				return
			}
			var keep []proxyCfg
			for _, p := range cases[c.Idx].Proxies {
				if p.Limit != "" {
					keep = append(keep, p)
				}
			}
			cases[c.Idx].Proxies = keep
		}
		runCase(c, cases[c.Idx], servers[cases[c.Idx].Server])
	})
	lwg.Wait()
	for _, sv := range servers {
		sv.s.Close()
	}
	run.Finish(run.N(20, 400))
}

const visitorHandoverHook = "server.registerVisitorConn.afterHandover"

func visitorEarlyDataCase(server int) *caseCfg {
	conn := func(script, closer string, up, down int64, seed uint64) connCfg {
		return connCfg{Script: script, Closer: closer, NUp: up, NDown: down, ChunkUp: 1460, ChunkDown: 1460, SeedUp: seed, SeedDown: seed + 1}
	}
	return &caseCfg{Server: server, A: cliOpts{Proto: "tcp", TLS: 0, Pool: 5}, B: cliOpts{Proto: "tcp", TLS: 0, Pool: 1}, GateVisitor: true,
		Proxies: []proxyCfg{{Kind: "stcp", VEnc: true, Greet: true, Serial: true, Conns: []connCfg{
			conn("duplex", "U", 1000, 1000, 21), conn("duplex", "B", 100, 3000, 23), conn("downclose", "B", 0, 5000, 25)}}}}
}

// ctlLossCase: tcpMux off, client A behind a relay; every proxy kind has established connections (first exchange
// done) when the relay cuts exactly the control connection; frpc logs in again; the old connections must then still
// carry their second exchange in both directions and close orderly.
func ctlLossCase(server int, thorough bool) *caseCfg {
	cc := &caseCfg{Server: server, A: cliOpts{Proto: "tcp", TLS: server % 2, Pool: 1 + 4*(server%2)}, B: cliOpts{Proto: "tcp", TLS: 0, Pool: 1}, CtlLoss: true}
	k := 1
	if thorough {
		k = 3
	}
	for i, kind := range kinds {
		p := proxyCfg{Kind: kind, Enc: i%2 == 0, Comp: i%3 == 0, VEnc: i%2 == 1, VComp: i%3 == 1, Greet: i == 4}
		for j := 0; j < k; j++ {
			s := uint64(4000 + 100*server + 10*i + j)
			p.Conns = append(p.Conns, connCfg{Script: "longidle", NUp: int64(3000 + 7001*(i+j)%40000), NDown: int64(2000 + 9001*(i+2*j)%40000),
				ClsUp: (i + j) % numClasses, ClsDown: (i + j + 1) % numClasses, ChunkUp: 4096, ChunkDown: 1460, ALPN: 3, DelayMs: 5 * (i + j), SeedUp: 2 * s, SeedDown: 2*s + 1})
		}
		cc.Proxies = append(cc.Proxies, p)
	}
	return cc
}

// controlLoss is the coordinator of a control-loss case.
func controlLoss(cs *caseState, relay *h.TCPRelay, cli *h.Client, names []string, all []*plan) {
	for _, pl := range all {
		if !waitCh(pl.uGotAll, pl.uDone, 3*stallGrace) || !waitCh(pl.bGotAll, pl.bDone, 3*stallGrace) {
			return // the first exchange of some connection failed (reported by its own monitor)
		}
	}
	pairs := relay.Pairs()
	if len(pairs) == 0 {
		run.Inconclusive("relay saw no connection")
		return
	}
	// the session of client A at frps, and a recorder for its re-login (hook: frps is about to start the control that
	// replaces the old one, i.e. the old session has been torn down completely)
	owns := func(runID string) bool {
		for _, ss := range cs.sv.s.Snapshot().Sessions {
			if runID != "" && ss.RunID != runID {
				continue
			}
			have := map[string]bool{}
			for _, n := range ss.Proxies {
				have[n] = true
			}
			all := true
			for _, n := range names {
				all = all && have[n]
			}
			if all {
				return true
			}
		}
		return false
	}
	runID := ""
	for _, ss := range cs.sv.s.Snapshot().Sessions {
		for _, n := range ss.Proxies {
			if n == names[0] {
				runID = ss.RunID
			}
		}
	}
	if runID == "" || !owns(runID) {
		run.Inconclusive("session of the client not found at frps")
		return
	}
	relogin := make(chan struct{})
	var once sync.Once
	rm := h.OnHook("server.registerControl.beforeStart", runID, func(string, []any) { once.Do(func() { close(relogin) }) })
	defer rm()
	n0 := relay.Conns.Load()
	pairs[0].Close() // the first connection of the session: login / control
	cs.c.Ev("control-connection-cut", "relay_conns", n0, "run_id", runID)
	run.Count("control_connections_cut", 1)
	if !waitCh(relogin, nil, 40*time.Second) {
		run.Inconclusive("frpc did not log in again after the control connection was cut")
		return
	}
	// the new session has registered every proxy again (the old registrations were gone before the hook was reached)
	if !h.Eventually(40*time.Second, func() bool { return owns(runID) }) {
		run.Inconclusive("proxies not registered again after re-login")
		return
	}
	if err := cli.WaitRunning(40*time.Second, names...); err != nil {
		run.Inconclusive("proxies not running after re-login")
		return
	}
	run.Count("relogins_after_control_loss", 1)
	// The new session carries new connections. This is a liveness probe of the re-login, not a verdict: work connections
	// that the old client session had dialed but not yet used are registered into the new session's pool at frps (same
	// run id) and are closed by frpc when the old session ends, so the first user connections after a re-login can be
	// reset (work-connection pool hygiene is property C11's subject). Up to 10 tries, failures are counted only.
	for _, px := range cs.pxs {
		if px.cfg.Kind != "tcp" {
			continue
		}
		ok := false
		for try := 0; try < 10 && !ok; try++ {
			cfg := &connCfg{Script: "duplex", Closer: "U", NUp: 5000, NDown: 5000, ChunkUp: 1460, ChunkDown: 1460, SeedUp: 77 + uint64(2*try), SeedDown: 78 + uint64(2*try)}
			pl := &plan{cs: cs, px: px, cfg: cfg, id: 1000 + try, softFail: true,
				uGotAll: make(chan struct{}), bGotAll: make(chan struct{}), uClosed: make(chan struct{}), uDone: make(chan struct{}), bDone: make(chan struct{}),
				phase2: make(chan struct{}), uGot2: make(chan struct{}), bGot2: make(chan struct{})}
			sum := sha256.Sum256([]byte(fmt.Sprintf("probe|%d|%d|%s|%d", run.Seed, cs.c.Idx, px.name, try)))
			copy(pl.nonce[:], sum[:16])
			plans.Store(pl.nonce, pl)
			userConn(pl)
			plans.Delete(pl.nonce)
			ok = pl.attached.Load() && !pl.failed.Load()
			if !ok {
				time.Sleep(50 * time.Millisecond)
			}
		}
		if ok {
			run.Count("new_connections_after_relogin", 1)
		} else {
			run.Inconclusive("no new connection got through after the re-login")
		}
	}
}

const longLivedBase = 100000 // case indexes of the long-lived cases (one per server)

func longLivedCase(sv *srvInfo, rng *rand.Rand, thorough bool) *caseCfg {
	opts := [][2]cliOpts{
		{{Proto: "tcp", TLS: 0, Pool: 1}, {Proto: "quic", TLS: 0, Pool: 1}},
		{{Proto: "websocket", TLS: 1, Pool: 1}, {Proto: "kcp", TLS: 0, Pool: 1}},
		{{Proto: "quic", TLS: 0, Pool: 5}, {Proto: "websocket", TLS: 0, Pool: 1}},
		{{Proto: "tcp", TLS: 1, Pool: 5}, {Proto: "tcp", TLS: 0, Pool: 0}},
	}[sv.idx%4]
	cc := &caseCfg{Server: sv.idx, A: opts[0], B: opts[1]}
	k := 1
	if thorough {
		k = 2
	}
	for _, kind := range kinds {
		p := proxyCfg{Kind: kind, Enc: rng.Intn(2) == 0, Comp: rng.Intn(2) == 0, VEnc: rng.Intn(2) == 0, VComp: rng.Intn(2) == 0, Greet: rng.Intn(4) == 0}
		for i := 0; i < k; i++ {
			p.Conns = append(p.Conns, connCfg{Script: "longidle", IdleMs: 35000, NUp: 2000 + rng.Int63n(30000), NDown: 2000 + rng.Int63n(30000),
				ClsUp: rng.Intn(numClasses), ClsDown: rng.Intn(numClasses), ChunkUp: chunks[2+rng.Intn(5)], ChunkDown: chunks[2+rng.Intn(5)],
				ALPN: []int{0, 3, 40}[rng.Intn(3)], DelayMs: rng.Intn(200), SeedUp: rng.Uint64(), SeedDown: rng.Uint64()})
		}
		cc.Proxies = append(cc.Proxies, p)
	}
	return cc
}

func pluginCase(server int) *caseCfg {
	swarm := func(k int, seed uint64) []connCfg {
		var out []connCfg
		for i := 0; i < k; i++ {
			out = append(out, connCfg{Script: "duplex", Closer: []string{"U", "B"}[i%2], NUp: int64(1000 + 1777*i%40000), NDown: int64(500 + 2111*i%40000),
				ClsUp: i % numClasses, ClsDown: (i + 1) % numClasses, ChunkUp: 4096, ChunkDown: 1460, Pause: true,
				DelayMs: i * 2400 / k, SeedUp: seed + uint64(2*i), SeedDown: seed + uint64(2*i) + 1})
		}
		return out
	}
	return &caseCfg{Server: server, A: cliOpts{Proto: "tcp", TLS: 0, Pool: 5}, B: cliOpts{Proto: "tcp", TLS: 0, Pool: 1},
		Proxies: []proxyCfg{
			{Kind: "tcp", Comp: true, Conns: swarm(28, 1000)},
			{Kind: "stcp", Comp: true, Enc: true, VComp: true, Conns: swarm(20, 2000)},
			{Kind: "tcp", Comp: true, Enc: true, Conns: swarm(20, 3000)},
		},
		// one request per connection on tunnels with encryption or compression: a second request on such a keep-alive
		// connection is cut by frp's plugin conn wrapper (expired read deadline kept for ever by the crypto/snappy readers),
		// which is C02's listed finding keepalive-connection-dropped-via-*-enc-or-comp, not what this case is about
		Plugins: []pluginCfg{
			{Plugin: "http2http", Type: "tcp", Comp: true, Conns: 10, Rounds: 1, Parts: 24, PartBytes: 1024, PauseMs: 90, Cls: clsText, Seed: 7000},
			{Plugin: "http_proxy", Type: "tcp", Comp: true, Enc: true, Conns: 8, Rounds: 1, Parts: 20, PartBytes: 2048, PauseMs: 100, Cls: clsRandom, Seed: 8000},
			{Plugin: "static_file", Type: "stcp", Comp: true, Conns: 6, Rounds: 1, Parts: 1, PartBytes: 200000, PauseMs: 0, Cls: clsMixed, Seed: 9000},
			{Plugin: "http2http", Type: "stcp", Comp: true, Enc: true, Conns: 6, Rounds: 1, Parts: 20, PartBytes: 1500, PauseMs: 110, Cls: clsZeros, Seed: 9500},
			{Plugin: "http_proxy", Type: "tcp", Conns: 3, Rounds: 4, Parts: 5, PartBytes: 3000, PauseMs: 60, Cls: clsText, Seed: 9800},
		}}
}

func limiterLastReadCase() *caseCfg {
	conns := func(script string, up, down int64, seed uint64) []connCfg {
		var out []connCfg
		for i := 0; i < 4; i++ {
			out = append(out, connCfg{Script: script, Closer: "U", NUp: up, NDown: down, ChunkUp: 4096, ChunkDown: 4096, ClsUp: clsRandom, ClsDown: clsRandom,
				SeedUp: seed + uint64(2*i), SeedDown: seed + uint64(2*i) + 1})
		}
		return out
	}
	return &caseCfg{Server: 0, A: cliOpts{Proto: "quic", TLS: 0, Pool: 1}, B: cliOpts{Proto: "tcp"},
		Proxies: []proxyCfg{
			{Kind: "tcp", Limit: "client", LKB: 4, Serial: true, StrictRate: true, Conns: conns("upclose", 3000, 0, 31)},
			{Kind: "tcp", Limit: "server", LKB: 4, Serial: true, StrictRate: true, Conns: conns("downclose", 0, 3000, 51)},
		}}
}

func kcpNoMuxCase() *caseCfg {
	conn := func(script, closer string, up, down int64) connCfg {
		return connCfg{Script: script, Closer: closer, NUp: up, NDown: down, ChunkUp: 1460, ChunkDown: 1460, SeedUp: 11 + uint64(up) + uint64(len(closer+script)), SeedDown: 12}
	}
	return &caseCfg{Server: 3, A: cliOpts{Proto: "kcp", TLS: 0, Pool: 1}, B: cliOpts{Proto: "tcp"},
		Proxies: []proxyCfg{{Kind: "tcp", Conns: []connCfg{conn("duplex", "U", 1000, 1000), conn("duplex", "B", 2000, 1000)}}}}
}

// ---------------------------------------------------------------------------------------------
// runtime state of a case

type caseState struct {
	c   *h.Case
	run *h.Run
	cfg *caseCfg
	sv  *srvInfo
	pxs []*proxyRT
}

type dEv struct {
	t int64
	n int
}

type proxyRT struct {
	cs       *caseState
	idx      int
	name     string
	cfg      *proxyCfg
	be       *backend
	dialAddr string
	domain   string
	reliable bool // every control transport on the path is reliable (not kcp)
	kcpNoMux bool // a kcp control transport without stream multiplexing is on the path
	gated    bool
	// tcpmux / https: host the user asks for (a concrete name when the proxy's domain is a wildcard) and the
	// user name sent in Proxy-Authorization for proxies routed by routeByHTTPUser
	connectHost string
	routeUser   string
	// the proxy without routeByHTTPUser on the same domain (set on user-routed proxies)
	sharedPx *proxyRT
	gateHits atomic.Int64
	early    sync.Map

	mu            sync.Mutex
	t0            int64
	events        []dEv
	earlyInFlight atomic.Int64
	abortInFlight atomic.Int64
}

func (px *proxyRT) limited() bool { return px.cfg.Limit != "" }

func (px *proxyRT) host() string {
	if px.connectHost != "" {
		return px.connectHost
	}
	return px.domain
}

func (px *proxyRT) deliver(n int) {
	if n <= 0 || !px.limited() {
		return
	}
	t := h.Now()
	px.mu.Lock()
	px.events = append(px.events, dEv{t, n})
	px.mu.Unlock()
}
func (px *proxyRT) deliveredAtBackend(n int) { px.deliver(n) }
func (px *proxyRT) deliveredAtUser(n int)    { px.deliver(n) }

type plan struct {
	cs    *caseState
	px    *proxyRT
	cfg   *connCfg
	id    int
	nonce [16]byte
	pre   []byte // bytes the user sends before the header that the backend must receive unchanged

	mu         sync.Mutex
	userLocal  string
	userRemote string

	attached  atomic.Bool
	failed    atomic.Bool
	earlySent atomic.Bool
	// route churn: after a sibling route was removed the connection may also be served by altPx (the wildcard
	// proxy) or be refused, and a cross-wiring gets its own key
	altPx        *proxyRT
	mayRefuse    bool
	afterRemoval bool
	afterDup     bool // route churn: a duplicate registration for this (or a sibling) route has just been refused
	// control-loss case: the second exchange of a longidle connection starts when gate2 is closed
	gate2    chan struct{}
	ctlLoss  bool
	softFail bool
	wrong    atomic.Pointer[proxyRT] // cross-wired: the proxy whose backend answered        // a probe connection whose failure is recorded but not judged
	inPhase2 atomic.Bool             // longidle: the second exchange (after the long idle period) has begun
	phase2   chan struct{}
	uGot2    chan struct{}
	bGot2    chan struct{}
	uGotAll  chan struct{}
	bGotAll  chan struct{}
	uClosed  chan struct{}
	uDone    chan struct{}
	bDone    chan struct{}

	bUp   readRes
	uDown readRes
}

func (pl *plan) setUserSide(pre []byte, local, remote string) {
	pl.mu.Lock()
	if pre != nil {
		pl.pre = pre
	}
	if local != "" {
		pl.userLocal, pl.userRemote = local, remote
	}
	pl.mu.Unlock()
}

func (pl *plan) userSide() (pre []byte, local, remote string) {
	pl.mu.Lock()
	defer pl.mu.Unlock()
	return pl.pre, pl.userLocal, pl.userRemote
}

func (pl *plan) acceptsBackend(id string) bool {
	return id == pl.px.be.id || (pl.altPx != nil && id == pl.altPx.be.id)
}

func (pl *plan) attach() bool { return pl.attached.CompareAndSwap(false, true) }

// fail reports a violation once per connection (the first report wins; the other end's follow-up
// symptoms of the same broken connection are not reported again).
func (cs *caseState) fail(pl *plan, key string, format string, args ...any) {
	if pl != nil {
		if !pl.failed.CompareAndSwap(false, true) {
			return
		}
		if pl.softFail {
			cs.c.Ev("probe-failed", "key", key, "what", fmt.Sprintf(format, args...))
			cs.run.Count("probe_connections_failed_unjudged", 1)
			return
		}
		if pl.afterRemoval && key == "cross-wired" {
			key = "cross-wired-after-sibling-route-removed"
		}
		if key == "cross-wired" && pl.px.sharedPx != nil && pl.wrong.Load() == pl.px.sharedPx {
			// a proxy user with a route of its own was served by the domain's shared (no routeByHTTPUser) proxy
			key = "cross-wired-user-route-shadowed-by-shared-route"
		} else if pl.afterDup {
			switch key {
			case "cross-wired":
				key = "cross-wired-after-refused-duplicate-registration"
			case "unprompted-close", "delivery-stalled", "sniffed-prefix-not-replayed", "stream-altered-down", "stream-altered-up":
				key = "route-lost-after-refused-duplicate-registration"
			}
		}
		if pl.inPhase2.Load() && pl.ctlLoss {
			key = "established-tunnel-cut-by-control-connection-loss-without-tcpmux"
		} else if pl.inPhase2.Load() {
			// whatever the symptom: the connection worked when it was opened and fails after having been idle
			key = "long-lived-connection-broken-after-idle-" + pl.px.cfg.Kind
		}
		if pl.earlySent.Load() {
			switch key {
			case "delivery-stalled", "unprompted-close", "stream-altered-up", "orderly-close-truncated-up":
				// symptoms of missing first bytes on a connection whose payload left together with its CONNECT request
				key = "tcpmux-early-data-lost"
			}
		}
		args = append(args, pl.describe())
		format += " [%s]"
	}
	cs.c.Ev("violation", "key", key, "what", fmt.Sprintf(format, args...))
	cs.c.Violation(key, format, args...)
}

func (cs *caseState) failUnlessPeerFailed(pl *plan, key string, format string, args ...any) {
	if pl.failed.Load() {
		return
	}
	cs.fail(pl, key, format, args...)
}

func (pl *plan) describe() string {
	p, c := pl.px.cfg, pl.cfg
	a := pl.cs.cfg.A
	return fmt.Sprintf("conn %d: kind=%s enc=%v comp=%v limit=%s/%dKB pp=%s greet=%v script=%s up=%d(%s,chunk %d) down=%d(%s,chunk %d) closer=%s early=%v; server %d (tcpMux=%v) transport=%s tls=%d pool=%d",
		pl.id, p.Kind, p.Enc, p.Comp, p.Limit, p.LKB, p.PP, p.Greet, c.Script, c.NUp, classNames[c.ClsUp], c.ChunkUp, c.NDown, classNames[c.ClsDown], c.ChunkDown,
		c.Closer, c.Early, pl.cs.sv.idx, pl.cs.sv.tcpMux, a.Proto, a.TLS, a.Pool)
}

// closeKey names a close that did not reach the other end; the suffix names the configuration class
// (each class has its own mechanism in frp, so each gets its own finding key).
func (cs *caseState) closeKey(pl *plan, dir string) string {
	key := "close-not-propagated-to-backend"
	if dir == "down" {
		key = "close-not-propagated-to-user"
	}
	switch {
	case pl.px.kcpNoMux:
		key += "-kcp-without-tcpmux"
	case pl.px.cfg.Limit == "server":
		key += "-server-side-limit"
	}
	return key
}

// judgeRead decides what a receiver observed. untilEOF: the sender wrote `want` bytes and closed while
// the receiver was only reading (orderly close); otherwise the receiver expected exactly `want` bytes on a
// connection both ends keep open.
func (cs *caseState) judgeRead(pl *plan, dir string, res readRes, want int64, untilEOF bool) bool {
	px := pl.px
	if res.mismatch != nil {
		key := "stream-altered-" + dir
		if res.N >= want {
			key = "bytes-injected"
		}
		cs.fail(pl, key, "proxy %s, %s direction: received stream %v", px.name, dir, res.mismatch)
		return false
	}
	cs.run.Count("bytes_verified_"+dir, res.N-res.Base)
	if !untilEOF {
		if res.N == want {
			return true
		}
		if res.Stalled {
			cs.failUnlessPeerFailed(pl, "delivery-stalled", "proxy %s, %s direction: %d of %d bytes arrived, then nothing for %v while both endpoints were open", px.name, dir, res.N, want, stallGrace)
		} else {
			cs.failUnlessPeerFailed(pl, "unprompted-close", "proxy %s, %s direction: connection ended (eof=%v err=%q) after %d of %d bytes although neither endpoint had closed", px.name, dir, res.EOF, res.Err, res.N, want)
		}
		return false
	}
	if res.Stalled {
		if res.N < want {
			cs.failUnlessPeerFailed(pl, cs.closeKey(pl, dir), "proxy %s, %s direction: sender wrote %d bytes and closed; receiver got %d of them, then neither data nor end-of-stream for %v", px.name, dir, want, res.N, stallGrace)
		} else {
			cs.failUnlessPeerFailed(pl, cs.closeKey(pl, dir), "proxy %s, %s direction: sender closed after %d bytes, receiver got them but no end-of-stream for %v", px.name, dir, want, stallGrace)
		}
		return false
	}
	if res.N < want {
		if !px.reliable {
			cs.run.Count("kcp_orderly_close_truncated", 1)
			return true
		}
		cs.failUnlessPeerFailed(pl, "orderly-close-truncated-"+dir, "proxy %s, %s direction: sender wrote %d bytes and closed while the receiver was only reading; receiver got %d bytes then end-of-stream (eof=%v err=%q)", px.name, dir, want, res.N, res.EOF, res.Err)
		return false
	}
	cs.run.Count("orderly_closes_complete_"+dir, 1)
	if !res.EOF {
		cs.run.Count("orderly_close_ended_with_error_after_complete_stream", 1)
	}
	return true
}

func runCase(c *h.Case, cc *caseCfg, sv *srvInfo) {
	if cc.Churn != nil {
		runChurnCase(c, cc, sv)
		return
	}
	cs := &caseState{c: c, run: run, cfg: cc, sv: sv}
	c.Data["cfg"] = cc
	pfx := fmt.Sprintf("c%d", c.Idx)

	needB := false
	for i := range cc.Proxies {
		if k := cc.Proxies[i].Kind; k == "stcp" || k == "xtcp" {
			needB = true
		}
	}
	for i := range cc.Plugins {
		if cc.Plugins[i].Type == "stcp" {
			needB = true
		}
	}
	stunPort := pa.Get()
	aText := commonTOML(sv, cc.A, stunPort)
	bText := commonTOML(sv, cc.B, stunPort)
	var names []string
	var visitorPorts []int

	for i := range cc.Proxies {
		p := &cc.Proxies[i]
		px := &proxyRT{cs: cs, idx: i, cfg: p, name: fmt.Sprintf("%s.p%d", pfx, i), domain: fmt.Sprintf("%sp%d.c01.test", pfx, i), routeUser: p.RouteUser}
		if p.DomainOf > 0 {
			px.domain = fmt.Sprintf("%sp%d.c01.test", pfx, p.DomainOf-1)
		}
		viaB := p.Kind == "stcp" || p.Kind == "xtcp"
		px.reliable = cc.A.Proto != "kcp" && !(viaB && cc.B.Proto == "kcp")
		px.kcpNoMux = !px.reliable && !sv.tcpMux
		ports := pa.Block(2)
		be, err := newBackend(cs, px, fmt.Sprintf("B%d.%d", c.Idx, i), ports[0])
		if err != nil {
			run.Inconclusive("backend listen failed")
			return
		}
		defer be.close()
		be.pp, be.greet = p.PP, p.Greet
		be.direct = p.Kind == "tcp" || p.Kind == "https" || p.Kind == "httpsraw" || p.Kind == "tcpmux"
		px.be = be
		switch p.Kind {
		case "tcp":
			px.dialAddr = fmt.Sprintf("127.0.0.1:%d", ports[1])
		case "https":
			be.mode, be.tlsCfg = modeTLS, backendTLS
			px.dialAddr = fmt.Sprintf("127.0.0.1:%d", sv.httpsPort)
		case "httpsraw":
			be.mode = modeRawHello
			px.dialAddr = fmt.Sprintf("127.0.0.1:%d", sv.httpsPort)
		case "tcpmux":
			if sv.passthrough {
				be.mode = modeConnectPT
			}
			px.dialAddr = fmt.Sprintf("127.0.0.1:%d", sv.tcpmuxPort)
		case "stcp":
			px.dialAddr = fmt.Sprintf("127.0.0.1:%d", ports[1])
			bText += visitorTOML(px.name+".v", "stcp", px.name, ports[1], p, "")
			visitorPorts = append(visitorPorts, ports[1])
		case "xtcp":
			px.dialAddr = fmt.Sprintf("127.0.0.1:%d", ports[1])
			aText += xtcpProxyTOML(px.name+"x", ports[0])
			names = append(names, px.name+"x")
			bText += visitorTOML(px.name+".v", "stcp", px.name, -1, p, "")
			bText += visitorTOML(px.name+".vx", "xtcp", px.name+"x", ports[1], p, px.name+".v")
			visitorPorts = append(visitorPorts, ports[1])
		}
		be.start()
		aText += proxyTOML(px.name, p, ports[0], ports[1], px.domain)
		names = append(names, px.name)
		cs.pxs = append(cs.pxs, px)
	}
	// proxies served by client plugins
	var plugs []*pluginRT
	var org *origin
	if len(cc.Plugins) > 0 {
		var err error
		if org, err = startOrigin(fmt.Sprintf("O%d", c.Idx), pa.Get()); err != nil {
			run.Inconclusive("origin listen failed")
			return
		}
		defer org.close()
	}
	for j := range cc.Plugins {
		pc := &cc.Plugins[j]
		pr := &pluginRT{cfg: pc, name: fmt.Sprintf("%s.g%d", pfx, j)}
		port := pa.Get()
		pr.dialAddr = fmt.Sprintf("127.0.0.1:%d", port)
		dir := ""
		if pc.Plugin == "static_file" {
			dir = filepath.Join(h.RunDir(prop), "static", fmt.Sprintf("%d-%s", os.Getpid(), pr.name))
			if err := writeStaticFiles(dir, pc); err != nil {
				run.Inconclusive("static files not written")
				return
			}
			defer os.RemoveAll(dir)
		}
		aText += pluginProxyTOML(pr.name, pc, port, org.port, dir)
		names = append(names, pr.name)
		if pc.Type == "stcp" {
			bText += visitorTOML(pr.name+".v", "stcp", pr.name, port, &proxyCfg{VEnc: pc.Enc, VComp: pc.Comp}, "")
			visitorPorts = append(visitorPorts, port)
		}
		plugs = append(plugs, pr)
	}
	for _, px := range cs.pxs {
		if px.routeUser == "" {
			continue
		}
		for _, other := range cs.pxs {
			if other != px && other.domain == px.domain && other.routeUser == "" && other.cfg.Kind == px.cfg.Kind {
				px.sharedPx = other
			}
		}
	}
	var relay *h.TCPRelay
	if cc.CtlLoss {
		// client A reaches frps through a relay, so that exactly its control connection can be cut
		var err error
		if relay, err = h.StartTCPRelay(pa.Get(), fmt.Sprintf("127.0.0.1:%d", sv.bindPort), 1); err != nil {
			run.Inconclusive("relay listen failed")
			return
		}
		defer relay.Close()
		aText = strings.Replace(aText, fmt.Sprintf("serverPort = %d\n", sv.bindPort), fmt.Sprintf("serverPort = %d\n", relay.Port), 1)
	}
	c.Data["frpc_a"], c.Data["frpc_b"] = aText, ""

	cliA, err := h.StartClientText(prop, aText)
	if err != nil {
		fmt.Fprintf(os.Stderr, "case %d: client A: %v\n%s\n", c.Idx, err, aText)
		run.Inconclusive("client config rejected")
		return
	}
	defer cliA.Close()
	if err := cliA.WaitRunning(30*time.Second, names...); err != nil {
		c.Ev("client-a-not-running", "err", err.Error())
		run.Inconclusive(fmt.Sprintf("client not running: srv=%d proto=%s tls=%d", sv.idx, cc.A.Proto, cc.A.TLS))
		return
	}
	if needB {
		c.Data["frpc_b"] = bText
		cliB, err := h.StartClientText(prop, bText)
		if err != nil {
			fmt.Fprintf(os.Stderr, "case %d: client B: %v\n%s\n", c.Idx, err, bText)
			run.Inconclusive("client config rejected")
			return
		}
		defer cliB.Close()
		ok := h.Eventually(30*time.Second, func() bool {
			lp := h.OwnTCPListenPorts()
			for _, p := range visitorPorts {
				if !lp[p] {
					return false
				}
			}
			return true
		})
		if !ok {
			run.Inconclusive(fmt.Sprintf("visitor client not running: srv=%d proto=%s tls=%d", sv.idx, cc.B.Proto, cc.B.TLS))
			return
		}
	}

	if cc.GateVisitor {
		// every (serial) user connection parks frps right after it has handed the visitor connection to the
		// proxy; released when the user has its greeting (or has failed). Without the hook point in the tree
		// nothing is parked and the case runs ungated.
		for _, px := range cs.pxs {
			px.gated = true
		}
	}

	// all connections of all proxies of the case at once (cross-wiring pressure), unless the proxy is serial
	var wg sync.WaitGroup
	id := 0
	var all []*plan
	ctlGate := make(chan struct{})
	for _, px := range cs.pxs {
		px := px
		var pls []*plan
		for j := range px.cfg.Conns {
			pl := &plan{cs: cs, px: px, cfg: &px.cfg.Conns[j], id: id,
				uGotAll: make(chan struct{}), bGotAll: make(chan struct{}), uClosed: make(chan struct{}), uDone: make(chan struct{}), bDone: make(chan struct{}),
				phase2: make(chan struct{}), uGot2: make(chan struct{}), bGot2: make(chan struct{})}
			id++
			sum := sha256.Sum256([]byte(fmt.Sprintf("%d|%d|%d|%d|%d", run.Seed, c.Idx, px.idx, j, pl.cfg.SeedUp)))
			copy(pl.nonce[:], sum[:16])
			plans.Store(pl.nonce, pl)
			defer plans.Delete(pl.nonce)
			if cc.CtlLoss {
				pl.gate2, pl.ctlLoss = ctlGate, true
			}
			pls = append(pls, pl)
			all = append(all, pl)
		}
		px.t0 = h.Now()
		wg.Add(1)
		go func() {
			defer wg.Done()
			if px.cfg.Serial {
				for _, pl := range pls {
					userConn(pl)
				}
				return
			}
			var w2 sync.WaitGroup
			for _, pl := range pls {
				pl := pl
				w2.Add(1)
				go func() {
					defer w2.Done()
					time.Sleep(time.Duration(pl.cfg.DelayMs) * time.Millisecond)
					userConn(pl)
				}()
			}
			w2.Wait()
		}()
	}
	if cc.CtlLoss {
		wg.Add(1)
		go func() {
			defer wg.Done()
			defer close(ctlGate)
			controlLoss(cs, relay, cliA, names, all)
		}()
	}
	for _, pr := range plugs {
		pr := pr
		for k := 0; k < pr.cfg.Conns; k++ {
			k := k
			wg.Add(1)
			go func() {
				defer wg.Done()
				time.Sleep(time.Duration(k*37%400) * time.Millisecond)
				pluginConn(cs, pr, org, k)
			}()
		}
	}
	wg.Wait()

	// quiescence: every backend connection handler has ended (each waits for its end-of-stream with its own grace)
	for _, px := range cs.pxs {
		if !px.be.waitIdle(3*stallGrace + closeGrace) {
			cs.fail(nil, "backend-connection-left-open", "proxy %s: a backend connection is still open long after every user connection was closed", px.name)
		}
	}
	clean := c.Violations() == 0
	for _, px := range cs.pxs {
		plannedZero, mayBeEmpty := int64(0), int64(0)
		for j := range px.cfg.Conns {
			switch px.cfg.Conns[j].Script {
			case "zero":
				plannedZero++
			case "abort":
				mayBeEmpty++ // an aborted connection may end before its first message is forwarded
			}
		}
		if clean && px.reliable {
			if z := px.be.zero.Load(); z > plannedZero+mayBeEmpty {
				cs.fail(nil, "unattributed-backend-connection", "backend of proxy %s accepted %d connections that carried nothing, the users made only %d such connections to it", px.name, z, plannedZero)
			} else if z < plannedZero {
				run.Count("zero_length_connections_not_seen_by_backend", plannedZero-z)
			}
			run.Count("zero_length_connections", px.be.zero.Load())
		}
		checkRate(cs, px)
	}
	for _, pl := range all {
		c.Ev("conn", "id", pl.id, "proxy", pl.px.name, "script", pl.cfg.Script, "backend_up", pl.bUp, "user_down", pl.uDown, "attached", pl.attached.Load(), "failed", pl.failed.Load())
		if pl.attached.Load() && !pl.failed.Load() {
			run.Count("connections_bridged_and_checked", 1)
			run.Count("script_"+pl.cfg.Script, 1)
			run.Count("kind_"+pl.px.cfg.Kind, 1)
			switch {
			case pl.px.sharedPx != nil:
				run.Count("tcpmux_user_routed_next_to_shared_route_checked", 1)
			case pl.px.cfg.DomainOf > 0 && pl.px.routeUser == "":
				run.Count("tcpmux_shared_route_connections_checked", 1)
			}
		}
	}
	for _, px := range cs.pxs {
		if px.gated {
			run.Count("visitor_handover_gate_hits", px.gateHits.Load())
		}
	}
	run.Count("proxies", int64(len(cs.pxs)))
	run.Count("transport_"+cc.A.Proto, 1)
	run.Distinct(cc.signature())
	if c.Idx < 3 {
		run.Sample(map[string]any{"case": c.Idx, "cfg": cc})
	}
}

// Tolerance of the rate bound. golang.org/x/time/rate (v0.5.0, the limiter frp uses) itself hands out more than
// burst + rate*t when several goroutines call WaitN at once: a caller whose timestamp is older than the limiter's
// `last` moves `last` backwards (Limiter.advance), so the time in between is credited twice. The excess is
// rate x (how long that caller was delayed between taking its timestamp and getting the limiter's lock), i.e. it
// grows with scheduling delays: 0.6 % of the burst on the bare library with 8 callers, up to 8 % through frp on
// this machine at load 70. That is the dependency's arithmetic under load, not frp's wiring of the limiter, so:
//   - proxies driven by one unidirectional stream at a time (StrictRate: the limiter has a single caller, the
//     bound is exact) are judged with 1 % (rounding) — this is what catches small leaks such as unaccounted reads;
//   - proxies with concurrent connections / both directions are judged with 25 %; every break of the wiring the
//     check is sized against there (burst x2, limiter on the wrong side, limiter per connection, half the tokens,
//     compressed bytes accounted instead of payload) exceeds the bound by 65 % or more.
const (
	rateSlackStrict     = 0.01
	rateSlackConcurrent = 0.25
)

var (
	worstRatioMu sync.Mutex
	worstRatio   float64
)

// checkRate: anchored rate bound of a limited proxy.
func checkRate(cs *caseState, px *proxyRT) {
	if !px.limited() {
		return
	}
	px.mu.Lock()
	evs := append([]dEv(nil), px.events...)
	px.mu.Unlock()
	sort.Slice(evs, func(i, j int) bool { return evs[i].t < evs[j].t })
	L := float64(px.cfg.LKB) * 1024
	rateSlack := rateSlackConcurrent
	if px.cfg.StrictRate {
		rateSlack = rateSlackStrict
	}
	var cum int64
	worst := 0.0
	overStrict := false
	var worstCum int64
	var worstDt float64
	for _, e := range evs {
		cum += int64(e.n)
		dt := float64(e.t-px.t0) / 1e9
		bound := L + L*dt
		if r := float64(cum) / bound; r > worst {
			worst, worstCum, worstDt = r, cum, dt
		}
		if float64(cum) > bound && float64(cum) <= bound*(1+rateSlack)+64 {
			overStrict = true
		}
		if float64(cum) > bound*(1+rateSlack)+64 {
			key := "bandwidth-limit-exceeded-" + px.cfg.Limit + "-mode"
			if px.cfg.Limit == "client" && px.cfg.Comp {
				key += "-compressed"
			}
			cs.fail(nil, key, "proxy %s (limit %d KB/s enforced by the %s, enc=%v comp=%v): %d bytes delivered (both directions, all connections) within %.3f s of an idle start; limit x interval + one burst = %.0f bytes (tolerance: %.0f%%, single-caller regime: %v)",
				px.name, px.cfg.LKB, px.cfg.Limit, px.cfg.Enc, px.cfg.Comp, cum, dt, bound, rateSlack*100, px.cfg.StrictRate)
			return
		}
	}
	run.Count("rate_bound_checks", 1)
	if px.cfg.StrictRate {
		run.Count("rate_bound_checks_single_caller", 1)
	}
	if overStrict {
		run.Count("rate_bound_over_strict_within_tolerance", 1)
	}
	worstRatioMu.Lock()
	if worst > worstRatio {
		worstRatio = worst
		run.Set("rate_bound_worst_ratio", worst)
		run.Set("rate_bound_worst_ratio_at", fmt.Sprintf("case %d proxy %s: kind=%s limit=%s/%dKB enc=%v comp=%v transport=%s, %d bytes at %.4f s (strict bound %.0f)",
			cs.c.Idx, px.name, px.cfg.Kind, px.cfg.Limit, px.cfg.LKB, px.cfg.Enc, px.cfg.Comp, cs.cfg.A.Proto, worstCum, worstDt, L+L*worstDt))
	}
	worstRatioMu.Unlock()
	run.Count("rate_bound_events", int64(len(evs)))
	run.Count("rate_bound_bytes", cum)
	cs.c.Ev("rate", "proxy", px.name, "bytes", cum, "worst_ratio", worst)
	if len(evs) > 0 {
		dt := float64(evs[len(evs)-1].t-px.t0) / 1e9
		if float64(cum) > 2.5*L && dt > 0 {
			run.Count("rate_bound_nontrivial", 1) // more than 2.5 bursts were pushed: the bound was binding
		}
	}
}
