package main

import (
	"crypto/sha256"
	"fmt"
	"math/rand"
	"os"
	"sync"
	"time"

	v1 "github.com/fatedier/frp/pkg/config/v1"

	"verif/h"
)

// Route churn. Three proxies of one vhost kind: A and B are siblings (tcpmux: same custom domain, told apart by
// routeByHTTPUser alice / bob; https: two names under one parent domain), W is the wildcard route "*.<parent>".
// Phases: (1) all three are bridged to their own backends; (2) A is removed through the real frpc (configuration
// reload) or by stopping the frpc that owns it: B and W must still be bridged to their own backends, A's endpoint
// is now W's by design (or refused) and must never reach B; (3) A is added again: as (1). Every connection runs
// the ordinary scripts under the stream / identity / close monitors. Between (1) and (2) two other clients ask, one
// after the other, for exactly A's route: both must be refused and A, B, W must keep reaching their own backends.

type churnCfg struct {
	Kind     string `json:"kind"`      // tcpmux | https | httpsraw
	RemoveBy string `json:"remove_by"` // reload | stop
	Enc      bool   `json:"enc"`
	Comp     bool   `json:"comp"`
	Shared   bool   `json:"shared"` // tcpmux: a fourth proxy serves the siblings' domain without routeByHTTPUser
	Conns    int    `json:"conns"`  // connections per endpoint and phase
	Seed     uint64 `json:"seed"`
}

func churnCases(thorough bool, rng *rand.Rand) []*caseCfg {
	mk := func(server int, kind, by string, enc, comp bool, seed uint64) *caseCfg {
		return &caseCfg{Server: server, A: cliOpts{Proto: "tcp", TLS: 0, Pool: 1}, B: cliOpts{Proto: "tcp"},
			Churn: &churnCfg{Kind: kind, RemoveBy: by, Enc: enc, Comp: comp, Conns: 3, Seed: seed}}
	}
	out := []*caseCfg{
		mk(0, "tcpmux", "reload", false, false, 101),
		mk(2, "tcpmux", "stop", true, true, 102),
		mk(1, "https", "reload", false, true, 103),
	}
	out[1].Churn.Shared = true
	if thorough {
		for i := 0; i < 12; i++ {
			cc := mk([]int{0, 2}[rng.Intn(2)], "tcpmux", []string{"reload", "stop"}[rng.Intn(2)], rng.Intn(2) == 0, rng.Intn(2) == 0, 200+uint64(i))
			if i%3 == 2 {
				cc.Server, cc.Churn.Kind = rng.Intn(4), []string{"https", "httpsraw"}[rng.Intn(2)]
			}
			cc.A = genCliOpts(rng)
			if cc.Server%2 == 1 && cc.A.TLS == 2 {
				cc.A.TLS = 1
			}
			if cc.Server >= 2 && cc.A.Proto == "kcp" {
				cc.A.Proto = "quic"
			}
			if cc.Churn.RemoveBy == "stop" && cc.A.Proto == "kcp" {
				cc.A.Proto = "tcp" // frps learns of a stopped kcp client only by heartbeat timeout (90 s)
			}
			cc.Churn.Conns = 2 + rng.Intn(4)
			cc.Churn.Shared = cc.Churn.Kind == "tcpmux" && rng.Intn(2) == 0
			out = append(out, cc)
		}
	}
	return out
}

func runChurnCase(c *h.Case, cc *caseCfg, sv *srvInfo) {
	cs := &caseState{c: c, run: run, cfg: cc, sv: sv}
	c.Data["cfg"] = cc
	ch := cc.Churn
	pfx := fmt.Sprintf("c%d", c.Idx)
	parent := pfx + ".c01.test"
	stunPort := pa.Get()

	mk := func(i int, tag, domain, host, user string) (*proxyRT, string, error) {
		p := &proxyCfg{Kind: ch.Kind, Enc: ch.Enc, Comp: ch.Comp, RouteUser: user}
		px := &proxyRT{cs: cs, idx: i, cfg: p, name: pfx + "." + tag, domain: domain, connectHost: host, routeUser: user, reliable: cc.A.Proto != "kcp"}
		ports := pa.Block(2)
		be, err := newBackend(cs, px, fmt.Sprintf("B%d.%s", c.Idx, tag), ports[0])
		if err != nil {
			return nil, "", err
		}
		be.direct = true
		px.be = be
		switch ch.Kind {
		case "https":
			be.mode, be.tlsCfg = modeTLS, backendTLS
			px.dialAddr = fmt.Sprintf("127.0.0.1:%d", sv.httpsPort)
		case "httpsraw":
			be.mode = modeRawHello
			px.dialAddr = fmt.Sprintf("127.0.0.1:%d", sv.httpsPort)
		default:
			if sv.passthrough {
				be.mode = modeConnectPT
			}
			px.dialAddr = fmt.Sprintf("127.0.0.1:%d", sv.tcpmuxPort)
		}
		be.start()
		text := proxyTOML(px.name, p, ports[0], ports[1], domain)
		cs.pxs = append(cs.pxs, px)
		return px, text, nil
	}
	var A, B, W *proxyRT
	var aT, bT, wT string
	var err error
	if ch.Kind == "tcpmux" {
		A, aT, err = mk(0, "alice", "db."+parent, "db."+parent, "alice")
		if err == nil {
			B, bT, err = mk(1, "bob", "db."+parent, "db."+parent, "bob")
		}
	} else {
		A, aT, err = mk(0, "alice", "a."+parent, "a."+parent, "")
		if err == nil {
			B, bT, err = mk(1, "bob", "b."+parent, "b."+parent, "")
		}
	}
	if err == nil {
		W, wT, err = mk(2, "wild", "*."+parent, "w."+parent, "")
	}
	// the siblings' domain is also served by a proxy without routeByHTTPUser: every other proxy user (and none) is its
	var S *proxyRT
	var sT string
	if err == nil && ch.Shared && ch.Kind == "tcpmux" {
		S, sT, err = mk(4, "shared", "db."+parent, "db."+parent, "")
		if err == nil {
			A.sharedPx, B.sharedPx = S, S
		}
	}
	if err != nil {
		run.Inconclusive("backend listen failed")
		return
	}
	for _, px := range cs.pxs {
		defer px.be.close()
	}

	common := commonTOML(sv, cc.A, stunPort)
	mainText := common + bT + wT + sT
	if ch.RemoveBy == "reload" {
		mainText = common + aT + bT + wT + sT
	}
	c.Data["frpc_main"], c.Data["frpc_alice"] = mainText, common+aT
	cm, psAll, vs, err := h.LoadClientConfig(prop, mainText)
	if err != nil {
		fmt.Fprintf(os.Stderr, "case %d: churn client: %v\n%s\n", c.Idx, err, mainText)
		run.Inconclusive("client config rejected")
		return
	}
	cli, err := h.StartClient(cm, psAll, vs)
	if err != nil {
		run.Inconclusive("client config rejected")
		return
	}
	defer cli.Close()
	names := []string{B.name, W.name}
	if S != nil {
		names = append(names, S.name)
	}
	if ch.RemoveBy == "reload" {
		names = append(names, A.name)
	}
	if err := cli.WaitRunning(30*time.Second, names...); err != nil {
		run.Inconclusive(fmt.Sprintf("client not running: srv=%d proto=%s tls=%d", sv.idx, cc.A.Proto, cc.A.TLS))
		return
	}
	var cliAlice *h.Client
	startAlice := func() bool {
		cl, err := h.StartClientText(prop, common+aT)
		if err != nil {
			run.Inconclusive("client config rejected")
			return false
		}
		cliAlice = cl
		if err := cl.WaitRunning(30*time.Second, A.name); err != nil {
			run.Inconclusive("sibling client not running")
			return false
		}
		return true
	}
	defer func() {
		if cliAlice != nil {
			cliAlice.Close()
		}
	}()
	if ch.RemoveBy == "stop" && !startAlice() {
		return
	}

	planID := 0
	rng := rand.New(rand.NewSource(int64(ch.Seed)))
	type target struct {
		px, alt      *proxyRT
		mayRefuse    bool
		afterRemoval bool
		afterDup     bool
		user         string // proxy user sent instead of the endpoint's own route user
	}
	verify := func(phase string, targets []target) {
		var wg sync.WaitGroup
		for _, t := range targets {
			for k := 0; k < ch.Conns; k++ {
				cfg := &connCfg{Script: []string{"duplex", "downclose", "upclose", "idle"}[(k+planID)%4], Closer: []string{"U", "B"}[k%2],
					NUp: rng.Int63n(40000), NDown: rng.Int63n(40000), ClsUp: rng.Intn(numClasses), ClsDown: rng.Intn(numClasses),
					ChunkUp: chunks[2+rng.Intn(5)], ChunkDown: chunks[2+rng.Intn(5)], DelayMs: rng.Intn(10), SeedUp: rng.Uint64(), SeedDown: rng.Uint64(), ConnectUser: t.user}
				switch cfg.Script {
				case "downclose":
					cfg.NUp = 0
				case "upclose":
					cfg.NDown = 0
				case "idle":
					cfg.NUp, cfg.NDown = 0, 0
				}
				pl := &plan{cs: cs, px: t.px, cfg: cfg, id: planID, altPx: t.alt, mayRefuse: t.mayRefuse, afterRemoval: t.afterRemoval, afterDup: t.afterDup,
					uGotAll: make(chan struct{}), bGotAll: make(chan struct{}), uClosed: make(chan struct{}), uDone: make(chan struct{}), bDone: make(chan struct{}),
					phase2: make(chan struct{}), uGot2: make(chan struct{}), bGot2: make(chan struct{})}
				planID++
				sum := sha256.Sum256([]byte(fmt.Sprintf("churn|%d|%d|%d|%d", run.Seed, c.Idx, pl.id, cfg.SeedUp)))
				copy(pl.nonce[:], sum[:16])
				plans.Store(pl.nonce, pl)
				defer plans.Delete(pl.nonce)
				wg.Add(1)
				go func() {
					defer wg.Done()
					time.Sleep(time.Duration(cfg.DelayMs) * time.Millisecond)
					userConn(pl)
					c.Ev("conn", "phase", phase, "id", pl.id, "endpoint", t.px.name, "script", cfg.Script, "attached", pl.attached.Load(), "failed", pl.failed.Load())
					if pl.attached.Load() && !pl.failed.Load() {
						run.Count("connections_bridged_and_checked", 1)
						run.Count("churn_connections_"+phase, 1)
						run.Count("kind_"+ch.Kind, 1)
					}
				}()
			}
		}
		wg.Wait()
		for _, px := range cs.pxs {
			px.be.waitIdle(3*stallGrace + closeGrace)
		}
	}
	present := func() bool {
		for _, n := range sv.s.Snapshot().ProxyNames {
			if n == A.name {
				return true
			}
		}
		return false
	}

	// with(ts): the same targets plus, when the domain has a shared route, connections without a proxy user and with
	// an unknown proxy user, both of which belong to the shared proxy
	with := func(ts []target, dup, removal bool) []target {
		if S != nil {
			ts = append(ts, target{px: S, afterDup: dup, afterRemoval: removal}, target{px: S, user: "carol", afterDup: dup, afterRemoval: removal})
		}
		return ts
	}
	verify("before", with([]target{{px: A}, {px: B}, {px: W}}, false, false))
	if c.Violations() > 0 {
		return
	}

	// Duplicate registrations. Another client asks for exactly A's route (same domain, same route user), backed by
	// its own service X. frps must refuse it, and the refusal must leave A's route alone: A, B and W still reach their
	// own backends. Then a third client asks again: it must be refused as well (if the first refusal had dropped A's
	// route this one would be accepted and A's endpoint would be bridged to X).
	X, xT, err := mk(3, "intruder", A.domain, A.connectHost, A.routeUser)
	if err != nil {
		run.Inconclusive("backend listen failed")
		return
	}
	defer X.be.close()
	c.Data["frpc_intruder"] = common + xT
	for attempt := 1; attempt <= 2; attempt++ {
		ic, err := h.StartClientText(prop, common+xT)
		if err != nil {
			run.Inconclusive("client config rejected")
			return
		}
		defer ic.Close()
		phase := ""
		h.Eventually(30*time.Second, func() bool {
			phase = ic.ProxyPhase(X.name)
			return phase == "start error" || phase == "running"
		})
		switch phase {
		case "start error":
			run.Count("duplicate_registrations_refused", 1)
		case "running":
			key := "duplicate-route-registration-accepted"
			if attempt == 2 {
				key = "duplicate-route-registration-accepted-after-refused-one"
			}
			cs.fail(nil, key, "%s route %s (route user %q) belongs to the running proxy %s; registration attempt %d for the same route by another client was accepted",
				ch.Kind, A.domain, A.routeUser, A.name, attempt)
		default:
			run.Inconclusive("duplicate registration neither refused nor accepted within 30 s")
			return
		}
		verify(fmt.Sprintf("dup%d", attempt), with([]target{{px: A, afterDup: true}, {px: B, afterDup: true}, {px: W, afterDup: true}}, true, false))
		if c.Violations() > 0 {
			return
		}
		ic.Close() // gone before the next step: a retry of this client must not pick up a route that is removed on purpose later
		if attempt == 1 {
			h.Eventually(5*time.Second, func() bool {
				for _, ss := range sv.s.Snapshot().Sessions {
					for _, n := range ss.Proxies {
						if n == X.name {
							return false
						}
					}
				}
				return true
			})
		}
	}

	// remove the sibling route the way a user would
	if ch.RemoveBy == "reload" {
		var rest []v1.ProxyConfigurer
		for _, p := range psAll {
			if p.GetBaseConfig().Name != A.name {
				rest = append(rest, p)
			}
		}
		if err := cli.Svc.UpdateAllConfigurer(rest, vs); err != nil {
			run.Inconclusive("reload refused")
			return
		}
	} else {
		cliAlice.Close()
		cliAlice = nil
	}
	if !h.Eventually(20*time.Second, func() bool { return !present() }) {
		run.Inconclusive("removed proxy still registered after 20 s")
		return
	}
	run.Count("sibling_routes_removed", 1)
	aliceNow := W // alice's endpoint falls to the wildcard route, or to the shared route of her own domain if there is one
	if S != nil {
		aliceNow = S
	}
	verify("removed", with([]target{{px: B, afterRemoval: true}, {px: W, afterRemoval: true}, {px: A, alt: aliceNow, mayRefuse: true, afterRemoval: true}}, false, true))
	if c.Violations() > 0 {
		return
	}

	// and add it again
	if ch.RemoveBy == "reload" {
		if err := cli.Svc.UpdateAllConfigurer(psAll, vs); err != nil {
			run.Inconclusive("reload refused")
			return
		}
		if err := cli.WaitRunning(30*time.Second, A.name); err != nil {
			run.Inconclusive("re-added proxy not running")
			return
		}
	} else if !startAlice() {
		return
	}
	verify("readded", with([]target{{px: A, afterRemoval: true}, {px: B, afterRemoval: true}, {px: W, afterRemoval: true}}, false, true))
	run.Count("proxies", 3)
	run.Distinct(cc.signature())
}
