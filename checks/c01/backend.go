package main

import (
	"bufio"
	"bytes"
	"crypto/tls"
	"encoding/binary"
	"errors"
	"fmt"
	"hash/crc32"
	"io"
	"math/rand"
	"net"
	"os"
	"strconv"
	"strings"
	"sync"
	"sync/atomic"
	"time"
)

// Grace periods. Upper bounds are bounded-progress watchdogs only (DESIGN §1): 60 s without any
// progress on a connection whose both endpoints are open, 30 s (= 3 x 10 s) for a close to propagate.
var (
	stallGrace = 60 * time.Second
	closeGrace = 30 * time.Second
)

const (
	hdrLen   = 24 // "C01H" nonce[16] crc32
	identLen = 44 // "C01I" id[24] nonce[16]
	greetLen = 32 // "C01G" id[28]
)

func makeHeader(nonce [16]byte) []byte {
	b := make([]byte, 0, hdrLen)
	b = append(b, "C01H"...)
	b = append(b, nonce[:]...)
	var c [4]byte
	binary.BigEndian.PutUint32(c[:], crc32.ChecksumIEEE(b))
	return append(b, c[:]...)
}

func padID(id string, n int) []byte {
	b := make([]byte, n)
	copy(b, id)
	return b
}

func unpadID(b []byte) string { return strings.TrimRight(string(b), "\x00") }

func makeIdent(id string, nonce [16]byte) []byte {
	b := append([]byte("C01I"), padID(id, 24)...)
	return append(b, nonce[:]...)
}

func makeGreeting(id string) []byte { return append([]byte("C01G"), padID(id, 28)...) }

// brConn is a net.Conn whose reads go through a bufio.Reader (the backend peeks at the first bytes).
type brConn struct {
	net.Conn
	r *bufio.Reader
}

func (c *brConn) Read(p []byte) (int, error) { return c.r.Read(p) }

// backend modes: what precedes the harness header on a connection of this backend
const (
	modePlain     = iota
	modeTLS       // real TLS server (https proxy)
	modeRawHello  // one TLS record (the ClientHello sniffed by the vhost muxer) must arrive byte-exactly
	modeConnectPT // the CONNECT request itself is forwarded (tcpmuxPassthrough)
)

// backend is the local service of one proxy.
type backend struct {
	id     string
	cs     *caseState
	px     *proxyRT
	ln     net.Listener
	port   int
	pp     string
	mode   int
	greet  bool
	direct bool // directly exposed proxy: the PROXY header must carry the user's socket address
	tlsCfg *tls.Config

	wg       sync.WaitGroup
	accepts  atomic.Int64
	zero     atomic.Int64 // connections that ended without a single payload byte
	attached atomic.Int64
}

// newBackend binds the listener; the caller sets the options and then calls start.
func newBackend(cs *caseState, px *proxyRT, id string, port int) (*backend, error) {
	ln, err := net.Listen("tcp", "127.0.0.1:"+strconv.Itoa(port))
	if err != nil {
		return nil, err
	}
	return &backend{id: id, cs: cs, px: px, ln: ln, port: port}, nil
}

func (b *backend) start() {
	go func() {
		for {
			c, err := b.ln.Accept()
			if err != nil {
				return
			}
			b.accepts.Add(1)
			b.wg.Add(1)
			go func() {
				defer b.wg.Done()
				defer c.Close()
				b.handle(c)
			}()
		}
	}()
}

func (b *backend) close() { b.ln.Close() }

// waitIdle waits until every accepted connection's handler has returned.
func (b *backend) waitIdle(d time.Duration) bool {
	ch := make(chan struct{})
	go func() { b.wg.Wait(); close(ch) }()
	select {
	case <-ch:
		return true
	case <-time.After(d):
		return false
	}
}

var v2sig = []byte("\r\n\r\n\x00\r\nQUIT\n")

// readProxyHeader parses a PROXY protocol v1 or v2 header (the harness's own parser).
// present=false when the stream does not start with a PROXY signature.
func readProxyHeader(br *bufio.Reader) (present bool, ver string, src, dst string, err error) {
	pk, perr := br.Peek(6)
	if len(pk) == 0 {
		return false, "", "", "", perr
	}
	if bytes.Equal(pk, []byte("PROXY ")) {
		line, err := br.ReadString('\n')
		if err != nil {
			return true, "v1", "", "", fmt.Errorf("v1 header not terminated: %v", err)
		}
		if len(line) > 107 || !strings.HasSuffix(line, "\r\n") {
			return true, "v1", "", "", fmt.Errorf("v1 header malformed: %q", line)
		}
		f := strings.Fields(strings.TrimSuffix(line, "\r\n"))
		if len(f) != 6 || (f[1] != "TCP4" && f[1] != "TCP6") {
			return true, "v1", "", "", fmt.Errorf("v1 header malformed: %q", line)
		}
		if f[1] == "TCP4" && (net.ParseIP(f[2]).To4() == nil || net.ParseIP(f[3]).To4() == nil) {
			return true, "v1", "", "", fmt.Errorf("v1 TCP4 header with non-IPv4 address: %q", line)
		}
		return true, "v1", net.JoinHostPort(f[2], f[4]), net.JoinHostPort(f[3], f[5]), nil
	}
	if len(pk) == 6 && bytes.Equal(pk, v2sig[:6]) {
		hd := make([]byte, 16)
		if _, err := io.ReadFull(br, hd); err != nil {
			return true, "v2", "", "", fmt.Errorf("v2 header short: %v", err)
		}
		if !bytes.Equal(hd[:12], v2sig) {
			return true, "v2", "", "", fmt.Errorf("v2 signature wrong: %x", hd[:12])
		}
		if hd[12] != 0x21 {
			return true, "v2", "", "", fmt.Errorf("v2 version/command 0x%02x, want 0x21 (PROXY)", hd[12])
		}
		ln := int(binary.BigEndian.Uint16(hd[14:16]))
		body := make([]byte, ln)
		if _, err := io.ReadFull(br, body); err != nil {
			return true, "v2", "", "", fmt.Errorf("v2 address block short: %v", err)
		}
		switch hd[13] {
		case 0x11:
			if ln < 12 {
				return true, "v2", "", "", fmt.Errorf("v2 TCP4 block of %d bytes", ln)
			}
			s := net.JoinHostPort(net.IP(body[0:4]).String(), strconv.Itoa(int(binary.BigEndian.Uint16(body[8:10]))))
			d := net.JoinHostPort(net.IP(body[4:8]).String(), strconv.Itoa(int(binary.BigEndian.Uint16(body[10:12]))))
			return true, "v2", s, d, nil
		case 0x21:
			if ln < 36 {
				return true, "v2", "", "", fmt.Errorf("v2 TCP6 block of %d bytes", ln)
			}
			s := net.JoinHostPort(net.IP(body[0:16]).String(), strconv.Itoa(int(binary.BigEndian.Uint16(body[32:34]))))
			d := net.JoinHostPort(net.IP(body[16:32]).String(), strconv.Itoa(int(binary.BigEndian.Uint16(body[34:36]))))
			return true, "v2", s, d, nil
		default:
			return true, "v2", "", "", fmt.Errorf("v2 family/protocol 0x%02x", hd[13])
		}
	}
	return false, "", "", "", nil
}

func isTimeout(err error) bool {
	var ne net.Error
	return errors.As(err, &ne) && ne.Timeout() || errors.Is(err, os.ErrDeadlineExceeded)
}

// handle serves one accepted connection.
func (b *backend) handle(raw net.Conn) {
	cs := b.cs
	br := bufio.NewReaderSize(raw, 4096)
	var conn net.Conn = &brConn{Conn: raw, r: br}
	_ = raw.SetReadDeadline(time.Now().Add(stallGrace))

	// 0. a service that speaks first writes its greeting as soon as it has accepted (inside TLS: after the handshake)
	if b.greet && b.mode != modeTLS {
		_ = raw.SetWriteDeadline(time.Now().Add(stallGrace))
		if _, err := raw.Write(makeGreeting(b.id)); err != nil {
			b.zero.Add(1)
			return
		}
	}

	// 1. PROXY protocol header
	ppPresent, ppVer, ppSrc, ppDst, ppErr := readProxyHeader(br)
	if !ppPresent && ppErr != nil {
		// nothing at all arrived: a connection that carried no byte
		b.zero.Add(1)
		return
	}
	if ppPresent && b.pp == "" {
		cs.fail(nil, "proxy-protocol-header-undeclared", "backend %s received a PROXY %s header although the proxy declares none", b.id, ppVer)
		return
	}
	if ppPresent && ppErr != nil {
		cs.fail(nil, "proxy-protocol-header-malformed", "backend %s: %v", b.id, ppErr)
		return
	}
	if ppPresent && ppVer != b.pp {
		cs.fail(nil, "proxy-protocol-version-wrong", "backend %s: proxy declares %s, header is %s", b.id, b.pp, ppVer)
		return
	}
	if !ppPresent && b.pp != "" && b.direct {
		pk, _ := br.Peek(6)
		cs.fail(nil, "proxy-protocol-header-missing", "backend %s: proxy declares PROXY %s but the stream starts with %q", b.id, b.pp, pk)
		return
	}
	if ppPresent {
		cs.run.Count("proxy_protocol_headers", 1)
	}

	// 2. what the proxy kind puts in front
	var pre []byte
	switch b.mode {
	case modeTLS:
		tc := tls.Server(conn, b.tlsCfg)
		_ = raw.SetDeadline(time.Now().Add(stallGrace))
		if err := tc.Handshake(); err != nil {
			if err == io.EOF || strings.Contains(err.Error(), "EOF") {
				b.zero.Add(1) // user gave up before the handshake (user side reports)
				return
			}
			if !b.px.reliable || b.px.abortInFlight.Load() > 0 {
				cs.run.Count("truncated_first_message_unjudged", 1)
				return
			}
			cs.fail(nil, "https-tls-handshake-failed", "backend %s: TLS handshake through the tunnel failed: %v", b.id, err)
			return
		}
		_ = raw.SetDeadline(time.Time{})
		conn = tc
	case modeRawHello:
		hd, err := br.Peek(5)
		if err != nil {
			if len(hd) == 0 {
				b.zero.Add(1)
				return
			}
			cs.fail(nil, "sniffed-prefix-not-replayed", "backend %s: stream ends inside the TLS record header: %x", b.id, hd)
			return
		}
		n := 5 + int(binary.BigEndian.Uint16(hd[3:5]))
		pre = make([]byte, n)
		if _, err := io.ReadFull(br, pre); err != nil {
			cs.fail(nil, "sniffed-prefix-not-replayed", "backend %s: ClientHello record of %d bytes announced, stream ended early: %v", b.id, n, err)
			return
		}
	case modeConnectPT:
		var line []byte
		for !bytes.HasSuffix(line, []byte("\r\n\r\n")) {
			ch, err := br.ReadByte()
			if err != nil {
				if len(line) == 0 {
					b.zero.Add(1)
					return
				}
				cs.fail(nil, "sniffed-prefix-not-replayed", "backend %s: forwarded CONNECT request incomplete: %q", b.id, line)
				return
			}
			line = append(line, ch)
			if len(line) > 8192 {
				cs.fail(nil, "sniffed-prefix-not-replayed", "backend %s: no CONNECT request at the start of the stream: %q...", b.id, line[:64])
				return
			}
		}
		pre = line
	}

	// 3. greeting inside TLS
	if b.greet && b.mode == modeTLS {
		_ = conn.SetWriteDeadline(time.Now().Add(stallGrace))
		if _, err := conn.Write(makeGreeting(b.id)); err != nil {
			b.zero.Add(1)
			return
		}
	}

	// 4. harness header
	hdr := make([]byte, hdrLen)
	_ = conn.SetReadDeadline(time.Now().Add(stallGrace))
	n, err := io.ReadFull(conn, hdr)
	if n == 0 {
		b.zero.Add(1)
		return
	}
	okHdr := err == nil && string(hdr[:4]) == "C01H" && binary.BigEndian.Uint32(hdr[20:]) == crc32.ChecksumIEEE(hdr[:20])
	var pl *plan
	if okHdr {
		var nonce [16]byte
		copy(nonce[:], hdr[4:20])
		if v, ok := plans.Load(nonce); ok {
			pl = v.(*plan)
		}
	}
	if pl == nil {
		partial := err != nil && n < hdrLen && bytes.HasPrefix(append([]byte("C01H"), make([]byte, hdrLen)...), hdr[:min(n, 4)])
		switch {
		case partial && (!b.px.reliable || b.px.abortInFlight.Load() > 0):
			// the user closed abruptly (abort script) or the path is not reliable (kcp): a truncated first message claims nothing
			cs.run.Count("truncated_first_message_unjudged", 1)
		case b.px.cfg.Kind == "tcpmux" && !cs.sv.passthrough && b.px.earlyInFlight.Load() > 0:
			b.px.early.Range(func(k, _ any) bool { k.(*plan).failed.Store(true); return true })
			cs.fail(nil, "tcpmux-early-data-lost", "backend %s: a user sent payload in the same write as its CONNECT request; what the backend receives first (%x, %d bytes, read error %v) is not the start of what the user wrote: the bytes sent together with the request are missing", b.id, hdr[:n], n, err)
		case partial:
			cs.fail(nil, "orderly-close-truncated-up", "backend %s: only %d of the %d bytes of a user's first message arrived before end-of-stream (%v)", b.id, n, hdrLen, err)
		default:
			cs.fail(nil, "stream-altered-up", "backend %s: the first %d bytes of a connection are not what any user wrote (got %x, read error %v)", b.id, n, hdr[:n], err)
		}
		return
	}
	b.px.deliveredAtBackend(n)
	if pl.px != b.px && pl.altPx != b.px {
		pl.wrong.Store(b.px)
		cs.fail(pl, "cross-wired", "connection made to proxy %s (backend %s) was bridged to backend %s of proxy %s", pl.px.name, pl.px.be.id, b.id, b.px.name)
		return
	}
	if !pl.attach() {
		cs.fail(pl, "connection-duplicated", "two backend connections carry the header of the same user connection (proxy %s)", b.px.name)
		return
	}
	b.attached.Add(1)
	defer close(pl.bDone)

	plPre, userLocal, userRemote := pl.userSide()
	if !bytes.Equal(pre, plPre) {
		cs.fail(pl, "sniffed-prefix-not-replayed", "proxy %s (%s): backend received a %d-byte prefix that differs from the %d bytes the user sent before the payload (first difference at %d)",
			b.px.name, b.px.cfg.Kind, len(pre), len(plPre), firstDiff(pre, plPre))
		return
	}
	if ppPresent && b.direct {
		if ppSrc != userLocal {
			cs.fail(pl, "proxy-protocol-source-wrong", "proxy %s: PROXY %s header says source %s, the user's socket is %s (dst %s, dialed %s)", b.px.name, ppVer, ppSrc, userLocal, ppDst, userRemote)
			return
		}
		if ppDst != userRemote {
			cs.fail(pl, "proxy-protocol-destination-wrong", "proxy %s: PROXY %s header says destination %s, the user dialed %s", b.px.name, ppVer, ppDst, userRemote)
			return
		}
		cs.run.Count("proxy_protocol_addresses_checked", 1)
	}
	b.script(pl, conn)
}

func firstDiff(a, b []byte) int {
	i := 0
	for i < len(a) && i < len(b) && a[i] == b[i] {
		i++
	}
	return i
}

// script plays the backend side of a connection.
func (b *backend) script(pl *plan, conn net.Conn) {
	cs, cfg, px := b.cs, pl.cfg, b.px
	ident := makeIdent(b.id, pl.nonce)
	wrng := rand.New(rand.NewSource(int64(cfg.SeedDown)))
	ckUp := newChecker(cfg.SeedUp, cfg.ClsUp)
	onRead := func(n int) { px.deliveredAtBackend(n) }

	switch cfg.Script {
	case "duplex":
		wdone := make(chan error, 1)
		go func() {
			_, err := writeAll(conn, ident)
			if err == nil {
				_, err = writeStream(conn, cfg.SeedDown, cfg.ClsDown, cfg.NDown, wrng, cfg.ChunkDown, cfg.Pause)
			}
			wdone <- err
		}()
		res := readStream(conn, ckUp, cfg.NUp, onRead)
		werr := <-wdone
		pl.bUp = res
		if !cs.judgeRead(pl, "up", res, cfg.NUp, false) {
			return
		}
		if werr != nil {
			cs.failUnlessPeerFailed(pl, "unprompted-close", "proxy %s: backend's write failed although neither endpoint had closed: %v", px.name, werr)
			return
		}
		close(pl.bGotAll)
		if cfg.Closer == "B" {
			if !waitCh(pl.uGotAll, pl.uDone, 2*stallGrace) {
				return // user side reports
			}
			return // deferred Close
		}
		b.expectClose(pl, conn)
	case "upclose", "half":
		res := readStream(conn, ckUp, -1, onRead)
		pl.bUp = res
		if !cs.judgeRead(pl, "up", res, cfg.NUp, true) {
			return
		}
		if cfg.Script == "half" {
			// the user has finished writing; whatever is written now may or may not arrive (frp closes both
			// directions when one ends) but must be a prefix
			_ = conn.SetWriteDeadline(time.Now().Add(5 * time.Second))
			if _, err := writeAll(conn, ident); err == nil {
				_, _ = writeStream(conn, cfg.SeedDown, cfg.ClsDown, cfg.NDown, wrng, cfg.ChunkDown, false)
			}
		}
	case "downclose":
		if _, err := writeAll(conn, ident); err != nil {
			cs.failUnlessPeerFailed(pl, "unprompted-close", "proxy %s: backend's write failed although the user is only reading: %v", px.name, err)
			return
		}
		if _, err := writeStream(conn, cfg.SeedDown, cfg.ClsDown, cfg.NDown, wrng, cfg.ChunkDown, cfg.Pause); err != nil {
			cs.failUnlessPeerFailed(pl, "unprompted-close", "proxy %s: backend's write failed although the user is only reading: %v", px.name, err)
			return
		}
		// deferred Close right after the last write
	case "abort":
		wdone := make(chan struct{})
		go func() {
			defer close(wdone)
			if _, err := writeAll(conn, ident); err != nil {
				return
			}
			n := cfg.NDown
			if cfg.Closer == "B" && cfg.AbortAfter < n {
				n = cfg.AbortAfter
			}
			_, _ = writeStream(conn, cfg.SeedDown, cfg.ClsDown, n, wrng, cfg.ChunkDown, cfg.Pause)
			if cfg.Closer == "B" {
				conn.Close()
			}
		}()
		res := readStream(conn, ckUp, -1, onRead)
		pl.bUp = res
		<-wdone
		if res.mismatch != nil {
			cs.fail(pl, "stream-altered-up", "proxy %s (abort script): %v", px.name, res.mismatch)
			return
		}
		if res.Stalled && cfg.Closer == "U" {
			select {
			case <-pl.uClosed:
				cs.fail(pl, cs.closeKey(pl, "up"), "proxy %s: user closed mid-stream, backend connection saw neither data nor end-of-stream for %v", px.name, stallGrace)
			default:
			}
		}
	case "longidle":
		up1, down1 := cfg.NUp/2, cfg.NDown/2
		gDown := newGen(cfg.SeedDown, cfg.ClsDown)
		for phase := 1; phase <= 2; phase++ {
			wantUp, nDown := up1, down1
			if phase == 2 {
				// nothing moves until the user starts the second exchange, long after the connection was opened
				if !waitCh(pl.phase2, pl.uDone, time.Duration(cfg.IdleMs)*time.Millisecond+2*stallGrace) {
					return
				}
				wantUp, nDown = cfg.NUp, cfg.NDown-down1
			}
			wdone := make(chan error, 1)
			go func() {
				var err error
				if phase == 1 {
					_, err = writeAll(conn, ident)
				}
				if err == nil {
					_, err = writeGen(conn, gDown, nDown, wrng, cfg.ChunkDown, false)
				}
				wdone <- err
			}()
			res := readStream(conn, ckUp, wantUp, onRead)
			if phase == 2 {
				res.Base = up1
			}
			werr := <-wdone
			pl.bUp = res
			if !cs.judgeRead(pl, "up", res, wantUp, false) {
				return
			}
			if werr != nil {
				cs.failUnlessPeerFailed(pl, "unprompted-close", "proxy %s: backend's write failed although neither endpoint had closed: %v", px.name, werr)
				return
			}
			if phase == 1 {
				close(pl.bGotAll)
			} else {
				close(pl.bGot2)
			}
		}
		b.expectClose(pl, conn)
	case "idle":
		if _, err := writeAll(conn, ident); err != nil {
			cs.failUnlessPeerFailed(pl, "unprompted-close", "proxy %s: backend's write failed on an idle connection: %v", px.name, err)
			return
		}
		if cfg.Closer == "B" {
			if !waitCh(pl.uGotAll, pl.uDone, 2*stallGrace) {
				return
			}
			time.Sleep(time.Duration(cfg.DelayMs*10) * time.Millisecond)
			return
		}
		b.expectClose(pl, conn)
	}
}

// expectClose: everything has been exchanged; the user closes; the backend must see end-of-stream.
func (b *backend) expectClose(pl *plan, conn net.Conn) {
	if !waitCh(pl.uClosed, pl.uDone, 3*stallGrace) {
		return
	}
	_ = conn.SetReadDeadline(time.Now().Add(closeGrace))
	buf := make([]byte, 64)
	n, err := conn.Read(buf)
	switch {
	case n > 0:
		b.cs.fail(pl, "bytes-injected", "proxy %s: backend received %d bytes (%x) after the complete stream, the user wrote nothing more", b.px.name, n, buf[:n])
	case err != nil && isTimeout(err):
		b.cs.fail(pl, b.cs.closeKey(pl, "up"), "proxy %s: user closed its connection, backend connection still open %v later", b.px.name, closeGrace)
	default:
		b.cs.run.Count("closes_propagated_to_backend", 1)
	}
}

// waitCh waits for ch; gives up when abort is closed (the other side ended) or after d. A closed ch wins.
func waitCh(ch, abort <-chan struct{}, d time.Duration) bool {
	select {
	case <-ch:
		return true
	default:
	}
	t := time.NewTimer(d)
	defer t.Stop()
	select {
	case <-ch:
		return true
	case <-abort:
		select {
		case <-ch:
			return true
		default:
			return false
		}
	case <-t.C:
		return false
	}
}

// ---------------------------------------------------------------------------------------------
// stream I/O shared by both ends

type readRes struct {
	Base     int64 // bytes of N already counted by an earlier phase
	N        int64
	EOF      bool
	Err      string
	Stalled  bool
	mismatch error
}

// readStream reads (want bytes, or until end-of-stream when want < 0), checking every read online
// against the regenerated stream. The deadline is a no-progress watchdog renewed on every read.
func readStream(conn net.Conn, ck *checker, want int64, onRead func(int)) readRes {
	buf := make([]byte, 32*1024)
	for want < 0 || ck.N < want {
		lim := len(buf)
		if want >= 0 && int64(lim) > want-ck.N {
			lim = int(want - ck.N)
		}
		_ = conn.SetReadDeadline(time.Now().Add(stallGrace))
		n, err := conn.Read(buf[:lim])
		if n > 0 {
			if onRead != nil {
				onRead(n)
			}
			if cerr := ck.Check(buf[:n]); cerr != nil {
				return readRes{N: ck.N, mismatch: cerr}
			}
		}
		if err != nil {
			if err == io.EOF {
				return readRes{N: ck.N, EOF: true}
			}
			if isTimeout(err) {
				return readRes{N: ck.N, Stalled: true, Err: err.Error()}
			}
			return readRes{N: ck.N, Err: err.Error()}
		}
	}
	return readRes{N: ck.N}
}

func writeAll(conn net.Conn, p []byte) (int, error) {
	_ = conn.SetWriteDeadline(time.Now().Add(stallGrace))
	return conn.Write(p)
}

// writeStream writes n bytes of the (seed, class) stream in PRNG-sized chunks up to maxChunk.
func writeStream(conn net.Conn, seed uint64, class int, n int64, rng *rand.Rand, maxChunk int, pause bool) (int64, error) {
	return writeGen(conn, newGen(seed, class), n, rng, maxChunk, pause)
}

// writeGen writes the next n bytes of g.
func writeGen(conn net.Conn, g *sgen, n int64, rng *rand.Rand, maxChunk int, pause bool) (int64, error) {
	buf := make([]byte, maxChunk)
	var done int64
	for done < n {
		sz := 1 + rng.Intn(maxChunk)
		if rng.Intn(4) == 0 {
			sz = 1 + rng.Intn(1+maxChunk/64)
		}
		if int64(sz) > n-done {
			sz = int(n - done)
		}
		g.Fill(buf[:sz])
		_ = conn.SetWriteDeadline(time.Now().Add(stallGrace))
		m, err := conn.Write(buf[:sz])
		done += int64(m)
		if err != nil {
			return done, err
		}
		if pause && rng.Intn(64) == 0 {
			time.Sleep(time.Duration(rng.Intn(3)) * time.Millisecond)
		}
	}
	return done, nil
}
