package main

import (
	"fmt"
	"math/rand"
	"sort"
	"strings"
)

// ---------------------------------------------------------------------------------------------
// generated case description (goes into the replay file)

type cliOpts struct {
	Proto string `json:"proto"` // tcp | kcp | quic | websocket
	TLS   int    `json:"tls"`   // 0 off, 1 on with frp's custom first byte, 2 on without it
	Pool  int    `json:"pool"`  // transport.poolCount as written (0 is completed to 1 by frp)
}

type connCfg struct {
	Script      string `json:"script"`                 // duplex | upclose | downclose | abort | half | idle | zero | longidle
	ConnectUser string `json:"connect_user,omitempty"` // tcpmux: proxy user sent instead of the proxy's own route user
	IdleMs      int    `json:"idle_ms,omitempty"`      // longidle: the connection stays untouched until this long after it was opened
	NUp         int64  `json:"n_up"`
	NDown       int64  `json:"n_down"`
	ClsUp       int    `json:"cls_up"`
	ClsDown     int    `json:"cls_down"`
	ChunkUp     int    `json:"chunk_up"`
	ChunkDown   int    `json:"chunk_down"`
	Pause       bool   `json:"pause"`
	Closer      string `json:"closer"`      // U | B : who closes first (duplex, abort, idle)
	AbortAfter  int64  `json:"abort_after"` // abort: bytes the closer writes before closing
	Early       bool   `json:"early"`       // tcpmux without passthrough: payload sent together with the CONNECT request
	ALPN        int    `json:"alpn"`        // https: number of ALPN names offered (sizes the ClientHello)
	PreChunk    int    `json:"pre_chunk"`   // https raw / tcpmux: chunking of the sniffed prefix (0 = one write)
	DelayMs     int    `json:"delay_ms"`
	SeedUp      uint64 `json:"seed_up"`
	SeedDown    uint64 `json:"seed_down"`
}

type proxyCfg struct {
	Kind   string    `json:"kind"` // tcp | https | httpsraw | tcpmux | stcp | xtcp
	Enc    bool      `json:"enc"`
	Comp   bool      `json:"comp"`
	VEnc   bool      `json:"venc"` // visitor side options (stcp / xtcp fallback)
	VComp  bool      `json:"vcomp"`
	Limit  string    `json:"limit"` // "" | client | server
	LKB    int       `json:"limit_kb"`
	PP     string    `json:"pp"` // "" | v1 | v2
	Greet  bool      `json:"greet"`
	Conns  []connCfg `json:"conns"`
	Serial bool      `json:"serial"` // connections one after another instead of all at once
	// tcpmux: RouteUser = routeByHTTPUser of this proxy; DomainOf = 1-based index of the proxy of the same case whose
	// custom domain this proxy shares (0: its own). A proxy with DomainOf and without RouteUser is the shared
	// (catch-all) route of that domain: it serves every proxy user that has no route of its own
	RouteUser string `json:"route_user,omitempty"`
	DomainOf  int    `json:"domain_of,omitempty"`
	// StrictRate: limited proxy driven by one unidirectional stream at a time, so the limiter never has two
	// concurrent callers and the rate bound is judged without the tolerance for the rate library's over-issue
	StrictRate bool `json:"strict_rate,omitempty"`
}

type caseCfg struct {
	Server  int        `json:"server"`
	A       cliOpts    `json:"client_a"`
	B       cliOpts    `json:"client_b"` // visitor side client (only used with stcp / xtcp proxies)
	Proxies []proxyCfg `json:"proxies"`
	// Plugins: additional proxies of client A whose local side is a client plugin (plugin.go)
	Plugins []pluginCfg `json:"plugins,omitempty"`
	// CtlLoss: client A sits behind a relay that cuts its control connection between the two exchanges of every connection
	CtlLoss bool `json:"ctl_loss,omitempty"`
	// Churn: route churn case (churn.go)
	Churn *churnCfg `json:"churn,omitempty"`
	// GateVisitor: hold frps at the visitor hand-over hook until the user has read the backend's greeting
	GateVisitor bool `json:"gate_visitor,omitempty"`
}

var (
	protos    = []string{"tcp", "kcp", "quic", "websocket"}
	kinds     = []string{"tcp", "https", "httpsraw", "tcpmux", "stcp", "xtcp"}
	limits    = []string{"", "client", "server"}
	ppVals    = []string{"", "v1", "v2"}
	poolVals  = []int{0, 1, 5}
	limitKBs  = []int{4, 32, 256, 1024}
	sizesBase = []int64{0, 1, 15, 16383, 16384, 16385, 65536, 200000}
	chunks    = []int{1, 7, 100, 1460, 4096, 16384, 65536, 262144}
)

func b2i64(b bool) int64 { return int64(b2i(b)) }

func b2i(b bool) int {
	if b {
		return 1
	}
	return 0
}

// factor values of a case for the pair-coverage bookkeeping
func (cc *caseCfg) caseFactors() []string {
	return []string{
		fmt.Sprintf("srv=%d", cc.Server), "proto=" + cc.A.Proto, fmt.Sprintf("tls=%d", cc.A.TLS), fmt.Sprintf("pool=%d", cc.A.Pool),
	}
}

func (p *proxyCfg) factors() []string {
	return []string{
		"kind=" + p.Kind, fmt.Sprintf("enc=%d", b2i(p.Enc)), fmt.Sprintf("comp=%d", b2i(p.Comp)), "lim=" + p.Limit, "pp=" + p.PP,
	}
}

func (cc *caseCfg) pairs() []string {
	var out []string
	cf := cc.caseFactors()
	for i := 0; i < len(cf); i++ {
		for j := i + 1; j < len(cf); j++ {
			out = append(out, cf[i]+"&"+cf[j])
		}
	}
	for k := range cc.Proxies {
		pf := cc.Proxies[k].factors()
		for _, a := range cf {
			for _, b := range pf {
				out = append(out, a+"&"+b)
			}
		}
		for i := 0; i < len(pf); i++ {
			for j := i + 1; j < len(pf); j++ {
				out = append(out, pf[i]+"&"+pf[j])
			}
		}
	}
	return out
}

// totalPairs is the number of value pairs over all factor pairs (minus the combinations that are
// not configurations: TLS without the custom first byte on a server whose https vhost shares the bind port).
func totalPairs() int {
	cf := []int{4, 4, 3, 3}
	pf := []int{6, 2, 2, 3, 3}
	n := 0
	for i := 0; i < len(cf); i++ {
		for j := i + 1; j < len(cf); j++ {
			n += cf[i] * cf[j]
		}
	}
	for _, a := range cf {
		for _, b := range pf {
			n += a * b
		}
	}
	for i := 0; i < len(pf); i++ {
		for j := i + 1; j < len(pf); j++ {
			n += pf[i] * pf[j]
		}
	}
	return n - 2 - 2 // (srv=1|3, tls=2), (srv=2|3, proto=kcp)
}

func genCliOpts(rng *rand.Rand) cliOpts {
	return cliOpts{Proto: protos[rng.Intn(len(protos))], TLS: rng.Intn(3), Pool: poolVals[rng.Intn(len(poolVals))]}
}

func genProxy(rng *rand.Rand, thorough bool) proxyCfg {
	p := proxyCfg{
		Kind: kinds[rng.Intn(len(kinds))], Enc: rng.Intn(2) == 0, Comp: rng.Intn(2) == 0,
		VEnc: rng.Intn(2) == 0, VComp: rng.Intn(2) == 0,
		Limit: limits[rng.Intn(len(limits))], PP: ppVals[rng.Intn(len(ppVals))],
		Greet: rng.Intn(4) == 0, Serial: rng.Intn(4) == 0,
	}
	if p.Limit != "" {
		p.LKB = limitKBs[rng.Intn(len(limitKBs))]
	}
	return p
}

// genConns fills the connection scripts of a proxy (after the proxy options are fixed).
func genConns(rng *rand.Rand, p *proxyCfg, thorough bool, passthrough bool) {
	k := 3 + rng.Intn(3)
	if thorough {
		k = 3 + rng.Intn(6)
	}
	limited := p.Limit != ""
	var budget int64
	if limited {
		// total bytes through the limiter: 3..4 x L  (=> at least 2..3 s), split over the connections
		L := int64(p.LKB) * 1024
		budget = 3*L + rng.Int63n(L)
		if k > 4 {
			k = 4
		}
	}
	// sometimes many small simultaneous connections on one proxy (pool and dispatch under pressure)
	swarm := !limited && !p.Serial && rng.Intn(6) == 0
	if swarm {
		k = 16 + rng.Intn(21)
	}
	if limited && rng.Intn(3) == 0 {
		p.StrictRate, p.Serial = true, true
	}
	scripts := []string{"duplex", "duplex", "upclose", "downclose", "abort", "half", "idle", "zero", "zero"}
	p.Conns = nil
	for i := 0; i < k; i++ {
		c := connCfg{
			Script: scripts[rng.Intn(len(scripts))], ClsUp: rng.Intn(numClasses), ClsDown: rng.Intn(numClasses),
			ChunkUp: chunks[rng.Intn(len(chunks))], ChunkDown: chunks[rng.Intn(len(chunks))], Pause: rng.Intn(3) == 0,
			Closer: []string{"U", "B"}[rng.Intn(2)], ALPN: []int{0, 1, 3, 40, 200}[rng.Intn(5)],
			PreChunk: []int{0, 0, 1, 3, 64}[rng.Intn(5)], DelayMs: rng.Intn(30),
			SeedUp: rng.Uint64(), SeedDown: rng.Uint64(),
		}
		if i == 0 {
			c.Script = "duplex"
		}
		if limited && p.LKB <= 32 && c.ALPN > 3 {
			c.ALPN = 3 // a large ClientHello through a slow limiter only costs wall time
		}
		if i == 1 && rng.Intn(2) == 0 {
			c.Script = []string{"upclose", "downclose"}[rng.Intn(2)]
		}
		if c.Script == "zero" && (p.Kind == "https" || p.Kind == "httpsraw" || p.Kind == "tcpmux") {
			c.Script = "idle" // a connection without a first message cannot be routed by these kinds
		}
		if limited && (c.Script == "abort" || c.Script == "zero" || c.Script == "idle") {
			c.Script = []string{"duplex", "upclose", "downclose"}[rng.Intn(3)]
		}
		if p.StrictRate && c.Script != "upclose" && c.Script != "downclose" {
			c.Script = []string{"upclose", "downclose"}[rng.Intn(2)]
		}
		pick := func() int64 {
			n := sizesBase[rng.Intn(len(sizesBase))]
			switch r := rng.Intn(20); {
			case r == 0:
				n = 1 << 20
			case r == 1 && thorough:
				n = 4 << 20
			case r < 6:
				n = rng.Int63n(70000)
			}
			return n
		}
		c.NUp, c.NDown = pick(), pick()
		if swarm {
			c.NUp, c.NDown = rng.Int63n(2048), rng.Int63n(2048)
			if c.Script == "abort" {
				c.Script = "duplex"
			}
		}
		if limited {
			share := budget / int64(k)
			c.NUp = rng.Int63n(share + 1)
			c.NDown = share - c.NUp
			if rng.Intn(4) == 0 { // everything in one direction
				if rng.Intn(2) == 0 {
					c.NUp, c.NDown = share, 0
				} else {
					c.NUp, c.NDown = 0, share
				}
			}
		}
		switch c.Script {
		case "upclose":
			c.NUp, c.NDown = c.NUp+b2i64(limited)*c.NDown, 0
		case "downclose":
			c.NUp, c.NDown = 0, c.NDown+b2i64(limited)*c.NUp
		case "abort":
			c.NUp, c.NDown = 300000+rng.Int63n(1<<20), 300000+rng.Int63n(1<<20)
			c.AbortAfter = rng.Int63n(250000)
		case "idle", "zero":
			c.NUp, c.NDown = 0, 0
		}
		// one byte per write only for short streams
		if c.ChunkUp < 8 && c.NUp > 6000 {
			c.ChunkUp = 1460
		}
		if c.ChunkDown < 8 && c.NDown > 6000 {
			c.ChunkDown = 1460
		}
		if p.Kind == "tcpmux" && !passthrough {
			c.Early = rng.Intn(3) == 0
		}
		p.Conns = append(p.Conns, c)
	}
}

// genCases builds the whole case list up front (deterministic in the seed): each case is the best of
// a few PRNG candidates with respect to option pairs not yet covered (greedy all-pairs), which makes the
// first few dozen cases a covering array over the factors and the rest PRNG extras.
func genCases(n int, thorough bool, rngFor func(i int) *rand.Rand, servers []*srvInfo) ([]*caseCfg, int) {
	covered := map[string]bool{}
	var out []*caseCfg
	for i := 0; i < n; i++ {
		rng := rngFor(i)
		var best *caseCfg
		bestScore := -1
		for cand := 0; cand < 40; cand++ {
			cc := &caseCfg{Server: rng.Intn(len(servers)), A: genCliOpts(rng), B: genCliOpts(rng)}
			sv := servers[cc.Server]
			if sv.shared {
				// with the https vhost on the bind port a TLS ClientHello (0x16) on that port belongs to the vhost
				// muxer, so frpc must announce TLS with the custom first byte
				if cc.A.TLS == 2 {
					cc.A.TLS = 1
				}
				if cc.B.TLS == 2 {
					cc.B.TLS = 1
				}
			}
			if !sv.tcpMux {
				// kcp has no end-of-stream signal of its own; without stream multiplexing a close cannot cross it.
				// That combination is driven once, by the fixed extra case (kcpNoMuxCase), not by the generated ones.
				others := []string{"tcp", "quic", "websocket"}
				if cc.A.Proto == "kcp" {
					cc.A.Proto = others[rng.Intn(3)]
				}
				if cc.B.Proto == "kcp" {
					cc.B.Proto = others[rng.Intn(3)]
				}
			}
			np := 2 + rng.Intn(2)
			for j := 0; j < np; j++ {
				cc.Proxies = append(cc.Proxies, genProxy(rng, thorough))
			}
			score := 0
			seen := map[string]bool{}
			for _, pr := range cc.pairs() {
				if !covered[pr] && !seen[pr] {
					seen[pr] = true
					score++
				}
			}
			if score > bestScore {
				best, bestScore = cc, score
			}
		}
		// at most one slow (small limit) proxy per case keeps the wall time of a case bounded
		for _, pr := range best.pairs() {
			covered[pr] = true
		}
		// tcpmux: one custom domain served by a user-routed proxy and by a shared proxy without routeByHTTPUser
		var tm []int
		for j := range best.Proxies {
			if best.Proxies[j].Kind == "tcpmux" {
				tm = append(tm, j)
			}
		}
		switch {
		case len(tm) >= 2:
			best.Proxies[tm[0]].RouteUser = "alice"
			best.Proxies[tm[1]].DomainOf = tm[0] + 1
		case len(tm) == 1 && rng.Intn(2) == 0:
			shared := genProxy(rng, thorough)
			shared.Kind, shared.Limit, shared.LKB, shared.DomainOf = "tcpmux", "", 0, tm[0]+1
			best.Proxies[tm[0]].RouteUser = "alice"
			best.Proxies = append(best.Proxies, shared)
		}
		for j := range best.Proxies {
			genConns(rng, &best.Proxies[j], thorough, servers[best.Server].passthrough)
			if p := &best.Proxies[j]; p.DomainOf > 0 && p.RouteUser == "" {
				for k := range p.Conns {
					if k%2 == 1 {
						p.Conns[k].ConnectUser = "nobody" // some other proxy user: served by the shared route as well
					}
				}
			}
		}
		if rng.Intn(8) == 0 {
			// some generated cases also get tunnels that end in a client plugin
			for k, np := 0, 1+rng.Intn(2); k < np; k++ {
				best.Plugins = append(best.Plugins, pluginCfg{
					Plugin: []string{"http2http", "http_proxy", "static_file"}[rng.Intn(3)], Type: []string{"tcp", "stcp"}[rng.Intn(2)],
					Enc: rng.Intn(2) == 0, Comp: rng.Intn(3) != 0, Conns: 2 + rng.Intn(4), Rounds: 1 + rng.Intn(3), Parts: 1 + rng.Intn(8),
					PartBytes: 1 + rng.Intn(20000), PauseMs: 20 + rng.Intn(80), Cls: rng.Intn(numClasses), Seed: rng.Uint64() >> 1,
				})
				if pc := &best.Plugins[len(best.Plugins)-1]; pc.Enc || pc.Comp {
					pc.Rounds = 1 // see pluginCase: keep-alive over layered plugin tunnels is C02's listed finding
				}
			}
		}
		out = append(out, best)
	}
	return out, len(covered)
}

func (cc *caseCfg) signature() string {
	var sb strings.Builder
	fmt.Fprintf(&sb, "s%d|%v|%v|%v|%v", cc.Server, cc.A, cc.B, cc.Plugins, cc.GateVisitor || cc.CtlLoss)
	if cc.Churn != nil {
		fmt.Fprintf(&sb, "|churn%v", *cc.Churn)
	}
	for _, p := range cc.Proxies {
		fmt.Fprintf(&sb, "|%s,%v,%v,%v,%v,%s%d,%s,%v,%v", p.Kind, p.Enc, p.Comp, p.VEnc, p.VComp, p.Limit, p.LKB, p.PP, p.Greet, p.StrictRate)
		fmt.Fprintf(&sb, ",%s,%d", p.RouteUser, p.DomainOf)
		var cs []string
		for _, c := range p.Conns {
			cs = append(cs, fmt.Sprintf("%s:%d:%d:%d:%d:%d:%d:%s:%v", c.Script, c.NUp, c.NDown, c.ClsUp, c.ClsDown, c.ChunkUp, c.ChunkDown, c.Closer, c.Early))
		}
		sort.Strings(cs)
		sb.WriteString(strings.Join(cs, ";"))
	}
	return sb.String()
}

// ---------------------------------------------------------------------------------------------
// configuration documents

func commonTOML(sv *srvInfo, o cliOpts, stunPort int) string {
	port := sv.bindPort
	switch o.Proto {
	case "kcp":
		port = sv.kcpPort
	case "quic":
		port = sv.quicPort
	}
	var sb strings.Builder
	fmt.Fprintf(&sb, "serverAddr = \"127.0.0.1\"\nserverPort = %d\nauth.token = %q\nloginFailExit = false\n", port, token)
	fmt.Fprintf(&sb, "natHoleStunServer = \"127.0.0.1:%d\"\n", stunPort)
	fmt.Fprintf(&sb, "transport.protocol = %q\ntransport.tcpMux = %v\ntransport.poolCount = %d\n", o.Proto, sv.tcpMux, o.Pool)
	fmt.Fprintf(&sb, "transport.tls.enable = %v\n", o.TLS != 0)
	fmt.Fprintf(&sb, "transport.tls.disableCustomTLSFirstByte = %v\n", o.TLS == 2)
	return sb.String()
}

func proxyTOML(name string, p *proxyCfg, localPort, remotePort int, domain string) string {
	var sb strings.Builder
	typ := p.Kind
	switch p.Kind {
	case "httpsraw":
		typ = "https"
	case "xtcp":
		typ = "stcp" // the stcp proxy behind the fallback; the xtcp proxy itself is added by the caller
	}
	fmt.Fprintf(&sb, "\n[[proxies]]\nname = %q\ntype = %q\nlocalIP = \"127.0.0.1\"\nlocalPort = %d\n", name, typ, localPort)
	switch typ {
	case "tcp":
		fmt.Fprintf(&sb, "remotePort = %d\n", remotePort)
	case "https":
		fmt.Fprintf(&sb, "customDomains = [%q]\n", domain)
	case "tcpmux":
		fmt.Fprintf(&sb, "multiplexer = \"httpconnect\"\ncustomDomains = [%q]\n", domain)
		if p.RouteUser != "" {
			fmt.Fprintf(&sb, "routeByHTTPUser = %q\n", p.RouteUser)
		}
	case "stcp":
		fmt.Fprintf(&sb, "secretKey = %q\nallowUsers = [\"*\"]\n", "sk-"+name)
	}
	fmt.Fprintf(&sb, "transport.useEncryption = %v\ntransport.useCompression = %v\n", p.Enc, p.Comp)
	if p.Limit != "" {
		fmt.Fprintf(&sb, "transport.bandwidthLimit = \"%dKB\"\ntransport.bandwidthLimitMode = %q\n", p.LKB, p.Limit)
	}
	if p.PP != "" {
		fmt.Fprintf(&sb, "transport.proxyProtocolVersion = %q\n", p.PP)
	}
	return sb.String()
}

func xtcpProxyTOML(name string, localPort int) string {
	return fmt.Sprintf("\n[[proxies]]\nname = %q\ntype = \"xtcp\"\nlocalIP = \"127.0.0.1\"\nlocalPort = %d\nsecretKey = %q\nallowUsers = [\"*\"]\n",
		name, localPort, "sk-"+name)
}

func visitorTOML(name, typ, serverName string, bindPort int, p *proxyCfg, fallbackTo string) string {
	var sb strings.Builder
	fmt.Fprintf(&sb, "\n[[visitors]]\nname = %q\ntype = %q\nserverName = %q\nsecretKey = %q\nbindAddr = \"127.0.0.1\"\nbindPort = %d\n",
		name, typ, serverName, "sk-"+serverName, bindPort)
	fmt.Fprintf(&sb, "transport.useEncryption = %v\ntransport.useCompression = %v\n", p.VEnc, p.VComp)
	if fallbackTo != "" {
		fmt.Fprintf(&sb, "fallbackTo = %q\nfallbackTimeoutMs = 150\n", fallbackTo)
	}
	return sb.String()
}
