package main

import (
	"bytes"
	"crypto/tls"
	"encoding/base64"
	"encoding/binary"
	"fmt"
	"io"
	"math/rand"
	"net"
	"path/filepath"
	"sync"
	"time"

	"verif/h"
)

var backendTLS *tls.Config

func initTLS() error {
	ca, err := h.NewCA(filepath.Join(h.RunDir(prop), "tls"), "c01")
	if err != nil {
		return err
	}
	cf, kf, err := ca.Issue("backend", "*.c01.test", "127.0.0.1")
	if err != nil {
		return err
	}
	cert, err := tls.LoadX509KeyPair(cf, kf)
	if err != nil {
		return err
	}
	// no session tickets: a backend that is "only reading" must not write post-handshake messages
	backendTLS = &tls.Config{Certificates: []tls.Certificate{cert}, SessionTicketsDisabled: true}
	return nil
}

func alpnList(n int) []string {
	var out []string
	for i := 0; i < n; i++ {
		out = append(out, fmt.Sprintf("verif-proto-%04d-xxxxxxxxxxxxxxxx", i))
	}
	return out
}

// recordedClientHello produces a genuine TLS ClientHello record for the given server name.
func recordedClientHello(sni string, alpn int) ([]byte, error) {
	c1, c2 := net.Pipe()
	defer c1.Close()
	defer c2.Close()
	go func() {
		_ = tls.Client(c1, &tls.Config{ServerName: sni, InsecureSkipVerify: true, NextProtos: alpnList(alpn)}).Handshake()
	}()
	_ = c2.SetReadDeadline(time.Now().Add(10 * time.Second))
	hd := make([]byte, 5)
	if _, err := io.ReadFull(c2, hd); err != nil {
		return nil, err
	}
	body := make([]byte, int(binary.BigEndian.Uint16(hd[3:5])))
	if _, err := io.ReadFull(c2, body); err != nil {
		return nil, err
	}
	return append(hd, body...), nil
}

func writeChunked(conn net.Conn, p []byte, chunk int) error {
	if chunk <= 0 {
		_, err := writeAll(conn, p)
		return err
	}
	for len(p) > 0 {
		n := chunk
		if n > len(p) {
			n = len(p)
		}
		if _, err := writeAll(conn, p[:n]); err != nil {
			return err
		}
		p = p[n:]
	}
	return nil
}

// userConn plays the user side of one connection.
func userConn(pl *plan) {
	cs, px, cfg := pl.cs, pl.px, pl.cfg
	defer close(pl.uDone)
	var conn net.Conn
	var connMu sync.Mutex
	var once sync.Once
	closeConn := func() {
		once.Do(func() {
			connMu.Lock()
			cn := conn
			connMu.Unlock()
			if cn != nil {
				cn.Close()
			}
			close(pl.uClosed)
		})
	}
	var gate *h.Gate
	if px.gated {
		gate = h.NewGate(visitorHandoverHook, px.name, 1)
		defer func() { px.gateHits.Add(gate.Hits.Load()); gate.Release() }()
	}
	raw, err := net.DialTimeout("tcp", px.dialAddr, 10*time.Second)
	if err != nil {
		cs.run.Inconclusive("user dial failed")
		cs.c.Ev("dial-failed", "addr", px.dialAddr, "err", err.Error())
		pl.failed.Store(true)
		closeConn()
		return
	}
	dialed := time.Now()
	conn = raw
	defer closeConn()
	pl.setUserSide(nil, raw.LocalAddr().String(), raw.RemoteAddr().String())
	if cfg.Script == "abort" {
		px.abortInFlight.Add(1)
		defer func() {
			// keep the marker until the backend side of this connection (if any) has ended
			go func() { waitBackend(pl, false); px.abortInFlight.Add(-1) }()
		}()
	}
	cs.run.Count("user_connections", 1)
	onRead := func(n int) { px.deliveredAtUser(n) }

	// what the proxy kind needs in front of the payload
	var early []byte // tcpmux without passthrough, early variant: payload written together with the CONNECT request
	switch px.cfg.Kind {
	case "https":
		tc := tls.Client(raw, &tls.Config{ServerName: px.host(), InsecureSkipVerify: true, NextProtos: alpnList(cfg.ALPN)})
		_ = raw.SetDeadline(time.Now().Add(stallGrace))
		if err := tc.Handshake(); err != nil {
			if pl.mayRefuse {
				cs.run.Count("removed_route_refused", 1)
				pl.failed.Store(true)
				return
			}
			if pl.afterDup {
				cs.fail(pl, "route-lost-after-refused-duplicate-registration", "proxy %s is running and a duplicate registration for its route was refused; a TLS connection to its endpoint now fails: %v", px.name, err)
				return
			}
			cs.fail(pl, "https-tls-handshake-failed", "proxy %s: TLS handshake with the backend through the https proxy failed: %v", px.name, err)
			return
		}
		_ = raw.SetDeadline(time.Time{})
		connMu.Lock()
		conn = tc
		connMu.Unlock()
	case "httpsraw":
		hello, err := recordedClientHello(px.host(), cfg.ALPN)
		if err != nil {
			cs.run.Inconclusive("client hello generation failed")
			pl.failed.Store(true)
			return
		}
		pl.setUserSide(hello, "", "")
		if err := writeChunked(conn, hello, cfg.PreChunk); err != nil {
			cs.failUnlessPeerFailed(pl, "unprompted-close", "proxy %s: writing the ClientHello failed: %v", px.name, err)
			return
		}
	case "tcpmux":
		auth, proxyUser := "", px.routeUser
		if cfg.ConnectUser != "" {
			proxyUser = cfg.ConnectUser
		}
		if proxyUser != "" {
			auth = "Proxy-Authorization: Basic " + base64.StdEncoding.EncodeToString([]byte(proxyUser+":x")) + "\r\n"
		}
		req := []byte(fmt.Sprintf("CONNECT %s:443 HTTP/1.1\r\nHost: %s:443\r\n%sUser-Agent: verif-c01\r\n\r\n", px.host(), px.host(), auth))
		if cs.sv.passthrough {
			pl.setUserSide(req, "", "")
			if err := writeChunked(conn, req, cfg.PreChunk); err != nil {
				cs.failUnlessPeerFailed(pl, "unprompted-close", "proxy %s: writing the CONNECT request failed: %v", px.name, err)
				return
			}
		} else {
			if cfg.Early && !px.cfg.Greet {
				// the request and the first payload bytes leave in one write
				early = makeHeader(pl.nonce)
				px.earlyInFlight.Add(1)
				px.early.Store(pl, true)
				pl.earlySent.Store(true)
				defer px.earlyInFlight.Add(-1)
				if _, err := writeAll(conn, append(append([]byte{}, req...), early...)); err != nil {
					cs.failUnlessPeerFailed(pl, "unprompted-close", "proxy %s: writing the CONNECT request failed: %v", px.name, err)
					return
				}
			} else if err := writeChunked(conn, req, cfg.PreChunk); err != nil {
				cs.failUnlessPeerFailed(pl, "unprompted-close", "proxy %s: writing the CONNECT request failed: %v", px.name, err)
				return
			}
			// the muxer answers the CONNECT itself
			var resp []byte
			one := make([]byte, 1)
			_ = conn.SetReadDeadline(time.Now().Add(stallGrace))
			for !bytes.HasSuffix(resp, []byte("\r\n\r\n")) && len(resp) < 4096 {
				if _, err := conn.Read(one); err != nil {
					cs.failUnlessPeerFailed(pl, "tcpmux-connect-not-answered", "proxy %s: no complete response to CONNECT (%q): %v", px.name, resp, err)
					return
				}
				resp = append(resp, one[0])
			}
			if !bytes.HasPrefix(resp, []byte("HTTP/1.1 200")) && pl.mayRefuse {
				cs.run.Count("removed_route_refused", 1)
				pl.failed.Store(true)
				return
			}
			if !bytes.HasPrefix(resp, []byte("HTTP/1.1 200")) && pl.afterDup {
				cs.fail(pl, "route-lost-after-refused-duplicate-registration", "proxy %s is running and a duplicate registration for its route was refused; CONNECT to its endpoint is now answered %q", px.name, resp)
				return
			}
			if !bytes.HasPrefix(resp, []byte("HTTP/1.1 200")) {
				cs.fail(pl, "tcpmux-connect-not-answered", "proxy %s: CONNECT answered with %q", px.name, resp)
				return
			}
		}
	}

	if px.cfg.Greet {
		g := make([]byte, greetLen)
		_ = conn.SetReadDeadline(time.Now().Add(stallGrace))
		_, err := io.ReadFull(conn, g)
		if gate != nil {
			gate.Release() // event-driven: the user has its greeting, or has seen the connection fail
		}
		if err != nil {
			key := "greeting-not-delivered"
			if (px.cfg.Kind == "stcp" || px.cfg.Kind == "xtcp") && !isTimeout(err) {
				// the visitor connection was dropped before its first byte: frpc could not read NewVisitorConnResp
				key = "visitor-connection-dropped-when-backend-speaks-first"
			}
			cs.failUnlessPeerFailed(pl, key, "proxy %s: the backend speaks first, the user received no greeting: %v (gated hand-over: %v)", px.name, err, gate != nil)
			return
		}
		onRead(greetLen)
		if string(g[:4]) != "C01G" {
			cs.fail(pl, "stream-altered-down", "proxy %s: greeting garbled: %x", px.name, g)
			return
		}
		if id := unpadID(g[4:]); !pl.acceptsBackend(id) {
			pl.noteWrong(id)
			cs.fail(pl, "cross-wired", "connection made to proxy %s (backend %s) was greeted by backend %s", px.name, px.be.id, id)
			return
		}
		cs.run.Count("greetings_checked", 1)
	}

	if cfg.Script == "zero" {
		time.Sleep(time.Duration(cfg.DelayMs) * time.Millisecond)
		pl.attached.Store(true) // nothing to attach; counted through the backend's accept ledger
		return
	}

	if early == nil {
		if _, err := writeAll(conn, makeHeader(pl.nonce)); err != nil {
			cs.failUnlessPeerFailed(pl, "unprompted-close", "proxy %s: user's first write failed: %v", px.name, err)
			return
		}
	}

	wrng := rand.New(rand.NewSource(int64(cfg.SeedUp)))
	ckDown := newChecker(cfg.SeedDown, cfg.ClsDown)
	readIdent := func(tolerant bool) bool {
		id := make([]byte, identLen)
		_ = conn.SetReadDeadline(time.Now().Add(stallGrace))
		n, err := io.ReadFull(conn, id)
		onRead(n)
		if err != nil {
			if tolerant {
				want := makeIdent(px.be.id, pl.nonce)
				if pl.altPx != nil && n >= 28 && unpadID(id[4:28]) == pl.altPx.be.id {
					want = makeIdent(pl.altPx.be.id, pl.nonce)
				}
				if !bytes.Equal(id[:n], want[:n]) && pl.altPx == nil {
					cs.fail(pl, "stream-altered-down", "proxy %s: partial backend answer %x is not a prefix of what the backend wrote", px.name, id[:n])
				}
				return false
			}
			if isTimeout(err) {
				cs.failUnlessPeerFailed(pl, "delivery-stalled", "proxy %s: user wrote its first message, no answer from the backend for %v (%d of %d bytes)", px.name, stallGrace, n, identLen)
			} else {
				cs.failUnlessPeerFailed(pl, "unprompted-close", "proxy %s: connection ended (%v) after %d of %d answer bytes although neither endpoint had closed", px.name, err, n, identLen)
			}
			return false
		}
		if string(id[:4]) != "C01I" || !bytes.Equal(id[28:], pl.nonce[:]) {
			cs.fail(pl, "stream-altered-down", "proxy %s: backend answer garbled or for another connection: %x", px.name, id)
			return false
		}
		if got := unpadID(id[4:28]); !pl.acceptsBackend(got) {
			pl.noteWrong(got)
			cs.fail(pl, "cross-wired", "connection made to proxy %s (backend %s) was answered by backend %s", px.name, px.be.id, got)
			return false
		}
		return true
	}

	switch cfg.Script {
	case "duplex":
		wdone := make(chan error, 1)
		go func() {
			_, err := writeStream(conn, cfg.SeedUp, cfg.ClsUp, cfg.NUp, wrng, cfg.ChunkUp, cfg.Pause)
			wdone <- err
		}()
		ok := readIdent(false)
		var res readRes
		if ok {
			res = readStream(conn, ckDown, cfg.NDown, onRead)
			pl.uDown = res
		} else {
			closeConn()
		}
		werr := <-wdone
		if !ok || !cs.judgeRead(pl, "down", res, cfg.NDown, false) {
			return
		}
		if werr != nil {
			cs.failUnlessPeerFailed(pl, "unprompted-close", "proxy %s: user's write failed although neither endpoint had closed: %v", px.name, werr)
			return
		}
		close(pl.uGotAll)
		if cfg.Closer == "U" {
			if !waitCh(pl.bGotAll, pl.bDone, 2*stallGrace) {
				return
			}
			closeConn()
			return
		}
		userExpectClose(pl, conn)
	case "upclose":
		if _, err := writeStream(conn, cfg.SeedUp, cfg.ClsUp, cfg.NUp, wrng, cfg.ChunkUp, cfg.Pause); err != nil {
			cs.failUnlessPeerFailed(pl, "unprompted-close", "proxy %s: user's write failed although the backend is only reading: %v", px.name, err)
			return
		}
		closeConn() // right after the last write
		waitBackend(pl, true)
	case "half":
		if _, err := writeStream(conn, cfg.SeedUp, cfg.ClsUp, cfg.NUp, wrng, cfg.ChunkUp, cfg.Pause); err != nil {
			cs.failUnlessPeerFailed(pl, "unprompted-close", "proxy %s: user's write failed although the backend is only reading: %v", px.name, err)
			return
		}
		switch t := conn.(type) {
		case *net.TCPConn:
			_ = t.CloseWrite()
		case *tls.Conn:
			_ = t.CloseWrite()
		}
		if readIdent(true) {
			res := readStream(conn, ckDown, -1, onRead)
			pl.uDown = res
			if res.mismatch != nil {
				cs.fail(pl, "stream-altered-down", "proxy %s (after half-close): %v", px.name, res.mismatch)
				return
			}
			if res.Stalled {
				cs.failUnlessPeerFailed(pl, cs.closeKey(pl, "down"), "proxy %s: user half-closed, backend finished and closed; the user's connection saw no end-of-stream for %v", px.name, stallGrace)
				return
			}
		}
		waitBackend(pl, false)
	case "downclose":
		if !readIdent(false) {
			return
		}
		res := readStream(conn, ckDown, -1, onRead)
		pl.uDown = res
		if !cs.judgeRead(pl, "down", res, cfg.NDown, true) {
			return
		}
	case "abort":
		wdone := make(chan struct{})
		go func() {
			defer close(wdone)
			n := cfg.NUp
			if cfg.Closer == "U" && cfg.AbortAfter < n {
				n = cfg.AbortAfter
			}
			_, _ = writeStream(conn, cfg.SeedUp, cfg.ClsUp, n, wrng, cfg.ChunkUp, cfg.Pause)
			if cfg.Closer == "U" {
				closeConn()
			}
		}()
		bClosedByPlan := cfg.Closer == "B"
		if readIdent(true) {
			res := readStream(conn, ckDown, -1, onRead)
			pl.uDown = res
			if res.mismatch != nil {
				cs.fail(pl, "stream-altered-down", "proxy %s (abort script): %v", px.name, res.mismatch)
			} else if res.Stalled && bClosedByPlan {
				select {
				case <-pl.bDone:
					cs.failUnlessPeerFailed(pl, cs.closeKey(pl, "down"), "proxy %s: backend closed mid-stream, the user's connection saw neither data nor end-of-stream for %v", px.name, stallGrace)
				default:
				}
			}
			cs.run.Count("bytes_verified_down", res.N)
		}
		<-wdone
		waitBackend(pl, false)
	case "longidle":
		up1, down1 := cfg.NUp/2, cfg.NDown/2
		gUp := newGen(cfg.SeedUp, cfg.ClsUp)
		for phase := 1; phase <= 2; phase++ {
			nUp, wantDown := up1, down1
			if phase == 2 {
				// leave the connection untouched until IdleMs after it was opened (longer than any timer frps armed on it)
				if !waitCh(pl.bGotAll, pl.bDone, 2*stallGrace) {
					return
				}
				if pl.gate2 != nil {
					// the case decides when the second exchange starts (after it has cut and restored something)
					if !waitCh(pl.gate2, nil, 4*stallGrace) {
						return
					}
				} else if d := time.Until(dialed.Add(time.Duration(cfg.IdleMs) * time.Millisecond)); d > 0 {
					time.Sleep(d)
				}
				pl.inPhase2.Store(true)
				close(pl.phase2)
				nUp, wantDown = cfg.NUp-up1, cfg.NDown
			}
			wdone := make(chan error, 1)
			go func() {
				_, err := writeGen(conn, gUp, nUp, wrng, cfg.ChunkUp, false)
				wdone <- err
			}()
			ok := phase == 2 || readIdent(false)
			var res readRes
			if ok {
				res = readStream(conn, ckDown, wantDown, onRead)
				if phase == 2 {
					res.Base = down1
				}
				pl.uDown = res
			} else {
				closeConn()
			}
			werr := <-wdone
			if !ok || !cs.judgeRead(pl, "down", res, wantDown, false) {
				return
			}
			if werr != nil {
				cs.failUnlessPeerFailed(pl, "unprompted-close", "proxy %s: user's write failed although neither endpoint had closed: %v", px.name, werr)
				return
			}
			if phase == 1 {
				close(pl.uGotAll)
			} else {
				if pl.ctlLoss {
					cs.run.Count("established_tunnels_alive_after_control_loss", 1)
					cs.run.Count("control_loss_survived_"+px.cfg.Kind, 1)
				} else {
					cs.run.Count("long_lived_connections_checked_after_idle", 1)
					cs.run.Count("long_lived_"+px.cfg.Kind, 1)
				}
			}
		}
		if !waitCh(pl.bGot2, pl.bDone, 2*stallGrace) {
			return
		}
		closeConn()
		waitBackend(pl, false)
	case "idle":
		if !readIdent(false) {
			return
		}
		close(pl.uGotAll)
		if cfg.Closer == "U" {
			time.Sleep(time.Duration(cfg.DelayMs*10) * time.Millisecond)
			closeConn()
			waitBackend(pl, false)
			return
		}
		userExpectClose(pl, conn)
	}
}

// userExpectClose: everything has been exchanged and the backend closes; the user must see end-of-stream.
func userExpectClose(pl *plan, conn net.Conn) {
	cs := pl.cs
	if !waitBackend(pl, false) {
		return
	}
	_ = conn.SetReadDeadline(time.Now().Add(closeGrace))
	buf := make([]byte, 64)
	n, err := conn.Read(buf)
	switch {
	case n > 0:
		cs.fail(pl, "bytes-injected", "proxy %s: user received %d bytes (%x) after the complete stream, the backend wrote nothing more", pl.px.name, n, buf[:n])
	case err != nil && isTimeout(err):
		cs.failUnlessPeerFailed(pl, cs.closeKey(pl, "down"), "proxy %s: backend closed its connection, user connection still open %v later", pl.px.name, closeGrace)
	default:
		cs.run.Count("closes_propagated_to_user", 1)
	}
}

// waitBackend waits until the backend side of the connection has ended. When the first message has not
// reached the backend closeGrace after the user finished (orderly close) that is a truncation on reliable paths.
func waitBackend(pl *plan, orderly bool) bool {
	deadline := time.Now().Add(closeGrace)
	for !pl.attached.Load() && !pl.failed.Load() {
		if time.Now().After(deadline) {
			if orderly {
				if pl.px.reliable {
					pl.cs.failUnlessPeerFailed(pl, "orderly-close-truncated-up", "proxy %s: user wrote its first message and %d bytes and closed; %v later the backend has not received the first message", pl.px.name, pl.cfg.NUp, closeGrace)
				} else {
					pl.cs.run.Count("kcp_orderly_close_truncated", 1)
				}
			}
			return false
		}
		time.Sleep(5 * time.Millisecond)
	}
	if !pl.attached.Load() {
		return false
	}
	return waitCh(pl.bDone, nil, 3*stallGrace)
}

// noteWrong remembers which proxy's backend answered a cross-wired connection.
func (pl *plan) noteWrong(backendID string) {
	for _, px := range pl.cs.pxs {
		if px.be != nil && px.be.id == backendID {
			pl.wrong.Store(px)
		}
	}
}
