package main

import (
	"bytes"
	"encoding/binary"
	"fmt"
)

// Payload classes of the generated streams.
const (
	clsRandom = iota // incompressible
	clsZeros         // long zero runs with rare non-zero bytes
	clsText          // repetitive text
	clsMixed         // alternating blocks of the three
	numClasses
)

var classNames = []string{"random", "zeros", "text", "mixed"}

var textUnit = []byte("the quick brown fox jumps over the lazy dog 0123456789\r\n")

// sgen deterministically generates a byte stream from (seed, class). The stream does not depend on
// how Fill calls are chunked. It is the harness's own generator (independent of the code under test).
type sgen struct {
	s     uint64
	class int
	// random: buffered word
	word  uint64
	wleft int
	// zeros
	zleft int
	// text
	toff int
	// mixed
	mode  int
	mleft int
}

func newGen(seed uint64, class int) *sgen {
	return &sgen{s: seed*0x9E3779B97F4A7C15 + 0x1234567, class: class}
}

func (g *sgen) next() uint64 {
	g.s += 0x9E3779B97F4A7C15
	z := g.s
	z = (z ^ (z >> 30)) * 0xBF58476D1CE4E5B9
	z = (z ^ (z >> 27)) * 0x94D049BB133111EB
	return z ^ (z >> 31)
}

func (g *sgen) fillRandom(p []byte) {
	i := 0
	for i < len(p) && g.wleft > 0 {
		p[i] = byte(g.word)
		g.word >>= 8
		g.wleft--
		i++
	}
	for ; i+8 <= len(p); i += 8 {
		binary.LittleEndian.PutUint64(p[i:], g.next())
	}
	for i < len(p) {
		if g.wleft == 0 {
			g.word = g.next()
			g.wleft = 8
		}
		p[i] = byte(g.word)
		g.word >>= 8
		g.wleft--
		i++
	}
}

func (g *sgen) fillZeros(p []byte) {
	i := 0
	for i < len(p) {
		if g.zleft == 0 {
			// one non-zero byte, then a new run
			v := g.next()
			p[i] = byte(1 + v%255)
			g.zleft = 1 + int((v>>8)%8192)
			i++
			continue
		}
		n := g.zleft
		if n > len(p)-i {
			n = len(p) - i
		}
		clear(p[i : i+n])
		g.zleft -= n
		i += n
	}
}

func (g *sgen) fillText(p []byte) {
	i := 0
	for i < len(p) {
		n := copy(p[i:], textUnit[g.toff:])
		g.toff = (g.toff + n) % len(textUnit)
		i += n
	}
}

// Fill writes the next len(p) bytes of the stream into p.
func (g *sgen) Fill(p []byte) {
	switch g.class {
	case clsRandom:
		g.fillRandom(p)
	case clsZeros:
		g.fillZeros(p)
	case clsText:
		g.fillText(p)
	default:
		i := 0
		for i < len(p) {
			if g.mleft == 0 {
				v := g.next()
				g.mode = int(v % 3)
				g.mleft = 1 + int((v>>8)%8192)
			}
			n := g.mleft
			if n > len(p)-i {
				n = len(p) - i
			}
			switch g.mode {
			case clsRandom:
				g.fillRandom(p[i : i+n])
			case clsZeros:
				g.fillZeros(p[i : i+n])
			default:
				g.fillText(p[i : i+n])
			}
			g.mleft -= n
			i += n
		}
	}
}

// checker verifies online that what is read is a prefix of the generated stream.
type checker struct {
	g   *sgen
	N   int64
	Err error
	buf []byte
}

func newChecker(seed uint64, class int) *checker { return &checker{g: newGen(seed, class)} }

func (c *checker) Check(p []byte) error {
	if c.Err != nil {
		return c.Err
	}
	if cap(c.buf) < len(p) {
		c.buf = make([]byte, len(p))
	}
	exp := c.buf[:len(p)]
	c.g.Fill(exp)
	if !bytes.Equal(exp, p) {
		i := 0
		for i < len(p) && p[i] == exp[i] {
			i++
		}
		c.Err = fmt.Errorf("differs at stream offset %d: got 0x%02x want 0x%02x (read of %d bytes)", c.N+int64(i), p[i], exp[i], len(p))
		return c.Err
	}
	c.N += int64(len(p))
	return nil
}
