package main

import (
	"bufio"
	"fmt"
	"io"
	"net"
	"net/http"
	"os"
	"path/filepath"
	"strconv"
	"strings"
	"sync"
	"sync/atomic"
	"time"
)

// Client-plugin tunnels. A tcp-class proxy whose local side is a client plugin (http2http, http_proxy,
// static_file) hands the work connection to the plugin's own http.Server and returns while the tunnel lives on.
// The harness downloads PRNG bodies through such tunnels (slowly streamed, several requests per keep-alive
// connection) while many short compressed connections of the case's ordinary proxies start and end: every tunnel
// must still carry exactly its own bytes (stream monitor on every body, identity through the origin's id header).

type pluginCfg struct {
	Plugin    string `json:"plugin"` // http2http | http_proxy | static_file
	Type      string `json:"type"`   // tcp | stcp
	Enc       bool   `json:"enc"`
	Comp      bool   `json:"comp"`
	Conns     int    `json:"conns"`      // keep-alive connections
	Rounds    int    `json:"rounds"`     // requests per connection
	Parts     int    `json:"parts"`      // response body is written in this many pieces ...
	PartBytes int    `json:"part_bytes"` // ... of this size ...
	PauseMs   int    `json:"pause_ms"`   // ... this far apart (streaming origin only)
	Cls       int    `json:"cls"`
	Seed      uint64 `json:"seed"`
}

type pluginRT struct {
	cfg      *pluginCfg
	name     string
	dialAddr string
}

// origin is the harness's HTTP service behind http2http / http_proxy.
type origin struct {
	id   string
	ln   net.Listener
	srv  *http.Server
	port int
	hits atomic.Int64
}

func startOrigin(id string, port int) (*origin, error) {
	ln, err := net.Listen("tcp", "127.0.0.1:"+strconv.Itoa(port))
	if err != nil {
		return nil, err
	}
	o := &origin{id: id, ln: ln, port: port}
	mux := http.NewServeMux()
	mux.HandleFunc("/stream", func(w http.ResponseWriter, r *http.Request) {
		o.hits.Add(1)
		q := r.URL.Query()
		seed, _ := strconv.ParseUint(q.Get("seed"), 10, 64)
		cls, _ := strconv.Atoi(q.Get("cls"))
		parts, _ := strconv.Atoi(q.Get("parts"))
		pb, _ := strconv.Atoi(q.Get("pb"))
		pause, _ := strconv.Atoi(q.Get("pause"))
		w.Header().Set("X-C01-Origin", o.id)
		w.Header().Set("X-C01-Tag", q.Get("tag"))
		w.Header().Set("Content-Type", "application/octet-stream")
		w.Header().Set("Content-Length", strconv.Itoa(parts*pb))
		g := newGen(seed, cls)
		buf := make([]byte, pb)
		for i := 0; i < parts; i++ {
			g.Fill(buf)
			if _, err := w.Write(buf); err != nil {
				return
			}
			if f, ok := w.(http.Flusher); ok {
				f.Flush()
			}
			if i+1 < parts {
				time.Sleep(time.Duration(pause) * time.Millisecond)
			}
		}
	})
	o.srv = &http.Server{Handler: mux}
	go func() { _ = o.srv.Serve(ln) }()
	return o, nil
}

func (o *origin) close() { _ = o.srv.Close() }

func pluginProxyTOML(name string, pc *pluginCfg, remotePort int, originPort int, staticDir string) string {
	var sb strings.Builder
	fmt.Fprintf(&sb, "\n[[proxies]]\nname = %q\ntype = %q\n", name, pc.Type)
	if pc.Type == "tcp" {
		fmt.Fprintf(&sb, "remotePort = %d\n", remotePort)
	} else {
		fmt.Fprintf(&sb, "secretKey = %q\nallowUsers = [\"*\"]\n", "sk-"+name)
	}
	fmt.Fprintf(&sb, "transport.useEncryption = %v\ntransport.useCompression = %v\n", pc.Enc, pc.Comp)
	fmt.Fprintf(&sb, "[proxies.plugin]\ntype = %q\n", pc.Plugin)
	switch pc.Plugin {
	case "http2http":
		fmt.Fprintf(&sb, "localAddr = \"127.0.0.1:%d\"\n", originPort)
	case "static_file":
		fmt.Fprintf(&sb, "localPath = %q\nstripPrefix = \"static\"\n", staticDir)
	}
	return sb.String()
}

// writeStaticFiles puts the PRNG files of a static_file plugin on disk.
func writeStaticFiles(dir string, pc *pluginCfg) error {
	if err := os.MkdirAll(dir, 0o755); err != nil {
		return err
	}
	for k := 0; k < pc.Conns*pc.Rounds; k++ {
		b := make([]byte, pc.Parts*pc.PartBytes)
		newGen(pc.Seed+uint64(k), pc.Cls).Fill(b)
		if err := os.WriteFile(filepath.Join(dir, fmt.Sprintf("f%d.bin", k)), b, 0o644); err != nil {
			return err
		}
	}
	return nil
}

// pluginFail reports once per plugin connection.
func (cs *caseState) pluginFail(once *sync.Once, key string, format string, args ...any) {
	once.Do(func() {
		cs.c.Ev("violation", "key", key, "what", fmt.Sprintf(format, args...))
		cs.c.Violation(key, format, args...)
	})
}

// abortableReader makes the 60 s no-progress watchdog of a plugin download end early (silently) once the case has
// already reported a violation: the remaining downloads of a broken case need not each wait a minute.
type abortableReader struct {
	conn    net.Conn
	cs      *caseState
	stalled bool
	aborted bool
}

func (a *abortableReader) Read(p []byte) (int, error) {
	deadline := time.Now().Add(stallGrace)
	for {
		_ = a.conn.SetReadDeadline(time.Now().Add(time.Second))
		n, err := a.conn.Read(p)
		if n > 0 || err == nil || !isTimeout(err) {
			return n, err
		}
		if a.cs.c.Violations() > 0 {
			a.aborted = true
			return 0, io.ErrUnexpectedEOF
		}
		if time.Now().After(deadline) {
			a.stalled = true
			return 0, err
		}
	}
}

// pluginConn plays one keep-alive user connection through a plugin tunnel.
func pluginConn(cs *caseState, pr *pluginRT, o *origin, connIdx int) {
	pc := pr.cfg
	var once sync.Once
	what := fmt.Sprintf("plugin proxy %s (%s over %s, enc=%v comp=%v) conn %d", pr.name, pc.Plugin, pc.Type, pc.Enc, pc.Comp, connIdx)
	conn, err := net.DialTimeout("tcp", pr.dialAddr, 10*time.Second)
	if err != nil {
		cs.run.Inconclusive("user dial failed")
		return
	}
	defer conn.Close()
	ar := &abortableReader{conn: conn, cs: cs}
	br := bufio.NewReaderSize(ar, 16*1024)
	want := int64(pc.Parts * pc.PartBytes)
	for round := 0; round < pc.Rounds; round++ {
		k := connIdx*pc.Rounds + round
		seed := pc.Seed + uint64(k)
		tag := fmt.Sprintf("%s-%d", pr.name, k)
		var req string
		switch pc.Plugin {
		case "http2http":
			req = fmt.Sprintf("GET /stream?seed=%d&cls=%d&parts=%d&pb=%d&pause=%d&tag=%s HTTP/1.1\r\nHost: plugin.c01.test\r\n\r\n", seed, pc.Cls, pc.Parts, pc.PartBytes, pc.PauseMs, tag)
		case "http_proxy":
			req = fmt.Sprintf("GET http://127.0.0.1:%d/stream?seed=%d&cls=%d&parts=%d&pb=%d&pause=%d&tag=%s HTTP/1.1\r\nHost: 127.0.0.1:%d\r\n\r\n", o.port, seed, pc.Cls, pc.Parts, pc.PartBytes, pc.PauseMs, tag, o.port)
		default:
			req = fmt.Sprintf("GET /static/f%d.bin HTTP/1.1\r\nHost: plugin.c01.test\r\n\r\n", k)
		}
		if _, err := writeAll(conn, []byte(req)); err != nil {
			if cs.c.Violations() == 0 {
				cs.pluginFail(&once, "unprompted-close-via-client-plugin", "%s round %d: writing the request failed although neither endpoint had closed: %v", what, round, err)
			}
			return
		}
		resp, err := http.ReadResponse(br, nil)
		if err != nil {
			switch {
			case ar.aborted:
			case ar.stalled:
				cs.pluginFail(&once, "delivery-stalled-via-client-plugin", "%s round %d: request written, no response for %v", what, round, stallGrace)
			default:
				cs.pluginFail(&once, "stream-altered-down-via-client-plugin", "%s round %d: what came back is not the plugin's HTTP response: %v", what, round, err)
			}
			return
		}
		if resp.StatusCode != 200 {
			resp.Body.Close()
			cs.pluginFail(&once, "stream-altered-down-via-client-plugin", "%s round %d: status %d instead of the planned 200", what, round, resp.StatusCode)
			return
		}
		if pc.Plugin != "static_file" {
			if got := resp.Header.Get("X-C01-Origin"); got != o.id || resp.Header.Get("X-C01-Tag") != tag {
				resp.Body.Close()
				cs.pluginFail(&once, "cross-wired", "%s round %d: answered by origin %q for request %q, want origin %q request %q", what, round, got, resp.Header.Get("X-C01-Tag"), o.id, tag)
				return
			}
		}
		ck := newChecker(seed, pc.Cls)
		buf := make([]byte, 8192)
		var rerr error
		for {
			n, err := resp.Body.Read(buf)
			if n > 0 {
				if cerr := ck.Check(buf[:n]); cerr != nil {
					resp.Body.Close()
					cs.pluginFail(&once, "stream-altered-down-via-client-plugin", "%s round %d: response body %v", what, round, cerr)
					return
				}
			}
			if err != nil {
				rerr = err
				break
			}
		}
		resp.Body.Close()
		cs.run.Count("bytes_verified_down", ck.N)
		if ck.N != want || rerr != io.EOF {
			switch {
			case ar.aborted:
			case ar.stalled:
				cs.pluginFail(&once, "delivery-stalled-via-client-plugin", "%s round %d: %d of %d body bytes arrived, then nothing for %v while both endpoints were open", what, round, ck.N, want, stallGrace)
			default:
				cs.pluginFail(&once, "unprompted-close-via-client-plugin", "%s round %d: body broke off after %d of %d bytes (%v) although neither endpoint had closed", what, round, ck.N, want, rerr)
			}
			return
		}
		cs.run.Count("plugin_responses_checked", 1)
		cs.run.Count("plugin_"+pc.Plugin, 1)
		time.Sleep(time.Duration(pc.PauseMs) * time.Millisecond)
	}
}
