// C09 — Remote ports: whitelisted, exclusive, truthfully reported, quota-bounded.
//
// Monitors (DESIGN.md §5/C09):
//  1. porcupine over register / close / drop / squat / probe histories recorded at scripted clients, against a
//     set-based reference allocator (model.go); one frps per case with its own allowPorts set and quota.
//  2. per-reply oracles (granted port inside allowPorts, equal to the requested one, reported address is where
//     this proxy answers) and a three-way ledger at quiescence: acknowledged registrations = port manager /
//     session / group tables (verif snapshot) = operating system (sockets of this process from /proc, who answers
//     on every port), followed by a fill test (exactly the free allowed ports are grantable, now).
//  3. forced windows with gates at the *.afterAcquire / udp.close.enter hook points (scenarios.go).
//  4. direct Acquire/Release histories on a bare ports.Manager (manager.go).
package main

import (
	"fmt"
	"math/rand"
	"sort"
	"strings"
	"sync"
	"time"

	"verif/h"
)

const prop = "C09"
const token = "c09-token"
const universeLo, universeHi = 19000, 20000

var run *h.Run
var ports *h.PortAlloc

func main() {
	run = h.NewRun(prop, "exploration")
	run.Rule = "histories: one frps per case (PRNG allowPorts set of 2-6 ports out of 8, given as TOML entries, as a legacy INI allow_ports string or as the --allow_ports flag string in a PRNG spelling of the same logical set: blanks, one-port ranges, adjacent / overlapping / repeated items, trailing comma; maxPortsPerClient 0-3), 2-8 scripted sessions issuing PRNG register/close/probe/drop operations (tcp, udp, stcp, tcp groups; requested ports 0, allowed, outside, negative, >65535, control port, squatted) concurrently with a squatter thread and hook-point delays; scenarios: forced windows (kind x protocol x variant); manager: concurrent Acquire/Release histories on a bare port manager. distinct = distinct (configuration, multiset of (protocol, port class, outcome) operations, interleaving signature)"
	run.Assumptions = []string{
		"CloseProxy has no reply in the protocol: a following Ping/Pong on the same session is used as acknowledgement",
		"a session drop is acknowledged when the run id has left the server's session table (verif snapshot), bounded by 20 s",
		"operations on the same proxy name are issued one at a time, except one racing pair of duplicate registrations per history and the duplicate-name scenarios: a registration refused with 'proxy name ... already in use' (it lost the name after acquiring and binding its explicit port) is acquisition plus undo for the reference allocator; which of two racing duplicates wins is C12's subject",
		"an acknowledged registration is two steps of the reference allocator inside its call/return interval (accounting, then listen): the server acquires first and listens later, other programs and probes can see the port unbound in between; a registration refused with a listen error is acquisition plus undo (legal only while another program holds the port named in the error); other refusals are one step",
		"a refused request for a server-chosen port is tolerated while at least one free allowed port is held by another program (the server chooses first and listens later, and its search is bounded to 5 candidates)",
		"a spelling of the allow list that the repository's loader rejects is not a verdict (the case then runs from TOML; rejections of well-formed spellings are counted as inconclusive); an accepted spelling must give exactly the logical set",
		"which sockets the server has bound is read from /proc/net/{tcp,udp} filtered by this process's socket inodes",
	}
	ports = h.Ports(prop)
	initBlocks()

	nHist := run.N(360, 5000)
	nScen := run.N(224, 1600)
	nMgr := run.N(90, 600)
	total := nHist + nScen + nMgr
	run.Parallel(total, 10, func(c *h.Case) {
		switch {
		case c.Idx < nHist:
			historyCase(c)
		case c.Idx < nHist+nScen:
			scenarioCase(c, c.Idx-nHist)
		default:
			managerCase(c, c.Idx-nHist-nScen)
		}
	})
	run.Finish(60)
}

// ---------------------------------------------------------------------------------------------
// 1. generated concurrent histories

type planOp struct {
	Kind     string
	Name     string
	Proto    string
	Port     int
	Group    string
	GroupKey string
	Pause    int // microseconds before the operation
}

func historyCase(c *h.Case) {
	rng := c.Rng
	nSess := 2 + rng.Intn(7)
	cfg := worldCfg{NAllowed: 2 + rng.Intn(5), Quota: rng.Intn(4)}
	w, err := newWorld(c, cfg)
	if err != nil {
		run.Inconclusive("server start failed")
		c.Ev("server", "err", fmt.Sprint(err))
		return
	}
	defer w.close()
	rmPerturb, trace := h.Perturb(rng, w.pfx)
	defer rmPerturb()

	allowed := w.allowedList()
	special := []int{-1, -40000, 65536, 70000, w.bind, 1 << 31}
	nGroups := rng.Intn(3)
	type grp struct {
		name, key string
		port      int
	}
	var groups []grp
	for i := 0; i < nGroups; i++ {
		g := grp{name: fmt.Sprintf("%sg%d", w.pfx, i), key: fmt.Sprintf("k%d", i)}
		if rng.Intn(2) == 0 {
			g.port = pick(rng, allowed)
		}
		groups = append(groups, g)
	}
	shared := []string{w.pfx + "x0", w.pfx + "x1"}
	opsPer := 3 + rng.Intn(5)
	if nSess*opsPer > 30 {
		opsPer = 30 / nSess
	}
	plan := make([][]planOp, nSess+1)
	for s := 1; s <= nSess; s++ {
		own := []string{fmt.Sprintf("%ss%da", w.pfx, s), fmt.Sprintf("%ss%db", w.pfx, s), fmt.Sprintf("%ss%dc", w.pfx, s)}
		name := func() string {
			if rng.Intn(10) < 7 {
				return pick(rng, own)
			}
			return pick(rng, shared)
		}
		endAt := -1
		if rng.Intn(3) == 0 {
			endAt = 1 + rng.Intn(opsPer)
		}
		if rng.Intn(3) == 0 {
			// remembered-port episode: server-chosen port, close, a request the port manager refuses, server-chosen port again
			n, pr := pick(rng, own), []string{"tcp", "udp"}[rng.Intn(2)]
			bad := pick(rng, w.outside)
			if rng.Intn(2) == 0 {
				bad = pick(rng, allowed) // refused when owned or squatted at that moment, otherwise granted: the model decides
			}
			plan[s] = append(plan[s], planOp{Kind: "reg", Name: n, Proto: pr}, planOp{Kind: "close", Name: n},
				planOp{Kind: "reg", Name: n, Proto: pr, Port: bad}, planOp{Kind: "close", Name: n}, planOp{Kind: "reg", Name: n, Proto: pr})
		}
		for i := 0; i < opsPer; i++ {
			if i == endAt {
				plan[s] = append(plan[s], planOp{Kind: "end"})
				break
			}
			op := planOp{Pause: []int{0, 0, 50, 500, 3000}[rng.Intn(5)]}
			switch x := rng.Intn(100); {
			case x < 58 || i == 0:
				op.Kind, op.Name = "reg", name()
				switch y := rng.Intn(100); {
				case y < 55:
					op.Proto = "tcp"
				case y < 92:
					op.Proto = "udp"
				default:
					op.Proto = "stcp"
				}
				switch y := rng.Intn(100); {
				case y < 35:
					op.Port = 0
				case y < 80:
					op.Port = pick(rng, allowed)
				case y < 90:
					op.Port = pick(rng, w.outside)
				default:
					op.Port = pick(rng, special)
				}
				if op.Proto == "tcp" && len(groups) > 0 && rng.Intn(100) < 35 {
					g := pick(rng, groups)
					op.Group, op.GroupKey, op.Port = g.name, g.key, g.port
					if rng.Intn(8) == 0 {
						op.GroupKey = "wrong"
					}
					if rng.Intn(8) == 0 {
						op.Port = pick(rng, allowed)
					}
					if rng.Intn(16) == 0 {
						op.Port = pick(rng, append(append([]int(nil), w.outside...), -1, 65536))
					}
				}
			case x < 82:
				op.Kind, op.Name = "close", name()
			default:
				op.Kind, op.Port = "probe", pick(rng, w.block[1:])
			}
			plan[s] = append(plan[s], op)
		}
	}
	// racing duplicates: two sessions register one (otherwise unused) proxy name on different explicit ports at once
	if nSess >= 2 && len(allowed) >= 2 && rng.Intn(3) == 0 {
		ss := rng.Perm(nSess)
		pp := shuffled(rng, allowed)
		pr := []string{"tcp", "udp"}[rng.Intn(2)]
		for k := 0; k < 2; k++ {
			s := ss[k] + 1
			plan[s] = append([]planOp{{Kind: "dupreg", Name: w.pfx + "d", Proto: pr, Port: pp[k]}}, plan[s]...)
		}
	}
	// squatter thread
	var squatPlan []planOp
	for i, n := 0, rng.Intn(5); i < n; i++ {
		squatPlan = append(squatPlan, planOp{Kind: "toggle", Proto: []string{"tcp", "udp"}[rng.Intn(2)], Port: pick(rng, allowed), Pause: 200 + rng.Intn(5000)})
	}
	c.Data["sessions"], c.Data["plan"], c.Data["squat_plan"] = nSess, plan[1:], squatPlan

	for s := 1; s <= nSess; s++ {
		if w.session(s) == nil {
			return
		}
	}
	var wg sync.WaitGroup
	for s := 1; s <= nSess; s++ {
		wg.Add(1)
		go func(s int) {
			defer wg.Done()
			for _, op := range plan[s] {
				if op.Pause > 0 {
					time.Sleep(time.Duration(op.Pause) * time.Microsecond)
				}
				switch op.Kind {
				case "reg":
					w.reg(s, op.Name, op.Proto, op.Port, op.Group, op.GroupKey)
				case "dupreg":
					w.regNoLock(s, op.Name, op.Proto, op.Port, "", "")
				case "close":
					w.closeP(s, op.Name)
				case "probe":
					w.probe(s, op.Port)
				case "end":
					w.end(s)
				}
			}
		}(s)
	}
	wg.Add(1)
	go func() {
		defer wg.Done()
		for _, op := range squatPlan {
			time.Sleep(time.Duration(op.Pause) * time.Microsecond)
			w.mu.Lock()
			_, on := w.squats[protoIdx(op.Proto)][op.Port]
			w.mu.Unlock()
			if on {
				w.unsquat(harnessClient+1, op.Proto, op.Port)
			} else {
				w.squat(harnessClient+1, op.Proto, op.Port)
			}
		}
	}()
	wg.Wait()
	w.finish()
	distinct(w, fmt.Sprintf("hist|a%d|q%d|s%d", cfg.NAllowed, cfg.Quota, nSess), trace())
	if c.Idx < 2 {
		run.Sample(map[string]any{"kind": "history", "allow_ports": c.Data["allow_ports"], "quota": cfg.Quota, "sessions": nSess, "plan": plan[1:], "squatter": squatPlan})
	}
}

func distinct(w *world, head string, tr []string) {
	w.mu.Lock()
	sig := append([]string(nil), w.sig...)
	w.mu.Unlock()
	sort.Strings(sig)
	run.Distinct(head + "|" + strings.Join(sig, ",") + "|" + h.TraceSig(tr))
}

func shuffled(rng *rand.Rand, l []int) []int {
	o := append([]int(nil), l...)
	rng.Shuffle(len(o), func(i, j int) { o[i], o[j] = o[j], o[i] })
	return o
}

func newRand(seed int64) *rand.Rand { return rand.New(rand.NewSource(seed)) }
