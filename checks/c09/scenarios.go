package main

import (
	"fmt"
	"strings"
	"sync"
	"sync/atomic"
	"time"

	"verif/h"
)

// argGate parks the (skip+1)-th hit of a hook point whose string arguments start with key, and hands out the hit's arguments.
type argGate struct {
	arrived chan []any
	release chan struct{}
	rm      func()
	n       atomic.Int64
	once    sync.Once
}

func newArgGate(point, key string, skip int) *argGate {
	g := &argGate{arrived: make(chan []any, 1), release: make(chan struct{})}
	g.rm = h.OnHook(point, key, func(_ string, args []any) {
		if g.n.Add(1) != int64(skip+1) {
			return
		}
		g.arrived <- args
		select {
		case <-g.release:
		case <-time.After(30 * time.Second):
		}
	})
	return g
}

func (g *argGate) wait(d time.Duration) ([]any, bool) {
	select {
	case a := <-g.arrived:
		return a, true
	case <-time.After(d):
		return nil, false
	}
}

func (g *argGate) open() { g.once.Do(func() { close(g.release); g.rm() }) }

func lastInt(args []any) int {
	for i := len(args) - 1; i >= 0; i-- {
		if v, ok := args[i].(int); ok {
			return v
		}
	}
	return -1
}

// acquireGate installs the gate between port acquisition and listen for the given kind of proxy.
func acquireGate(kind, name, group string) *argGate {
	switch kind {
	case "udp":
		return newArgGate("server.proxy.udp.afterAcquire", name, 0)
	case "tcp-group":
		return newArgGate("server.group.tcp.afterAcquire", group, 0)
	}
	return newArgGate("server.proxy.tcp.afterAcquire", name, 0)
}

func protoOf(kind string) string {
	if kind == "udp" {
		return "udp"
	}
	return "tcp"
}

var scenarioKinds = []string{"squat-in-window", "last-port", "udp-second-close", "reserved-in-window", "quota-paths", "group-lifecycle", "remembered-after-refusal", "duplicate-name-window"}

func scenarioCase(c *h.Case, i int) {
	kind := scenarioKinds[i%len(scenarioKinds)]
	variant := i / len(scenarioKinds)
	c.Data["scenario"], c.Data["variant"] = kind, variant
	switch kind {
	case "squat-in-window":
		squatInWindow(c, variant)
	case "last-port":
		lastPort(c, variant)
	case "udp-second-close":
		udpSecondClose(c, variant)
	case "reserved-in-window":
		reservedInWindow(c, variant)
	case "quota-paths":
		quotaPaths(c, variant)
	case "group-lifecycle":
		groupLifecycle(c, variant)
	case "remembered-after-refusal":
		rememberedAfterRefusal(c, variant)
	case "duplicate-name-window":
		duplicateNameWindow(c, variant)
	}
	run.Count("scenario_"+kind, 1)
}

type regResult struct{ out opOut }

// squatInWindow: another program takes the port between the server's acquisition and its listen. The registration must
// be refused (or, if acknowledged, really serve) and the port must be grantable again as soon as the squatter is gone.
func squatInWindow(c *h.Case, variant int) {
	rng := c.Rng
	kind := []string{"tcp", "udp", "tcp-group"}[variant%3]
	zero := (variant/3)%2 == 1
	quota := []int{0, 2, 3}[rng.Intn(3)]
	w, err := newWorld(c, worldCfg{NAllowed: 2 + rng.Intn(3), Quota: quota})
	if err != nil {
		run.Inconclusive("server start failed")
		return
	}
	defer w.close()
	proto := protoOf(kind)
	group, key := "", ""
	if kind == "tcp-group" {
		group, key = w.pfx+"G", "gk"
	}
	a := w.pfx + "a"
	req := 0
	if !zero {
		req = pick(rng, w.allowedList())
	}
	g := acquireGate(kind, a, group)
	defer g.open()
	res := make(chan opOut, 1)
	go func() { res <- w.reg(1, a, proto, req, group, key) }()
	args, ok := g.wait(15 * time.Second)
	if !ok {
		run.Inconclusive("afterAcquire gate not reached")
		g.open()
		<-res
		return
	}
	P := lastInt(args)
	c.Ev("window", "kind", kind, "requested", req, "acquired", P)
	squatted := w.squat(harnessClient, proto, P)
	g.open()
	out := <-res
	run.Count("gate_acquire_listen_window", 1)
	if squatted && out.OK && out.Port == P {
		c.Violation("registration-acknowledged-on-port-held-by-another-program-"+kind, "the harness bound %s port %d between the server's acquisition and its listen; the registration was acknowledged with remote address :%d anyway", proto, P, out.Port)
	}
	w.unsquat(harnessClient, proto, P)
	if squatted && !out.OK {
		// the failed registration must have given the port back
		o2 := w.reg(2, w.pfx+"b", proto, P, "", "")
		if !o2.OK && !o2.Unk {
			c.Violation("port-not-returned-by-failed-registration-"+kind, "%s registration of port %d failed at listen (%s); the squatter is gone, a new request for port %d is refused: %s", kind, P, out.Err, P, o2.Err)
		}
		if quota > 0 {
			// the failed registration must not have consumed quota of session 1
			for i := 0; i < quota && i < len(w.allowed)-1; i++ {
				w.reg(1, fmt.Sprintf("%sq%d", w.pfx, i), proto, 0, "", "")
			}
		}
	}
	w.finish()
	distinct(w, fmt.Sprintf("squat-in-window|%s|zero=%v|q%d|squatted=%v|ok=%v", kind, zero, quota, squatted, out.OK), nil)
	if variant < 1 {
		run.Sample(map[string]any{"kind": "scenario squat-in-window", "proxy": kind, "requested": req, "acquired": P, "refused_with": out.Err})
	}
}

// lastPort: several sessions want the last free port at once (free running with delays, or with the first acquirer
// parked between acquisition and listen).
func lastPort(c *h.Case, variant int) {
	rng := c.Rng
	kind := []string{"tcp", "udp", "tcp-group"}[variant%3]
	gated := (variant/3)%2 == 0
	nAllowed := 2 + rng.Intn(3)
	w, err := newWorld(c, worldCfg{NAllowed: nAllowed, Quota: 0})
	if err != nil {
		run.Inconclusive("server start failed")
		return
	}
	defer w.close()
	rm, trace := h.Perturb(rng, w.pfx+"r")
	defer rm()
	proto := protoOf(kind)
	al := shuffled(rng, w.allowedList())
	last := al[0]
	for i, p := range al[1:] {
		if o := w.reg(1, fmt.Sprintf("%sf%d", w.pfx, i), proto, p, "", ""); !o.OK {
			run.Inconclusive("lastPort: filling failed")
			return
		}
	}
	nRivals := 2 + rng.Intn(4)
	var wg sync.WaitGroup
	outs := make([]opOut, nRivals+2)
	reqs := make([]int, nRivals+2)
	for s := 2; s < nRivals+2; s++ {
		if w.session(s) == nil {
			return
		}
		reqs[s] = []int{0, last}[rng.Intn(2)]
	}
	rival := func(s int) {
		defer wg.Done()
		outs[s] = w.reg(s, fmt.Sprintf("%sr%d", w.pfx, s), proto, reqs[s], "", "")
	}
	if gated {
		group, key := "", ""
		if kind == "tcp-group" {
			group, key = w.pfx+"G", "gk"
		}
		first := w.pfx + "w"
		g := acquireGate(kind, first, group)
		defer g.open()
		res := make(chan opOut, 1)
		go func() { res <- w.reg(1, first, proto, []int{0, last}[rng.Intn(2)], group, key) }()
		if _, ok := g.wait(15 * time.Second); !ok {
			run.Inconclusive("afterAcquire gate not reached")
			g.open()
			<-res
			return
		}
		for s := 2; s < nRivals+2; s++ {
			wg.Add(1)
			go rival(s)
		}
		wg.Wait()
		for s := 2; s < nRivals+2; s++ {
			if outs[s].OK {
				c.Violation("last-port-granted-twice-"+kind, "port %d was acquired by %s (parked before its listen) and a rival's request (port %d) was acknowledged with :%d", last, first, reqs[s], outs[s].Port)
			}
		}
		g.open()
		o := <-res
		if !o.OK && !o.Unk {
			c.Violation("acquirer-of-last-port-refused-"+kind, "the first acquirer of the last free port %d was refused after all rivals had been refused: %s", last, o.Err)
		}
		run.Count("gate_acquire_listen_window", 1)
	} else {
		for s := 2; s < nRivals+2; s++ {
			wg.Add(1)
			go rival(s)
		}
		wg.Wait()
		won, unk := 0, false
		for s := 2; s < nRivals+2; s++ {
			if outs[s].OK {
				won++
			}
			unk = unk || outs[s].Unk
		}
		if won != 1 && !unk {
			c.Violation("last-port-not-granted-exactly-once-"+proto, "%d sessions asked for the last free %s port %d at once (requests %v): %d were acknowledged", nRivals, proto, last, reqs[2:], won)
		}
	}
	w.finish()
	distinct(w, fmt.Sprintf("last-port|%s|gated=%v|n%d|r%d", kind, gated, nAllowed, nRivals), trace())
}

// udpSecondClose: a udp proxy's forwarder calls Close a second time after the first Close; park that second call until
// another session owns the same port.
func udpSecondClose(c *h.Case, variant int) {
	rng := c.Rng
	byDrop := variant%2 == 1
	zero := (variant/2)%2 == 1
	w, err := newWorld(c, worldCfg{NAllowed: 2 + rng.Intn(3), Quota: rng.Intn(3)})
	if err != nil {
		run.Inconclusive("server start failed")
		return
	}
	defer w.close()
	a, b := w.pfx+"a", w.pfx+"b"
	req := 0
	if !zero {
		req = pick(rng, w.allowedList())
	}
	o := w.reg(1, a, "udp", req, "", "")
	if !o.OK {
		run.Inconclusive("udpSecondClose: first registration refused")
		return
	}
	P := o.Port
	g := newArgGate("server.proxy.udp.close.enter", a, 1)
	defer g.open()
	if byDrop {
		w.end(1)
	} else {
		w.closeP(1, a)
	}
	_, parked := g.wait(5 * time.Second)
	if !parked {
		run.Count("udp_second_close_not_seen", 1)
	} else {
		run.Count("gate_udp_second_close", 1)
	}
	o2 := w.reg(2, b, "udp", P, "", "")
	if !o2.OK && !o2.Unk {
		c.Violation("port-not-returned-by-closed-udp-proxy", "udp port %d was closed by its owner (acknowledged), a new request for it is refused: %s", P, o2.Err)
	}
	g.open()
	if o2.OK {
		stolen := h.Eventually(400*time.Millisecond, func() bool { return w.srv.Snapshot().UDPPorts.Used[P] != b })
		if stolen {
			c.Violation("late-close-of-previous-udp-owner-releases-port-of-new-owner", "udp port %d: previous owner %s closed, %s registered the port, then the previous owner's second Close ran: the port manager now books the port for %q while %s is bound to it",
				P, a, b, w.srv.Snapshot().UDPPorts.Used[P], b)
		}
		o3 := w.reg(3, w.pfx+"c", "udp", P, "", "")
		if o3.OK {
			c.Violation("two-live-proxies-own-one-port-udp", "udp port %d granted to %s while %s holds it", P, w.pfx+"c", b)
		}
	}
	w.finish()
	distinct(w, fmt.Sprintf("udp-second-close|drop=%v|zero=%v|parked=%v", byDrop, zero, parked), nil)
}

// reservedInWindow: name a's remembered port P is acquired by b (parked before its listen); a asks for a server-chosen port.
func reservedInWindow(c *h.Case, variant int) {
	rng := c.Rng
	kind := []string{"tcp", "udp", "tcp-group"}[variant%3]
	w, err := newWorld(c, worldCfg{NAllowed: 2 + rng.Intn(3), Quota: 0})
	if err != nil {
		run.Inconclusive("server start failed")
		return
	}
	defer w.close()
	proto := protoOf(kind)
	a, b := w.pfx+"a", w.pfx+"b"
	o := w.reg(1, a, proto, 0, "", "")
	if !o.OK {
		run.Inconclusive("reservedInWindow: first registration refused")
		return
	}
	P := o.Port
	w.closeP(1, a)
	group, key := "", ""
	if kind == "tcp-group" {
		group, key = w.pfx+"G", "gk"
	}
	g := acquireGate(kind, b, group)
	defer g.open()
	res := make(chan opOut, 1)
	go func() { res <- w.reg(2, b, proto, P, group, key) }()
	if _, ok := g.wait(15 * time.Second); !ok {
		run.Inconclusive("afterAcquire gate not reached")
		g.open()
		<-res
		return
	}
	run.Count("gate_acquire_listen_window", 1)
	oa := w.reg(1, a, proto, 0, "", "")
	g.open()
	ob := <-res
	c.Ev("reserved-window", "P", P, "a", oa, "b", ob)
	if oa.OK && oa.Port == P {
		bk := w.srv.Snapshot().TCPPorts
		if proto == "udp" {
			bk = w.srv.Snapshot().UDPPorts
		}
		if ob.OK && ob.Port == P {
			c.Violation("two-live-proxies-own-one-port-"+proto, "port %d acknowledged to %s and to %s", P, a, b)
		} else if bk.Used[P] != a {
			c.Violation("remembered-port-granted-while-owned-then-released-by-the-owner-failure-"+kind,
				"%s port %d was acquired by %s (not yet listening); %s asked for a server-chosen port and was given its remembered port %d although it was owned; %s then failed (%s) and its failure path released the port: the port manager books %d for %q while %s is serving on it",
				proto, P, b, a, P, b, ob.Err, P, bk.Used[P], a)
		}
	}
	w.finish()
	distinct(w, fmt.Sprintf("reserved-in-window|%s|a=%v|b=%v|same=%v", kind, oa.OK, ob.OK, oa.Port == P), nil)
}

// quotaPaths: failing registrations of every kind must not consume quota; the quota-th port is grantable, the next is not.
func quotaPaths(c *h.Case, variant int) {
	rng := c.Rng
	q := 1 + variant%3
	nAllowed := q + 2 + rng.Intn(2)
	if nAllowed > 6 {
		nAllowed = 6
	}
	w, err := newWorld(c, worldCfg{NAllowed: nAllowed, Quota: q})
	if err != nil {
		run.Inconclusive("server start failed")
		return
	}
	defer w.close()
	al := shuffled(rng, w.allowedList())
	protoR := func() string { return []string{"tcp", "udp"}[rng.Intn(2)] }
	// another session owns a port, a name and a group
	other := al[0]
	w.reg(9, w.pfx+"o", "tcp", other, w.pfx+"G", "gk")
	w.reg(10, w.pfx+"ou", "udp", other, "", "")
	freeList := append([]int(nil), al[2:]...)
	sq := al[1]
	w.squat(harnessClient, "tcp", sq)
	w.squat(harnessClient, "udp", sq)
	var mine []string
	n := 0
	good := func() opOut {
		n++
		name := fmt.Sprintf("%sm%d", w.pfx, n)
		port := 0
		if rng.Intn(2) == 0 && len(freeList) > 1 {
			port, freeList = freeList[0], freeList[1:]
		}
		o := w.reg(1, name, protoR(), port, "", "")
		if o.OK {
			mine = append(mine, name)
			for i, p := range freeList {
				if p == o.Port {
					freeList = append(freeList[:i:i], freeList[i+1:]...)
					break
				}
			}
		}
		return o
	}
	bad := func() {
		n++
		name := fmt.Sprintf("%sm%d", w.pfx, n)
		var o opOut
		switch k := rng.Intn(8); k {
		case 0:
			o = w.reg(1, name, protoR(), pick(rng, w.outside), "", "")
		case 1:
			o = w.reg(1, name, protoR(), other, "", "")
		case 2:
			o = w.reg(1, name, protoR(), []int{-1, 65536, 1 << 20, w.bind}[rng.Intn(4)], "", "")
		case 3:
			o = w.reg(1, w.pfx+"o", protoR(), 0, "", "") // name owned by the other session
		case 4:
			o = w.reg(1, name, protoR(), sq, "", "")
		case 5:
			o = w.reg(1, name, "tcp", other, w.pfx+"G", "wrong-key")
		case 6:
			o = w.reg(1, name, "tcp", al[1], w.pfx+"G", "gk") // different port than the group's
		case 7:
			if len(mine) > 0 {
				o = w.reg(1, mine[0], protoR(), 0, "", "") // own duplicate
			} else {
				o = w.reg(1, name, protoR(), other, "", "")
			}
		}
		if o.OK {
			mine = append(mine, name) // the model judges whether this success was legal
		}
	}
	for len(mine) < q-1 {
		if o := good(); !o.OK {
			break
		}
		for i := rng.Intn(3); i > 0; i-- {
			bad()
		}
	}
	for i := 2 + rng.Intn(4); i > 0; i-- {
		bad()
	}
	if len(mine) == q-1 {
		o := good()
		if !o.OK && !o.Unk {
			c.Violation("quota-consumed-by-failed-registrations", "session holds %d ports (maxPortsPerClient %d) after a series of refused registrations; a valid request is refused: %s", q-1, q, o.Err)
		}
		o = good()
		if o.OK {
			c.Violation("quota-exceeded", "session holds %d ports, maxPortsPerClient = %d", q+1, q)
		}
		if z := w.reg(1, w.pfx+"z", "stcp", 0, "", ""); !z.OK && !z.Unk {
			c.Violation("quota-blocks-proxy-without-port", "an stcp proxy (no remote port) is refused at full quota: %s", z.Err)
		}
		if len(mine) > 0 {
			w.closeP(1, mine[0])
			mine = mine[1:]
			o = good()
			if !o.OK && !o.Unk {
				c.Violation("quota-not-returned-by-close", "after closing one of %d proxies (maxPortsPerClient %d) a valid request is refused: %s", q, q, o.Err)
			}
		}
	}
	w.finish()
	distinct(w, fmt.Sprintf("quota-paths|q%d", q), nil)
}

// groupLifecycle: a tcp group with fixed or server-chosen port; members share the port, everything else is refused,
// the last leave frees the port, the first member's name remembers it.
func groupLifecycle(c *h.Case, variant int) {
	rng := c.Rng
	zero := variant%2 == 0
	w, err := newWorld(c, worldCfg{NAllowed: 2 + rng.Intn(4), Quota: []int{0, 0, 2, 3}[rng.Intn(4)]})
	if err != nil {
		run.Inconclusive("server start failed")
		return
	}
	defer w.close()
	G, key := w.pfx+"G", "gk"
	req := 0
	if !zero {
		req = pick(rng, w.allowedList())
	}
	nMem := 2 + rng.Intn(2)
	first := w.reg(1, w.pfx+"m1", "tcp", req, G, key)
	if !first.OK {
		if !first.Unk {
			c.Violation("first-group-member-refused", "first member of a new tcp group (requested port %d, allowPorts %v) refused: %s", req, w.allowedList(), first.Err)
		}
		w.finish()
		return
	}
	P := first.Port
	for s := 2; s <= nMem; s++ {
		o := w.reg(s, fmt.Sprintf("%sm%d", w.pfx, s), "tcp", req, G, key)
		if o.OK && o.Port != P {
			c.Violation("group-member-told-another-port", "member %d of group %s was told :%d, the group's port is %d", s, G, o.Port, P)
		}
	}
	w.reg(7, w.pfx+"i1", "tcp", req, G, "bad-key")
	if other := pick(rng, w.allowedList()); other != req {
		w.reg(7, w.pfx+"i2", "tcp", other, G, key)
	}
	if o := w.reg(7, w.pfx+"i3", "tcp", P, "", ""); o.OK {
		c.Violation("group-port-granted-to-outsider", "port %d is held by group %s and was granted to a proxy outside the group", P, G)
	}
	answered := map[string]bool{}
	for i := 0; i < 3*nMem; i++ {
		if o := w.probe(harnessClient, P); !o.Unk {
			answered[o.Owner] = true
		}
	}
	c.Ev("group-answers", "who", fmt.Sprint(answered))
	order := shuffled(rng, []int{1, 2, 3}[:nMem])
	for i, s := range order {
		if rng.Intn(2) == 0 {
			w.closeP(s, fmt.Sprintf("%sm%d", w.pfx, s))
		} else {
			w.end(s)
		}
		o := w.probe(harnessClient, P)
		if i < len(order)-1 && o.Owner == "none" {
			c.Violation("group-port-closed-while-members-remain", "group %s still has %d members but nothing accepts on its port %d", G, len(order)-1-i, P)
		}
	}
	// free again: an outsider may take it; then the first member's name gets it back as server-chosen port
	if o := w.reg(8, w.pfx+"n", "tcp", P, "", ""); !o.OK && !o.Unk {
		c.Violation("port-not-returned-by-last-group-member", "every member of group %s left, a request for its port %d is refused: %s", G, P, o.Err)
	}
	w.closeP(8, w.pfx+"n")
	if o := w.reg(8, w.pfx+"m1", "tcp", 0, G, key); o.OK && o.Port != P {
		c.Violation("previous-port-not-given-back", "name %s held port %d, the port is free, a server-chosen port request under that name got %d", w.pfx+"m1", P, o.Port)
	}
	w.finish()
	distinct(w, fmt.Sprintf("group-lifecycle|zero=%v|m%d|%v", zero, nMem, order), nil)
}

// rememberedAfterRefusal: name N got server-chosen port P and closed. A registration under N that the port manager
// refuses (port owned by another live proxy / outside allowPorts / held by another program / nothing available) must
// not touch what the server remembers for N: the next request for a server-chosen port, with P free, gets P.
func rememberedAfterRefusal(c *h.Case, variant int) {
	rng := c.Rng
	proto := []string{"tcp", "udp"}[variant%2]
	w, err := newWorld(c, worldCfg{NAllowed: 4 + rng.Intn(3), Quota: []int{0, 0, 3}[rng.Intn(3)]})
	if err != nil {
		run.Inconclusive("server start failed")
		return
	}
	defer w.close()
	N := w.pfx + "n"
	al := shuffled(rng, w.allowedList())
	O := al[0]
	if o := w.reg(2, w.pfx+"o", proto, O, "", ""); !o.OK {
		run.Inconclusive("rememberedAfterRefusal: setup registration refused")
		return
	}
	first := w.reg(1, N, proto, 0, "", "")
	if !first.OK {
		run.Inconclusive("rememberedAfterRefusal: first registration refused")
		return
	}
	P := first.Port
	w.closeP(1, N)
	reasons := []string{"owned", "outside", "squatted", "none-available"}
	rng.Shuffle(len(reasons), func(i, j int) { reasons[i], reasons[j] = reasons[j], reasons[i] })
	var done []string
	for _, reason := range reasons {
		s := []int{1, 1, 3}[rng.Intn(3)] // the memory belongs to the name, not to the session
		var r opOut
		switch reason {
		case "owned":
			r = w.reg(s, N, proto, O, "", "")
		case "outside":
			r = w.reg(s, N, proto, pick(rng, w.outside), "", "")
		case "squatted":
			S := -1
			for _, p := range al[1:] {
				if p != P {
					S = p
					break
				}
			}
			if S < 0 || !w.squat(harnessClient, proto, S) {
				continue
			}
			r = w.reg(s, N, proto, S, "", "")
			w.unsquat(harnessClient, proto, S)
		case "none-available":
			var held []int
			for _, p := range al[1:] {
				if w.squat(harnessClient, proto, p) {
					held = append(held, p)
				}
			}
			r = w.reg(s, N, proto, 0, "", "")
			for _, p := range held {
				w.unsquat(harnessClient, proto, p)
			}
		}
		if r.Unk {
			return
		}
		if r.OK { // not refused: the reference allocator judges that; give the port back and go on
			w.closeP(s, N)
			continue
		}
		run.Count("refusal_then_server_chosen_port", 1)
		done = append(done, reason+"/"+errClass(r.Err))
		if b, ok := isBound(proto, P); !ok || b {
			continue // P is not free: nothing to demand
		}
		again := w.reg(s, N, proto, 0, "", "")
		if again.OK && again.Port != P {
			c.Violation("remembered-port-forgotten-after-refused-registration-"+proto,
				"%s proxy %s held server-chosen port %d and closed; a registration under that name was refused (%s: %s); the next request for a server-chosen port got %d although %d is free (allowPorts %v)",
				proto, N, P, reason, r.Err, again.Port, P, w.allowedList())
		}
		if again.OK {
			w.closeP(s, N)
		}
	}
	w.finish()
	distinct(w, fmt.Sprintf("remembered-after-refusal|%s|%v", proto, done), nil)
}

// duplicateNameWindow: two sessions register the same proxy name on different ports at the same moment. One of them is
// parked right after the name look-up (both pass it), the other registers completely (or both are parked and released
// together); the one that loses when the name is entered is refused and must give back the port it had already bound.
func duplicateNameWindow(c *h.Case, variant int) {
	rng := c.Rng
	proto := []string{"tcp", "udp"}[variant%2]
	swap := (variant/2)%2 == 1
	mode := []string{"explicit", "parked-asks-0", "both-parked"}[(variant/4)%3]
	w, err := newWorld(c, worldCfg{NAllowed: 3 + rng.Intn(3), Quota: []int{0, 0, 2}[rng.Intn(3)]})
	if err != nil {
		run.Inconclusive("server start failed")
		return
	}
	defer w.close()
	al := shuffled(rng, w.allowedList())
	a, b := 1, 2 // a: the parked session
	if swap {
		a, b = 2, 1
	}
	pa, pb := w.session(1), w.session(2)
	if pa == nil || pb == nil {
		return
	}
	if swap {
		pa, pb = pb, pa
	}
	N := w.pfx + "dup"
	req := map[int]int{a: al[0], b: al[1]}
	if mode == "parked-asks-0" {
		req[a] = 0
	}
	ga := newArgGate("server.registerProxy.afterExist", pa.RunID, 0)
	defer ga.open()
	out := map[int]opOut{}
	resA := make(chan opOut, 1)
	go func() { resA <- w.regNoLock(a, N, proto, req[a], "", "") }()
	if _, ok := ga.wait(15 * time.Second); !ok {
		run.Inconclusive("afterExist gate not reached")
		ga.open()
		<-resA
		return
	}
	if mode == "both-parked" {
		gb := newArgGate("server.registerProxy.afterExist", pb.RunID, 0)
		defer gb.open()
		resB := make(chan opOut, 1)
		go func() { resB <- w.regNoLock(b, N, proto, req[b], "", "") }()
		if _, ok := gb.wait(15 * time.Second); !ok {
			run.Inconclusive("afterExist gate not reached")
			gb.open()
			ga.open()
			<-resA
			<-resB
			return
		}
		if rng.Intn(2) == 0 {
			ga.open()
			gb.open()
		} else {
			gb.open()
			ga.open()
		}
		out[a], out[b] = <-resA, <-resB
	} else {
		out[b] = w.regNoLock(b, N, proto, req[b], "", "")
		ga.open()
		out[a] = <-resA
	}
	run.Count("gate_name_lookup_to_entry_window", 1)
	if out[a].Unk || out[b].Unk {
		return
	}
	c.Ev("duplicate-name", "mode", mode, "parked", a, "out_parked", out[a], "out_other", out[b])
	if out[a].OK && out[b].OK {
		c.Violation("same-proxy-name-acknowledged-twice", "sessions %d and %d both got proxy %s acknowledged (:%d and :%d)", a, b, N, out[a].Port, out[b].Port)
	}
	for _, s := range []int{a, b} {
		if out[s].OK || req[s] == 0 || !strings.Contains(out[s].Err, "already in use") {
			continue
		}
		LP := req[s] // the port the refused registration had acquired and bound before it lost the name
		run.Count("refused_duplicate_after_bind", 1)
		if bound, ok := isBound(proto, LP); ok && bound {
			c.Violation("port-of-refused-duplicate-name-registration-left-bound-"+proto, "sessions %d and %d registered proxy name %s at the same moment (ports %d, %d); session %d was refused (%s) but %s port %d is still bound",
				a, b, N, req[a], req[b], s, out[s].Err, proto, LP)
		}
		bk := w.srv.Snapshot().TCPPorts
		if proto == "udp" {
			bk = w.srv.Snapshot().UDPPorts
		}
		if who, used := bk.Used[LP]; used {
			c.Violation("port-of-refused-duplicate-name-registration-still-booked-"+proto, "session %d's registration of %s on %s port %d was refused (%s) but the port manager still books the port (for %q); no session owns it",
				s, N, proto, LP, out[s].Err, who)
		}
		if o := w.reg(3, w.pfx+"t", proto, LP, "", ""); !o.OK && !o.Unk {
			c.Violation("port-of-refused-duplicate-name-registration-not-grantable-"+proto, "session %d's registration of %s on %s port %d was refused (%s); a following request for port %d under another name is refused: %s",
				s, N, proto, LP, out[s].Err, LP, o.Err)
		}
	}
	w.finish()
	distinct(w, fmt.Sprintf("duplicate-name-window|%s|%s|swap=%v|%v|%v", proto, mode, swap, errClass(out[a].Err), errClass(out[b].Err)), nil)
}
