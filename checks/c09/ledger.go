package main

import (
	"fmt"
	"sort"
	"strings"
	"time"

	"github.com/anishathalye/porcupine"

	"verif/h"
)

type holder struct {
	group   string
	members []string // "S<k>|<name>"
	names   []string
}

func sortedInts(m map[int]bool) []int {
	var l []int
	for k, v := range m {
		if v {
			l = append(l, k)
		}
	}
	sort.Ints(l)
	return l
}

// finish is the quiescent end of every case: barrier, three-way ledger (acknowledged registrations / server
// accounting / operating system), fill test of the free set, linearizability check of the recorded history.
func (w *world) finish() {
	c := w.c
	w.mu.Lock()
	tainted := w.tainted
	var sessions []int
	for s := range w.peers {
		sessions = append(sessions, s)
	}
	w.mu.Unlock()
	sort.Ints(sessions)
	if tainted {
		return
	}
	for _, s := range sessions {
		if _, err := w.peers[s].Ping(20 * time.Second); err != nil {
			w.taint("final barrier missing")
			return
		}
	}

	// ---- reference ledger from acknowledged operations
	L := [2]map[int]*holder{{}, {}}
	perSess := map[int]int{}
	sessNames := map[int][]string{}
	groupMembers := map[string]int{}
	for _, s := range sessions {
		sessNames[s] = nil
		for n, p := range w.live[s] {
			sessNames[s] = append(sessNames[s], n)
			if p.Proto == "stcp" {
				continue
			}
			perSess[s]++
			pi := protoIdx(p.Proto)
			hd := L[pi][p.Port]
			if hd == nil {
				hd = &holder{group: p.Group}
				L[pi][p.Port] = hd
			} else if hd.group == "" || hd.group != p.Group {
				c.Violation("two-live-proxies-own-one-port-"+p.Proto, "port %d (%s) is held by %v and by %s of session %d at the same time (both registrations acknowledged, neither closed)", p.Port, p.Proto, hd.members, n, s)
			}
			hd.members = append(hd.members, fmt.Sprintf("S%d|%s", s, n))
			hd.names = append(hd.names, n)
			if p.Group != "" {
				groupMembers[p.Group]++
			}
		}
		sort.Strings(sessNames[s])
	}
	for pi, proto := range []string{"tcp", "udp"} {
		for port := range L[pi] {
			if !w.allowed[port] {
				c.Violation("live-proxy-outside-allow-ports-"+proto, "a live %s proxy holds port %d; allowPorts = %v", proto, port, w.allowedList())
			}
		}
	}
	if w.quota > 0 {
		for s, n := range perSess {
			if n > w.quota {
				c.Violation("quota-exceeded", "session %d holds %d ports, maxPortsPerClient = %d", s, n, w.quota)
			}
		}
	}

	// ---- server accounting
	w.compareAccounting("at quiescence", L, true)
	snap := w.srv.Snapshot()
	bySess := map[string]int{}
	for s, p := range w.peers {
		bySess[p.RunID] = s
	}
	seen := 0
	for _, ss := range snap.Sessions {
		s, ok := bySess[ss.RunID]
		if !ok {
			c.Violation("unknown-session-in-table", "session table holds run id %s which is none of the live scripted sessions", ss.RunID)
			continue
		}
		seen++
		if strings.Join(ss.Proxies, ",") != strings.Join(sessNames[s], ",") {
			c.Violation("session-proxy-table-differs", "session %d: server lists proxies %v, acknowledged live proxies are %v", s, ss.Proxies, sessNames[s])
		}
		if w.quota > 0 && ss.PortsUsed != perSess[s] {
			c.Violation("quota-counter-drift", "session %d: server counts %d used ports, the session's live proxies hold %d (maxPortsPerClient = %d)", s, ss.PortsUsed, perSess[s], w.quota)
		}
	}
	if seen != len(sessions) {
		c.Violation("live-session-missing-from-table", "%d live scripted sessions, %d in the server's table", len(sessions), seen)
	}
	for g, n := range snap.TCPGroups {
		if groupMembers[g] != n {
			c.Violation("group-membership-differs", "tcp group %s: server counts %d members, acknowledged live members %d", g, n, groupMembers[g])
		}
	}
	for g, n := range groupMembers {
		if snap.TCPGroups[g] != n {
			c.Violation("group-membership-differs", "tcp group %s: server counts %d members, acknowledged live members %d", g, snap.TCPGroups[g], n)
		}
	}

	// ---- operating system truth
	for _, port := range w.block[1:] {
		for pi, proto := range []string{"tcp", "udp"} {
			bound, ok := isBound(proto, port)
			if !ok {
				run.Inconclusive("bind test gave no answer")
				continue
			}
			_, owned := L[pi][port]
			_, squatted := w.squats[pi][port]
			switch {
			case bound && !owned && !squatted:
				c.Violation("bound-port-without-live-owner-"+proto, "%s port %d is bound but no live proxy holds it (allowed=%v) and the harness does not squat it", proto, port, w.allowed[port])
			case !bound && owned:
				c.Violation("live-owner-without-bound-port-"+proto, "%s port %d is held by %v but nothing is bound there", proto, port, L[pi][port].members)
			}
		}
	}
	// sockets of this process from /proc (expensive: every 8th case, and whenever a reported address did not accept)
	if c.Idx%8 == 0 || w.sawDeadAddr.Load() {
		tcpL := h.OwnTCPListenPorts()
		if !tcpL[w.bind] {
			run.Inconclusive("control port not seen in /proc (ledger reading unreliable)")
		}
		for port := range tcpL {
			if port < universeLo || port >= universeHi {
				c.Violation("server-listener-outside-every-configured-port", "this process listens on tcp port %d: outside every allowPorts set, control port and harness port used in this run (%d-%d)", port, universeLo, universeHi-1)
			}
		}
		run.Count("proc_ledgers", 1)
	}
	run.Count("ledgers", 1)
	// who answers: every block port
	for _, port := range w.block[1:] {
		o := w.probe(harnessClient, port)
		hd := L[0][port]
		_, squatted := w.squats[0][port]
		switch {
		case o.Unk:
		case hd != nil:
			ok := false
			for _, m := range hd.members {
				if o.Owner == m {
					ok = true
				}
			}
			if !ok {
				c.Violation("port-answered-by-non-owner-tcp", "connections to port %d are answered by %q, its live owners are %v", port, o.Owner, hd.members)
			}
		case squatted:
			if o.Owner != "SQUAT" {
				c.Violation("port-answered-by-non-owner-tcp", "connections to the squatted port %d are answered by %q", port, o.Owner)
			}
		case o.Owner != "none":
			c.Violation("unowned-port-accepts-traffic-tcp", "port %d has no live owner (allowed=%v) but connections are answered by %q", port, w.allowed[port], o.Owner)
		}
	}
	for port, hd := range L[1] {
		id, err := askUDP(port, 20*time.Second)
		if err != nil {
			c.Violation("udp-owner-not-serving", "datagrams to udp port %d (held by %v) were not answered within 20 s", port, hd.members)
			continue
		}
		if id != hd.members[0] {
			c.Violation("port-answered-by-non-owner-udp", "datagrams to udp port %d are answered by %q, its live owner is %v", port, id, hd.members)
		}
		run.Count("udp_idents", 1)
	}

	// ---- fill test: exactly the allowed, unowned ports must be grantable, now
	for pi := 0; pi < 2; pi++ {
		for port := range w.squats[pi] {
			w.unsquat(harnessClient, []string{"tcp", "udp"}[pi], port)
		}
	}
	for pi, proto := range []string{"tcp", "udp"} {
		expect := map[int]bool{}
		for p := range w.allowed {
			if L[pi][p] == nil {
				expect[p] = true
			}
		}
		granted := map[int]bool{}
		sw := 2000 + pi*100
		held := 0
		failed := false
		for i := 0; i <= len(expect); i++ {
			if w.quota > 0 && held >= w.quota {
				sw++
				held = 0
			}
			name := fmt.Sprintf("%ssw-%s-%d", w.pfx, proto, i)
			o := w.reg(sw, name, proto, 0, "", "")
			if o.Unk {
				failed = true
				break
			}
			if i == len(expect) {
				if o.OK {
					c.Violation("port-granted-beyond-free-set-"+proto, "all %d free allowed %s ports %v were handed out, one more request for a server-chosen port was granted port %d (allowPorts = %v)", len(expect), proto, sortedInts(expect), o.Port, w.allowedList())
				}
				break
			}
			if !o.OK {
				c.Violation("free-port-not-grantable-"+proto, "%d of the %d free allowed %s ports %v were handed out, the next request for a server-chosen port was refused: %s", len(granted), len(expect), proto, sortedInts(expect), o.Err)
				failed = true
				break
			}
			held++
			if !expect[o.Port] || granted[o.Port] {
				c.Violation("fill-granted-unexpected-port-"+proto, "request for a server-chosen %s port was granted %d; free allowed ports are %v, already handed out %v", proto, o.Port, sortedInts(expect), sortedInts(granted))
			}
			granted[o.Port] = true
		}
		run.Count("fill_tests", 1)
		// give everything back
		for s := 2000 + pi*100; s <= sw; s++ {
			w.end(s)
		}
		if failed {
			continue
		}
	}
	w.compareAccounting("after the fill test was undone", L, false)

	// ---- the whole recorded history against the reference allocator
	w.mu.Lock()
	ops := append([]porcupine.Operation(nil), w.ops...)
	tainted = w.tainted
	w.mu.Unlock()
	if tainted {
		return
	}
	res, _ := porcupine.CheckOperationsVerbose(w.model.porcupine(), ops, 60*time.Second)
	switch res {
	case porcupine.Illegal:
		c.Violation("port-history-not-linearizable", "the recorded history of %d operations (allowPorts %v, maxPortsPerClient %d) has no sequential explanation by the reference allocator; shortest illegal prefix ends at: %s",
			len(ops), w.allowedList(), w.quota, w.firstIllegal(ops))
	case porcupine.Unknown:
		run.Inconclusive("porcupine timeout")
	}
	run.Count("histories_checked", 1)
	run.Count("history_ops", int64(len(ops)))
}

// firstIllegal: the shortest prefix (by return time) of the history that is already illegal — a diagnosis hint only.
func (w *world) firstIllegal(ops []porcupine.Operation) string {
	sorted := append([]porcupine.Operation(nil), ops...)
	sort.Slice(sorted, func(i, j int) bool { return sorted[i].Return < sorted[j].Return })
	lo, hi := 1, len(sorted)
	for lo < hi {
		mid := (lo + hi) / 2
		r, _ := porcupine.CheckOperationsVerbose(w.model.porcupine(), sorted[:mid], 20*time.Second)
		if r == porcupine.Illegal {
			hi = mid
		} else {
			lo = mid + 1
		}
	}
	o := sorted[lo-1]
	return fmt.Sprintf("%+v -> %+v", o.Input, o.Output)
}

// compareAccounting compares the port managers' tables with the reference ledger.
func (w *world) compareAccounting(when string, L [2]map[int]*holder, names bool) {
	c := w.c
	snap := w.srv.Snapshot()
	for pi, proto := range []string{"tcp", "udp"} {
		ps := snap.TCPPorts
		if pi == 1 {
			ps = snap.UDPPorts
		}
		want := map[int]bool{}
		for p := range L[pi] {
			want[p] = true
		}
		used := map[int]bool{}
		for p := range ps.Used {
			used[p] = true
		}
		if fmt.Sprint(sortedInts(used)) != fmt.Sprint(sortedInts(want)) {
			c.Violation("accounting-used-ports-differ-"+proto, "%s: the %s port manager lists used ports %v, live acknowledged proxies hold %v", when, proto, sortedInts(used), sortedInts(want))
		}
		free := map[int]bool{}
		for _, p := range ps.Free {
			free[p] = true
		}
		wantFree := map[int]bool{}
		for p := range w.allowed {
			if !used[p] {
				wantFree[p] = true
			}
		}
		if fmt.Sprint(sortedInts(free)) != fmt.Sprint(sortedInts(wantFree)) {
			c.Violation("accounting-free-set-wrong-"+proto, "%s: the %s port manager's free set is %v, allowPorts minus used ports is %v (allowPorts %v, used %v)", when, proto, sortedInts(free), sortedInts(wantFree), w.allowedList(), sortedInts(used))
		}
		if !names {
			continue
		}
		for p, hd := range L[pi] {
			if hd.group != "" || !used[p] {
				continue
			}
			n := hd.names[0]
			if w.raced[n] {
				// the loser of a race for the name acquired its port under the same name: the manager's owner label and
				// last-port memory for the name may be the loser's (observation, counted)
				if ps.Reserved[n] != p {
					run.Count("remembered_port_overwritten_by_losing_duplicate", 1)
				}
				continue
			}
			if ps.Used[p] != n {
				c.Violation("accounting-owner-differs-"+proto, "%s: %s port %d is booked for %q, its live owner is %q", when, proto, p, ps.Used[p], n)
			}
			if ps.Reserved[n] != p {
				c.Violation("last-port-memory-wrong-"+proto, "%s: proxy %s holds %s port %d but the server remembers port %d for that name", when, n, proto, p, ps.Reserved[n])
			}
		}
	}
}
