package main

import (
	"fmt"
	"sort"
	"strings"

	"github.com/anishathalye/porcupine"
)

// Reference allocator: the sequential specification the recorded histories are checked against.
// It is set based (allowed set, owners, last-port memory per name, quota per session) and knows
// nothing about frp's implementation.

type opIn struct {
	Kind     string // reg | close | end | squat | unsquat | probe
	Sess     int    // session issuing the operation (0 = harness)
	Name     string
	Proto    string // tcp | udp | stcp
	Port     int    // requested port (reg), port concerned (squat, unsquat, probe)
	Group    string
	GroupKey string
	Dup      string // undup: the contested proxy name
}

type opOut struct {
	OK    bool
	Port  int    // reg: port of the reported remote address
	Err   string // reg: error text of a refusal
	Owner string // probe: "none" | "SQUAT" | "S<k>|<proxy name>"
	Unk   bool   // probe: outcome not informative
}

type pinfo struct {
	Sess  int
	Proto string
	Port  int
	Group string
	Bound bool // the listen that follows the acquisition has happened (see "bind")
	Alias string // harness book-keeping only (name used in the reference allocator), not part of the state
}

type ginfo struct {
	Key      string
	ReqPort  int
	RealPort int
}

type mstate struct {
	names    map[string]pinfo
	groups   map[string]ginfo
	reserved [2]map[string]int
	squat    [2]map[int]bool
	sig      string
}

func protoIdx(p string) int {
	if p == "udp" {
		return 1
	}
	return 0
}

func newState() *mstate {
	return &mstate{names: map[string]pinfo{}, groups: map[string]ginfo{},
		reserved: [2]map[string]int{{}, {}}, squat: [2]map[int]bool{{}, {}}}
}

func (s *mstate) clone() *mstate {
	n := newState()
	for k, v := range s.names {
		n.names[k] = v
	}
	for k, v := range s.groups {
		n.groups[k] = v
	}
	for i := 0; i < 2; i++ {
		for k, v := range s.reserved[i] {
			n.reserved[i][k] = v
		}
		for k, v := range s.squat[i] {
			if v {
				n.squat[i][k] = true
			}
		}
	}
	return n
}

func (s *mstate) key() string {
	if s.sig != "" {
		return s.sig
	}
	var parts []string
	for k, v := range s.names {
		parts = append(parts, fmt.Sprintf("n %s %d %s %d %s %v", k, v.Sess, v.Proto, v.Port, v.Group, v.Bound))
	}
	for k, v := range s.groups {
		parts = append(parts, fmt.Sprintf("g %s %s %d %d", k, v.Key, v.ReqPort, v.RealPort))
	}
	for i := 0; i < 2; i++ {
		for k, v := range s.reserved[i] {
			parts = append(parts, fmt.Sprintf("r%d %s %d", i, k, v))
		}
		for k, v := range s.squat[i] {
			if v {
				parts = append(parts, fmt.Sprintf("q%d %d", i, k))
			}
		}
	}
	sort.Strings(parts)
	s.sig = strings.Join(parts, ";") + "."
	return s.sig
}

func (s *mstate) owners(pi int, port int) []string {
	var o []string
	for n, p := range s.names {
		if p.Proto != "stcp" && protoIdx(p.Proto) == pi && p.Port == port {
			o = append(o, n)
		}
	}
	return o
}

func (s *mstate) boundOwners(pi int, port int) []string {
	var o []string
	for n, p := range s.names {
		if p.Bound && p.Proto != "stcp" && protoIdx(p.Proto) == pi && p.Port == port {
			o = append(o, n)
		}
	}
	return o
}

func (s *mstate) count(sess int) int {
	c := 0
	for _, p := range s.names {
		if p.Sess == sess && p.Proto != "stcp" {
			c++
		}
	}
	return c
}

func (s *mstate) remove(name string) {
	p, ok := s.names[name]
	if !ok {
		return
	}
	delete(s.names, name)
	if p.Group != "" {
		for _, q := range s.names {
			if q.Group == p.Group && q.Proto == "tcp" {
				return
			}
		}
		delete(s.groups, p.Group)
	}
}

type allocModel struct {
	allowed map[int]bool
	quota   int
}

func (m *allocModel) avail(s *mstate, pi, port int) bool {
	return m.allowed[port] && len(s.owners(pi, port)) == 0 && !s.squat[pi][port]
}

// step is the sequential specification. It returns whether `out` is a legal result of `in` in state s and the next state.
func (m *allocModel) step(s *mstate, in opIn, out opOut) (bool, *mstate) {
	switch in.Kind {
	case "bind":
		// second half of an acknowledged registration: the server listens on the port it acquired for the proxy
		p, ok := s.names[in.Name]
		if !ok || p.Sess != in.Sess || p.Bound {
			return false, s
		}
		if s.squat[protoIdx(p.Proto)][p.Port] && len(s.boundOwners(protoIdx(p.Proto), p.Port)) == 0 {
			return false, s // another program holds the port: the listen cannot have succeeded
		}
		n := s.clone()
		p.Bound = true
		n.names[in.Name] = p
		return true, n
	case "unacq":
		// second half of a registration that was refused because the listen failed: legal only while another program
		// holds the port; the acquisition is undone
		p, ok := s.names[in.Name]
		if !ok || p.Sess != in.Sess || p.Bound || !s.squat[protoIdx(p.Proto)][p.Port] {
			return false, s
		}
		n := s.clone()
		n.remove(in.Name)
		return true, n
	case "undup":
		// second half of a registration that lost the race for its proxy name after acquiring and binding its port:
		// the acquisition is undone (who holds the name is C12's subject)
		p, ok := s.names[in.Name]
		if !ok || p.Sess != in.Sess {
			return false, s
		}
		n := s.clone()
		n.remove(in.Name)
		return true, n
	case "reg", "acq":
		// "reg": a registration as one step (refusals, proxies without port); "acq": first half of an acknowledged
		// registration (everything but the listen), see "bind"
		w := 1
		if in.Proto == "stcp" {
			w = 0
		}
		if m.quota > 0 && s.count(in.Sess)+w > m.quota {
			return !out.OK, s
		}
		if _, ex := s.names[in.Name]; ex {
			return !out.OK, s
		}
		if in.Proto == "stcp" {
			if !out.OK {
				return false, s
			}
			n := s.clone()
			n.names[in.Name] = pinfo{Sess: in.Sess, Proto: "stcp"}
			return true, n
		}
		pi := protoIdx(in.Proto)
		if in.Group != "" {
			if g, ok := s.groups[in.Group]; ok {
				if g.ReqPort != in.Port || g.Key != in.GroupKey {
					return !out.OK, s
				}
				if !out.OK || out.Port != g.RealPort {
					return false, s
				}
				n := s.clone()
				n.names[in.Name] = pinfo{Sess: in.Sess, Proto: in.Proto, Port: g.RealPort, Group: in.Group}
				return true, n
			}
		}
		// acquisition through the allocator under the proxy's name
		if in.Port == 0 {
			if r, ok := s.reserved[pi][in.Name]; ok && m.avail(s, pi, r) {
				if !out.OK || out.Port != r {
					return false, s
				}
			} else {
				freeSquatted, cands := 0, 0
				for p := range m.allowed {
					if len(s.owners(pi, p)) == 0 {
						if s.squat[pi][p] {
							freeSquatted++
						} else {
							cands++
						}
					}
				}
				if !out.OK {
					// legal when nothing is grantable; tolerated when a free port is held by another program: the
					// server's choice may have fallen on it (before the squatter came, or within its 5 candidates)
					if cands == 0 || freeSquatted > 0 {
						return true, s
					}
					return false, s
				}
				if !m.avail(s, pi, out.Port) {
					return false, s
				}
			}
		} else {
			if !m.avail(s, pi, in.Port) {
				return !out.OK, s
			}
			if !out.OK || out.Port != in.Port {
				return false, s
			}
		}
		n := s.clone()
		n.names[in.Name] = pinfo{Sess: in.Sess, Proto: in.Proto, Port: out.Port, Group: in.Group}
		n.reserved[pi][in.Name] = out.Port
		if in.Group != "" {
			n.groups[in.Group] = ginfo{Key: in.GroupKey, ReqPort: in.Port, RealPort: out.Port}
		}
		return true, n
	case "close":
		if p, ok := s.names[in.Name]; ok && p.Sess == in.Sess {
			n := s.clone()
			n.remove(in.Name)
			return true, n
		}
		return true, s
	case "end":
		var mine []string
		for nme, p := range s.names {
			if p.Sess == in.Sess {
				mine = append(mine, nme)
			}
		}
		if len(mine) == 0 {
			return true, s
		}
		n := s.clone()
		for _, nme := range mine {
			n.remove(nme)
		}
		return true, n
	case "squat":
		pi := protoIdx(in.Proto)
		if !out.OK {
			// the bind fails against a listening owner, another squatter, or the server's own availability
			// probe of a port it is acquiring (owner not yet listening)
			return len(s.owners(pi, in.Port)) > 0 || s.squat[pi][in.Port], s
		}
		if len(s.boundOwners(pi, in.Port)) > 0 || s.squat[pi][in.Port] {
			return false, s
		}
		n := s.clone()
		n.squat[pi][in.Port] = true
		return true, n
	case "unsquat":
		pi := protoIdx(in.Proto)
		if !s.squat[pi][in.Port] {
			return true, s
		}
		n := s.clone()
		delete(n.squat[pi], in.Port)
		return true, n
	case "probe":
		if out.Unk {
			return true, s
		}
		ow := s.boundOwners(0, in.Port)
		switch {
		case out.Owner == "none":
			return len(ow) == 0 && !s.squat[0][in.Port], s
		case out.Owner == "SQUAT":
			return s.squat[0][in.Port], s
		default:
			for _, nme := range ow {
				if out.Owner == fmt.Sprintf("S%d|%s", s.names[nme].Sess, baseName(nme)) {
					return true, s
				}
			}
			// a registration that is about to lose the race for its name listens on its port for a moment
			for nme, p := range s.names {
				if strings.Contains(nme, "#") && !p.Bound && p.Proto == "tcp" && p.Port == in.Port && out.Owner == fmt.Sprintf("S%d|%s", p.Sess, baseName(nme)) {
					return true, s
				}
			}
			return false, s
		}
	}
	return false, s
}

func (m *allocModel) porcupine() porcupine.Model {
	return porcupine.Model{
		Init: func() interface{} { return newState() },
		Step: func(state, input, output interface{}) (bool, interface{}) {
			ok, n := m.step(state.(*mstate), input.(opIn), output.(opOut))
			return ok, n
		},
		Equal: func(a, b interface{}) bool { return a.(*mstate).key() == b.(*mstate).key() },
		DescribeOperation: func(input, output interface{}) string {
			return fmt.Sprintf("%+v -> %+v", input, output)
		},
	}
}

// ---------------------------------------------------------------------------------------------
// specification of the bare port manager (exported Acquire / Release)

type mgrIn struct {
	Kind string // acquire | release
	Name string
	Port int
}
type mgrOut struct {
	Port int
	Err  string
}
type mgrState struct {
	used     map[int]string
	reserved map[string]int
	sig      string
}

func (s *mgrState) clone() *mgrState {
	n := &mgrState{used: map[int]string{}, reserved: map[string]int{}}
	for k, v := range s.used {
		n.used[k] = v
	}
	for k, v := range s.reserved {
		n.reserved[k] = v
	}
	return n
}
func (s *mgrState) key() string {
	if s.sig == "" {
		var parts []string
		for k, v := range s.used {
			parts = append(parts, fmt.Sprintf("u%d=%s", k, v))
		}
		for k, v := range s.reserved {
			parts = append(parts, fmt.Sprintf("r%s=%d", k, v))
		}
		sort.Strings(parts)
		s.sig = strings.Join(parts, ";") + "."
	}
	return s.sig
}

func mgrModel(allowed map[int]bool) porcupine.Model {
	return porcupine.Model{
		Init: func() interface{} { return &mgrState{used: map[int]string{}, reserved: map[string]int{}} },
		Step: func(state, input, output interface{}) (bool, interface{}) {
			s := state.(*mgrState)
			in := input.(mgrIn)
			out := output.(mgrOut)
			free := func(p int) bool { _, u := s.used[p]; return allowed[p] && !u }
			switch in.Kind {
			case "release":
				if _, ok := s.used[in.Port]; !ok {
					return true, s
				}
				n := s.clone()
				delete(n.used, in.Port)
				return true, n
			case "acquire":
				if in.Port == 0 {
					if r, ok := s.reserved[in.Name]; ok && free(r) {
						if out.Err != "" || out.Port != r {
							return false, s
						}
					} else {
						any := false
						for p := range allowed {
							if free(p) {
								any = true
							}
						}
						if !any {
							return out.Err == "no available port", s
						}
						if out.Err != "" || !free(out.Port) {
							return false, s
						}
					}
				} else {
					switch {
					case free(in.Port):
						if out.Err != "" || out.Port != in.Port {
							return false, s
						}
					case allowed[in.Port]:
						return out.Err == "port already used", s
					default:
						return out.Err == "port not allowed", s
					}
				}
				n := s.clone()
				n.used[out.Port] = in.Name
				n.reserved[in.Name] = out.Port
				return true, n
			}
			return false, s
		},
		Equal: func(a, b interface{}) bool { return a.(*mgrState).key() == b.(*mgrState).key() },
		DescribeOperation: func(input, output interface{}) string {
			return fmt.Sprintf("%+v -> %+v", input, output)
		},
	}
}

// baseName strips the suffix the harness gives to the reference-allocator name of a raced registration.
func baseName(n string) string {
	if i := strings.Index(n, "#"); i > 0 {
		return n[:i]
	}
	return n
}
