package main

import (
	"fmt"
	"runtime"
	"sort"
	"sync"
	"sync/atomic"
	"time"

	"github.com/anishathalye/porcupine"

	"github.com/fatedier/frp/pkg/config/types"
	pm "github.com/fatedier/frp/server/ports"

	"verif/h"
)

// managerCase drives a bare ports.Manager from many goroutines: short histories against the reference
// allocator (exact errors), and a long exclusivity / conservation stress.
func managerCase(c *h.Case, i int) {
	rng := c.Rng
	netType := []string{"tcp", "udp"}[rng.Intn(2)]
	full := takeBlock()
	if full == nil {
		run.Inconclusive("no free port block left")
		return
	}
	defer giveBlock(full)
	block := full[:7]
	nAllowed := 1 + rng.Intn(5)
	start := rng.Intn(len(block) - nAllowed + 1)
	allowed := map[int]bool{}
	var ranges []types.PortsRange
	if nAllowed >= 2 && rng.Intn(2) == 0 {
		ranges = append(ranges, types.PortsRange{Start: block[start], End: block[start+nAllowed-1]})
		for k := 0; k < nAllowed; k++ {
			allowed[block[start+k]] = true
		}
	} else {
		for k := 0; k < nAllowed; k++ {
			p := block[start+k]
			allowed[p] = true
			if rng.Intn(2) == 0 {
				ranges = append(ranges, types.PortsRange{Single: p})
			} else {
				ranges = append(ranges, types.PortsRange{Start: p, End: p})
			}
		}
	}
	var outside []int
	for _, p := range block {
		if !allowed[p] {
			outside = append(outside, p)
		}
	}
	outside = append(outside, -1, 65536, -70000)
	al := sortedInts(allowed)
	c.Data["mgr_net"], c.Data["mgr_allowed"] = netType, al
	m := pm.NewManager(netType, "127.0.0.1", ranges)
	snap0 := m.VerifSnapshot()
	if fmt.Sprint(snap0.Free) != fmt.Sprint(al) || len(snap0.Used) != 0 {
		c.Violation("manager-initial-free-set-wrong", "a new %s manager for %v starts with free set %v, used %v", netType, ranges, snap0.Free, snap0.Used)
	}

	if i%3 == 0 {
		// exclusivity stress
		nG, iters := 16, run.N(120, 400)
		owner := map[int]*atomic.Int64{}
		for _, p := range al {
			owner[p] = new(atomic.Int64)
		}
		var wg sync.WaitGroup
		var grants, refusals atomic.Int64
		seeds := make([]int64, nG)
		for g := range seeds {
			seeds[g] = rng.Int63()
		}
		for g := 0; g < nG; g++ {
			wg.Add(1)
			go func(g int) {
				defer wg.Done()
				lr := newRand(seeds[g])
				for k := 0; k < iters; k++ {
					req := 0
					if lr.Intn(2) == 0 {
						req = al[lr.Intn(len(al))]
					}
					p, err := m.Acquire(fmt.Sprintf("g%d-%d", g, lr.Intn(2)), req)
					if err != nil {
						refusals.Add(1)
						continue
					}
					grants.Add(1)
					o := owner[p]
					if o == nil {
						c.Violation("manager-granted-port-outside-allowed-set", "%s manager for %v granted port %d (request %d)", netType, al, p, req)
						continue
					}
					if !o.CompareAndSwap(0, int64(g+1)) {
						c.Violation("manager-granted-owned-port", "%s manager granted port %d to goroutine %d while goroutine %d holds it", netType, p, g+1, o.Load())
						continue
					}
					if req != 0 && p != req {
						c.Violation("manager-granted-other-port-than-requested", "requested %d, granted %d", req, p)
					}
					if lr.Intn(3) == 0 {
						runtime.Gosched()
					}
					o.Store(0)
					m.Release(p)
				}
			}(g)
		}
		wg.Wait()
		s := m.VerifSnapshot()
		if len(s.Used) != 0 || fmt.Sprint(s.Free) != fmt.Sprint(al) {
			c.Violation("manager-accounting-not-conserved", "after %d grants all released: used %v, free %v, allowed %v", grants.Load(), s.Used, s.Free, al)
		}
		run.Count("manager_stress_grants", grants.Load())
		run.Count("manager_stress_refusals", refusals.Load())
		run.Distinct(fmt.Sprintf("mgr-stress|%s|%v|%d", netType, len(al), grants.Load()/50))
		return
	}

	// short concurrent histories, exact results
	nG := []int{2, 4, 8, 16}[rng.Intn(4)]
	per := 2 + rng.Intn(3)
	if nG*per > 28 {
		per = 28 / nG
	}
	type step struct {
		Kind string
		Name string
		Port int // acquire: request; release: index into held (-1 = a port never held)
	}
	plan := make([][]step, nG)
	for g := range plan {
		for k := 0; k < per; k++ {
			st := step{Kind: "acquire", Name: fmt.Sprintf("n%d", g)}
			if rng.Intn(5) == 0 {
				st.Name = "shared"
			}
			switch x := rng.Intn(10); {
			case x < 4:
				st.Port = 0
			case x < 8:
				st.Port = al[rng.Intn(len(al))]
			default:
				st.Port = outside[rng.Intn(len(outside))]
			}
			if k > 0 && rng.Intn(3) == 0 {
				st = step{Kind: "release", Port: rng.Intn(4)}
			}
			plan[g] = append(plan[g], st)
		}
		if rng.Intn(3) == 0 {
			// remembered-port episode: acquire 0, release it, a refused acquire under the same name, acquire 0 again
			n := fmt.Sprintf("n%d", g)
			plan[g] = append(plan[g], step{Kind: "acquire", Name: n}, step{Kind: "release", Port: -1},
				step{Kind: "acquire", Name: n, Port: outside[rng.Intn(len(outside))]}, step{Kind: "acquire", Name: n})
		}
	}
	c.Data["mgr_plan"] = plan
	var mu sync.Mutex
	var ops []porcupine.Operation
	var wg sync.WaitGroup
	for g := 0; g < nG; g++ {
		wg.Add(1)
		go func(g int) {
			defer wg.Done()
			var held []int
			for _, st := range plan[g] {
				var in mgrIn
				var out mgrOut
				call := h.Now()
				if st.Kind == "acquire" {
					in = mgrIn{Kind: "acquire", Name: st.Name, Port: st.Port}
					p, err := m.Acquire(st.Name, st.Port)
					if err != nil {
						out.Err = err.Error()
					} else {
						out.Port = p
						held = append(held, p)
					}
				} else {
					if len(held) == 0 {
						continue
					}
					k := len(held) - 1 // -1: the port acquired last
					if st.Port >= 0 {
						k = st.Port % len(held)
					}
					in = mgrIn{Kind: "release", Port: held[k]}
					m.Release(held[k])
					held = append(held[:k], held[k+1:]...)
				}
				ret := h.Now()
				mu.Lock()
				ops = append(ops, porcupine.Operation{ClientId: g, Input: in, Output: out, Call: call, Return: ret})
				mu.Unlock()
				c.Ev("mgr", "g", g, "in", in, "out", out, "call", call, "ret", ret)
			}
			// what is still held is really held: exclusive OS-level ownership is not the manager's job, accounting is
			_ = held
		}(g)
	}
	wg.Wait()
	res, _ := porcupine.CheckOperationsVerbose(mgrModel(allowed), ops, 60*time.Second)
	switch res {
	case porcupine.Illegal:
		c.Violation("manager-history-not-linearizable", "history of %d Acquire/Release calls from %d goroutines on a %s manager for %v has no sequential explanation by the reference allocator", len(ops), nG, netType, al)
	case porcupine.Unknown:
		run.Inconclusive("porcupine timeout (manager)")
	}
	var sig []string
	for _, o := range ops {
		in, out := o.Input.(mgrIn), o.Output.(mgrOut)
		cls := "zero"
		switch {
		case in.Kind == "release":
			cls = "rel"
		case allowed[in.Port]:
			cls = "in"
		case in.Port != 0:
			cls = "out"
		}
		sig = append(sig, cls+"/"+out.Err)
	}
	sort.Strings(sig)
	run.Count("manager_histories", 1)
	run.Count("manager_ops", int64(len(ops)))
	run.Distinct(fmt.Sprintf("mgr|%s|%d|%d|%v", netType, len(al), nG, sig))
}
