package main

import (
	"bufio"
	"encoding/base64"
	"errors"
	"fmt"
	"io"
	"math/rand"
	"net"
	"regexp"
	"sort"
	"strconv"
	"strings"
	"sync"
	"sync/atomic"
	"syscall"
	"time"

	"github.com/anishathalye/porcupine"
	"github.com/spf13/cobra"

	"github.com/fatedier/frp/pkg/config"
	v1 "github.com/fatedier/frp/pkg/config/v1"

	"github.com/fatedier/frp/pkg/msg"

	"verif/h"
)

// world is one frps with its own allowPorts / quota configuration, a set of scripted sessions, the harness's
// squatters, the recorded history and the book of acknowledged registrations (the reference ledger).
type world struct {
	c       *h.Case
	pfx     string
	srv     *h.Server
	bind    int
	block   []int // every port of this world: block[0] = bind port, the rest allowed or outside
	allowed map[int]bool
	outside []int
	quota   int
	model   *allocModel

	mu      sync.Mutex
	ops     []porcupine.Operation
	tainted bool
	peers   map[int]*h.Peer
	live    map[int]map[string]pinfo // acknowledged live proxies per session
	ended   map[int]bool
	squats  [2]map[int]io.Closer
	locks   map[string]*sync.Mutex
	sig     []string
	closed  bool

	raced    map[string]bool // proxy names that were the subject of racing duplicate registrations
	source   string          // toml | legacy-ini | flag
	spelling string

	sawDeadAddr atomic.Bool
}

const harnessClient = 1000

type worldCfg struct {
	NAllowed int
	Quota    int
}

// newWorld claims a block of 9 ports (1 control + 8 candidates), allows a PRNG-chosen subset and starts frps.
func newWorld(c *h.Case, cfg worldCfg) (*world, error) {
	rng := c.Rng
	w := &world{c: c, pfx: fmt.Sprintf("c%d.", c.Idx), allowed: map[int]bool{}, quota: cfg.Quota,
		peers: map[int]*h.Peer{}, live: map[int]map[string]pinfo{}, ended: map[int]bool{}, locks: map[string]*sync.Mutex{}}
	w.squats = [2]map[int]io.Closer{{}, {}}
	w.block = takeBlock()
	if w.block == nil {
		return nil, fmt.Errorf("no free port block left")
	}
	w.bind = w.block[0]
	cand := append([]int(nil), w.block[1:]...)
	// a contiguous run plus scattered singles so that both forms of allowPorts entries occur
	perm := rng.Perm(len(cand))
	chosen := map[int]bool{}
	runLen := 0
	if cfg.NAllowed >= 2 && rng.Intn(3) > 0 {
		runLen = 2 + rng.Intn(cfg.NAllowed-1)
		start := rng.Intn(len(cand) - runLen + 1)
		for i := 0; i < runLen; i++ {
			chosen[cand[start+i]] = true
		}
	}
	for _, i := range perm {
		if len(chosen) >= cfg.NAllowed {
			break
		}
		chosen[cand[i]] = true
	}
	var list []int
	for p := range chosen {
		list = append(list, p)
	}
	sort.Ints(list)
	var ents []string
	for i := 0; i < len(list); {
		j := i
		for j+1 < len(list) && list[j+1] == list[j]+1 {
			j++
		}
		switch {
		case j > i:
			ents = append(ents, fmt.Sprintf("{start=%d,end=%d}", list[i], list[j]))
		case rng.Intn(3) == 0:
			ents = append(ents, fmt.Sprintf("{start=%d,end=%d}", list[i], list[i]))
		default:
			ents = append(ents, fmt.Sprintf("{single=%d}", list[i]))
		}
		i = j + 1
	}
	for _, p := range cand {
		if chosen[p] {
			w.allowed[p] = true
		} else {
			w.outside = append(w.outside, p)
		}
	}
	w.model = &allocModel{allowed: w.allowed, quota: cfg.Quota}
	text := fmt.Sprintf(`
bindAddr = "127.0.0.1"
bindPort = %d
auth.token = "%s"
maxPortsPerClient = %d
userConnTimeout = 5
allowPorts = [%s]
`, w.bind, token, cfg.Quota, strings.Join(ents, ","))
	c.Data["allow_ports"], c.Data["quota"], c.Data["bind_port"] = strings.Join(ents, ","), cfg.Quota, w.bind
	// the way the set reaches the server is part of the case: TOML entries, a legacy INI file, the --allow_ports flag
	w.source = "toml"
	switch x := rng.Intn(100); {
	case x < 22:
		w.source = "legacy-ini"
	case x < 36:
		w.source = "flag"
	}
	var srv *h.Server
	var err error
	if w.source != "toml" {
		spelling, wellFormed := spellPorts(rng, list)
		c.Data["allow_ports_source"], c.Data["allow_ports_spelling"] = w.source, spelling
		w.spelling = spelling
		srv, err = w.startFrom(spelling)
		if err != nil {
			// the loader may reject a spelling (the server does not start): not a verdict, the case runs from TOML
			run.Count("spelling_rejected_"+w.source, 1)
			if wellFormed {
				// numbers, dashes, commas and blanks only, no empty item: the pinned tree accepts these
				run.Inconclusive("well-formed allow_ports spelling rejected at start-up (" + w.source + ")")
			}
			c.Ev("spelling-rejected", "source", w.source, "spelling", spelling, "err", fmt.Sprint(err))
			w.source, srv = "toml", nil
		} else {
			run.Count("spelling_accepted_"+w.source, 1)
		}
	}
	if srv == nil {
		srv, err = h.StartServerText(prop, text)
		if err != nil {
			giveBlock(w.block)
			return nil, err
		}
	}
	w.srv = srv
	if w.source != "toml" && !w.precheck() {
		w.close()
		return nil, fmt.Errorf("allowPorts set of the started server differs from the configured one")
	}
	return w, nil
}

// spellPorts writes the logical set as an allow_ports string: runs as ranges (also split into adjacent or overlapping
// ranges), singles as numbers or one-port ranges, a port repeated inside a range, any order, blanks around commas and
// dashes, now and then a trailing comma.
func spellPorts(rng *rand.Rand, list []int) (spelling string, wellFormed bool) {
	var items [][2]int
	for i := 0; i < len(list); {
		j := i
		for j+1 < len(list) && list[j+1] == list[j]+1 {
			j++
		}
		a, b := list[i], list[j]
		switch {
		case b > a && rng.Intn(4) == 0: // adjacent ranges
			m := a + rng.Intn(b-a)
			items = append(items, [2]int{a, m}, [2]int{m + 1, b})
		case b > a && rng.Intn(4) == 0: // overlapping ranges
			m := a + rng.Intn(b-a+1)
			n := a + rng.Intn(m-a+1)
			items = append(items, [2]int{a, m}, [2]int{n, b})
		default:
			items = append(items, [2]int{a, b})
		}
		if rng.Intn(6) == 0 { // a port of the run once more
			p := a + rng.Intn(b-a+1)
			items = append(items, [2]int{p, p})
		}
		i = j + 1
	}
	rng.Shuffle(len(items), func(i, j int) { items[i], items[j] = items[j], items[i] })
	blanks := rng.Intn(5) > 0
	sp := func() string {
		if !blanks {
			return ""
		}
		return []string{"", " ", " ", "  ", "\t"}[rng.Intn(5)]
	}
	var sb strings.Builder
	sb.WriteString(sp())
	for i, it := range items {
		if i > 0 {
			sb.WriteString(sp() + "," + sp())
		}
		if it[0] == it[1] && rng.Intn(3) > 0 {
			fmt.Fprintf(&sb, "%d", it[0])
		} else {
			fmt.Fprintf(&sb, "%d%s-%s%d", it[0], sp(), sp(), it[1])
		}
	}
	wellFormed = true
	if rng.Intn(12) == 0 {
		sb.WriteString(sp() + ",")
		wellFormed = false
	}
	sb.WriteString(sp())
	return sb.String(), wellFormed
}

// startFrom starts frps with the allow list given as a string, through the repository's own legacy INI loader or its
// own command line flag registration (as cmd/frps does).
func (w *world) startFrom(spelling string) (*h.Server, error) {
	if w.source == "legacy-ini" {
		cfg, err := h.LoadServerConfig(prop, fmt.Sprintf("[common]\nbind_addr = 127.0.0.1\nbind_port = %d\ntoken = %s\nmax_ports_per_client = %d\nuser_conn_timeout = 5\nallow_ports = %s\n",
			w.bind, token, w.quota, spelling))
		if err != nil {
			return nil, err
		}
		return h.StartServer(cfg)
	}
	cfg := &v1.ServerConfig{}
	cmd := &cobra.Command{Use: "frps"}
	config.RegisterServerConfigFlags(cmd, cfg)
	cmd.SetGlobalNormalizationFunc(config.WordSepNormalizeFunc)
	if err := cmd.ParseFlags([]string{"--bind_addr=127.0.0.1", "--proxy_bind_addr=127.0.0.1", fmt.Sprintf("--bind_port=%d", w.bind), "--token=" + token,
		fmt.Sprintf("--max_ports_per_client=%d", w.quota), "--allow_ports=" + spelling}); err != nil {
		return nil, err
	}
	cfg.Complete()
	return h.StartServer(cfg)
}

// precheck decides, before anything else runs, whether an accepted spelling gave the server exactly the logical set:
// every port of the block outside the set must be refused (tcp and udp), and the managers' free sets must be the set.
// It also keeps a server that allows every port from handing out ports of other programs to server-chosen requests.
func (w *world) precheck() bool {
	c := w.c
	ok := true
	const s = 3000
	for i, port := range w.outside {
		proto := []string{"tcp", "udp"}[i%2]
		name := fmt.Sprintf("%spre%d", w.pfx, i)
		o := w.reg(s, name, proto, port, "", "")
		if o.Unk {
			return false
		}
		if o.OK {
			ok = false
			c.Violation("port-outside-allow-ports-granted-"+w.source, "server configured through %s with allow_ports %q (logical set %v): a %s proxy asking for port %d was acknowledged with :%d",
				w.source, w.spelling, w.allowedList(), proto, port, o.Port)
			w.closeP(s, name)
		}
	}
	w.end(s)
	snap := w.srv.Snapshot()
	for _, ps := range []struct {
		proto string
		free  []int
	}{{"tcp", snap.TCPPorts.Free}, {"udp", snap.UDPPorts.Free}} {
		if fmt.Sprint(ps.free) != fmt.Sprint(w.allowedList()) {
			ok = false
			show := ps.free
			if len(show) > 12 {
				show = show[:12]
			}
			c.Violation("allow-ports-set-differs-from-configured-"+w.source, "server configured through %s with allow_ports %q: the %s port manager starts with %d free ports %v..., the logical set is %v",
				w.source, w.spelling, ps.proto, len(ps.free), show, w.allowedList())
		}
	}
	return ok
}

func (w *world) allowedList() []int {
	var l []int
	for p := range w.allowed {
		l = append(l, p)
	}
	sort.Ints(l)
	return l
}

func (w *world) close() {
	w.mu.Lock()
	if w.closed {
		w.mu.Unlock()
		return
	}
	w.closed = true
	peers := w.peers
	w.mu.Unlock()
	for _, p := range peers {
		p.Close()
	}
	for i := 0; i < 2; i++ {
		for _, s := range w.squats[i] {
			s.Close()
		}
	}
	// cancelling the context alone does not end Service.Run (it sits in HandleListener): close the service itself first
	_ = w.srv.Svc.Close()
	w.srv.Close()
	giveBlock(w.block)
}

func (w *world) record(cid int, in opIn, out opOut, call, ret int64) {
	w.mu.Lock()
	w.ops = append(w.ops, porcupine.Operation{ClientId: cid, Input: in, Output: out, Call: call, Return: ret})
	w.mu.Unlock()
	w.c.Ev("op", "client", cid, "in", in, "out", out, "call", call, "ret", ret)
}

func (w *world) taint(why string) {
	w.mu.Lock()
	w.tainted = true
	w.mu.Unlock()
	run.Inconclusive(why)
	w.c.Ev("tainted", "why", why)
}

// lock serialises operations on the same proxy name (see Assumptions); keys are taken in sorted order.
func (w *world) lock(keys ...string) (unlock func()) {
	sort.Strings(keys)
	var held []*sync.Mutex
	last := ""
	for _, k := range keys {
		if k == last {
			continue
		}
		last = k
		w.mu.Lock()
		m := w.locks[k]
		if m == nil {
			m = &sync.Mutex{}
			w.locks[k] = m
		}
		w.mu.Unlock()
		m.Lock()
		held = append(held, m)
	}
	return func() {
		for i := len(held) - 1; i >= 0; i-- {
			held[i].Unlock()
		}
	}
}

// workHandler plays the backend on a work connection: tcp proxies get the ident exchange, udp proxies
// (message framed work connection) get every datagram answered with "<id>|<proxy>|<payload>".
func (w *world) workHandler(id string) func(p *h.Peer, wc *h.WorkConn) {
	return func(p *h.Peer, wc *h.WorkConn) {
		defer wc.Conn.Close()
		br := bufio.NewReader(wc.Conn)
		b, err := br.Peek(1)
		if err != nil {
			return
		}
		if b[0] == 'N' {
			nonce := make([]byte, 16)
			if _, err := io.ReadFull(br, nonce); err != nil {
				return
			}
			if _, err := wc.Conn.Write(append([]byte(id+"|"+wc.Start.ProxyName+"|"), nonce...)); err != nil {
				return
			}
			_, _ = io.Copy(io.Discard, br)
			return
		}
		for {
			m, err := msg.ReadMsg(br)
			if err != nil {
				return
			}
			if u, ok := m.(*msg.UDPPacket); ok {
				pl, _ := base64.StdEncoding.DecodeString(u.Content)
				ans := append([]byte(id+"|"+wc.Start.ProxyName+"|"), pl...)
				if err := msg.WriteMsg(wc.Conn, &msg.UDPPacket{Content: base64.StdEncoding.EncodeToString(ans), RemoteAddr: u.RemoteAddr}); err != nil {
					return
				}
			}
		}
	}
}

// session returns (logging in on first use) the scripted session s.
func (w *world) session(s int) *h.Peer {
	w.mu.Lock()
	p := w.peers[s]
	w.mu.Unlock()
	if p != nil {
		return p
	}
	p, err := h.DialPeer(h.PeerOpts{ServerPort: w.bind, TCPMux: true, Token: token, AutoWork: true,
		WorkHandler: w.workHandler(fmt.Sprintf("S%d", s))})
	if err != nil || !p.LoggedIn() {
		if p != nil {
			p.Close()
		}
		w.taint("login failed")
		return nil
	}
	w.mu.Lock()
	w.peers[s] = p
	if w.live[s] == nil {
		w.live[s] = map[string]pinfo{}
	}
	w.mu.Unlock()
	return p
}

var listenErrRe = regexp.MustCompile(`listen (?:tcp|udp) 127\.0\.0\.1:(\d+): bind: address already in use`)

func errClass(e string) string {
	switch {
	case e == "":
		return "ok"
	case strings.Contains(e, "max_ports_per_client"):
		return "quota"
	case strings.Contains(e, "already exists"):
		return "name-exists"
	case strings.Contains(e, "proxy name") && strings.Contains(e, "already in use"):
		return "name-lost-at-add"
	case strings.Contains(e, "port already used"):
		return "port-used"
	case strings.Contains(e, "must be in the range"):
		return "port-out-of-range"
	case strings.Contains(e, "port not allowed"):
		return "port-not-allowed"
	case strings.Contains(e, "port unavailable"):
		return "port-unavailable"
	case strings.Contains(e, "no available port"):
		return "no-port"
	case strings.Contains(e, "group"):
		return "group"
	case strings.Contains(e, "address already in use"):
		return "listen-failed"
	}
	return "other"
}

// reg sends a registration on session s, records it, applies the per-reply oracles and keeps the ledger.
func (w *world) reg(s int, name, proto string, port int, group, key string) opOut {
	if w.session(s) == nil {
		return opOut{Unk: true}
	}
	unlock := w.lock("n:" + name)
	defer unlock()
	return w.regRaw(s, name, proto, port, group, key, false)
}

// regNoLock is reg without the one-at-a-time rule for the proxy name (racing duplicate registrations).
func (w *world) regNoLock(s int, name, proto string, port int, group, key string) opOut {
	w.mu.Lock()
	if w.raced == nil {
		w.raced = map[string]bool{}
	}
	w.raced[name] = true
	w.mu.Unlock()
	return w.regRaw(s, name, proto, port, group, key, true)
}

func (w *world) regRaw(s int, name, proto string, port int, group, key string, raced bool) opOut {
	p := w.session(s)
	if p == nil {
		return opOut{Unk: true}
	}
	// a raced registration has a name of its own in the reference allocator: the server looks the name up first, acquires
	// the port then and enters the name last, so name exclusivity (C12's subject) is not one step with the port acquisition
	mname := name
	if raced {
		mname = fmt.Sprintf("%s#r%d", name, s)
	}
	in := opIn{Kind: "reg", Sess: s, Name: mname, Proto: proto, Port: port, Group: group, GroupKey: key}
	m := &msg.NewProxy{ProxyName: name, ProxyType: proto, RemotePort: port, Group: group, GroupKey: key}
	if proto == "stcp" {
		m.Sk, m.AllowUsers, m.RemotePort = "k", []string{"*"}, 0
	}
	call := h.Now()
	resp, err := p.NewProxy(m, 20*time.Second)
	ret := h.Now()
	if err != nil {
		w.taint("registration reply missing")
		return opOut{Unk: true}
	}
	out := opOut{OK: resp.Error == "", Err: resp.Error}
	run.Count("registrations", 1)
	run.Count("reg_"+errClass(resp.Error), 1)
	w.mu.Lock()
	w.sig = append(w.sig, proto+"/"+portClass(w, port)+"/"+errClass(resp.Error)+map[bool]string{true: "/g", false: ""}[group != ""])
	w.mu.Unlock()
	if !out.OK && raced && errClass(resp.Error) == "name-exists" {
		// refused at the name look-up, before any port was touched: nothing for the port allocator (names are C12's subject)
		w.c.Ev("raced-name-exists", "sess", s, "name", name)
		return out
	}
	if !out.OK && raced && errClass(resp.Error) == "name-lost-at-add" && (port == 0 || group != "" || proto == "stcp") {
		// lost the name after acquiring a port the reply does not tell: nothing to put into the history; the ledger and
		// the fill test at quiescence still see a port that was not given back
		w.c.Ev("raced-name-lost", "sess", s, "name", name)
		return out
	}
	if !out.OK && strings.Contains(resp.Error, "is already in use") && !strings.Contains(resp.Error, "address") && proto != "stcp" && port != 0 && group == "" {
		// lost the race for the name after its own port was acquired and bound: the requested port was held in between
		// (two steps for the reference allocator under a name of its own: acquisition, undo justified by the live winner)
		pseudo := mname
		if !raced {
			pseudo = fmt.Sprintf("%s#dup%d", name, s)
		}
		in.Kind, in.Name = "acq", pseudo
		w.record(s, in, opOut{OK: true, Port: port}, call, ret)
		w.record(s, opIn{Kind: "undup", Sess: s, Name: pseudo, Dup: name, Proto: proto}, opOut{OK: true}, call, ret)
		return out
	}
	if !out.OK {
		if m := listenErrRe.FindStringSubmatch(resp.Error); m != nil && proto != "stcp" {
			// refused because the listen after the acquisition failed: the port named in the error was held in
			// between (two steps for the reference allocator: acquisition, then undo justified by a foreign holder)
			lp, _ := strconv.Atoi(m[1])
			in.Kind = "acq"
			w.record(s, in, opOut{OK: true, Port: lp}, call, ret)
			w.record(s, opIn{Kind: "unacq", Sess: s, Name: mname, Proto: proto}, opOut{OK: true}, call, ret)
			return out
		}
		w.record(s, in, out, call, ret)
		return out
	}
	if proto == "stcp" {
		w.record(s, in, out, call, ret)
		w.mu.Lock()
		w.live[s][name] = pinfo{Sess: s, Proto: proto, Alias: mname}
		w.mu.Unlock()
		return out
	}
	kind := proto
	if group != "" {
		kind = "tcp-group"
	}
	if !strings.HasPrefix(resp.RemoteAddr, ":") {
		w.c.Violation("remote-addr-malformed", "registration of %s (%s) succeeded with remote address %q", name, kind, resp.RemoteAddr)
	}
	rp, perr := strconv.Atoi(strings.TrimPrefix(resp.RemoteAddr, ":"))
	if perr != nil {
		w.taint("remote address not parseable")
		return opOut{Unk: true}
	}
	out.Port = rp
	// an acknowledged registration is two steps for the reference allocator: acquisition (accounting) and listen
	in.Kind = "acq"
	w.record(s, in, out, call, ret)
	w.record(s, opIn{Kind: "bind", Sess: s, Name: mname, Proto: proto}, opOut{OK: true}, call, ret)
	w.mu.Lock()
	w.live[s][name] = pinfo{Sess: s, Proto: proto, Port: rp, Group: group, Alias: mname}
	w.mu.Unlock()
	if !w.allowed[rp] {
		w.c.Violation("granted-port-outside-allow-ports-"+kind, "proxy %s (%s, requested port %d) was granted %q; allowPorts = %v", name, kind, port, resp.RemoteAddr, w.allowedList())
	}
	if port != 0 && rp != port && group == "" {
		w.c.Violation("granted-port-differs-from-requested", "proxy %s (%s) asked for port %d and was told %q", name, kind, port, resp.RemoteAddr)
	}
	// the reported address must be where this proxy's users are accepted, now
	if proto == "tcp" {
		pc, pr := h.Now(), int64(0)
		o := w.askTCP(rp)
		pr = h.Now()
		w.record(s, opIn{Kind: "probe", Sess: s, Port: rp, Proto: "tcp"}, o, pc, pr)
		switch {
		case o.Unk:
			run.Count("probes_uninformative", 1)
		case o.Owner == "none":
			w.sawDeadAddr.Store(true)
			w.c.Violation("remote-addr-not-accepting-"+kind, "proxy %s (%s, requested port %d) was told remote address %q but nothing accepts connections there", name, kind, port, resp.RemoteAddr)
		case group == "" && o.Owner != fmt.Sprintf("S%d|%s", s, name):
			w.c.Violation("remote-addr-served-by-another-owner-"+kind, "proxy %s of session %d was told remote address %q but connections there are answered by %q", name, s, resp.RemoteAddr, o.Owner)
		}
		run.Count("probes", 1)
	} else if b, ok := isBound("udp", rp); ok && !b {
		w.c.Violation("remote-addr-not-bound-udp", "udp proxy %s was told remote address %q but no udp socket of the server is bound there", name, resp.RemoteAddr)
	}
	return out
}

func portClass(w *world, p int) string {
	switch {
	case p == 0:
		return "zero"
	case w.allowed[p]:
		return "in"
	case p < 0:
		return "neg"
	case p > 65535:
		return "big"
	case p == w.bind:
		return "bind"
	}
	return "out"
}

// closeP sends CloseProxy and uses the Ping/Pong round trip as acknowledgement.
func (w *world) closeP(s int, name string) {
	p := w.session(s)
	if p == nil {
		return
	}
	unlock := w.lock("n:" + name)
	defer unlock()
	call := h.Now()
	_ = p.CloseProxy(name)
	_, err := p.Ping(20 * time.Second)
	ret := h.Now()
	if err != nil {
		w.taint("close barrier missing")
		return
	}
	w.mu.Lock()
	mname := name
	if a := w.live[s][name].Alias; a != "" {
		mname = a
	}
	delete(w.live[s], name)
	w.sig = append(w.sig, "close")
	w.mu.Unlock()
	w.record(s, opIn{Kind: "close", Sess: s, Name: mname}, opOut{OK: true}, call, ret)
	run.Count("closes", 1)
}

// end drops session s abruptly; the operation returns when the run id has left the server's session table.
func (w *world) end(s int) {
	w.mu.Lock()
	p := w.peers[s]
	var keys []string
	for n := range w.live[s] {
		keys = append(keys, "n:"+n)
	}
	w.mu.Unlock()
	if p == nil {
		return
	}
	unlock := w.lock(keys...)
	defer unlock()
	call := h.Now()
	p.Close()
	rid := p.RunID
	gone := h.Eventually(20*time.Second, func() bool {
		for _, ss := range w.srv.Snapshot().Sessions {
			if ss.RunID == rid {
				return false
			}
		}
		return true
	})
	ret := h.Now()
	if !gone {
		w.taint("dropped session still in the session table after 20 s")
		return
	}
	w.mu.Lock()
	was := w.live[s]
	w.live[s] = map[string]pinfo{}
	w.ended[s] = true
	delete(w.peers, s)
	w.sig = append(w.sig, "end")
	w.mu.Unlock()
	// the server closes the session's proxies one after the other: one close step per proxy inside the drop's interval
	for n, pi := range was {
		if pi.Alias != "" {
			n = pi.Alias
		}
		w.record(s, opIn{Kind: "close", Sess: s, Name: n}, opOut{OK: true}, call, ret)
	}
	w.record(s, opIn{Kind: "end", Sess: s}, opOut{OK: true}, call, ret)
	run.Count("session_drops", 1)
}

type udpSquat struct{ c *net.UDPConn }

func (u udpSquat) Close() error { return u.c.Close() }

type tcpSquat struct{ b *h.TCPBackend }

func (t tcpSquat) Close() error { t.b.Close(); return nil }

// squat binds the port in the harness (another program holding the port).
func (w *world) squat(cid int, proto string, port int) bool {
	pi := protoIdx(proto)
	call := h.Now()
	var cl io.Closer
	if proto == "udp" {
		uc, err := net.ListenUDP("udp", &net.UDPAddr{IP: net.IPv4(127, 0, 0, 1), Port: port})
		if err == nil {
			cl = udpSquat{uc}
		}
	} else {
		b, err := h.StartTCPBackend(port, h.IdentEcho("SQUAT"))
		if err == nil {
			cl = tcpSquat{b}
		}
	}
	ret := h.Now()
	if cl != nil {
		w.mu.Lock()
		w.squats[pi][port] = cl
		w.mu.Unlock()
	}
	w.record(cid, opIn{Kind: "squat", Proto: proto, Port: port}, opOut{OK: cl != nil}, call, ret)
	run.Count("squats", 1)
	return cl != nil
}

func (w *world) unsquat(cid int, proto string, port int) {
	pi := protoIdx(proto)
	w.mu.Lock()
	cl := w.squats[pi][port]
	delete(w.squats[pi], port)
	w.mu.Unlock()
	if cl == nil {
		return
	}
	call := h.Now()
	cl.Close()
	w.record(cid, opIn{Kind: "unsquat", Proto: proto, Port: port}, opOut{OK: true}, call, h.Now())
}

// askTCP connects to the port and reports who answers the ident exchange.
func (w *world) askTCP(port int) opOut {
	c, err := net.DialTimeout("tcp", fmt.Sprintf("127.0.0.1:%d", port), 5*time.Second)
	if err != nil {
		if errors.Is(err, syscall.ECONNREFUSED) {
			return opOut{Owner: "none"}
		}
		return opOut{Unk: true}
	}
	defer c.Close()
	id, err := h.AskIdentOn(c, 10*time.Second)
	if err != nil {
		return opOut{Unk: true}
	}
	if strings.HasPrefix(id, "SQUAT|") {
		return opOut{Owner: "SQUAT"}
	}
	return opOut{Owner: id}
}

func (w *world) probe(cid int, port int) opOut {
	call := h.Now()
	o := w.askTCP(port)
	w.record(cid, opIn{Kind: "probe", Sess: cid, Port: port, Proto: "tcp"}, o, call, h.Now())
	run.Count("probes", 1)
	if o.Unk {
		run.Count("probes_uninformative", 1)
	}
	return o
}

// askUDP sends ident datagrams to the port until one is answered (the server fetches the udp work connection
// 500 ms after the registration and retries every second) and returns "S<k>|<proxy>".
func askUDP(port int, limit time.Duration) (string, error) {
	c, err := net.DialUDP("udp", nil, &net.UDPAddr{IP: net.IPv4(127, 0, 0, 1), Port: port})
	if err != nil {
		return "", err
	}
	defer c.Close()
	deadline := time.Now().Add(limit)
	buf := make([]byte, 2048)
	for i := 0; time.Now().Before(deadline); i++ {
		nonce := fmt.Sprintf("U%06d-%d", i, port)
		_, _ = c.Write([]byte(nonce))
		_ = c.SetReadDeadline(time.Now().Add(250 * time.Millisecond))
		for {
			n, err := c.Read(buf)
			if err != nil {
				if ne, ok := err.(net.Error); !ok || !ne.Timeout() {
					time.Sleep(100 * time.Millisecond) // port unreachable: do not spin
				}
				break
			}
			f := strings.SplitN(string(buf[:n]), "|", 3)
			if len(f) == 3 && strings.HasPrefix(f[2], "U") {
				return f[0] + "|" + f[1], nil
			}
		}
	}
	return "", fmt.Errorf("no answer from udp port %d within %v", port, limit)
}

func pick[T any](rng *rand.Rand, l []T) T { return l[rng.Intn(len(l))] }

// ---------------------------------------------------------------------------------------------
// port blocks: the property's private range is cut once into blocks of 9 ports; a block belongs to one live world at a time

var blockPool chan []int

func initBlocks() {
	const n = 108
	blockPool = make(chan []int, n)
	seen := map[int]bool{}
	for i := 0; i < n; i++ {
		b := ports.Block(9)
		for _, p := range b {
			if seen[p] {
				return // the allocator wrapped around (foreign sockets in the range): no more disjoint blocks
			}
		}
		for _, p := range b {
			seen[p] = true
		}
		blockPool <- b
	}
}

func portIsFree(p int) bool {
	l, err := net.Listen("tcp", fmt.Sprintf("127.0.0.1:%d", p))
	if err != nil {
		return false
	}
	l.Close()
	u, err := net.ListenUDP("udp", &net.UDPAddr{IP: net.IPv4(127, 0, 0, 1), Port: p})
	if err != nil {
		return false
	}
	u.Close()
	return true
}

var blockBusy sync.Map // first port of a block -> *atomic.Int64: how often it was found bound while in the pool

// takeBlock returns a block whose ports are all free, or nil when none can be had: a tree that leaves listeners behind
// uses blocks up (a block found bound three times is retired); the cases that get no block are inconclusive.
func takeBlock() []int {
	allFree := func(b []int) bool {
		for _, p := range b {
			if !portIsFree(p) {
				return false
			}
		}
		return true
	}
	for tries := 0; tries < 400; tries++ {
		var b []int
		select {
		case b = <-blockPool:
		case <-time.After(20 * time.Second):
			return nil
		}
		if allFree(b) {
			blockBusy.Delete(b[0])
			return b
		}
		v, _ := blockBusy.LoadOrStore(b[0], new(atomic.Int64))
		if v.(*atomic.Int64).Add(1) >= 3 {
			run.Count("port_block_retired_still_bound", 1)
			continue
		}
		run.Count("port_block_still_busy", 1)
		blockPool <- b
		if tries >= 20 {
			time.Sleep(100 * time.Millisecond)
		}
	}
	return nil
}

func giveBlock(b []int) {
	blockPool <- b
}

// isBound asks the operating system whether something holds 127.0.0.1:port (by trying to bind it). ok=false: no answer.
func isBound(proto string, port int) (bound bool, ok bool) {
	var err error
	if proto == "udp" {
		var u *net.UDPConn
		u, err = net.ListenUDP("udp", &net.UDPAddr{IP: net.IPv4(127, 0, 0, 1), Port: port})
		if err == nil {
			u.Close()
			return false, true
		}
	} else {
		var l net.Listener
		l, err = net.Listen("tcp", fmt.Sprintf("127.0.0.1:%d", port))
		if err == nil {
			l.Close()
			return false, true
		}
	}
	if errors.Is(err, syscall.EADDRINUSE) {
		return true, true
	}
	return false, false
}
