// C20 — NAT hole punching: authenticated, complementary instructions, bounded state.
//
// Monitors (DESIGN.md §5/C20), all over a real in-process frps driven by scripted controls:
//  1. pair invariants (pairs.go): for every exchange NatHoleVisitor / sid hand-over / NatHoleClient the two
//     responses are joined and judged: same sid and mode, roles exactly {sender, receiver}, each party given the
//     other's addresses, candidate port ranges inside 1..65535 with from <= to, present exactly when the (mode, role)
//     probes a range and lying around the OTHER party's observed ports (forced far-apart observations), the role rules of modes 1, 2 and 4
//     (against the check's own reading of the address lists), malformed / out-of-range addresses => error to both,
//     responses only to the two controls involved. Histories of exchanges per address pair with success reports in
//     between drive the server's score table through its states.
//  2. admission (life.go): sessions are counted at the hook behind the controller's insert; requests that are not
//     correctly signed or do not name a live xtcp proxy must create none and must not reach the owner.
//  3. session ledger (life.go, main.go): timeout path, proxy closed between lookup and sid hand-over (gate),
//     owner supplying no work connections, controls going away, duplicates, unknown sids; at the end every session
//     the controller created must have left its table (the code's own completion delay is waited once).
//  4. loopback hole punching (loop.go): nathole.MakeHole for both roles on 127/8 with the instructions the real
//     controller produced for truthful observations, through the rotating mode-0 behaviours.
package main

import (
	"bytes"
	"fmt"
	"os"
	"runtime/pprof"
	"sort"
	"strings"
	"sync"
	"time"

	"github.com/fatedier/frp/pkg/msg"
	"github.com/fatedier/frp/pkg/nathole"

	"verif/h"
)

const prop = "C20"
const token = "c20-token"
const natHoleTimeoutS = 4  // nathole.NatHoleTimeout for this run (exported variable of the code under test)
const userConnTimeoutS = 3 // server's userConnTimeout
const maxLingerS = 1 + 38 + 30

var nHistories int

var (
	srv   *h.Server
	run   *h.Run
	ports *h.PortAlloc
)

// sessionLedger: every session the controller inserted (hook behind the insert), and what the check knows about it.
type sessRec struct {
	name     string
	created  time.Time
	path     string // "timeout" (owner silent / never reached) or "completion" (owner reported)
	deadline time.Time
	judged   bool
}

type sessionLedger struct {
	mu sync.Mutex
	m  map[string]*sessRec
}

var ledger = &sessionLedger{m: map[string]*sessRec{}}

func (l *sessionLedger) onCreate(name, sid string) {
	now := time.Now()
	l.mu.Lock()
	// until the owner reports, the hand-over may wait for work connections and the session then for the timeout
	l.m[sid] = &sessRec{name: name, created: now, path: "timeout", deadline: now.Add(time.Duration(maxLingerS+30) * time.Second)}
	l.mu.Unlock()
}

func (l *sessionLedger) clientSent(sid string) {
	l.mu.Lock()
	if r := l.m[sid]; r != nil {
		r.path = "completion"
		r.deadline = time.Now().Add(time.Duration(maxLingerS+30) * time.Second)
	}
	l.mu.Unlock()
}

// completed: the owner's response arrived; the code keeps the session for its ReadTimeoutMs + 30 s (and the
// sender's response is held back 1 s).
func (l *sessionLedger) completed(sid string, readTimeoutMs int) {
	l.mu.Lock()
	if r := l.m[sid]; r != nil {
		r.path = "completion"
		r.deadline = time.Now().Add(time.Duration(readTimeoutMs+31000)*time.Millisecond + 30*time.Second)
	}
	l.mu.Unlock()
}

func (l *sessionLedger) timeoutPath(sid string) {
	l.mu.Lock()
	if r := l.m[sid]; r != nil && r.path == "timeout" {
		r.deadline = time.Now().Add(time.Duration(maxLingerS+30) * time.Second)
	}
	l.mu.Unlock()
}

func (l *sessionLedger) judged(sid string) {
	l.mu.Lock()
	if r := l.m[sid]; r != nil {
		r.judged = true
	}
	l.mu.Unlock()
}

func handleVisitorGoroutines() int {
	var buf bytes.Buffer
	_ = pprof.Lookup("goroutine").WriteTo(&buf, 1)
	n := 0
	for _, blk := range strings.Split(buf.String(), "\n\n") {
		if strings.Contains(blk, "nathole.(*Controller).HandleVisitor") {
			var k int
			if _, err := fmt.Sscanf(blk, "%d @", &k); err == nil {
				n += k
			}
		}
	}
	return n
}

// finalLedger waits until every session the controller created has left its table (the code's own completion
// delay), then judges what is left.
func finalLedger() {
	var left []string
	// every case has ended: an entry the hook never announced has no excuse beyond the longest delay of the code
	quiescent := time.Now()
	unknownDeadline := quiescent.Add(time.Duration(maxLingerS+30) * time.Second)
	for {
		left = left[:0]
		live := srv.Snapshot().NatHoleSess
		now := time.Now()
		overdue := true
		ledger.mu.Lock()
		for _, sid := range live {
			r := ledger.m[sid]
			if r != nil && r.judged {
				continue
			}
			left = append(left, sid)
			if r == nil && now.Before(unknownDeadline) || r != nil && now.Before(r.deadline) {
				overdue = false
			}
		}
		ledger.mu.Unlock()
		if len(left) == 0 || overdue {
			break
		}
		time.Sleep(500 * time.Millisecond)
	}
	ledger.mu.Lock()
	total := len(ledger.m)
	byPath := map[string][]string{}
	for _, sid := range left {
		r := ledger.m[sid]
		if r == nil {
			byPath["unknown"] = append(byPath["unknown"], sid)
			continue
		}
		byPath[r.path] = append(byPath[r.path], fmt.Sprintf("%s(%s, created %v ago)", sid, r.name, time.Since(r.created).Round(time.Second)))
	}
	ledger.mu.Unlock()
	for path, l := range byPath {
		sort.Strings(l)
		if len(l) > 5 {
			l = append(l[:5], fmt.Sprintf("... %d more", len(l)-5))
		}
		key := "session-not-removed-after-completion"
		switch path {
		case "timeout":
			key = "session-not-removed-after-timeout"
		case "unknown":
			key = "session-table-entry-of-unknown-origin"
		}
		run.Violation(key, "%d session(s) still in the controller's table after the code's own delay (%s path) + 30 s grace: %v; goroutines in HandleVisitor: %d", len(byPath[path]), path, l, handleVisitorGoroutines())
	}
	run.Count("sessions_created", int64(total))
	run.Count("sessions_left_at_end", int64(len(left)))
	if len(left) == 0 {
		// nothing in the table: then nothing may be left behind on the goroutine side either
		if !h.Eventually(10*time.Second, func() bool { return handleVisitorGoroutines() == 0 }) {
			run.Violation("handle-visitor-goroutines-left", "session table empty but %d goroutines are still inside Controller.HandleVisitor", handleVisitorGoroutines())
		}
	}
}

func main() {
	run = h.NewRun(prop, "exploration")
	run.Rule = "histories: per case one pair of NAT classes (easy / public / regular, irregular port change / ip change / both) with its own address block (= its own score record), 3-22 exchanges with PRNG address lists (boundary-biased ports, 0-60 % with one injected malformation) and PRNG success reports in between; distinct = (class pair, sequence of observed (mode, roles, ttl, delays, port options) + report kind). admission cases distinct by plan; lifecycle cases by kind, parameters and hook trace; loopback cases by the behaviour punched"
	run.Assumptions = []string{
		"nathole.NatHoleTimeout (exported variable) is set to 4 s for the run; the completion delay (ReadTimeoutMs + 30 s) is the code's own and is waited for once at the end",
		"hard NAT / regular port changes are read from the address lists by the check itself: hard = mapped addresses differ; regular = same ip, ports differ, max-min in 1..5; a role rule is judged only when exactly one party has the feature",
		"malformed = not <IPv4 literal>:<decimal 1..65535>; IPv6 literals, leading zeros and '+' signs are accepted either way; a single mapped address is accepted either way",
		"hole punching is exercised without address translation only (loopback => mode 0); STUN discovery is not driven",
		"allowed-user admission of NAT-hole sessions is C08's clause and is not exercised here (allowUsers = *)",
	}
	ports = h.Ports(prop)
	port := ports.Get()
	nathole.NatHoleTimeout = natHoleTimeoutS
	var err error
	srv, err = h.StartServerText(prop, fmt.Sprintf(`
bindAddr = "127.0.0.1"
bindPort = %d
auth.token = "%s"
allowPorts = [{start=%d,end=%d}]
userConnTimeout = %d
transport.maxPoolCount = 2
`, port, token, 30900, 30999, userConnTimeoutS))
	if err != nil {
		fmt.Fprintln(os.Stderr, "server:", err)
		os.Exit(h.ExitHarnessError)
	}
	rmCreate := h.OnHook("nathole.visitor.afterLookup", "", func(_ string, args []any) {
		if len(args) >= 2 {
			n, _ := args[0].(string)
			s, _ := args[1].(string)
			ledger.onCreate(n, s)
		}
	})
	defer rmCreate()
	// a control that has nothing to do with anything: it must never see a NatHoleResp
	bystander, err := dialOwner("bystander", true)
	if err != nil {
		fmt.Fprintln(os.Stderr, "bystander:", err)
		os.Exit(h.ExitHarnessError)
	}
	_ = bystander.register("bystander.x", "bystander-sk")

	nHist := run.N(380, 6000)
	nHistories = nHist
	nAuth := run.N(40, 400)
	nLife := run.N(50, 500)
	nLoop := run.N(20, 120)
	loAuth, loLife, loLoop := nHist, nHist+nAuth, nHist+nAuth+nLife
	nRange := run.N(12, 48)
	loRange := loLoop + nLoop

	var wg sync.WaitGroup
	t0 := time.Now()
	phaseS := map[string]float64{}
	var phMu sync.Mutex
	phase := func(name string, f func()) {
		wg.Add(1)
		go func() {
			defer wg.Done()
			f()
			phMu.Lock()
			phaseS[name] = time.Since(t0).Seconds()
			phMu.Unlock()
		}()
	}
	phase("histories", func() { run.ParallelRange(0, nHist, 150, historyCase) })
	phase("admission", func() { run.ParallelRange(loAuth, nAuth, 8, authCase) })
	phase("lifecycle", func() { run.ParallelRange(loLife, nLife, 10, func(c *h.Case) { lifeCase(c, loLife) }) })
	phase("ranges", func() { run.ParallelRange(loRange, nRange, 12, func(c *h.Case) { rangeCase(c, loRange) }) })
	phase("loopback", func() { run.ParallelRange(loLoop, nLoop, 20, func(c *h.Case) { loopCase(c, loLoop) }) })
	wg.Wait()
	run.Set("phase_end_seconds", phaseS)

	for _, m := range bystander.p.Inbox() {
		if r, ok := m.(*msg.NatHoleResp); ok {
			run.Violation("response-delivered-to-uninvolved-control", "the bystander control received %+v", r)
		}
	}
	if len(bystander.ch("bystander.x")) > 0 {
		run.Violation("sid-handed-to-uninvolved-owner", "the bystander's xtcp proxy was handed a sid although nobody asked for it")
	}
	finalLedger()
	modeMu.Lock()
	run.Set("behaviours_observed", behaviours)
	modeMu.Unlock()
	loopMu.Lock()
	run.Set("loopback_behaviours_punched", loopBehaviours)
	nLoopB := len(loopBehaviours)
	loopMu.Unlock()
	if run.OnlyCase < 0 && nLoopB < 8 {
		run.Inconclusive(fmt.Sprintf("loopback punching covered only %d of the 10 mode-0 behaviours", nLoopB))
	}
	if run.OnlyCase < 0 {
		for _, k := range []string{"range_due_owner_mode1", "range_due_owner_mode3", "range_due_owner_mode4", "range_due_visitor_mode1", "range_due_visitor_mode3", "range_due_visitor_mode4"} {
			if run.Counter(k) == 0 {
				run.Inconclusive("no exchange observed with " + k)
			}
		}
	}
	bystander.p.Close()
	srv.Close()
	run.Finish(60)
}
