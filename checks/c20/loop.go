package main

// Two honest peers on loopback (no address translation, nothing filtered) follow the instructions the real
// controller produced for their truthful observations, using the client-side routine nathole.MakeHole.

import (
	"context"
	"fmt"
	"net"
	"sync"
	"time"

	"github.com/fatedier/frp/pkg/msg"
	"github.com/fatedier/frp/pkg/nathole"

	"verif/h"
)

type holeResult struct {
	conn  *net.UDPConn
	raddr *net.UDPAddr
	err   error
	start time.Time
	end   time.Time
}

func loopCase(c *h.Case, lo int) {
	rng := c.Rng
	pfx := fmt.Sprintf("c%d.", c.Idx)
	k := c.Idx - lo
	burn := k % 10 // sessions spent first so that the real one meets the k-th entry of the rotating score table
	public := (k/10)%3 == 1
	sameIP := (k/10)%3 == 2
	// every case owns two loopback addresses, i.e. its own score record on the server
	vIP := fmt.Sprintf("127.%d.%d.1", 1+(c.Idx>>8)&127, c.Idx&255)
	cIP := fmt.Sprintf("127.%d.%d.2", 1+(c.Idx>>8)&127, c.Idx&255)
	if sameIP {
		cIP = vIP
	}
	c.Data["burn"], c.Data["public"], c.Data["visitor_ip"], c.Data["client_ip"] = burn, public, vIP, cIP

	listen := func(ip string) (*net.UDPConn, error) {
		var last error
		for i := 0; i < 20; i++ {
			conn, err := net.ListenUDP("udp4", &net.UDPAddr{IP: net.ParseIP(ip), Port: ports.Get()})
			if err == nil {
				return conn, nil
			}
			last = err
		}
		return nil, last
	}
	vConn, err := listen(vIP)
	if err != nil {
		run.Inconclusive("loopback listen failed")
		return
	}
	defer vConn.Close()
	cConn, err := listen(cIP)
	if err != nil {
		run.Inconclusive("loopback listen failed")
		return
	}
	defer cConn.Close()
	vAddr, cAddr := vConn.LocalAddr().String(), cConn.LocalAddr().String()

	O, err := dialOwner("o", true)
	if err != nil {
		run.Inconclusive("owner login failed")
		return
	}
	defer O.p.Close()
	V, err := dialPlain("v")
	if err != nil {
		run.Inconclusive("visitor login failed")
		return
	}
	defer V.Close()
	name, sk := pfx+"x", fmt.Sprintf("sk-%d", rng.Int63())
	if err := O.register(name, sk); err != nil {
		c.Violation("xtcp-registration-refused", "fresh xtcp proxy %s refused: %v", name, err)
		return
	}
	book := newTidBook()
	mk := func(i int) sessIn {
		in := sessIn{Name: name, Sk: sk, Proto: "quic", VTid: fmt.Sprintf("%sv%d", pfx, i), CTid: fmt.Sprintf("%so%d", pfx, i),
			V: obs{Mapped: []string{vAddr, vAddr}, Class: "easy"}, C: obs{Mapped: []string{cAddr, cAddr}, Class: "easy"}}
		if public {
			in.C.Assisted = []string{cAddr}
			in.C.Class = "easy-public"
		}
		return in
	}
	// burn sessions: same observations, nobody punches; they only advance the score rotation
	for i := 0; i < burn; i++ {
		in := mk(i)
		out := drive(c, book, V, O, in)
		if judgePair(c, in, out) == "" {
			run.Inconclusive("loopback: burn session not answered")
			return
		}
	}
	// the real one: both parties call MakeHole the moment their instruction arrives
	in := mk(burn)
	ts := time.Now().Unix()
	book.sent(V, in.VTid)
	book.sent(O.p, in.CTid)
	sidCh := O.ch(name)
	for len(sidCh) > 0 {
		<-sidCh
	}
	_ = V.Send(&msg.NatHoleVisitor{TransactionID: in.VTid, ProxyName: name, Protocol: in.Proto, SignKey: h.AuthKey(sk, ts), Timestamp: ts, MappedAddrs: in.V.Mapped, AssistedAddrs: in.V.Assisted})
	var sid string
	select {
	case sid = <-sidCh:
	case <-time.After(20 * time.Second):
		run.Inconclusive("loopback: no sid")
		return
	}
	_ = O.p.Send(&msg.NatHoleClient{TransactionID: in.CTid, ProxyName: name, Sid: sid, MappedAddrs: in.C.Mapped, AssistedAddrs: in.C.Assisted})
	ledger.clientSent(sid)
	ctx, cancel := context.WithCancel(context.Background())
	defer cancel()
	var wg sync.WaitGroup
	var vRes, cRes holeResult
	var vResp, cResp *msg.NatHoleResp
	punch := func(p *h.Peer, tid string, conn *net.UDPConn, resp **msg.NatHoleResp, res *holeResult) {
		defer wg.Done()
		r, _, err := waitResp(p, tid, 25*time.Second)
		if err != nil {
			res.err = fmt.Errorf("no instruction: %v", err)
			return
		}
		*resp = r
		if r.Error != "" {
			res.err = fmt.Errorf("error response: %s", r.Error)
			return
		}
		res.start = time.Now()
		res.conn, res.raddr, res.err = nathole.MakeHole(ctx, conn, r, []byte(sk))
		res.end = time.Now()
	}
	wg.Add(2)
	go punch(V, in.VTid, vConn, &vResp, &vRes)
	go punch(O.p, in.CTid, cConn, &cResp, &cRes)
	wg.Wait()
	out := sessOut{Sid: sid, VResp: vResp, CResp: cResp}
	sig := judgePair(c, in, out)
	if sig == "" || vResp == nil || cResp == nil || vResp.Error != "" || cResp.Error != "" {
		if c.Violations() == 0 {
			c.Violation("truthful-loopback-observations-not-instructed", "session %s: visitor %+v, owner %+v", sid, vResp, cResp)
		}
		return
	}
	c.Ev("makehole", "visitor_err", fmt.Sprint(vRes.err), "visitor_peer", fmt.Sprint(vRes.raddr), "owner_err", fmt.Sprint(cRes.err), "owner_peer", fmt.Sprint(cRes.raddr),
		"visitor_took", vRes.end.Sub(vRes.start).String(), "owner_took", cRes.end.Sub(cRes.start).String())
	vb, cb := vResp.DetectBehavior, cResp.DetectBehavior
	desc := fmt.Sprintf("mode %d; visitor %s{ttl %d, delay %d ms, read %d ms} at %s; owner %s{ttl %d, delay %d ms, read %d ms} at %s", vb.Mode,
		vb.Role, vb.TTL, vb.SendDelayMs, vb.ReadTimeoutMs, vAddr, cb.Role, cb.TTL, cb.SendDelayMs, cb.ReadTimeoutMs, cAddr)
	run.Count("loopback_punches", 1)
	if vRes.err != nil || cRes.err != nil {
		// the harness started each side the moment its instruction arrived; rule out our own lateness before blaming frp
		snd, rcv, sb, rb := vRes, cRes, vb, cb
		if cb.Role == "sender" {
			snd, rcv, sb, rb = cRes, vRes, cb, vb
		}
		sendAt := snd.start.Add(time.Duration(sb.SendDelayMs) * time.Millisecond)
		giveUp := rcv.start.Add(time.Duration(rb.ReadTimeoutMs) * time.Millisecond)
		if !snd.start.IsZero() && !rcv.start.IsZero() && sendAt.After(giveUp.Add(-1500*time.Millisecond)) && rb.ReadTimeoutMs > sb.SendDelayMs+1000 {
			run.Inconclusive("loopback: harness too slow for the instructed timing")
			return
		}
		c.Violation("honest-loopback-peers-do-not-find-each-other", "session %s: MakeHole visitor error: %v, owner error: %v; %s", sid, vRes.err, cRes.err, desc)
	} else {
		if vRes.raddr.String() != cAddr {
			c.Violation("hole-made-with-someone-else", "session %s: the visitor's hole leads to %s, the owner listens on %s; %s", sid, vRes.raddr, cAddr, desc)
		}
		if cRes.raddr.String() != vAddr {
			c.Violation("hole-made-with-someone-else", "session %s: the owner's hole leads to %s, the visitor listens on %s; %s", sid, cRes.raddr, vAddr, desc)
		}
		_ = O.p.Send(&msg.NatHoleReport{Sid: sid, Success: true})
		run.Count("loopback_holes_made", 1)
	}
	loopSeen(fmt.Sprintf("%s,ttl%d,%d,delay%d,%d", vb.Role, vb.TTL, cb.TTL, vb.SendDelayMs, cb.SendDelayMs))
	run.Distinct(fmt.Sprintf("loop|%s|%v|%v", sig, public, sameIP))
	book.strays(c, map[string]*h.Peer{"owner": O.p, "visitor": V})
	if k < 2 {
		run.Sample(map[string]any{"kind": "loopback", "instruction": desc, "visitor_found": fmt.Sprint(vRes.raddr), "owner_found": fmt.Sprint(cRes.raddr)})
	}
}

var loopMu sync.Mutex
var loopBehaviours = map[string]int{}

func loopSeen(s string) {
	loopMu.Lock()
	loopBehaviours[s]++
	loopMu.Unlock()
}
