package main

// Session admission (signed request, live xtcp proxy) and session lifecycle (timeout, proxy closed during the
// hand-over, owner not supplying work connections, controls going away, duplicates, unknown sids).

import (
	"fmt"
	"strings"
	"sync"
	"sync/atomic"
	"time"

	"github.com/fatedier/frp/pkg/msg"

	"verif/h"
)

// created counts sessions the controller inserted for proxies of one case (hook after the insert).
type createdCounter struct {
	n    atomic.Int64
	mu   sync.Mutex
	sids []string
	rm   func()
}

func countCreated(prefix string) *createdCounter {
	cc := &createdCounter{}
	cc.rm = h.OnHook("nathole.visitor.afterLookup", prefix, func(_ string, args []any) {
		cc.n.Add(1)
		if len(args) > 1 {
			if s, ok := args[1].(string); ok {
				cc.mu.Lock()
				cc.sids = append(cc.sids, s)
				cc.mu.Unlock()
			}
		}
	})
	return cc
}

func (cc *createdCounter) list() []string {
	cc.mu.Lock()
	defer cc.mu.Unlock()
	return append([]string(nil), cc.sids...)
}

func goodObs(c *h.Case, who string) obs {
	block := fmt.Sprintf("%d.%d.%d", 13+boolInt(who == "c"), (c.Idx>>8)&255, c.Idx&255)
	a := fmt.Sprintf("%s.1:%d", block, 2000+c.Rng.Intn(60000))
	return obs{Mapped: []string{a, a}, Class: "easy"}
}

// ---------------------------------------------------------------------------------------------
// admission

func authCase(c *h.Case) {
	rng := c.Rng
	pfx := fmt.Sprintf("c%d.", c.Idx)
	O, err := dialOwner("o", true)
	if err != nil {
		run.Inconclusive("owner login failed")
		return
	}
	defer O.p.Close()
	V, err := dialPlain("v")
	if err != nil {
		run.Inconclusive("visitor login failed")
		return
	}
	defer V.Close()
	cc := countCreated(pfx)
	defer cc.rm()
	book := newTidBook()

	name, sk := pfx+"x", fmt.Sprintf("sk-%d", rng.Int63())
	other, otherSk := pfx+"y", fmt.Sprintf("sk2-%d", rng.Int63())
	stcp := pfx + "s"
	if err := O.register(name, sk); err != nil {
		c.Violation("xtcp-registration-refused", "fresh xtcp proxy %s refused: %v", name, err)
		return
	}
	_ = O.register(other, otherSk)
	if r, err := O.p.NewProxy(&msg.NewProxy{ProxyName: stcp, ProxyType: "stcp", Sk: sk, AllowUsers: []string{"*"}}, 10*time.Second); err != nil || r.Error != "" {
		run.Inconclusive("stcp registration failed")
	}

	kinds := []string{"wrong-key", "stale-timestamp", "empty-key", "token-as-key", "key-of-other-proxy", "unknown-proxy", "stcp-proxy",
		"case-variant-name", "closed-proxy", "reregistered-old-key", "owner-session-gone"}
	rng.Shuffle(len(kinds), func(i, j int) { kinds[i], kinds[j] = kinds[j], kinds[i] })
	n := 4 + rng.Intn(5)
	// closed-proxy style attempts change the world: keep at most one of them, at the end
	var plan []string
	var tail string
	for _, k := range kinds {
		if k == "closed-proxy" || k == "reregistered-old-key" || k == "owner-session-gone" {
			if tail == "" {
				tail = k
			}
			continue
		}
		if len(plan) < n {
			plan = append(plan, k)
		}
	}
	plan = append(plan, "good", tail)
	pos := rng.Intn(len(plan) - 1)
	plan[pos], plan[len(plan)-2] = plan[len(plan)-2], plan[pos] // the positive control anywhere before the tail
	c.Data["plan"] = plan

	admitted := int64(0)
	attempt := func(k int, kind string) {
		ts := time.Now().Unix()
		tid := fmt.Sprintf("%sa%d", pfx, k)
		m := &msg.NatHoleVisitor{TransactionID: tid, ProxyName: name, Protocol: "quic", Timestamp: ts, SignKey: h.AuthKey(sk, ts), MappedAddrs: goodObs(c, "v").Mapped}
		switch kind {
		case "wrong-key":
			m.SignKey = h.AuthKey(sk+"x", ts)
		case "stale-timestamp":
			m.Timestamp = ts + 1 + int64(rng.Intn(1000))
		case "empty-key":
			m.SignKey = ""
		case "token-as-key":
			m.SignKey = h.AuthKey(token, ts)
		case "key-of-other-proxy":
			m.SignKey = h.AuthKey(otherSk, ts)
		case "unknown-proxy":
			m.ProxyName = pfx + "nobody"
		case "stcp-proxy":
			m.ProxyName = stcp
		case "case-variant-name":
			m.ProxyName = strings.ToUpper(name)
		case "closed-proxy":
			_ = O.p.CloseProxy(name)
			if _, err := O.p.Ping(10 * time.Second); err != nil {
				run.Inconclusive("close barrier missing")
				return
			}
		case "reregistered-old-key":
			_ = O.p.CloseProxy(name)
			if _, err := O.p.Ping(10 * time.Second); err != nil {
				run.Inconclusive("close barrier missing")
				return
			}
			if err := O.register(name, sk+"-new"); err != nil {
				c.Violation("xtcp-reregistration-refused", "xtcp proxy %s closed and registered again by its owner: %v", name, err)
				return
			}
		case "owner-session-gone":
			rid := O.p.RunID
			O.p.Close()
			if !h.Eventually(15*time.Second, func() bool {
				for _, s := range srv.Snapshot().Sessions {
					if s.RunID == rid {
						return false
					}
				}
				return true
			}) {
				run.Inconclusive("owner session not gone")
				return
			}
		}
		before := cc.n.Load()
		for len(O.ch(name)) > 0 {
			<-O.ch(name)
		}
		book.sent(V, tid)
		c.Ev("attempt", "kind", kind, "msg", m)
		if err := V.Send(m); err != nil {
			run.Inconclusive("visitor send failed")
			return
		}
		if kind == "good" {
			var sid string
			select {
			case sid = <-O.ch(name):
			case <-time.After(20 * time.Second):
			}
			if sid == "" {
				if r, _, err := waitResp(V, tid, time.Millisecond); err == nil {
					c.Violation("signed-request-for-live-proxy-refused", "correctly signed request for live xtcp proxy %s refused: %q", name, r.Error)
				} else {
					run.Inconclusive("good request: no sid")
				}
				return
			}
			admitted++
			ctid := tid + ".o"
			book.sent(O.p, ctid)
			_ = O.p.Send(&msg.NatHoleClient{TransactionID: ctid, ProxyName: name, Sid: sid, MappedAddrs: goodObs(c, "c").Mapped})
			ledger.clientSent(sid)
			vr, _, _ := waitResp(V, tid, 25*time.Second)
			cr, _, _ := waitResp(O.p, ctid, 25*time.Second)
			if vr == nil || cr == nil || vr.Error != "" || cr.Error != "" {
				c.Violation("signed-request-for-live-proxy-not-served", "correctly signed request for live xtcp proxy %s: visitor response %+v, owner response %+v", name, vr, cr)
			} else {
				ledger.completed(sid, cr.DetectBehavior.ReadTimeoutMs)
			}
			run.Count("admission_positive_controls", 1)
			return
		}
		// refused kinds: the error reply is written after the lookup, so the creation counter is final when it arrives
		r, _, err := waitResp(V, tid, 10*time.Second)
		run.Count("admission_refusals_expected", 1)
		if err != nil {
			run.Count("admission_refusal_without_reply", 1)
			time.Sleep(200 * time.Millisecond)
		}
		var leaked string
		select {
		case leaked = <-O.ch(name):
		case <-time.After(30 * time.Millisecond):
		}
		if n := cc.n.Load() - before; n != 0 || leaked != "" || (r != nil && r.Error == "") {
			c.Violation("session-created-for-inadmissible-request:"+kind, "NatHoleVisitor{proxy %q, key %q, timestamp %d} (%s): %d session(s) created, sid handed to the owner %q, reply %+v",
				m.ProxyName, m.SignKey, m.Timestamp, kind, n, leaked, r)
		}
		if r != nil && (r.Sid != "" || len(r.CandidateAddrs) > 0 || r.DetectBehavior.Role != "") {
			c.Violation("refusal-carries-session-data", "refusal (%s) carries sid %q candidates %v role %q", kind, r.Sid, r.CandidateAddrs, r.DetectBehavior.Role)
		}
		if kind == "reregistered-old-key" {
			// and the new secret is the one that works now
			ts := time.Now().Unix()
			tid2 := tid + ".new"
			book.sent(V, tid2)
			_ = V.Send(&msg.NatHoleVisitor{TransactionID: tid2, ProxyName: name, Protocol: "quic", Timestamp: ts, SignKey: h.AuthKey(sk+"-new", ts), MappedAddrs: goodObs(c, "v").Mapped})
			select {
			case sid := <-O.ch(name):
				admitted++
				ledger.timeoutPath(sid) // the owner stays silent: this session ends by timeout
			case <-time.After(20 * time.Second):
				c.Violation("signed-request-for-live-proxy-refused", "request signed with the secret of the re-registered proxy %s was not handed to its owner", name)
			}
		}
	}
	for k, kind := range plan {
		attempt(k, kind)
		if c.Violations() > 0 {
			break
		}
	}
	if got := cc.n.Load(); got != admitted && c.Violations() == 0 {
		c.Violation("sessions-created-differ-from-admitted", "%d sessions created for proxies of this case, %d admissible requests sent (plan %v)", got, admitted, plan)
	}
	book.strays(c, map[string]*h.Peer{"owner": O.p, "visitor": V})
	run.Distinct("auth|" + strings.Join(plan, ","))
	run.Count("admission_cases", 1)
}

// ---------------------------------------------------------------------------------------------
// lifecycle

var lifeKinds = []string{"timeout", "gate-close", "busy-close", "visitor-gone", "owner-gone", "dup-client", "unknown-sid", "gate-close", "busy-close", "late-client", "recover-after-failed-handover"}

// graceTimeout: bounded-progress watchdog for the controller's NatHoleTimeout path (3 x timer + 10 s).
func graceTimeout() time.Duration { return time.Duration(3*natHoleTimeoutS+10) * time.Second }

func waitGone(sids []string, d time.Duration) (left []string) {
	h.Eventually(d, func() bool {
		left = left[:0]
		live := map[string]bool{}
		for _, s := range srv.Snapshot().NatHoleSess {
			live[s] = true
		}
		for _, s := range sids {
			if live[s] {
				left = append(left, s)
			}
		}
		return len(left) == 0
	})
	return left
}

func lifeCase(c *h.Case, lo int) {
	rng := c.Rng
	pfx := fmt.Sprintf("c%d.", c.Idx)
	kind := lifeKinds[(c.Idx-lo)%len(lifeKinds)]
	c.Data["kind"] = kind
	name, sk := pfx+"x", fmt.Sprintf("sk-%d", rng.Int63())
	cc := countCreated(pfx)
	defer cc.rm()
	book := newTidBook()
	supply := kind != "busy-close" && kind != "recover-after-failed-handover"
	O, err := dialOwner("o", supply)
	if err != nil {
		run.Inconclusive("owner login failed")
		return
	}
	defer O.p.Close()
	V, err := dialPlain("v")
	if err != nil {
		run.Inconclusive("visitor login failed")
		return
	}
	defer V.Close()
	if err := O.register(name, sk); err != nil {
		c.Violation("xtcp-registration-refused", "fresh xtcp proxy %s refused: %v", name, err)
		return
	}
	rmPerturb, trace := func() {}, func() []string { return nil }
	if kind == "visitor-gone" || kind == "owner-gone" || kind == "dup-client" {
		rmPerturb, trace = h.Perturb(rng, pfx)
	}
	defer rmPerturb()
	request := func(k int) string {
		ts := time.Now().Unix()
		tid := fmt.Sprintf("%sv%d", pfx, k)
		book.sent(V, tid)
		_ = V.Send(&msg.NatHoleVisitor{TransactionID: tid, ProxyName: name, Protocol: "quic", Timestamp: ts, SignKey: h.AuthKey(sk, ts), MappedAddrs: goodObs(c, "v").Mapped})
		return tid
	}
	waitCreated := func(n int64) bool {
		return h.Eventually(15*time.Second, func() bool { return cc.n.Load() >= n })
	}
	sig := kind

	switch kind {
	case "timeout":
		// the owner never answers: the session must go after the controller's timeout, nobody is instructed
		tid := request(0)
		var sid string
		select {
		case sid = <-O.ch(name):
		case <-time.After(20 * time.Second):
			run.Inconclusive("timeout case: no sid")
			return
		}
		ledger.timeoutPath(sid)
		t0 := time.Now()
		if left := waitGone([]string{sid}, time.Duration(natHoleTimeoutS)*time.Second+graceTimeout()); len(left) > 0 {
			ledger.judged(sid)
			c.Violation("session-not-removed-after-timeout", "session %s: the owner never answered; still in the session table %v after the hand-over (timeout %d s)", sid, time.Since(t0).Round(time.Second), natHoleTimeoutS)
		}
		if r, _, err := waitResp(V, tid, 50*time.Millisecond); err == nil && r.Error == "" {
			c.Violation("instruction-without-owner-observation", "session %s: visitor received %+v although the owner never reported", sid, r)
		}
		run.Count("timeout_sessions", 1)

	case "late-client":
		// the owner answers after the session timed out: nobody may be answered, nothing may crash
		tid := request(0)
		var sid string
		select {
		case sid = <-O.ch(name):
		case <-time.After(20 * time.Second):
			run.Inconclusive("late-client case: no sid")
			return
		}
		ledger.timeoutPath(sid)
		if left := waitGone([]string{sid}, time.Duration(natHoleTimeoutS)*time.Second+graceTimeout()); len(left) > 0 {
			ledger.judged(sid)
			c.Violation("session-not-removed-after-timeout", "session %s still in the session table after timeout %d s + grace", sid, natHoleTimeoutS)
			return
		}
		ctid := pfx + "late"
		book.sent(O.p, ctid)
		_ = O.p.Send(&msg.NatHoleClient{TransactionID: ctid, ProxyName: name, Sid: sid, MappedAddrs: goodObs(c, "c").Mapped})
		if _, err := O.p.Ping(10 * time.Second); err != nil {
			c.Violation("control-dead-after-late-client-message", "owner's control does not answer a ping after a NatHoleClient for an expired sid: %v", err)
		}
		time.Sleep(1200 * time.Millisecond)
		if r, _, err := waitResp(V, tid, 10*time.Millisecond); err == nil && r.Error == "" {
			c.Violation("instruction-after-session-expired", "visitor instructed for expired session %s: %+v", sid, r)
		}
		if r, _, err := waitResp(O.p, ctid, 10*time.Millisecond); err == nil && r.Error == "" {
			c.Violation("instruction-after-session-expired", "owner instructed for expired session %s: %+v", sid, r)
		}
		if n := len(srv.Snapshot().NatHoleSess); n > 0 {
			for _, s := range srv.Snapshot().NatHoleSess {
				if s == sid {
					c.Violation("expired-session-resurrected", "sid %s back in the session table after a late NatHoleClient", sid)
				}
			}
		}
		run.Count("late_client_messages", 1)

	case "gate-close":
		// the proxy is closed exactly between the controller's lookup and the sid hand-over
		g := h.NewGate("nathole.visitor.afterLookup", name, 1)
		defer g.Release()
		request(0)
		if !g.WaitArrived(15 * time.Second) {
			run.Inconclusive("afterLookup gate not reached")
			return
		}
		sids := cc.list()
		if rng.Intn(2) == 0 {
			_ = O.p.CloseProxy(name)
			if _, err := O.p.Ping(10 * time.Second); err != nil {
				run.Inconclusive("close barrier missing")
				return
			}
			sig += "|close-proxy"
		} else {
			O.p.Close()
			sig += "|owner-drops"
		}
		if !h.Eventually(15*time.Second, func() bool {
			for _, n := range srv.Snapshot().NatHoleClients {
				if n == name {
					return false
				}
			}
			return true
		}) {
			run.Inconclusive("proxy not closed")
			return
		}
		for _, s := range sids {
			ledger.timeoutPath(s)
		}
		g.Release()
		run.Count("gate_afterLookup_forced", 1)
		t0 := time.Now()
		if left := waitGone(sids, time.Duration(natHoleTimeoutS)*time.Second+graceTimeout()); len(left) > 0 {
			for _, s := range left {
				ledger.judged(s)
			}
			c.Violation("session-left-after-proxy-closed-before-sid-handover", "xtcp proxy %s was closed while the visitor's request sat between the proxy lookup and the sid hand-over: session %v still in the session table %v later (timeout %d s); goroutines in HandleVisitor: %d",
				name, left, time.Since(t0).Round(time.Second), natHoleTimeoutS, handleVisitorGoroutines())
		}

	case "busy-close":
		// the owner supplies no work connections: the proxy's hand-over goroutine is busy with the first sid while
		// further requests queue; then the proxy is closed
		nReq := 2 + rng.Intn(3)
		for k := 0; k < nReq; k++ {
			request(k)
		}
		if !waitCreated(int64(nReq)) {
			run.Inconclusive("busy-close: sessions not created")
			return
		}
		time.Sleep(time.Duration(rng.Intn(300)) * time.Millisecond)
		closing := rng.Intn(4) > 0
		if closing {
			_ = O.p.CloseProxy(name)
			_, _ = O.p.Ping(10 * time.Second)
		}
		sids := cc.list()
		for _, s := range sids {
			ledger.timeoutPath(s)
		}
		// every queued sid waits at most userConnTimeout for a work connection, then its session at most NatHoleTimeout
		bound := time.Duration(nReq*userConnTimeoutS+natHoleTimeoutS)*time.Second + graceTimeout() + time.Duration(3*nReq*userConnTimeoutS)*time.Second
		t0 := time.Now()
		if left := waitGone(sids, bound); len(left) > 0 {
			for _, s := range left {
				ledger.judged(s)
			}
			key := "session-left-after-proxy-closed-before-sid-handover"
			if !closing {
				key = "session-left-when-owner-supplies-no-work-connection"
			}
			c.Violation(key, "xtcp proxy %s (owner supplies no work connections, %d requests queued, proxy closed: %v): sessions %v still in the session table %v later; goroutines in HandleVisitor: %d",
				name, nReq, closing, left, time.Since(t0).Round(time.Second), handleVisitorGoroutines())
		}
		sig += fmt.Sprintf("|%d|%v", nReq, closing)
		run.Count("busy_owner_requests", int64(nReq))

	case "recover-after-failed-handover":
		// the owner does not answer the first ReqWorkConn: the hand-over of the first sid fails after userConnTimeout
		// (that request may go unanswered). The owner then supplies work connections as usual: the proxy is still
		// registered, so the next correctly signed request must be served
		request(0)
		if !waitCreated(1) {
			run.Inconclusive("recover: first session not created")
			return
		}
		first := cc.list()
		for _, s := range first {
			ledger.timeoutPath(s)
		}
		if !h.Eventually(10*time.Second, func() bool { return O.p.ReqWorkConnSeen.Load() >= 1 }) {
			run.Inconclusive("recover: no ReqWorkConn for the first sid")
			return
		}
		// the work-connection wait (userConnTimeout) and the session's wait for the owner (NatHoleTimeout, longer) start
		// together: once the first session has left the table the hand-over has failed
		if left := waitGone(first, time.Duration(natHoleTimeoutS)*time.Second+graceTimeout()); len(left) > 0 {
			for _, s := range left {
				ledger.judged(s)
			}
			c.Violation("session-not-removed-after-timeout", "session %v: owner supplied no work connection; still in the session table after timeout %d s + grace", left, natHoleTimeoutS)
			return
		}
		time.Sleep(1500 * time.Millisecond)
		stop := make(chan struct{})
		defer close(stop)
		go O.supplyFrom(O.p.ReqWorkConnSeen.Load(), stop)
		served := false
		var detail []string
		for try := 1; try <= 2 && !served; try++ {
			// still registered? (pre-check is answered from the controller's client table)
			ptid := fmt.Sprintf("%spre%d", pfx, try)
			book.sent(V, ptid)
			_ = V.Send(&msg.NatHoleVisitor{TransactionID: ptid, ProxyName: name, PreCheck: true})
			pre, _, perr := waitResp(V, ptid, 10*time.Second)
			if perr != nil || pre.Error != "" {
				run.Inconclusive("recover: pre-check not ok")
				return
			}
			if _, err := O.p.Ping(10 * time.Second); err != nil {
				run.Inconclusive("recover: owner's control not alive")
				return
			}
			for len(O.ch(name)) > 0 {
				<-O.ch(name)
			}
			vtid := request(try)
			var sid string
			select {
			case sid = <-O.ch(name):
			case <-time.After(time.Duration(3*natHoleTimeoutS+userConnTimeoutS) * time.Second):
				detail = append(detail, fmt.Sprintf("request %d: no sid reached the owner in %d s (ReqWorkConn seen by the owner: %d)", try, 3*natHoleTimeoutS+userConnTimeoutS, O.p.ReqWorkConnSeen.Load()))
				continue
			}
			ctid := fmt.Sprintf("%so%d", pfx, try)
			book.sent(O.p, ctid)
			_ = O.p.Send(&msg.NatHoleClient{TransactionID: ctid, ProxyName: name, Sid: sid, MappedAddrs: goodObs(c, "c").Mapped})
			ledger.clientSent(sid)
			vr, _, _ := waitResp(V, vtid, 25*time.Second)
			cr, _, _ := waitResp(O.p, ctid, 25*time.Second)
			if vr == nil || cr == nil || vr.Error != "" || cr.Error != "" || vr.Sid != sid || cr.Sid != sid {
				detail = append(detail, fmt.Sprintf("request %d: sid %s handed over, visitor response %+v, owner response %+v", try, sid, vr, cr))
				continue
			}
			ledger.completed(sid, cr.DetectBehavior.ReadTimeoutMs)
			served = true
			sig += fmt.Sprintf("|served-at-%d", try)
		}
		for _, s := range cc.list() {
			ledger.timeoutPath(s)
		}
		if !served {
			c.Violation("xtcp-proxy-dead-after-one-failed-sid-handover", "xtcp proxy %s: the owner left one ReqWorkConn unanswered (first sid hand-over failed after userConnTimeout %d s), then supplied work connections normally; the proxy is still registered (pre-check ok, owner's control answers pings) but two further correctly signed requests were not served: %v",
				name, userConnTimeoutS, detail)
		}
		run.Count("recover_after_failed_handover", 1)

	case "visitor-gone", "owner-gone":
		request(0)
		var sid string
		select {
		case sid = <-O.ch(name):
		case <-time.After(20 * time.Second):
			run.Inconclusive(kind + ": no sid")
			return
		}
		step := rng.Intn(3)
		sig += fmt.Sprintf("|%d", step)
		if kind == "visitor-gone" {
			// the visitor's control goes away before / while / after the owner answers
			if step == 0 {
				V.Close()
			}
			ctid := pfx + "o"
			book.sent(O.p, ctid)
			_ = O.p.Send(&msg.NatHoleClient{TransactionID: ctid, ProxyName: name, Sid: sid, MappedAddrs: goodObs(c, "c").Mapped})
			ledger.clientSent(sid)
			if step == 1 {
				V.Close()
			}
			r, _, err := waitResp(O.p, ctid, 25*time.Second)
			if err != nil {
				c.Violation("owner-not-answered-when-visitor-left", "session %s: visitor's control closed (step %d), the owner reported but received no response in 25 s", sid, step)
			} else {
				ledger.completed(sid, r.DetectBehavior.ReadTimeoutMs)
			}
			if step == 2 {
				V.Close()
			}
		} else {
			// the owner's control goes away instead of answering (its proxy is closed by the session's teardown)
			if step > 0 {
				time.Sleep(time.Duration(rng.Intn(20)) * time.Millisecond)
			}
			O.p.Close()
			ledger.timeoutPath(sid)
			if left := waitGone([]string{sid}, time.Duration(natHoleTimeoutS)*time.Second+graceTimeout()); len(left) > 0 {
				ledger.judged(sid)
				c.Violation("session-not-removed-after-timeout", "session %s: owner's control closed instead of answering; session still present after timeout %d s + grace", sid, natHoleTimeoutS)
			}
		}
		sig += "|" + h.TraceSig(trace())

	case "dup-client":
		// the owner reports twice with different transaction ids and addresses: one consistent pair of responses
		vtid := request(0)
		var sid string
		select {
		case sid = <-O.ch(name):
		case <-time.After(20 * time.Second):
			run.Inconclusive("dup-client: no sid")
			return
		}
		lists := [][]string{goodObs(c, "c").Mapped, {fmt.Sprintf("15.%d.%d.9:4100", (c.Idx>>8)&255, c.Idx&255), fmt.Sprintf("15.%d.%d.9:4100", (c.Idx>>8)&255, c.Idx&255)}}
		nDup := 2 + rng.Intn(2)
		for k := 0; k < nDup; k++ {
			ctid := fmt.Sprintf("%so%d", pfx, k)
			book.sent(O.p, ctid)
			_ = O.p.Send(&msg.NatHoleClient{TransactionID: ctid, ProxyName: name, Sid: sid, MappedAddrs: lists[k%2]})
		}
		ledger.clientSent(sid)
		vr, _, _ := waitResp(V, vtid, 25*time.Second)
		if vr == nil {
			c.Violation("no-response-to-reported-pair", "session %s: owner reported %d times, the visitor received no response in 25 s", sid, nDup)
			break
		}
		// the sender's response is delayed by 1 s: wait for the owner's first one, then a while for surplus ones
		_, _ = O.p.WaitMsg(25*time.Second, func(x msg.Message) bool { _, ok := x.(*msg.NatHoleResp); return ok })
		time.Sleep(1500 * time.Millisecond)
		var got []*msg.NatHoleResp
		for _, m := range O.p.Inbox() {
			if r, ok := m.(*msg.NatHoleResp); ok {
				got = append(got, r)
			}
		}
		if len(got) != 1 {
			c.Violation("owner-answered-not-exactly-once", "session %s: owner reported %d times and received %d responses", sid, nDup, len(got))
			break
		}
		ledger.completed(sid, got[0].DetectBehavior.ReadTimeoutMs)
		var k int
		if _, err := fmt.Sscanf(strings.TrimPrefix(got[0].TransactionID, pfx+"o"), "%d", &k); err != nil || k < 0 || k >= nDup {
			c.Violation("response-delivered-to-uninvolved-control", "owner's response carries transaction id %q", got[0].TransactionID)
			break
		}
		if vr.Error == "" && !sameSet(vr.CandidateAddrs, lists[k%2]) {
			c.Violation("responses-mix-two-client-messages", "session %s: the owner's response answers its message %d (%v) but the visitor was given %v", sid, k, lists[k%2], vr.CandidateAddrs)
		}
		if vr.Sid != sid || got[0].Sid != sid {
			c.Violation("session-id-differs", "sid %q: visitor told %q, owner told %q", sid, vr.Sid, got[0].Sid)
		}
		sig += fmt.Sprintf("|%d|%d|%s", nDup, k, h.TraceSig(trace()))
		run.Count("duplicate_client_messages", int64(nDup))

	case "unknown-sid":
		// a third control throws NatHoleClient / NatHoleReport messages with unknown, garbled and empty sids
		T, err := dialPlain("t")
		if err != nil {
			run.Inconclusive("third login failed")
			return
		}
		defer T.Close()
		vtid := request(0)
		var sid string
		select {
		case sid = <-O.ch(name):
		case <-time.After(20 * time.Second):
			run.Inconclusive("unknown-sid: no sid")
			return
		}
		for i, s := range []string{"", sid + "0", strings.ToUpper(sid), sid[1:], "1", strings.Repeat("9", 400)} {
			_ = T.Send(&msg.NatHoleClient{TransactionID: fmt.Sprintf("%st%d", pfx, i), ProxyName: name, Sid: s, MappedAddrs: goodObs(c, "c").Mapped})
			_ = T.Send(&msg.NatHoleReport{Sid: s, Success: i%2 == 0})
		}
		if _, err := T.Ping(10 * time.Second); err != nil {
			c.Violation("control-dead-after-unknown-sid", "third control does not answer a ping after messages with unknown sids: %v", err)
		}
		// the real owner then answers: the pair must be served as usual
		ctid := pfx + "o"
		book.sent(O.p, ctid)
		_ = O.p.Send(&msg.NatHoleClient{TransactionID: ctid, ProxyName: name, Sid: sid, MappedAddrs: goodObs(c, "c").Mapped})
		ledger.clientSent(sid)
		vr, _, _ := waitResp(V, vtid, 25*time.Second)
		cr, _, _ := waitResp(O.p, ctid, 25*time.Second)
		if vr == nil || cr == nil || vr.Error != "" || cr.Error != "" {
			c.Violation("pair-not-served-after-unknown-sid-noise", "session %s: visitor response %+v, owner response %+v", sid, vr, cr)
		} else {
			ledger.completed(sid, cr.DetectBehavior.ReadTimeoutMs)
		}
		time.Sleep(100 * time.Millisecond)
		for _, m := range T.Inbox() {
			if r, ok := m.(*msg.NatHoleResp); ok {
				c.Violation("response-delivered-to-uninvolved-control", "third control received %+v", r)
			}
		}
		run.Count("unknown_sid_messages", 12)
	}
	peers := map[string]*h.Peer{"owner": O.p, "visitor": V}
	book.strays(c, peers)
	run.Distinct("life|" + sig)
	run.Count("lifecycle_cases", 1)
}
