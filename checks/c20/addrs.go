package main

// Address lists: generator (hostile and honest NAT observations) and the check's own, independent reading of
// them (well-formed / malformed / ambiguous; hard NAT; regular port changes). Nothing here calls frp code.

import (
	"fmt"
	"math/rand"
	"net"
	"regexp"
	"strconv"
	"strings"
)

const (
	addrWell  = 0
	addrAmbig = 1 // syntactically debatable (IPv6 literal, leading zeros, explicit plus sign): either outcome is accepted
	addrBad   = 2 // malformed or out of range: must be answered with an error to both parties
)

var digitsRe = regexp.MustCompile(`^[0-9]+$`)
var signedRe = regexp.MustCompile(`^[+-][0-9]+$`)

// readAddr is the check's own reading of one "ip:port" observation.
func readAddr(s string) (ip string, port int, cls int, why string) {
	i := strings.LastIndex(s, ":")
	if i < 0 {
		return "", 0, addrBad, "missing-port"
	}
	host, ps := s[:i], s[i+1:]
	cls = addrWell
	switch {
	case strings.HasPrefix(host, "[") && strings.HasSuffix(host, "]"):
		inner := host[1 : len(host)-1]
		if p := net.ParseIP(inner); p == nil || !strings.Contains(inner, ":") {
			return "", 0, addrBad, "bad-host"
		}
		host, cls = inner, addrAmbig
	case host == "":
		return "", 0, addrBad, "empty-host"
	case strings.Contains(host, ":"):
		return "", 0, addrBad, "bad-host"
	default:
		p := net.ParseIP(host)
		if p == nil || p.To4() == nil {
			return "", 0, addrBad, "bad-host"
		}
		if p.String() != host {
			cls = addrAmbig
		}
	}
	switch {
	case digitsRe.MatchString(ps):
		if len(ps) > 1 && ps[0] == '0' {
			cls = addrAmbig
		}
		if len(ps) > 9 {
			return host, 0, addrBad, "port-out-of-range"
		}
		n, _ := strconv.Atoi(ps)
		if n < 1 || n > 65535 {
			return host, n, addrBad, "port-out-of-range"
		}
		return host, n, cls, ""
	case signedRe.MatchString(ps):
		if ps[0] == '-' {
			return host, 0, addrBad, "port-out-of-range"
		}
		n, _ := strconv.Atoi(ps[1:])
		if len(ps) > 9 || n < 1 || n > 65535 {
			return host, n, addrBad, "port-out-of-range"
		}
		return host, n, addrAmbig, ""
	default:
		return host, 0, addrBad, "bad-port"
	}
}

// sideFeat is what the check itself derives from one party's observation.
type sideFeat struct {
	N         int    // number of mapped addresses
	Cls       int    // worst class over mapped and assisted addresses
	Why       string // first reason for addrBad ("mapped:..."/"assisted:...")
	Hard      bool   // mapped addresses differ (ip or port)
	RegStrict bool   // same ip everywhere, ports differ, max-min within 1..5
	RegLoose  bool   // ports differ and max-min within 1..5 (whatever the ips do)
	Class     string // generator's class label (for signatures only)
}

func readSide(mapped, assisted []string) sideFeat {
	f := sideFeat{N: len(mapped)}
	ips, ports := map[string]bool{}, map[int]bool{}
	pmin, pmax := 1<<30, -1
	for _, a := range mapped {
		ip, port, cls, why := readAddr(a)
		if cls > f.Cls {
			f.Cls = cls
			if cls == addrBad {
				f.Why = "mapped:" + why
			}
		}
		if cls == addrBad {
			continue
		}
		ips[ip], ports[port] = true, true
		if port < pmin {
			pmin = port
		}
		if port > pmax {
			pmax = port
		}
	}
	for _, a := range assisted {
		_, _, cls, why := readAddr(a)
		if cls > f.Cls {
			f.Cls = cls
			if cls == addrBad {
				f.Why = "assisted:" + why
			}
		}
	}
	f.Hard = len(ips) > 1 || len(ports) > 1
	d := pmax - pmin
	f.RegLoose = len(ports) > 1 && d >= 1 && d <= 5
	f.RegStrict = f.RegLoose && len(ips) == 1
	return f
}

// obs is one party's generated observation.
type obs struct {
	Mapped   []string `json:"mapped"`
	Assisted []string `json:"assisted"`
	Class    string   `json:"class"`
	Twist    string   `json:"twist,omitempty"` // injected malformation, "" = honest
}

var natClasses = []string{"easy", "easy-public", "hard-port-regular", "hard-port-irregular", "hard-ip", "hard-both"}

var badTokens = []string{
	"", "%IP%", "%IP%:", "%IP%:abc", "%IP%:-5", "%IP%:0", "%IP%:65536", "%IP%:70000", "%IP%:99999999999999999999",
	":%PORT%", "nat.example.test:%PORT%", "1.2.3:%PORT%", "%IP%:%PORT%:90", "[%IP%:%PORT%", "%IP% :%PORT%", "256.1.1.1:%PORT%",
	"%IP%:0x50", "%IP%:8e1", "%IP%: %PORT%",
}
var ambigTokens = []string{"[2001:db8::%N%]:%PORT%", "%IP%:0%PORT%", "%IP%:+%PORT%"}

// basePort is biased to the boundaries of the port space (the range clamps) and otherwise uniform.
func basePort(rng *rand.Rand) int {
	switch rng.Intn(10) {
	case 0:
		return 1 + rng.Intn(12)
	case 1, 2:
		return 65535 - rng.Intn(16)
	case 3:
		return 65500 + rng.Intn(30)
	case 4:
		return 1024 + rng.Intn(8)
	default:
		return 1 + rng.Intn(65535)
	}
}

func clampPort(p int) int {
	if p < 1 {
		return 1
	}
	if p > 65535 {
		return 65535
	}
	return p
}

// genObs builds an honest observation of the given class. ipBlock is "a.b.c" (the party's private /24, unique per case
// and party so that the server's score table for this address pair is touched by this case only).
func genObs(rng *rand.Rand, ipBlock string, class string) obs {
	n := 2 + rng.Intn(3)
	if rng.Intn(3) > 0 {
		n = 2
	}
	ip := func(k int) string { return fmt.Sprintf("%s.%d", ipBlock, 1+k) }
	base := basePort(rng)
	o := obs{Class: class}
	add := func(ipk, port int) { o.Mapped = append(o.Mapped, fmt.Sprintf("%s:%d", ip(ipk), port)) }
	switch class {
	case "easy", "easy-public":
		for i := 0; i < n; i++ {
			add(0, base)
		}
	case "hard-port-regular":
		d := 1 + rng.Intn(5)
		if base+d > 65535 {
			base = 65535 - d
		}
		// the extreme ports differ by exactly d (1..5); inner ones lie in between; order is shuffled
		ports := []int{base, base + d}
		for len(ports) < n {
			ports = append(ports, base+rng.Intn(d+1))
		}
		rng.Shuffle(len(ports), func(i, j int) { ports[i], ports[j] = ports[j], ports[i] })
		for _, p := range ports {
			add(0, p)
		}
	case "hard-port-irregular":
		d := 6 + rng.Intn(3000)
		if rng.Intn(4) == 0 {
			d = 6
		}
		if base+d > 65535 {
			base = 65535 - d
		}
		ports := []int{base, base + d}
		for len(ports) < n {
			ports = append(ports, base+rng.Intn(d+1))
		}
		rng.Shuffle(len(ports), func(i, j int) { ports[i], ports[j] = ports[j], ports[i] })
		for _, p := range ports {
			add(0, p)
		}
	case "hard-ip":
		for i := 0; i < n; i++ {
			add(i, base)
		}
		if n > 2 && rng.Intn(2) == 0 { // a.b.c.1, a.b.c.1, a.b.c.2: the change is not between the first two
			o.Mapped[1] = o.Mapped[0]
		}
	case "hard-both":
		for i := 0; i < n; i++ {
			add(i, clampPort(base+i*(1+rng.Intn(4))+boolInt(i > 0)))
		}
	}
	// assisted (local) addresses: none, private ones, or - for the public class - the mapped ip itself
	switch {
	case class == "easy-public":
		o.Assisted = []string{fmt.Sprintf("%s:%d", ip(0), base)}
		if rng.Intn(2) == 0 {
			o.Assisted = append(o.Assisted, fmt.Sprintf("192.168.%d.%d:%d", rng.Intn(250), 2+rng.Intn(200), base))
		}
	case rng.Intn(3) == 0:
	default:
		k := 1 + rng.Intn(3)
		lp := 1024 + rng.Intn(60000)
		for i := 0; i < k; i++ {
			o.Assisted = append(o.Assisted, fmt.Sprintf("10.%d.%d.%d:%d", rng.Intn(250), rng.Intn(250), 2+i, lp))
		}
		if rng.Intn(4) == 0 { // duplicate neighbours (the server compacts them)
			o.Assisted = append(o.Assisted, o.Assisted[len(o.Assisted)-1])
		}
	}
	return o
}

func boolInt(b bool) int {
	if b {
		return 1
	}
	return 0
}

// twist injects one malformation (or an ambiguous spelling) into an honest observation.
func twist(rng *rand.Rand, o obs) obs {
	out := obs{Class: o.Class, Mapped: append([]string(nil), o.Mapped...), Assisted: append([]string(nil), o.Assisted...)}
	ip0, port0, _, _ := readAddr(o.Mapped[0])
	fill := func(t string) string {
		t = strings.ReplaceAll(t, "%IP%", ip0)
		t = strings.ReplaceAll(t, "%PORT%", strconv.Itoa(port0))
		t = strings.ReplaceAll(t, "%N%", strconv.Itoa(1+rng.Intn(9)))
		return t
	}
	switch k := rng.Intn(20); {
	case k < 5: // the whole mapped list shifted out of the port space, differences kept (the shape of a real list)
		shift := []int{70000, 65536, 100000, -70000, -66000}[rng.Intn(5)]
		for i, a := range out.Mapped {
			ip, p, _, _ := readAddr(a)
			np := p%1000 + shift
			if shift == 65536 {
				np = 65536 + p%4
			}
			out.Mapped[i] = fmt.Sprintf("%s:%d", ip, np)
		}
		out.Twist = "mapped-all-out-of-range"
	case k < 7: // only the last mapped address (the one the candidate port range is computed from)
		ip, p, _, _ := readAddr(out.Mapped[len(out.Mapped)-1])
		out.Mapped[len(out.Mapped)-1] = fmt.Sprintf("%s:%d", ip, []int{65536 + p%3, 0, -p, 70000 + p%7}[rng.Intn(4)])
		out.Twist = "mapped-last-out-of-range"
	case k < 12:
		pos := rng.Intn(len(out.Mapped))
		out.Mapped[pos] = fill(badTokens[rng.Intn(len(badTokens))])
		out.Twist = "mapped-bad-token"
	case k < 14:
		out.Mapped = out.Mapped[:0]
		out.Twist = "mapped-empty"
	case k < 15:
		out.Mapped = out.Mapped[:1]
		out.Twist = "mapped-single"
	case k < 18:
		t := fill(badTokens[rng.Intn(len(badTokens))])
		if len(out.Assisted) == 0 || rng.Intn(2) == 0 {
			out.Assisted = append(out.Assisted, t)
		} else {
			out.Assisted[rng.Intn(len(out.Assisted))] = t
		}
		out.Twist = "assisted-bad-token"
	default:
		t := fill(ambigTokens[rng.Intn(len(ambigTokens))])
		if rng.Intn(2) == 0 {
			out.Mapped[rng.Intn(len(out.Mapped))] = t
		} else {
			out.Assisted = append(out.Assisted, t)
		}
		out.Twist = "ambiguous-spelling"
	}
	return out
}

// addrSet: order-free, duplicate-free view of a list.
func addrSet(l []string) map[string]bool {
	m := map[string]bool{}
	for _, a := range l {
		m[a] = true
	}
	return m
}

func sameSet(a, b []string) bool {
	x, y := addrSet(a), addrSet(b)
	if len(x) != len(y) {
		return false
	}
	for k := range x {
		if !y[k] {
			return false
		}
	}
	return true
}
