package main

// Scripted visitor / owner controls, one NAT-hole exchange ("pair"), and the pair invariants.

import (
	"fmt"
	"math/rand"
	"slices"
	"sort"
	"strings"
	"sync"
	"time"

	"github.com/fatedier/frp/pkg/msg"

	"verif/h"
)

// owner is a scripted control that registers xtcp proxies; sids handed over on work connections are
// published per proxy name.
type owner struct {
	p   *h.Peer
	mu  sync.Mutex
	chs map[string]chan string
}

func (o *owner) ch(name string) chan string {
	o.mu.Lock()
	defer o.mu.Unlock()
	c, ok := o.chs[name]
	if !ok {
		c = make(chan string, 64)
		o.chs[name] = c
	}
	return c
}

func (o *owner) onWork(_ *h.Peer, wc *h.WorkConn) {
	defer wc.Conn.Close()
	if wc.Start == nil || wc.Start.Error != "" {
		return
	}
	var m msg.NatHoleSid
	_ = wc.Conn.SetReadDeadline(time.Now().Add(30 * time.Second))
	if err := msg.ReadMsgInto(wc.Conn, &m); err != nil {
		return
	}
	run.Count("sids_handed_to_owner", 1)
	select {
	case o.ch(wc.Start.ProxyName) <- m.Sid:
	default:
	}
}

// supplyFrom answers every ReqWorkConn after the first `skip` ones (for owners dialled without automatic supply).
func (o *owner) supplyFrom(skip int64, stop <-chan struct{}) {
	handled := skip
	for {
		select {
		case <-stop:
			return
		case <-time.After(5 * time.Millisecond):
		}
		for seen := o.p.ReqWorkConnSeen.Load(); handled < seen; handled++ {
			go func() {
				wc, err := o.p.OpenWorkConn()
				if err != nil {
					return
				}
				if _, err := wc.ReadStart(0); err != nil {
					wc.Conn.Close()
					return
				}
				o.onWork(o.p, wc)
			}()
		}
	}
}

func dialOwner(user string, supplyWork bool) (*owner, error) {
	o := &owner{chs: map[string]chan string{}}
	pool := 1
	if !supplyWork {
		pool = 0
	}
	p, err := h.DialPeer(h.PeerOpts{ServerPort: srv.Cfg.BindPort, TCPMux: true, Token: token, User: user, PoolCount: pool,
		AutoWork: supplyWork, WorkHandler: o.onWork})
	if err != nil {
		return nil, err
	}
	if !p.LoggedIn() {
		p.Close()
		return nil, fmt.Errorf("login refused: %s", p.LoginResp.Error)
	}
	o.p = p
	return o, nil
}

func dialPlain(user string) (*h.Peer, error) {
	p, err := h.DialPeer(h.PeerOpts{ServerPort: srv.Cfg.BindPort, TCPMux: true, Token: token, User: user})
	if err != nil {
		return nil, err
	}
	if !p.LoggedIn() {
		p.Close()
		return nil, fmt.Errorf("login refused: %s", p.LoginResp.Error)
	}
	return p, nil
}

func (o *owner) register(name, sk string) error {
	r, err := o.p.NewProxy(&msg.NewProxy{ProxyName: name, ProxyType: "xtcp", Sk: sk, AllowUsers: []string{"*"}}, 15*time.Second)
	if err != nil {
		return err
	}
	if r.Error != "" {
		return fmt.Errorf("%s", r.Error)
	}
	return nil
}

func waitResp(p *h.Peer, tid string, d time.Duration) (*msg.NatHoleResp, int64, error) {
	m, err := p.WaitMsg(d, func(x msg.Message) bool { r, ok := x.(*msg.NatHoleResp); return ok && r.TransactionID == tid })
	if err != nil {
		return nil, 0, err
	}
	return m.(*msg.NatHoleResp), h.Now(), nil
}

// tidBook remembers which transaction ids each control sent (for the "exactly the two controls" clause).
type tidBook struct {
	mu sync.Mutex
	m  map[*h.Peer]map[string]bool
}

func newTidBook() *tidBook { return &tidBook{m: map[*h.Peer]map[string]bool{}} }
func (b *tidBook) sent(p *h.Peer, tid string) {
	b.mu.Lock()
	if b.m[p] == nil {
		b.m[p] = map[string]bool{}
	}
	b.m[p][tid] = true
	b.mu.Unlock()
}

// strays judges, at the end of a case, every NatHoleResp any of the case's controls received.
func (b *tidBook) strays(c *h.Case, peers map[string]*h.Peer) {
	b.mu.Lock()
	defer b.mu.Unlock()
	for label, p := range peers {
		if p == nil {
			continue
		}
		seen := map[string]int{}
		for _, m := range p.Inbox() {
			r, ok := m.(*msg.NatHoleResp)
			if !ok {
				continue
			}
			seen[r.TransactionID]++
			if !b.m[p][r.TransactionID] {
				c.Violation("response-delivered-to-uninvolved-control", "control %q received NatHoleResp{transaction %q, sid %q, error %q, candidates %v} for a transaction it never started",
					label, r.TransactionID, r.Sid, r.Error, r.CandidateAddrs)
			}
		}
		for tid, n := range seen {
			if n > 1 {
				c.Violation("duplicate-response", "control %q received %d responses for transaction %q", label, n, tid)
			}
		}
	}
}

type sessIn struct {
	Name, Sk, Proto string
	V, C            obs
	VTid, CTid      string
	EarlyReport     bool // the owner reports success for the sid before it has even reported its addresses
}

type sessOut struct {
	Sid          string
	VResp, CResp *msg.NatHoleResp
	OwnerLatency time.Duration // NatHoleVisitor written -> NatHoleClient written (covers the controller's wait for the owner)
	Note         string
}

// drive performs one exchange: NatHoleVisitor on V, sid hand-over to O, NatHoleClient on O, both responses.
func drive(c *h.Case, book *tidBook, V *h.Peer, O *owner, in sessIn) sessOut {
	var out sessOut
	ts := time.Now().Unix()
	book.sent(V, in.VTid)
	book.sent(O.p, in.CTid)
	sidCh := O.ch(in.Name)
	for len(sidCh) > 0 { // stale sids of earlier sessions of this proxy
		<-sidCh
	}
	c.Ev("visitor", "tid", in.VTid, "mapped", in.V.Mapped, "assisted", in.V.Assisted, "twist", in.V.Twist)
	t0 := time.Now()
	if err := V.Send(&msg.NatHoleVisitor{TransactionID: in.VTid, ProxyName: in.Name, Protocol: in.Proto, SignKey: h.AuthKey(in.Sk, ts), Timestamp: ts,
		MappedAddrs: in.V.Mapped, AssistedAddrs: in.V.Assisted}); err != nil {
		out.Note = "visitor send failed"
		return out
	}
	select {
	case out.Sid = <-sidCh:
	case <-time.After(20 * time.Second):
		if r, _, err := waitResp(V, in.VTid, time.Millisecond); err == nil {
			out.VResp = r
			out.Note = "refused before hand-over"
			return out
		}
		out.Note = "sid never reached the owner"
		return out
	}
	if in.EarlyReport {
		_ = O.p.Send(&msg.NatHoleReport{Sid: out.Sid, Success: true})
		run.Count("reports_before_analysis", 1)
	}
	c.Ev("client", "tid", in.CTid, "sid", out.Sid, "mapped", in.C.Mapped, "assisted", in.C.Assisted, "twist", in.C.Twist)
	if err := O.p.Send(&msg.NatHoleClient{TransactionID: in.CTid, ProxyName: in.Name, Sid: out.Sid, MappedAddrs: in.C.Mapped, AssistedAddrs: in.C.Assisted}); err != nil {
		out.Note = "owner send failed"
		return out
	}
	out.OwnerLatency = time.Since(t0)
	ledger.clientSent(out.Sid)
	var wg sync.WaitGroup
	wg.Add(2)
	go func() { defer wg.Done(); out.VResp, _, _ = waitResp(V, in.VTid, 25*time.Second) }()
	go func() { defer wg.Done(); out.CResp, _, _ = waitResp(O.p, in.CTid, 25*time.Second) }()
	wg.Wait()
	c.Ev("responses", "sid", out.Sid, "visitor", out.VResp, "client", out.CResp)
	return out
}

// judgePair applies the pair invariants. It returns a short signature of what was observed ("" = nothing judged).
func judgePair(c *h.Case, in sessIn, out sessOut) string {
	vf, cf := readSide(in.V.Mapped, in.V.Assisted), readSide(in.C.Mapped, in.C.Assisted)
	mustErr, either, why := false, false, ""
	switch {
	case vf.Cls == addrBad:
		mustErr, why = true, "visitor-"+vf.Why
	case cf.Cls == addrBad:
		mustErr, why = true, "client-"+cf.Why
	case vf.N == 0 || cf.N == 0:
		mustErr, why = true, "no-mapped-address"
	case vf.Cls == addrAmbig || cf.Cls == addrAmbig || vf.N < 2 || cf.N < 2:
		either = true
	}
	desc := fmt.Sprintf("visitor{mapped %q assisted %q} client{mapped %q assisted %q}", in.V.Mapped, in.V.Assisted, in.C.Mapped, in.C.Assisted)

	if out.Sid == "" {
		if out.Note == "refused before hand-over" {
			c.Violation("signed-request-for-live-proxy-refused", "correctly signed NatHoleVisitor for live xtcp proxy %s answered with error %q before the owner was asked", in.Name, out.VResp.Error)
		} else {
			run.Inconclusive("pair: " + out.Note)
		}
		return ""
	}
	if out.VResp == nil && out.CResp == nil {
		if out.OwnerLatency < time.Duration(natHoleTimeoutS)*time.Second/2 && out.Note == "" {
			c.Violation("no-response-to-reported-pair", "session %s: both observations were reported (owner's report written %v after the visitor's request) but neither party received a response within 25 s; %s", out.Sid, out.OwnerLatency, desc)
		} else {
			run.Inconclusive("pair: no responses (" + out.Note + ")")
		}
		return ""
	}
	if out.VResp == nil || out.CResp == nil {
		who := "visitor"
		if out.CResp == nil {
			who = "proxy owner"
		}
		c.Violation("response-to-one-party-only", "session %s: the %s received no response within 25 s although the other party did; %s", out.Sid, who, desc)
		return ""
	}
	v, cl := out.VResp, out.CResp
	ledger.completed(out.Sid, cl.DetectBehavior.ReadTimeoutMs)
	run.Count("pairs_answered", 1)
	vErr, cErr := v.Error != "", cl.Error != ""
	if vErr != cErr {
		c.Violation("error-to-one-party-instruction-to-other", "session %s: visitor got {error %q role %q}, owner got {error %q role %q}; %s", out.Sid, v.Error, v.DetectBehavior.Role, cl.Error, cl.DetectBehavior.Role, desc)
		return ""
	}
	if vErr {
		run.Count("pairs_error_to_both", 1)
		for who, r := range map[string]*msg.NatHoleResp{"visitor": v, "owner": cl} {
			if r.DetectBehavior.Role != "" || len(r.CandidateAddrs) > 0 || len(r.DetectBehavior.CandidatePorts) > 0 {
				c.Violation("error-response-carries-instruction", "session %s: error response to the %s (%q) also carries role %q / candidates %v", out.Sid, who, r.Error, r.DetectBehavior.Role, r.CandidateAddrs)
			}
		}
		if !mustErr && !either {
			c.Violation("well-formed-pair-refused", "session %s: well-formed observations answered with errors %q / %q; %s", out.Sid, v.Error, cl.Error, desc)
			return ""
		}
		return "err:" + why
	}

	// both received an instruction
	run.Count("pairs_instructed", 1)
	if mustErr {
		key := "malformed-address-yields-instruction"
		switch {
		case strings.Contains(why, "port-out-of-range"):
			key = "out-of-range-port-yields-instruction"
		case strings.Contains(why, "assisted:"):
			key = "malformed-assisted-address-yields-instruction"
		case why == "no-mapped-address":
			key = "empty-address-list-yields-instruction"
		}
		c.Violation(key, "session %s: observations with a malformed / out-of-range address (%s) were answered with instructions (mode %d, roles %s/%s, candidate ports %v / %v) instead of an error to both; %s",
			out.Sid, why, v.DetectBehavior.Mode, v.DetectBehavior.Role, cl.DetectBehavior.Role, v.DetectBehavior.CandidatePorts, cl.DetectBehavior.CandidatePorts, desc)
	}
	vb, cb := v.DetectBehavior, cl.DetectBehavior
	if v.Sid != out.Sid || cl.Sid != out.Sid {
		c.Violation("session-id-differs", "sid handed to the owner %q, in the visitor's response %q, in the owner's response %q", out.Sid, v.Sid, cl.Sid)
	}
	if vb.Mode != cb.Mode {
		c.Violation("mode-differs", "session %s: visitor told mode %d, owner told mode %d; %s", out.Sid, vb.Mode, cb.Mode, desc)
	}
	roles := vb.Role + "/" + cb.Role
	if roles != "sender/receiver" && roles != "receiver/sender" {
		c.Violation("roles-not-complementary", "session %s mode %d: visitor role %q, owner role %q (want exactly one sender and one receiver); %s", out.Sid, vb.Mode, vb.Role, cb.Role, desc)
	}
	if vb.Mode < 0 || vb.Mode > 4 {
		c.Violation("unknown-mode", "session %s: mode %d", out.Sid, vb.Mode)
	}
	if !mustErr {
		if !sameSet(v.CandidateAddrs, in.C.Mapped) || len(v.CandidateAddrs) > len(in.C.Mapped) {
			c.Violation("visitor-not-given-owner-candidates", "session %s: visitor's candidate addresses %q, owner reported %q", out.Sid, v.CandidateAddrs, in.C.Mapped)
		}
		if !sameSet(cl.CandidateAddrs, in.V.Mapped) || len(cl.CandidateAddrs) > len(in.V.Mapped) {
			c.Violation("owner-not-given-visitor-candidates", "session %s: owner's candidate addresses %q, visitor reported %q", out.Sid, cl.CandidateAddrs, in.V.Mapped)
		}
		if !sameSet(v.AssistedAddrs, in.C.Assisted) {
			c.Violation("visitor-not-given-owner-assisted", "session %s: visitor's assisted addresses %q, owner reported %q", out.Sid, v.AssistedAddrs, in.C.Assisted)
		}
		if !sameSet(cl.AssistedAddrs, in.V.Assisted) {
			c.Violation("owner-not-given-visitor-assisted", "session %s: owner's assisted addresses %q, visitor reported %q", out.Sid, cl.AssistedAddrs, in.V.Assisted)
		}
	}
	for who, b := range map[string]msg.NatHoleDetectBehavior{"visitor": vb, "owner": cb} {
		for _, r := range b.CandidatePorts {
			run.Count("port_ranges_checked", 1)
			if r.From < 1 || r.To > 65535 || r.From > r.To {
				c.Violation("candidate-port-range-invalid", "session %s mode %d: %s told candidate port range {from %d, to %d} (want 1 <= from <= to <= 65535); %s", out.Sid, b.Mode, who, r.From, r.To, desc)
			}
		}
	}
	// a candidate port range is an instruction about the OTHER party's ports: present exactly when the behaviour table
	// gives this (mode, role) a port range number, around a port the other party was observed at, never around one's own
	if !mustErr && !either && vb.Mode == cb.Mode && (roles == "sender/receiver" || roles == "receiver/sender") {
		judgeRange(c, out.Sid, "visitor", vb, in.C.Mapped, in.V.Mapped, desc)
		judgeRange(c, out.Sid, "owner", cb, in.V.Mapped, in.C.Mapped, desc)
	}
	// role rules, judged when exactly one party has the named feature
	if !mustErr && !either && vb.Mode == cb.Mode {
		hardRole, easyRole := "", ""
		if vf.Hard != cf.Hard {
			hardRole, easyRole = cb.Role, vb.Role
			if vf.Hard {
				hardRole, easyRole = vb.Role, cb.Role
			}
		}
		switch vb.Mode {
		case 1:
			if hardRole != "" {
				run.Count("role_rule_mode1_judged", 1)
				if hardRole != "sender" {
					c.Violation("mode1-hard-nat-not-sender", "session %s mode 1: the hard NAT side is %q, the easy side %q; %s", out.Sid, hardRole, easyRole, desc)
				}
			}
		case 2:
			if hardRole != "" {
				run.Count("role_rule_mode2_judged", 1)
				if hardRole != "receiver" {
					c.Violation("mode2-hard-nat-not-receiver", "session %s mode 2: the hard NAT side is %q, the easy side %q; %s", out.Sid, hardRole, easyRole, desc)
				}
			}
		case 4:
			if vf.RegStrict && !cf.RegLoose || cf.RegStrict && !vf.RegLoose {
				regRole := cb.Role
				if vf.RegStrict {
					regRole = vb.Role
				}
				run.Count("role_rule_mode4_judged", 1)
				if regRole != "sender" {
					c.Violation("mode4-regular-side-not-sender", "session %s mode 4: the side with regular port changes is %q; %s", out.Sid, regRole, desc)
				}
			}
		}
	}
	// necessary for "two honest peers do find each other": the receiver must still be reading when the sender, which
	// gets its instruction 1 s later and then waits SendDelayMs, starts to send
	snd, rcv := vb, cb
	if cb.Role == "sender" {
		snd, rcv = cb, vb
	}
	if roles == "sender/receiver" || roles == "receiver/sender" {
		if rcv.ReadTimeoutMs > 0 && rcv.ReadTimeoutMs <= snd.SendDelayMs+1000 {
			c.Violation("receiver-gives-up-before-sender-starts", "session %s mode %d: receiver reads for %d ms, sender is told to wait %d ms (and is instructed 1 s after the receiver); %s",
				out.Sid, vb.Mode, rcv.ReadTimeoutMs, snd.SendDelayMs, desc)
		}
		if rcv.SendDelayMs != 0 {
			run.Count("receiver_with_send_delay", 1)
		}
	}
	sig := fmt.Sprintf("m%d|%s|ttl%d,%d|d%d,%d|rp%d,%d|lp%d,%d|cp%d,%d", vb.Mode, roles, vb.TTL, cb.TTL, vb.SendDelayMs, cb.SendDelayMs,
		vb.SendRandomPorts, cb.SendRandomPorts, vb.ListenRandomPorts, cb.ListenRandomPorts, len(vb.CandidatePorts), len(cb.CandidatePorts))
	modeSeen(vb.Mode, sig)
	return sig
}

// rangeNumber is the check's own copy of the behaviour tables' "ports range number" per (mode, role): how far around the
// other party's observed port the party is told to probe (0 = no range is handed out).
func rangeNumber(mode int, role string) int {
	switch {
	case mode == 1 && role == "receiver":
		return 10
	case mode == 3:
		return 10
	case mode == 4 && role == "receiver":
		return 2
	}
	return 0
}

func portsOf(list []string) (ports []int, last int) {
	for _, a := range list {
		if _, p, cls, _ := readAddr(a); cls != addrBad {
			ports = append(ports, p)
			last = p
		}
	}
	return
}

func adjacentDuplicates(l []string) bool {
	for i := 1; i < len(l); i++ {
		if l[i] == l[i-1] {
			return true
		}
	}
	return false
}

// judgeRange: `who` received behaviour b; otherMapped is what the other party observed, ownMapped what `who` observed.
func judgeRange(c *h.Case, sid, who string, b msg.NatHoleDetectBehavior, otherMapped, ownMapped []string, desc string) {
	n := rangeNumber(b.Mode, b.Role)
	if n == 0 {
		if len(b.CandidatePorts) > 0 {
			c.Violation("candidate-port-range-unexpected", "session %s mode %d: the %s (%s) was handed candidate port range %v although this mode and role probe no port range; %s", sid, b.Mode, who, b.Role, b.CandidatePorts, desc)
		}
		return
	}
	run.Count(fmt.Sprintf("range_due_%s_mode%d", who, b.Mode), 1)
	otherPorts, otherLast := portsOf(otherMapped)
	ownPorts, _ := portsOf(ownMapped)
	if len(b.CandidatePorts) == 0 {
		if adjacentDuplicates(otherMapped) {
			c.Violation("candidate-port-range-missing-after-repeated-observation", "session %s mode %d: the %s (%s, ports range number %d) was handed no candidate port range; the other party's mapped list %q repeats an address in neighbouring positions; %s",
				sid, b.Mode, who, b.Role, n, otherMapped, desc)
		} else {
			c.Violation("candidate-port-range-missing", "session %s mode %d: the %s (%s, ports range number %d) was handed no candidate port range for the other party's ports %v; %s", sid, b.Mode, who, b.Role, n, otherPorts, desc)
		}
		return
	}
	for _, r := range b.CandidatePorts {
		in := func(p int) bool { return p >= r.From && p <= r.To }
		hitOther, hitOwn := false, false
		for _, p := range otherPorts {
			hitOther = hitOther || in(p)
		}
		for _, p := range ownPorts {
			hitOwn = hitOwn || in(p)
		}
		switch {
		case !hitOther && hitOwn:
			c.Violation("candidate-port-range-built-from-own-observation", "session %s mode %d: the %s (%s) is told to probe ports %d-%d of the other party, which was observed at ports %v; the range is around the %s's own ports %v; %s",
				sid, b.Mode, who, b.Role, r.From, r.To, otherPorts, who, ownPorts, desc)
		case !hitOther:
			c.Violation("candidate-port-range-not-around-other-partys-port", "session %s mode %d: the %s (%s) is told to probe ports %d-%d, the other party was observed at ports %v; %s", sid, b.Mode, who, b.Role, r.From, r.To, otherPorts, desc)
		case r.From < slices.Min(otherPorts)-n || r.To > slices.Max(otherPorts)+n:
			c.Violation("candidate-port-range-wider-than-range-number", "session %s mode %d: the %s (%s, ports range number %d) is told to probe ports %d-%d; the other party was observed at ports %v (last %d); %s", sid, b.Mode, who, b.Role, n, r.From, r.To, otherPorts, otherLast, desc)
		default:
			// unambiguous only when the two parties' ports are far apart
			if !hitOwn {
				run.Count("ranges_around_other_partys_port_only", 1)
			}
		}
	}
}

var modeMu sync.Mutex
var behaviours = map[string]int{}

func modeSeen(mode int, sig string) {
	modeMu.Lock()
	behaviours[sig]++
	modeMu.Unlock()
	run.Count(fmt.Sprintf("mode%d_pairs", mode), 1)
}

// ---------------------------------------------------------------------------------------------
// history case: one address pair (its own score record on the server), a sequence of exchanges with
// success reports in between

// classesFor: the first 60 % of the cases get the class pairs whose sessions linger longest on the server (modes 2 and 4
// keep a session for up to 69 s), the rest the pairs that only meet modes 0, 1 and 3; so the single wait for the code's
// own completion delay at the end of the run overlaps with the remaining work.
func classesFor(rng *rand.Rand, idx, total int) (string, string) {
	hardAny := []string{"hard-port-irregular", "hard-ip", "hard-both", "hard-port-regular"}
	hardIrr := []string{"hard-port-irregular", "hard-ip", "hard-both"}
	easy := []string{"easy", "easy", "easy-public"}
	pick := func(l []string) string { return l[rng.Intn(len(l))] }
	var a, b string
	if idx < total*6/10 {
		switch rng.Intn(10) {
		case 0, 1, 2, 3:
			a, b = pick(hardAny), pick(easy)
		case 4, 5:
			a, b = "hard-port-regular", "hard-port-regular"
		case 6, 7:
			a, b = "hard-port-regular", pick(hardIrr)
		default:
			a, b = pick(natClasses), pick(natClasses)
		}
	} else {
		if rng.Intn(3) == 0 {
			a, b = pick(hardIrr), pick(hardIrr)
		} else {
			a, b = pick(easy), pick(easy)
		}
	}
	if rng.Intn(2) == 0 {
		a, b = b, a
	}
	return a, b
}

func historyCase(c *h.Case) {
	rng := c.Rng
	pfx := fmt.Sprintf("c%d.", c.Idx)
	vClass, cClass := classesFor(rng, c.Idx, nHistories)
	nSess := 3 + rng.Intn(6)
	switch x := rng.Intn(10); {
	case x >= 9:
		nSess = 15 + rng.Intn(8)
	case x >= 6:
		nSess = 9 + rng.Intn(6)
	}
	sameControl := rng.Intn(8) == 0
	withThird := rng.Intn(3) == 0
	badRate := []int{0, 0, 15, 30, 60}[rng.Intn(5)]
	c.Data["visitor_class"], c.Data["client_class"], c.Data["sessions"] = vClass, cClass, nSess
	c.Data["same_control"], c.Data["third_control"], c.Data["bad_percent"] = sameControl, withThird, badRate
	vBlock := fmt.Sprintf("11.%d.%d", (c.Idx>>8)&255, c.Idx&255)
	cBlock := fmt.Sprintf("12.%d.%d", (c.Idx>>8)&255, c.Idx&255)

	O, err := dialOwner(fmt.Sprintf("o%d", c.Idx%3), true)
	if err != nil {
		run.Inconclusive("owner login failed")
		return
	}
	defer O.p.Close()
	V := O.p
	if !sameControl {
		V, err = dialPlain(fmt.Sprintf("v%d", c.Idx%4))
		if err != nil {
			run.Inconclusive("visitor login failed")
			return
		}
		defer V.Close()
	}
	var T *owner
	if withThird {
		if T, err = dialOwner("t", true); err != nil {
			run.Inconclusive("third login failed")
			return
		}
		defer T.p.Close()
	}
	name, sk := pfx+"x", fmt.Sprintf("sk-%d-%d", c.Idx, rng.Int63())
	if err := O.register(name, sk); err != nil {
		c.Violation("xtcp-registration-refused", "fresh xtcp proxy %s refused: %v", name, err)
		return
	}
	book := newTidBook()
	if T != nil {
		// an uninvolved control that owns an xtcp proxy with the same secret and talks to the controller itself
		_ = T.register(pfx+"t", sk)
		tid := pfx + "t.pre"
		book.sent(T.p, tid)
		_ = T.p.Send(&msg.NatHoleVisitor{TransactionID: tid, ProxyName: name, PreCheck: true})
	}
	var sigs []string
	if c.Idx%7 == 3 {
		sigs = burst(c, book, V, O, name, sk, vBlock, cBlock, vClass, cClass, badRate)
		nSess = 0
	}
	for k := 0; k < nSess; k++ {
		in := sessIn{Name: name, Sk: sk, Proto: []string{"quic", "kcp"}[rng.Intn(2)],
			V: genObs(rng, vBlock, vClass), C: genObs(rng, cBlock, cClass),
			VTid: fmt.Sprintf("%sv%d", pfx, k), CTid: fmt.Sprintf("%so%d", pfx, k)}
		if rng.Intn(100) < badRate {
			if rng.Intn(2) == 0 {
				in.V = twist(rng, in.V)
			} else {
				in.C = twist(rng, in.C)
			}
		}
		in.EarlyReport = rng.Intn(12) == 0
		out := drive(c, book, V, O, in)
		sig := judgePair(c, in, out)
		if sig == "" {
			if c.Violations() > 0 {
				break
			}
			continue
		}
		if out.VResp != nil && out.VResp.Protocol != in.Proto && out.VResp.Error == "" {
			run.Count("protocol_not_echoed", 1)
		}
		rep := reportStep(rng, V, O, T, out.Sid)
		sigs = append(sigs, sig+"+"+rep)
	}
	peers := map[string]*h.Peer{"owner": O.p}
	if !sameControl {
		peers["visitor"] = V
	}
	if T != nil {
		peers["third"] = T.p
	}
	// late responses (the sender's is delayed by 1 s) have all been awaited by drive; one more beat for strays
	time.Sleep(50 * time.Millisecond)
	book.strays(c, peers)
	if len(sigs) > 0 {
		run.Distinct("hist|" + vClass + "|" + cClass + "|" + strings.Join(sigs, ";"))
		run.Count("histories", 1)
	}
	if c.Idx < 3 {
		run.Sample(map[string]any{"kind": "history", "visitor_class": vClass, "client_class": cClass, "observed": sigs})
	}
}

// burst: several requests for the same proxy and the same address pair in flight at once; the owner answers the sids
// in the order they are handed over; visitor and owner responses are joined on the sid.
func burst(c *h.Case, book *tidBook, V *h.Peer, O *owner, name, sk, vBlock, cBlock, vClass, cClass string, badRate int) []string {
	rng := c.Rng
	pfx := fmt.Sprintf("c%d.", c.Idx)
	var sigs []string
	rounds := 1 + rng.Intn(3)
	for round := 0; round < rounds; round++ {
		n := 3 + rng.Intn(6)
		vobs, cobs := make([]obs, n), make([]obs, n)
		for j := 0; j < n; j++ {
			vobs[j], cobs[j] = genObs(rng, vBlock, vClass), genObs(rng, cBlock, cClass)
			if rng.Intn(100) < badRate { // only the visitor's: an error response carries no sid to join on
				vobs[j] = twist(rng, vobs[j])
			}
		}
		sidCh := O.ch(name)
		for len(sidCh) > 0 {
			<-sidCh
		}
		vt := func(j int) string { return fmt.Sprintf("%sb%d.v%d", pfx, round, j) }
		ot := func(k int) string { return fmt.Sprintf("%sb%d.o%d", pfx, round, k) }
		var wg sync.WaitGroup
		for j := 0; j < n; j++ {
			book.sent(V, vt(j))
			book.sent(O.p, ot(j))
			wg.Add(1)
			go func(j int) {
				defer wg.Done()
				ts := time.Now().Unix()
				_ = V.Send(&msg.NatHoleVisitor{TransactionID: vt(j), ProxyName: name, Protocol: "quic", SignKey: h.AuthKey(sk, ts), Timestamp: ts, MappedAddrs: vobs[j].Mapped, AssistedAddrs: vobs[j].Assisted})
			}(j)
		}
		wg.Wait()
		sidOf := make([]string, n) // k-th sid handed to the owner
		seen := map[string]bool{}
		for k := 0; k < n; k++ {
			select {
			case sid := <-sidCh:
				if seen[sid] {
					c.Violation("sid-handed-over-twice", "sid %s handed to the owner of %s twice", sid, name)
				}
				seen[sid] = true
				sidOf[k] = sid
				_ = O.p.Send(&msg.NatHoleClient{TransactionID: ot(k), ProxyName: name, Sid: sid, MappedAddrs: cobs[k].Mapped, AssistedAddrs: cobs[k].Assisted})
				ledger.clientSent(sid)
			case <-time.After(25 * time.Second):
				run.Inconclusive("burst: sid missing")
				return sigs
			}
		}
		vres, cres := make([]*msg.NatHoleResp, n), make([]*msg.NatHoleResp, n)
		for j := 0; j < n; j++ {
			wg.Add(2)
			go func(j int) { defer wg.Done(); vres[j], _, _ = waitResp(V, vt(j), 30*time.Second) }(j)
			go func(j int) { defer wg.Done(); cres[j], _, _ = waitResp(O.p, ot(j), 30*time.Second) }(j)
		}
		wg.Wait()
		usedK := map[int]bool{}
		vErrs, cErrs := 0, 0
		for j := 0; j < n; j++ {
			if vres[j] == nil {
				c.Violation("no-response-to-reported-pair", "burst of %d requests for %s: visitor transaction %s received no response in 30 s", n, name, vt(j))
				continue
			}
			k := -1
			for x := 0; x < n; x++ {
				if cres[x] != nil && cres[x].Sid != "" && cres[x].Sid == vres[j].Sid && !usedK[x] {
					k = x
				}
			}
			if k < 0 && vres[j].Sid == "" && vres[j].Error != "" {
				// error responses carry no sid; in a burst only visitor observations are twisted, so the visitor's own
				// input must explain the error, and the owner must have been refused equally often (counted below)
				vf := readSide(vobs[j].Mapped, vobs[j].Assisted)
				if vf.Cls == addrWell && vf.N >= 2 {
					c.Violation("well-formed-pair-refused", "burst: visitor transaction %s (%q / %q) answered with error %q although every owner observation of the burst is well-formed", vt(j), vobs[j].Mapped, vobs[j].Assisted, vres[j].Error)
				}
				vErrs++
				run.Count("pairs_answered", 1)
				run.Count("pairs_error_to_both", 1)
				sigs = append(sigs, "err")
				continue
			}
			if k < 0 {
				c.Violation("session-id-differs", "burst: visitor transaction %s was told sid %q which no owner response carries (owner saw sids %v)", vt(j), vres[j].Sid, sidOf)
				continue
			}
			usedK[k] = true
			in := sessIn{Name: name, Sk: sk, Proto: "quic", V: vobs[j], C: cobs[k], VTid: vt(j), CTid: ot(k)}
			if sig := judgePair(c, in, sessOut{Sid: sidOf[k], VResp: vres[j], CResp: cres[k]}); sig != "" {
				sigs = append(sigs, sig)
			}
		}
		for x := 0; x < n; x++ {
			switch {
			case cres[x] == nil:
				c.Violation("no-response-to-reported-pair", "burst of %d requests for %s: owner transaction %s (sid %s) received no response in 30 s", n, name, ot(x), sidOf[x])
			case !usedK[x] && cres[x].Error == "":
				c.Violation("response-to-one-party-only", "burst: owner transaction %s (sid %s) was instructed but no visitor response carries that sid", ot(x), sidOf[x])
			case !usedK[x]:
				cErrs++
				ledger.completed(sidOf[x], 0)
			}
		}
		if vErrs != cErrs && c.Violations() == 0 {
			c.Violation("error-to-one-party-instruction-to-other", "burst of %d requests for %s: %d visitor transactions were answered with an error but %d owner transactions", n, name, vErrs, cErrs)
		}
		run.Count("burst_rounds", 1)
		run.Count("burst_requests", int64(n))
	}
	sort.Strings(sigs)
	return sigs
}

// rangeCase: forced observations for hard NATs with the two parties' ports far apart (visitor 20001.., owner 40001..), so
// that in every run the owner and the visitor each sit on the range-receiving side of modes 1, 3 and 4 and "around the other
// party's port" cannot be confused with "around one's own".
var rangeKinds = []struct {
	Name     string
	V, C     string // regular | irregular | easy
	Sessions int
}{
	{"hard-regular-visitor/easy-owner", "regular", "easy", 7},      // mode 1 x6: owner is the receiver and gets the range
	{"easy-visitor/hard-regular-owner", "easy", "regular", 7},      // mode 1 x6: visitor gets the range
	{"hard-irregular-visitor/easy-owner", "irregular", "easy", 5},  // mode 2 x3, then mode 1: owner gets the range
	{"regular/regular", "regular", "regular", 9},                   // mode 3 x6 (both get ranges), then mode 4
	{"regular-visitor/irregular-owner", "regular", "irregular", 3}, // mode 4: owner is the receiver and gets the range
	{"irregular-visitor/regular-owner", "irregular", "regular", 3}, // mode 4: visitor gets the range
}

func forcedObs(kind string, ip string, base int, k int, repeat bool) obs {
	mk := func(ports ...int) obs {
		o := obs{Class: kind}
		for _, p := range ports {
			o.Mapped = append(o.Mapped, fmt.Sprintf("%s:%d", ip, p))
		}
		return o
	}
	b := base + 20*k
	switch kind {
	case "regular":
		if repeat {
			return mk(b, b, b+3)
		}
		return mk(b, b+3)
	case "irregular":
		if repeat {
			return mk(b, b+300, b+300)
		}
		return mk(b, b+300)
	}
	return mk(b, b)
}

func rangeCase(c *h.Case, lo int) {
	k := c.Idx - lo
	kind := rangeKinds[k%len(rangeKinds)]
	repeat := (k/len(rangeKinds))%2 == 1 // second round: the hard party's list repeats an address in neighbouring positions
	pfx := fmt.Sprintf("c%d.", c.Idx)
	c.Data["kind"], c.Data["repeat"] = kind.Name, repeat
	O, err := dialOwner("o", true)
	if err != nil {
		run.Inconclusive("owner login failed")
		return
	}
	defer O.p.Close()
	V, err := dialPlain("v")
	if err != nil {
		run.Inconclusive("visitor login failed")
		return
	}
	defer V.Close()
	name, sk := pfx+"x", fmt.Sprintf("sk-%d", c.Rng.Int63())
	if err := O.register(name, sk); err != nil {
		c.Violation("xtcp-registration-refused", "fresh xtcp proxy %s refused: %v", name, err)
		return
	}
	book := newTidBook()
	vIP := fmt.Sprintf("16.%d.%d.1", (c.Idx>>8)&255, c.Idx&255)
	cIP := fmt.Sprintf("17.%d.%d.1", (c.Idx>>8)&255, c.Idx&255)
	var sigs []string
	for i := 0; i < kind.Sessions; i++ {
		in := sessIn{Name: name, Sk: sk, Proto: "quic", VTid: fmt.Sprintf("%sv%d", pfx, i), CTid: fmt.Sprintf("%so%d", pfx, i),
			V: forcedObs(kind.V, vIP, 20001, i, repeat), C: forcedObs(kind.C, cIP, 40001, i, repeat)}
		out := drive(c, book, V, O, in)
		sig := judgePair(c, in, out)
		if sig == "" {
			run.Inconclusive("range case: exchange not answered")
			return
		}
		sigs = append(sigs, sig)
	}
	book.strays(c, map[string]*h.Peer{"owner": O.p, "visitor": V})
	run.Distinct(fmt.Sprintf("range|%s|%v|%s", kind.Name, repeat, strings.Join(sigs, ";")))
	run.Count("forced_range_cases", 1)
}

// reportStep sends (or not) success reports for the session just answered; reports drive the server's score table.
func reportStep(rng *rand.Rand, V *h.Peer, O *owner, T *owner, sid string) string {
	send := func(p *h.Peer, sid string, ok bool) {
		_ = p.Send(&msg.NatHoleReport{Sid: sid, Success: ok})
		run.Count("reports_sent", 1)
	}
	switch x := rng.Intn(20); {
	case x < 7:
		return "none"
	case x < 12:
		send(O.p, sid, true)
		return "owner-ok"
	case x < 13:
		send(V, sid, true)
		return "visitor-ok"
	case x < 15:
		for i := 0; i < 3+rng.Intn(4); i++ {
			send(O.p, sid, true)
		}
		return "owner-ok-repeated"
	case x < 17:
		send(O.p, sid, false)
		return "owner-failed"
	case x < 18:
		send(O.p, sid+"x", true)
		send(O.p, "", true)
		return "unknown-sid"
	default:
		if T != nil {
			send(T.p, sid, true)
			return "third-ok"
		}
		send(O.p, sid, true)
		send(V, sid, true)
		return "both-ok"
	}
}
