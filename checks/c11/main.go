// C11 — Work connections: one user each, right proxy, bounded pool, never orphaned.
//
// Monitors (DESIGN.md §5/C11):
//
//	A. tagged exactly-once join between user connections (nonce) and numbered work connections supplied by a
//	   scripted client under harness control (prompt / late / never / dead / mixed supply), StartWorkConn fields,
//	   "bridged or closed, never left open" at quiescence;
//	B. pool bounds: ReqWorkConn in advance <= min(client poolCount, server maxPoolCount); pooled <= capacity
//	   (snapshot); surplus unsolicited offers closed;
//	C. session end: pooled connections closed; offers racing with teardown (gates in the worker and in
//	   work-connection registration) are closed, not parked;
//	D. hand-off paths (https muxer, tcpmux muxer, tcp group, tcpmux group): a user connection parked right
//	   before the hand-off while its listener is closed must be closed, not dropped open.
package main

import (
	"bufio"
	"crypto/tls"
	"encoding/json"
	"fmt"
	"io"
	"net"
	"net/http"
	"os"
	"strings"
	"sync"
	"sync/atomic"
	"time"

	"github.com/fatedier/frp/pkg/msg"

	"verif/h"
)

const prop = "C11"
const token = "c11-token"

var run *h.Run
var pa *h.PortAlloc
var load *h.LoadProbe

// grace for "closed within the configured user-connection timeout": 3x timeout + 10 s (bounded-progress watchdog)
const userConnTimeoutS = 2
const closeGrace = (3*userConnTimeoutS + 10) * time.Second

type serverSet struct {
	srv                                *h.Server
	bind, https, mux, http, quic, lo, hi, mp int
}

var servers []*serverSet // index = maxPoolCount-1 (1..5)

func startServers() {
	for mp := 1; mp <= 5; mp++ {
		ps := pa.Block(5)
		lo := 21100 + (mp-1)*150
		hi := lo + 149
		srv, err := h.StartServerText(prop, fmt.Sprintf(`
bindAddr = "127.0.0.1"
bindPort = %d
vhostHTTPSPort = %d
tcpmuxHTTPConnectPort = %d
vhostHTTPPort = %d
kcpBindPort = %d
quicBindPort = %d
auth.token = "%s"
userConnTimeout = %d
transport.maxPoolCount = %d
allowPorts = [{start=%d,end=%d}]
`, ps[0], ps[1], ps[2], ps[3], ps[0], ps[4], token, userConnTimeoutS, mp, lo, hi))
		if err != nil {
			fmt.Fprintln(os.Stderr, "server:", err)
			os.Exit(h.ExitHarnessError)
		}
		servers = append(servers, &serverSet{srv: srv, bind: ps[0], https: ps[1], mux: ps[2], http: ps[3], quic: ps[4], lo: lo, hi: hi, mp: mp})
	}
}

var portSeq atomic.Int64

func (s *serverSet) remotePort() int {
	for i := 0; i < 400; i++ {
		p := s.lo + int(portSeq.Add(1))%(s.hi-s.lo+1)
		if _, used := s.srv.Snapshot().TCPPorts.Used[p]; used {
			continue
		}
		l, err := net.Listen("tcp", fmt.Sprintf("127.0.0.1:%d", p))
		if err == nil {
			l.Close()
			return p
		}
	}
	panic("no remote port")
}

func main() {
	run = h.NewRun(prop, "exploration")
	run.Rule = "scenarios from the case PRNG: A supply mode x pool size x users (exactly-once join), B pool bounds (pool_count 0..8 and hostile values x maxPoolCount 1..5, unsolicited floods), C session end with teardown / registration gates, D hand-off gate per accept path, F announcement (proxy name, user address) on each of 10 accept paths (visitor clients over tcp, kcp and quic), G 6-12 simultaneous users with slow answers on one vhost http route, I a real frpc withdraws a proxy (health check) while a user connection accepted for it is parked in the NewUserConn chain, J a child frps with a lowered descriptor limit takes a burst of users (accept fails with EMFILE for a while) and must serve later users once descriptors are free again, H CONNECT requests on the vhost http port of a tcpMux=false server whose owner only supplies work connections that are already reset; distinct = distinct (scenario, parameters, hook trace signature)"
	run.Assumptions = []string{
		"users are identified by a 16-byte nonce they send first; work connections are numbered by the scripted client that opens them",
		fmt.Sprintf("userConnTimeout is %d s; 'closed within the timeout' is decided by a %v bounded-progress watchdog (still open afterwards = left open)", userConnTimeoutS, closeGrace),
		"the check process runs with the Go garbage collector disabled (soft memory limit 12 GiB) so that finalizers cannot close connections the code dropped",
		"the session's bounded pool capacity is read from the server (verif snapshot: cap of the pool channel) and additionally required not to exceed maxPoolCount + 10, the constant slack of the implementation",
	}
	// The whole check runs with the garbage collector off: a connection that the code merely drops
	// (no Close) would otherwise be closed by its finalizer at some later collection, which hides
	// "left open" behind GC timing. With GC off, closed means closed by the code.
	defer h.DisableGC(12)()
	pa = h.Ports(prop)
	load = h.StartLoadProbe()
	startServers()
	n := run.N(120, 5000)
	run.ParallelRange(0, n, 12, func(c *h.Case) {
		switch c.Idx % 4 {
		case 0, 1:
			scenarioJoin(c)
		case 2:
			scenarioPool(c)
		default:
			scenarioSessionEnd(c)
		}
	})
	nHand := run.N(32, 1200)
	run.ParallelRange(1000000, nHand, 32, scenarioHandoff)
	run.ParallelRange(3000000, run.N(40, 1000), 16, scenarioAnnounce)
	run.ParallelRange(4000000, run.N(8, 120), 8, scenarioHTTPFanout)
	startPlainServer()
	run.ParallelRange(5000000, run.N(8, 160), 8, scenarioConnectDeadPool)
	if plainSrv != nil {
		plainSrv.srv.Close()
	}
	startPluginServer()
	run.ParallelRange(2000000, run.N(12, 240), 12, scenarioPluginReject)
	run.ParallelRange(6000000, run.N(4, 48), 4, scenarioWithdrawnProxy)
	run.ParallelRange(7000000, run.N(2, 16), 2, scenarioDescriptorExhaustion)
	for _, s := range servers {
		s.srv.Close()
	}
	if pluginSrv != nil {
		pluginSrv.srv.Close()
	}
	run.Finish(25)
}

// ---------------------------------------------------------------------------------------------
// supply-controlled peer

type wcRecord struct {
	id      int64
	starts  []msg.StartWorkConn
	nonce   string
	closedT int64
	junk    bool
}

type supplier struct {
	c      *h.Case
	peer   *h.Peer
	id     string
	mode   string
	rng    func(n int) int
	mu     sync.Mutex
	recs   map[int64]*wcRecord
	opened int64
	stop   chan struct{}
	wg     sync.WaitGroup
}

func (s *supplier) rec(id int64) *wcRecord {
	s.mu.Lock()
	defer s.mu.Unlock()
	r := s.recs[id]
	if r == nil {
		r = &wcRecord{id: id}
		s.recs[id] = r
	}
	return r
}

// serve handles one work connection: StartWorkConn, nonce, ident reply, echo.
func (s *supplier) serve(wc *h.WorkConn) {
	defer wc.Conn.Close()
	r := s.rec(wc.ID)
	st, err := wc.ReadStart(0)
	if err != nil {
		s.mu.Lock()
		r.closedT = h.Now()
		s.mu.Unlock()
		return
	}
	s.mu.Lock()
	r.starts = append(r.starts, *st)
	s.mu.Unlock()
	if st.Error != "" {
		return
	}
	nonce := make([]byte, 16)
	if _, err := io.ReadFull(wc.Conn, nonce); err != nil {
		return
	}
	s.mu.Lock()
	r.nonce = string(nonce)
	if nonce[0] != 'N' {
		r.junk = true
	}
	s.mu.Unlock()
	if _, err := wc.Conn.Write(append([]byte(s.id+"|"+st.ProxyName+"|"), nonce...)); err != nil {
		return
	}
	// anything further on this work connection must be the same user's echo traffic; a second
	// StartWorkConn frame would show up here as bytes starting with 's' + 8-byte length
	buf := make([]byte, 4096)
	for {
		n, err := wc.Conn.Read(buf)
		if n > 0 {
			if n >= 9 && buf[0] == 's' && buf[1] == 0 && buf[2] == 0 && strings.Contains(string(buf[:n]), "proxy_name") {
				s.mu.Lock()
				r.starts = append(r.starts, msg.StartWorkConn{ProxyName: "(second StartWorkConn frame on the same work connection)"})
				s.mu.Unlock()
			}
			if _, werr := wc.Conn.Write(buf[:n]); werr != nil {
				return
			}
		}
		if err != nil {
			return
		}
	}
}

// run answers ReqWorkConn messages according to the supply mode.
func (s *supplier) run() {
	s.wg.Add(1)
	go func() {
		defer s.wg.Done()
		for {
			_, err := s.peer.WaitMsg(200*time.Millisecond, func(m msg.Message) bool { _, ok := m.(*msg.ReqWorkConn); return ok })
			select {
			case <-s.stop:
				return
			default:
			}
			if err == h.ErrPeerClosed {
				return
			}
			if err != nil {
				continue
			}
			mode := s.mode
			if mode == "mixed" {
				mode = []string{"prompt", "prompt", "late", "dead", "never"}[s.rng(5)]
			}
			switch mode {
			case "never":
				continue
			case "late":
				d := time.Duration(100+s.rng(900)) * time.Millisecond
				s.wg.Add(1)
				go func() { defer s.wg.Done(); time.Sleep(d); s.open(false) }()
			case "dead":
				s.open(true)
			default:
				s.open(false)
			}
		}
	}()
}

func (s *supplier) open(dead bool) {
	wc, err := s.peer.OpenWorkConn()
	if err != nil {
		return
	}
	atomic.AddInt64(&s.opened, 1)
	if dead {
		s.rec(wc.ID)
		wc.Conn.Close()
		return
	}
	s.wg.Add(1)
	go func() { defer s.wg.Done(); s.serve(wc) }()
}

func newSupplier(c *h.Case, ss *serverSet, id, mode string, pool int) (*supplier, error) {
	p, err := h.DialPeer(h.PeerOpts{ServerPort: ss.bind, TCPMux: true, Token: token, PoolCount: pool})
	if err != nil || !p.LoggedIn() {
		if p != nil {
			p.Close()
		}
		return nil, fmt.Errorf("login: %v", err)
	}
	var rmu sync.Mutex
	s := &supplier{c: c, peer: p, id: id, mode: mode, recs: map[int64]*wcRecord{}, stop: make(chan struct{}),
		rng: func(n int) int { rmu.Lock(); defer rmu.Unlock(); return c.Rng.Intn(n) }}
	return s, nil
}

func (s *supplier) close() {
	close(s.stop)
	s.peer.Close()
	done := make(chan struct{})
	go func() { s.wg.Wait(); close(done) }()
	select {
	case <-done:
	case <-time.After(5 * time.Second):
	}
}

// ---------------------------------------------------------------------------------------------
// A. exactly-once join

type userResult struct {
	start   time.Time
	took    time.Duration
	nonce   string
	local   string
	outcome string // bridged | closed | stuck
	ident   string
	err     string
}

func oneUser(addr string, idx int64) (res userResult) {
	c, err := net.DialTimeout("tcp", addr, 5*time.Second)
	if err != nil {
		return userResult{outcome: "closed", err: "dial: " + err.Error()}
	}
	defer c.Close()
	nonce := fmt.Sprintf("N%015x", idx)
	res = userResult{nonce: nonce, local: c.LocalAddr().String(), start: time.Now()}
	defer func() { res.took = time.Since(res.start) }()
	_ = c.SetDeadline(time.Now().Add(closeGrace))
	if _, err := c.Write([]byte(nonce)); err != nil {
		res.outcome, res.err = "closed", err.Error()
		return res
	}
	br := bufio.NewReader(c)
	var sb strings.Builder
	bars := 0
	for bars < 2 {
		b, err := br.ReadByte()
		if err != nil {
			if ne, ok := err.(net.Error); ok && ne.Timeout() {
				res.outcome, res.err = "stuck", "no answer and no close within the watchdog"
			} else {
				res.outcome, res.err = "closed", err.Error()
			}
			return res
		}
		if b == '|' {
			bars++
			if bars == 2 {
				break
			}
		}
		sb.WriteByte(b)
	}
	back := make([]byte, 16)
	if _, err := io.ReadFull(br, back); err != nil {
		res.outcome, res.err = "closed", err.Error()
		return res
	}
	res.ident = sb.String()
	if string(back) != nonce {
		res.outcome, res.err = "bridged", "nonce mismatch: got "+string(back)
		return res
	}
	res.outcome = "bridged"
	return res
}

var userSeq atomic.Int64

func scenarioJoin(c *h.Case) {
	rng := c.Rng
	ss := servers[rng.Intn(len(servers))]
	mode := []string{"prompt", "prompt", "late", "never", "dead", "mixed", "mixed"}[rng.Intn(7)]
	pool := rng.Intn(9)
	nUsers := 1 + rng.Intn(12)
	if rng.Intn(4) == 0 {
		nUsers = 20 + rng.Intn(21)
	}
	c.Data["mode"], c.Data["pool"], c.Data["users"], c.Data["maxPool"] = mode, pool, nUsers, ss.mp
	s, err := newSupplier(c, ss, fmt.Sprintf("S%d", c.Idx), mode, pool)
	if err != nil {
		run.Inconclusive("login failed")
		return
	}
	defer s.close()
	pname := fmt.Sprintf("c%d.tcp", c.Idx)
	rport := ss.remotePort()
	resp, err := s.peer.NewProxy(&msg.NewProxy{ProxyName: pname, ProxyType: "tcp", RemotePort: rport}, 10*time.Second)
	if err != nil || resp.Error != "" {
		run.Inconclusive("registration failed")
		return
	}
	rm, trace := h.Perturb(rng, s.peer.RunID)
	defer rm()
	s.run()
	var wg sync.WaitGroup
	results := make([]userResult, nUsers)
	for i := 0; i < nUsers; i++ {
		wg.Add(1)
		go func(i int) {
			defer wg.Done()
			results[i] = oneUser(fmt.Sprintf("127.0.0.1:%d", rport), userSeq.Add(1))
		}(i)
		if rng.Intn(3) == 0 {
			time.Sleep(time.Duration(rng.Intn(3)) * time.Millisecond)
		}
	}
	wg.Wait()
	// join
	s.mu.Lock()
	byNonce := map[string][]*wcRecord{}
	for _, r := range s.recs {
		if len(r.starts) > 1 {
			c.Violation("work-connection-started-twice", "work connection #%d received %d StartWorkConn messages: %+v", r.id, len(r.starts), r.starts)
		}
		if r.junk {
			c.Violation("work-connection-carries-foreign-bytes", "work connection #%d: first payload bytes %q are not a user nonce", r.id, r.nonce)
		}
		if r.nonce != "" {
			byNonce[r.nonce] = append(byNonce[r.nonce], r)
		}
		for _, st := range r.starts {
			if st.Error == "" && st.ProxyName != pname {
				c.Violation("startworkconn-names-other-proxy", "work connection #%d announced for proxy %q, the only proxy of this session is %q", r.id, st.ProxyName, pname)
			}
		}
	}
	s.mu.Unlock()
	bridged, closed := 0, 0
	for _, u := range results {
		run.Count("user_connections", 1)
		switch u.outcome {
		case "stuck":
			c.Violation("user-connection-left-open-without-peer", "mode %s pool %d: user %s neither bridged nor closed after %v", mode, pool, u.nonce, closeGrace)
		case "closed":
			closed++
			if mode == "never" && !u.start.IsZero() {
				// nothing is ever supplied: the only reason to close is the user-connection timeout. The bound is
				// the timeout plus 1.5 s plus 20x the worst timer overshoot this process saw meanwhile (a loaded
				// machine widens the bound instead of raising an alarm).
				over := load.MaxOvershoot(u.start)
				bound := userConnTimeoutS*time.Second + 1500*time.Millisecond + 20*over
				run.Count("never_supplied_closures_timed", 1)
				if u.took > bound {
					c.Violation("user-connection-closed-later-than-timeout", "mode never, pool_count %d, maxPoolCount %d: user connection closed %v after it was opened; userConnTimeout is %d s (bound used %v, worst timer overshoot meanwhile %v)", pool, ss.mp, u.took.Round(time.Millisecond), userConnTimeoutS, bound.Round(time.Millisecond), over)
				}
			}
			if len(byNonce[u.nonce]) > 0 && mode == "prompt" {
				run.Count("closed_after_partial_bridge", 1)
			}
		case "bridged":
			bridged++
			if u.err != "" {
				c.Violation("user-bridged-to-foreign-stream", "user %s: %s", u.nonce, u.err)
				continue
			}
			wcs := byNonce[u.nonce]
			if len(wcs) != 1 {
				c.Violation("user-not-bridged-to-exactly-one-work-connection", "user %s was answered but its nonce was seen on %d work connections", u.nonce, len(wcs))
				continue
			}
			if u.ident != s.id+"|"+pname {
				c.Violation("user-bridged-to-wrong-session-or-proxy", "user %s answered by %q, want %q", u.nonce, u.ident, s.id+"|"+pname)
			}
			st := wcs[0].starts[0]
			if got := net.JoinHostPort(st.SrcAddr, fmt.Sprint(st.SrcPort)); got != u.local {
				c.Violation("startworkconn-wrong-user-address", "StartWorkConn for user %s says source %s, the user's socket is %s", u.nonce, got, u.local)
			}
			if int(st.DstPort) != rport {
				c.Violation("startworkconn-wrong-destination", "StartWorkConn says destination port %d, the public endpoint is %d", st.DstPort, rport)
			}
		}
	}
	for nonce, wcs := range byNonce {
		if len(wcs) > 1 {
			c.Violation("user-nonce-on-two-work-connections", "nonce %s was delivered on %d work connections", nonce, len(wcs))
		}
	}
	if mode == "prompt" && closed > 0 {
		c.Violation("user-connection-lost-despite-prompt-supply", "mode prompt pool %d: %d of %d user connections were closed although every ReqWorkConn was answered at once", pool, closed, nUsers)
	}
	if mode == "never" && bridged > 0 {
		c.Violation("user-bridged-without-work-connection", "mode never: %d users were answered although no work connection was supplied", bridged)
	}
	run.Count("users_bridged", int64(bridged))
	run.Count("users_closed", int64(closed))
	run.Count("work_connections_opened", atomic.LoadInt64(&s.opened))
	run.Distinct(fmt.Sprintf("join|%s|%d|%d|%d|%s", mode, pool, nUsers, ss.mp, h.TraceSig(trace())))
	if c.Idx < 6 {
		run.Sample(map[string]any{"scenario": "join", "mode": mode, "pool": pool, "users": nUsers, "bridged": bridged, "closed": closed})
	}
}

// ---------------------------------------------------------------------------------------------
// B. pool bounds

func scenarioPool(c *h.Case) {
	rng := c.Rng
	ss := servers[rng.Intn(len(servers))]
	pools := []int{0, 1, 2, 3, 4, 5, 6, 8, 50, 100000}
	pool := pools[rng.Intn(len(pools))]
	c.Data["pool"], c.Data["maxPool"] = pool, ss.mp
	p, err := h.DialPeer(h.PeerOpts{ServerPort: ss.bind, TCPMux: true, Token: token, PoolCount: pool})
	if err != nil || !p.LoggedIn() {
		run.Inconclusive("login failed")
		return
	}
	defer p.Close()
	want := pool
	if ss.mp < want {
		want = ss.mp
	}
	// ReqWorkConn in advance: wait until the count is stable for 300 ms
	last, stable := int64(-1), 0
	for i := 0; i < 100 && stable < 6; i++ {
		time.Sleep(50 * time.Millisecond)
		if n := p.ReqWorkConnSeen.Load(); n == last {
			stable++
		} else {
			last, stable = n, 0
		}
	}
	run.Count("pool_logins", 1)
	if last > int64(want) {
		c.Violation("more-reqworkconn-than-pool-bound", "pool_count %d, maxPoolCount %d: server asked for %d work connections in advance (bound %d)", pool, ss.mp, last, want)
	}
	if last < int64(want) {
		run.Count("fewer_advance_requests_than_bound", 1)
	}
	var sess *struct{ l, cp int }
	for _, s := range ss.srv.Snapshot().Sessions {
		if s.RunID == p.RunID {
			sess = &struct{ l, cp int }{s.PoolLen, s.PoolCap}
		}
	}
	if sess == nil {
		c.Violation("session-missing-from-table", "logged-in session %s is not in the session table", p.RunID)
		return
	}
	if sess.cp > ss.mp+10 {
		c.Violation("pool-capacity-not-bounded-by-server-maximum", "pool_count %d, maxPoolCount %d: pool capacity %d exceeds maxPoolCount+10", pool, ss.mp, sess.cp)
	}
	// flood unsolicited offers
	flood := sess.cp + 3 + rng.Intn(10)
	var conns []net.Conn
	for i := 0; i < flood; i++ {
		wc, err := p.OpenWorkConn()
		if err != nil {
			break
		}
		conns = append(conns, wc.Conn)
	}
	// an accepted offer stays open and silent; a refused one is closed by the server
	open := func() int {
		n := 0
		for _, cn := range conns {
			_ = cn.SetReadDeadline(time.Now().Add(30 * time.Millisecond))
			var one [1]byte
			_, err := cn.Read(one[:])
			if ne, ok := err.(net.Error); ok && ne.Timeout() {
				n++
			}
		}
		return n
	}
	h.Eventually(10*time.Second, func() bool { return open() <= sess.cp })
	stillOpen := open()
	plen := 0
	for _, s := range ss.srv.Snapshot().Sessions {
		if s.RunID == p.RunID {
			plen = s.PoolLen
		}
	}
	run.Count("unsolicited_offers", int64(len(conns)))
	if stillOpen > sess.cp {
		c.Violation("surplus-work-connection-offers-not-closed", "%d unsolicited offers, pool capacity %d: %d offers are still open after 10 s (surplus must be refused and closed)", len(conns), sess.cp, stillOpen)
	}
	if plen > sess.cp {
		c.Violation("pool-exceeds-capacity", "pool holds %d connections, capacity %d", plen, sess.cp)
	}
	if stillOpen != plen {
		c.Violation("open-offers-differ-from-pool", "%d offers are open at the client, the server's pool holds %d", stillOpen, plen)
	}
	// session end: everything pooled must be closed
	p.CloseControlOnly()
	closedAll := h.Eventually(closeGrace, func() bool { return open() == 0 })
	if !closedAll {
		c.Violation("pooled-connections-open-after-session-end", "%d pooled work connections are still open %v after the session's control connection ended", open(), closeGrace)
	}
	run.Distinct(fmt.Sprintf("pool|%d|%d|%d", pool, ss.mp, flood))
	if c.Idx < 8 {
		run.Sample(map[string]any{"scenario": "pool", "pool_count": pool, "maxPoolCount": ss.mp, "advance_requests": last, "capacity": sess.cp, "flood": flood, "open_after_flood": stillOpen})
	}
}

// ---------------------------------------------------------------------------------------------
// C. session end vs arriving work connections

func connOpen(cn net.Conn) bool {
	_ = cn.SetReadDeadline(time.Now().Add(50 * time.Millisecond))
	var one [1]byte
	_, err := cn.Read(one[:])
	ne, ok := err.(net.Error)
	return ok && ne.Timeout()
}

func scenarioSessionEnd(c *h.Case) {
	rng := c.Rng
	ss := servers[rng.Intn(len(servers))]
	variant := []string{"offer-parked-before-pool-close", "offer-held-after-lookup", "offer-held-before-send", "unforced"}[(c.Idx/4)%4]
	c.Data["variant"] = variant
	p, err := h.DialPeer(h.PeerOpts{ServerPort: ss.bind, TCPMux: true, Token: token, PoolCount: 0})
	if err != nil || !p.LoggedIn() {
		run.Inconclusive("login failed")
		return
	}
	defer p.Close()
	rm, trace := h.Perturb(rng, p.RunID)
	defer rm()
	var offers []net.Conn
	offer := func() {
		wc, err := p.OpenWorkConn()
		if err == nil {
			offers = append(offers, wc.Conn)
		}
	}
	switch variant {
	case "offer-parked-before-pool-close":
		g := h.NewGate("server.worker.beforeClosePool", p.RunID, 1)
		defer g.Release()
		p.CloseControlOnly()
		if !g.WaitArrived(10 * time.Second) {
			run.Inconclusive("beforeClosePool gate not reached")
			return
		}
		offer() // session is ending: dispatcher gone, pool still open
		offer()
		time.Sleep(30 * time.Millisecond)
		g.Release()
		run.Count("gate_beforeClosePool", 1)
	case "offer-held-after-lookup", "offer-held-before-send":
		point := "server.registerWorkConn.afterLookup"
		if variant == "offer-held-before-send" {
			point = "server.control.registerWorkConn.beforeSend"
		}
		g := h.NewGate(point, p.RunID, 1)
		defer g.Release()
		offer() // held inside registration
		if !g.WaitArrived(10 * time.Second) {
			run.Inconclusive("registration gate not reached")
			return
		}
		rid := p.RunID
		p.CloseControlOnly() // session ends completely while the offer is held
		gone := h.Eventually(10*time.Second, func() bool {
			for _, s := range ss.srv.Snapshot().Sessions {
				if s.RunID == rid {
					return false
				}
			}
			return true
		})
		if !gone {
			run.Inconclusive("session did not end while offer was held")
			return
		}
		g.Release()
		run.Count("gate_"+strings.ReplaceAll(point, ".", "_"), 1)
	default:
		for i := 0; i < 1+rng.Intn(4); i++ {
			offer()
		}
		go func() { time.Sleep(time.Duration(rng.Intn(2000)) * time.Microsecond); p.CloseControlOnly() }()
		for i := 0; i < 1+rng.Intn(4); i++ {
			offer()
			time.Sleep(time.Duration(rng.Intn(500)) * time.Microsecond)
		}
		p.CloseControlOnly()
	}
	run.Count("offers_around_session_end", int64(len(offers)))
	ok := h.Eventually(closeGrace, func() bool {
		for _, cn := range offers {
			if connOpen(cn) {
				return false
			}
		}
		return true
	})
	if !ok {
		n := 0
		for _, cn := range offers {
			if connOpen(cn) {
				n++
			}
		}
		c.Violation("work-connection-for-ended-session-left-open", "variant %s: %d of %d work connections offered to an ending/ended session are still open after %v (must be closed, not parked)", variant, n, len(offers), closeGrace)
	}
	run.Distinct(fmt.Sprintf("end|%s|%d|%s", variant, len(offers), h.TraceSig(trace())))
	if c.Idx < 20 {
		run.Sample(map[string]any{"scenario": "session-end", "variant": variant, "offers": len(offers)})
	}
}

// ---------------------------------------------------------------------------------------------
// D. hand-off paths

func scenarioHandoff(c *h.Case) {
	ss := servers[c.Rng.Intn(len(servers))]
	path := []string{"https-muxer", "tcpmux-muxer", "tcp-group", "tcpmux-group"}[c.Idx%4]
	c.Data["path"] = path
	domain := fmt.Sprintf("c%d.handoff.test", c.Idx)
	gname := fmt.Sprintf("c%d.grp", c.Idx)
	pname := fmt.Sprintf("c%d.px", c.Idx)
	p, err := h.DialPeer(h.PeerOpts{ServerPort: ss.bind, TCPMux: true, Token: token, AutoWork: true, WorkHandler: h.IdentBackend("H", token, false, false, nil)})
	if err != nil || !p.LoggedIn() {
		run.Inconclusive("login failed")
		return
	}
	defer p.Close()
	var m *msg.NewProxy
	var point, key string
	rport := 0
	switch path {
	case "https-muxer":
		m = &msg.NewProxy{ProxyName: pname, ProxyType: "https", CustomDomains: []string{domain}}
		point, key = "vhost.muxer.handle.beforeHandoff", domain
	case "tcpmux-muxer":
		m = &msg.NewProxy{ProxyName: pname, ProxyType: "tcpmux", Multiplexer: "httpconnect", CustomDomains: []string{domain}}
		point, key = "vhost.muxer.handle.beforeHandoff", domain
	case "tcp-group":
		rport = ss.remotePort()
		m = &msg.NewProxy{ProxyName: pname, ProxyType: "tcp", RemotePort: rport, Group: gname, GroupKey: "k"}
		point, key = "server.group.tcp.worker.beforeHandoff", gname
	default:
		m = &msg.NewProxy{ProxyName: pname, ProxyType: "tcpmux", Multiplexer: "httpconnect", CustomDomains: []string{domain}, Group: gname, GroupKey: "k"}
		point, key = "server.group.tcpmux.worker.beforeHandoff", gname
	}
	resp, err := p.NewProxy(m, 10*time.Second)
	if err != nil || resp.Error != "" {
		run.Inconclusive("registration failed")
		return
	}
	g := h.NewGate(point, key, 1)
	defer g.Release()
	// the user connection
	var uc net.Conn
	switch path {
	case "https-muxer":
		raw, derr := net.DialTimeout("tcp", fmt.Sprintf("127.0.0.1:%d", ss.https), 5*time.Second)
		if derr != nil {
			run.Inconclusive("dial failed")
			return
		}
		uc = raw
		go func() { // the ClientHello carries the SNI; the handshake itself never completes (backend is not TLS)
			tc := tls.Client(raw, &tls.Config{ServerName: domain, InsecureSkipVerify: true})
			_ = tc.Handshake()
		}()
	case "tcp-group":
		uc, err = net.DialTimeout("tcp", fmt.Sprintf("127.0.0.1:%d", rport), 5*time.Second)
		if err != nil {
			run.Inconclusive("dial failed")
			return
		}
	default:
		uc, err = net.DialTimeout("tcp", fmt.Sprintf("127.0.0.1:%d", ss.mux), 5*time.Second)
		if err != nil {
			run.Inconclusive("dial failed")
			return
		}
		fmt.Fprintf(uc, "CONNECT %s:443 HTTP/1.1\r\nHost: %s:443\r\n\r\n", domain, domain)
	}
	defer uc.Close()
	if path == "tcpmux-group" {
		// the connection passes the muxer hand-off first (not gated: different key), then reaches the group worker
	}
	if !g.WaitArrived(10 * time.Second) {
		run.Inconclusive("hand-off gate not reached: " + point)
		return
	}
	// the listener goes away while the connection sits right before the hand-off
	_ = p.CloseProxy(pname)
	if _, err := p.Ping(10 * time.Second); err != nil {
		run.Inconclusive("close barrier missing")
		return
	}
	g.Release()
	run.Count("handoff_gate_"+path, 1)
	// the user connection must now be closed by the server (bounded-progress watchdog)
	closedOK := false
	if path == "https-muxer" {
		// the TLS goroutine owns reads; observe closure through a write/read probe after it failed
		closedOK = h.Eventually(closeGrace, func() bool {
			_ = uc.SetReadDeadline(time.Now().Add(50 * time.Millisecond))
			var one [1]byte
			_, err := uc.Read(one[:])
			if err == nil {
				return false
			}
			ne, ok := err.(net.Error)
			return !(ok && ne.Timeout())
		})
	} else {
		closedOK = h.Eventually(closeGrace, func() bool { return !connOpen(uc) })
	}
	if !closedOK {
		c.Violation("user-connection-dropped-open-at-handoff-"+path, "%s: a user connection parked right before the hand-off while its listener was closed is still open after %v (neither bridged nor closed)", path, closeGrace)
	}
	run.Distinct("handoff|" + path + "|" + fmt.Sprint(c.Idx%40))
	if c.Idx < 1000004 {
		run.Sample(map[string]any{"scenario": "handoff", "path": path, "closed": closedOK})
	}
}

// ---------------------------------------------------------------------------------------------
// E. user connections refused by a NewUserConn server plugin must be closed, not left open

var pluginSrv *serverSet

var holdGates, holdSeen sync.Map // proxy name -> chan struct{} / true once the stub was asked

func startPluginServer() {
	l, err := net.Listen("tcp", "127.0.0.1:0")
	if err != nil {
		fmt.Fprintln(os.Stderr, "plugin stub:", err)
		os.Exit(h.ExitHarnessError)
	}
	go http.Serve(l, http.HandlerFunc(func(w http.ResponseWriter, r *http.Request) {
		var req struct {
			Content struct {
				ProxyName string `json:"proxy_name"`
			} `json:"content"`
		}
		_ = json.NewDecoder(r.Body).Decode(&req)
		w.Header().Set("Content-Type", "application/json")
		switch {
		case strings.HasSuffix(req.Content.ProxyName, ".hold"):
			// the user connection is parked inside the NewUserConn chain until the case releases it
			if ch, ok := holdGates.Load(req.Content.ProxyName); ok {
				holdSeen.Store(req.Content.ProxyName, true)
				select {
				case <-ch.(chan struct{}):
				case <-time.After(40 * time.Second):
				}
			}
			_, _ = w.Write([]byte(`{"reject":false,"unchange":true}`))
		case strings.HasSuffix(req.Content.ProxyName, ".rej"):
			_, _ = w.Write([]byte(`{"reject":true,"reject_reason":"policy","unchange":true}`))
		case strings.HasSuffix(req.Content.ProxyName, ".err"):
			w.WriteHeader(500)
		default:
			_, _ = w.Write([]byte(`{"reject":false,"unchange":true}`))
		}
	}))
	ps := pa.Block(3)
	lo, hi := 21860, 21990
	srv, err := h.StartServerText(prop, fmt.Sprintf(`
bindAddr = "127.0.0.1"
bindPort = %d
vhostHTTPSPort = %d
tcpmuxHTTPConnectPort = %d
auth.token = "%s"
userConnTimeout = %d
allowPorts = [{start=%d,end=%d}]
[[httpPlugins]]
name = "gate"
addr = "%s"
path = "/h"
ops = ["NewUserConn"]
`, ps[0], ps[1], ps[2], token, userConnTimeoutS, lo, hi, l.Addr().String()))
	if err != nil {
		fmt.Fprintln(os.Stderr, "plugin server:", err)
		os.Exit(h.ExitHarnessError)
	}
	pluginSrv = &serverSet{srv: srv, bind: ps[0], https: ps[1], mux: ps[2], lo: lo, hi: hi, mp: 5}
}

func scenarioPluginReject(c *h.Case) {
	ss := pluginSrv
	p, err := h.DialPeer(h.PeerOpts{ServerPort: ss.bind, TCPMux: true, Token: token, AutoWork: true, WorkHandler: h.IdentBackend("PG", token, false, false, nil)})
	if err != nil || !p.LoggedIn() {
		run.Inconclusive("login failed")
		return
	}
	defer p.Close()
	verdict := []string{"rej", "err"}[c.Idx%2]
	okName, badName := fmt.Sprintf("c%d.ok", c.Idx), fmt.Sprintf("c%d.%s", c.Idx, verdict)
	okPort, badPort := ss.remotePort(), ss.remotePort()
	for _, m := range []*msg.NewProxy{{ProxyName: okName, ProxyType: "tcp", RemotePort: okPort}, {ProxyName: badName, ProxyType: "tcp", RemotePort: badPort}} {
		if r, err := p.NewProxy(m, 10*time.Second); err != nil || r.Error != "" {
			run.Inconclusive("registration failed")
			return
		}
	}
	// admitted user: bridged
	if id, err := h.AskIdent(fmt.Sprintf("127.0.0.1:%d", okPort), closeGrace); err != nil || id != "PG|"+okName {
		c.Violation("user-admitted-by-plugin-not-bridged", "plugin accepted the user connection but it was not bridged: %q %v", id, err)
	}
	// refused users: must be closed by the server (GC is off: a connection merely dropped stays open)
	n := 1 + c.Rng.Intn(4)
	var ucs []net.Conn
	for i := 0; i < n; i++ {
		uc, err := net.DialTimeout("tcp", fmt.Sprintf("127.0.0.1:%d", badPort), 5*time.Second)
		if err != nil {
			continue
		}
		defer uc.Close()
		_, _ = uc.Write([]byte("N000000000000000"))
		ucs = append(ucs, uc)
	}
	closedOK := h.Eventually(closeGrace, func() bool {
		for _, uc := range ucs {
			if connOpen(uc) {
				return false
			}
		}
		return true
	})
	run.Count("users_refused_by_plugin", int64(len(ucs)))
	if !closedOK {
		c.Violation("user-connection-left-open-after-plugin-refusal", "NewUserConn plugin answered %q for %d user connection(s): still open %v later (neither bridged nor closed)", verdict, len(ucs), closeGrace)
	}
	run.Distinct(fmt.Sprintf("plugin-reject|%s|%d|%d", verdict, n, c.Idx%8))
}

// ---------------------------------------------------------------------------------------------
// F. every accept path announces the work connection with the proxy's name and the user's real address

var announcePaths = []string{"tcp-direct", "tcp-group", "https-muxer", "tcpmux-muxer", "tcpmux-group", "http-vhost", "http-group", "stcp-visitor", "stcp-visitor-kcp", "stcp-visitor-quic"}

func scenarioAnnounce(c *h.Case) {
	rng := c.Rng
	ss := servers[rng.Intn(len(servers))]
	path := announcePaths[c.Idx%len(announcePaths)]
	pool := rng.Intn(3)
	c.Data["path"], c.Data["pool"] = path, pool
	domain := fmt.Sprintf("a%d.announce.test", c.Idx)
	gname := fmt.Sprintf("a%d.grp", c.Idx)
	pname := fmt.Sprintf("a%d.px", c.Idx)
	starts := make(chan *msg.StartWorkConn, 64)
	handler := func(p *h.Peer, wc *h.WorkConn) {
		defer wc.Conn.Close()
		starts <- wc.Start
		_ = wc.Conn.SetDeadline(time.Now().Add(20 * time.Second))
		buf := make([]byte, 4096)
		n, _ := wc.Conn.Read(buf)
		if n == 0 {
			return
		}
		if path == "http-vhost" || path == "http-group" {
			_, _ = wc.Conn.Write([]byte("HTTP/1.1 200 OK\r\nContent-Length: 2\r\nConnection: close\r\n\r\nok"))
			return
		}
		_, _ = wc.Conn.Write(append([]byte("OK"), buf[:n]...))
	}
	p, err := h.DialPeer(h.PeerOpts{ServerPort: ss.bind, TCPMux: true, Token: token, PoolCount: pool, AutoWork: true, WorkHandler: handler})
	if err != nil || !p.LoggedIn() {
		run.Inconclusive("login failed")
		return
	}
	defer p.Close()
	var m *msg.NewProxy
	rport, dstPort := 0, 0
	switch path {
	case "tcp-direct":
		rport = ss.remotePort()
		m = &msg.NewProxy{ProxyName: pname, ProxyType: "tcp", RemotePort: rport}
		dstPort = rport
	case "tcp-group":
		rport = ss.remotePort()
		m = &msg.NewProxy{ProxyName: pname, ProxyType: "tcp", RemotePort: rport, Group: gname, GroupKey: "k"}
		dstPort = rport
	case "https-muxer":
		m = &msg.NewProxy{ProxyName: pname, ProxyType: "https", CustomDomains: []string{domain}}
		dstPort = ss.https
	case "tcpmux-muxer":
		m = &msg.NewProxy{ProxyName: pname, ProxyType: "tcpmux", Multiplexer: "httpconnect", CustomDomains: []string{domain}}
		dstPort = ss.mux
	case "tcpmux-group":
		m = &msg.NewProxy{ProxyName: pname, ProxyType: "tcpmux", Multiplexer: "httpconnect", CustomDomains: []string{domain}, Group: gname, GroupKey: "k"}
		dstPort = ss.mux
	case "http-vhost":
		m = &msg.NewProxy{ProxyName: pname, ProxyType: "http", CustomDomains: []string{domain}}
	case "http-group":
		m = &msg.NewProxy{ProxyName: pname, ProxyType: "http", CustomDomains: []string{domain}, Group: gname, GroupKey: "k"}
	default:
		m = &msg.NewProxy{ProxyName: pname, ProxyType: "stcp", Sk: "sk", AllowUsers: []string{"*"}}
		dstPort = ss.bind
		if path == "stcp-visitor-quic" {
			dstPort = ss.quic
		}
	}
	// the visitor's own client reaches frps over tcp, kcp or quic (the user address is then a UDP address)
	vp := p
	if path == "stcp-visitor-kcp" || path == "stcp-visitor-quic" {
		o := h.PeerOpts{ServerPort: ss.bind, Protocol: "kcp", TCPMux: true, Token: token}
		if path == "stcp-visitor-quic" {
			o.ServerPort, o.Protocol = ss.quic, "quic"
		}
		vp, err = h.DialPeer(o)
		if err != nil || !vp.LoggedIn() {
			run.Inconclusive("visitor client login failed (" + path + ")")
			return
		}
		defer vp.Close()
	}
	resp, err := p.NewProxy(m, 10*time.Second)
	if err != nil || resp.Error != "" {
		run.Inconclusive("registration failed")
		return
	}
	nUsers := 1 + rng.Intn(3)
	for u := 0; u < nUsers; u++ {
		var uc net.Conn
		var local string
		switch path {
		case "tcp-direct", "tcp-group":
			uc, err = net.DialTimeout("tcp", fmt.Sprintf("127.0.0.1:%d", rport), 5*time.Second)
		case "https-muxer":
			uc, err = net.DialTimeout("tcp", fmt.Sprintf("127.0.0.1:%d", ss.https), 5*time.Second)
		case "tcpmux-muxer", "tcpmux-group":
			uc, err = net.DialTimeout("tcp", fmt.Sprintf("127.0.0.1:%d", ss.mux), 5*time.Second)
		case "http-vhost", "http-group":
			uc, err = net.DialTimeout("tcp", fmt.Sprintf("127.0.0.1:%d", ss.http), 5*time.Second)
		default:
			now := time.Now().Unix()
			var vr *msg.NewVisitorConnResp
			uc, vr, err = vp.OpenVisitorConn(&msg.NewVisitorConn{RunID: vp.RunID, ProxyName: pname, SignKey: h.AuthKey("sk", now), Timestamp: now}, 10*time.Second)
			if err == nil && vr.Error != "" {
				uc.Close()
				err = fmt.Errorf("visitor refused: %s", vr.Error)
			}
		}
		if err != nil {
			run.Inconclusive("user connection could not be opened (" + path + ")")
			return
		}
		local = uc.LocalAddr().String()
		switch path {
		case "https-muxer":
			raw := uc
			go func() { // the ClientHello carries the SNI; the backend answers garbage, the handshake fails, irrelevant here
				tc := tls.Client(raw, &tls.Config{ServerName: domain, InsecureSkipVerify: true})
				_ = tc.Handshake()
			}()
		case "tcpmux-muxer", "tcpmux-group":
			fmt.Fprintf(uc, "CONNECT %s:443 HTTP/1.1\r\nHost: %s:443\r\n\r\n", domain, domain)
			go func(uc net.Conn) { time.Sleep(50 * time.Millisecond); _, _ = uc.Write([]byte("0123456789abcdef")) }(uc)
		case "http-vhost", "http-group":
			fmt.Fprintf(uc, "GET /a%d HTTP/1.1\r\nHost: %s\r\n\r\n", u, domain)
		default:
			_, _ = uc.Write([]byte("0123456789abcdef"))
		}
		var st *msg.StartWorkConn
		deadline := time.After(closeGrace)
	wait:
		for {
			select {
			case s0 := <-starts:
				if s0 != nil && s0.Error == "" {
					st = s0
					break wait
				}
			case <-deadline:
				break wait
			}
		}
		if st == nil {
			uc.Close()
			run.Inconclusive("no work connection was started for the user (" + path + ")")
			return
		}
		run.Count("announcements_checked_"+path, 1)
		if st.ProxyName != pname {
			c.Violation("startworkconn-names-other-proxy", "%s: work connection announced for proxy %q, the user's proxy is %q", path, st.ProxyName, pname)
		}
		if _, lp, _ := net.SplitHostPort(local); strings.HasSuffix(path, "-kcp") || strings.HasSuffix(path, "-quic") {
			local = net.JoinHostPort("127.0.0.1", lp) // a UDP client socket may be bound to the wildcard address
		}
		if got := net.JoinHostPort(st.SrcAddr, fmt.Sprint(st.SrcPort)); got != local {
			c.Violation("startworkconn-wrong-user-address-"+path, "%s: StartWorkConn for proxy %s says the user is %q, the user's socket is %s", path, pname, got, local)
		}
		if dstPort != 0 && int(st.DstPort) != dstPort {
			c.Violation("startworkconn-wrong-destination-"+path, "%s: StartWorkConn says destination port %d, the user connected to port %d", path, st.DstPort, dstPort)
		}
		// let the exchange finish so that the next user gets a fresh work connection
		_ = uc.SetReadDeadline(time.Now().Add(300 * time.Millisecond))
		var one [64]byte
		_, _ = uc.Read(one[:])
		uc.Close()
	}
	run.Distinct(fmt.Sprintf("announce|%s|%d|%d|%d", path, pool, nUsers, ss.mp))
	if c.Idx < 3000008 {
		run.Sample(map[string]any{"scenario": "announce", "path": path, "users": nUsers})
	}
}

// ---------------------------------------------------------------------------------------------
// G. many simultaneous users on ONE vhost http route while earlier requests are still being answered: every
// user gets a work connection of its own (or is closed) within the user-connection timeout — none is parked

func scenarioHTTPFanout(c *h.Case) {
	rng := c.Rng
	ss := servers[rng.Intn(len(servers))]
	nUsers := 6 + rng.Intn(7)
	grouped := rng.Intn(3) == 0
	c.Data["users"], c.Data["grouped"] = nUsers, grouped
	domain := fmt.Sprintf("f%d.fanout.test", c.Idx)
	pname := fmt.Sprintf("f%d.px", c.Idx)
	release := make(chan struct{})
	var once sync.Once
	rel := func() { once.Do(func() { close(release) }) }
	defer rel()
	var mu sync.Mutex
	announced := map[string]time.Time{}
	handler := func(p *h.Peer, wc *h.WorkConn) {
		defer wc.Conn.Close()
		mu.Lock()
		announced[net.JoinHostPort(wc.Start.SrcAddr, fmt.Sprint(wc.Start.SrcPort))] = time.Now()
		mu.Unlock()
		br := bufio.NewReader(wc.Conn)
		if _, err := http.ReadRequest(br); err != nil {
			return
		}
		<-release // a slow backend: the answer comes only after every user was judged
		_, _ = wc.Conn.Write([]byte("HTTP/1.1 200 OK\r\nContent-Length: 2\r\nConnection: close\r\n\r\nok"))
	}
	p, err := h.DialPeer(h.PeerOpts{ServerPort: ss.bind, TCPMux: true, Token: token, PoolCount: rng.Intn(3), AutoWork: true, WorkHandler: handler})
	if err != nil || !p.LoggedIn() {
		run.Inconclusive("login failed")
		return
	}
	defer p.Close()
	m := &msg.NewProxy{ProxyName: pname, ProxyType: "http", CustomDomains: []string{domain}}
	if grouped {
		m.Group, m.GroupKey = fmt.Sprintf("f%d.grp", c.Idx), "k"
	}
	if resp, err := p.NewProxy(m, 10*time.Second); err != nil || resp.Error != "" {
		run.Inconclusive("registration failed")
		return
	}
	type user struct {
		c     net.Conn
		local string
		t0    time.Time
	}
	var users []*user
	defer func() {
		for _, u := range users {
			u.c.Close()
		}
	}()
	for i := 0; i < nUsers; i++ {
		uc, err := net.DialTimeout("tcp", fmt.Sprintf("127.0.0.1:%d", ss.http), 5*time.Second)
		if err != nil {
			run.Inconclusive("dial failed")
			return
		}
		u := &user{c: uc, local: uc.LocalAddr().String(), t0: time.Now()}
		users = append(users, u)
		fmt.Fprintf(uc, "GET /u%d HTTP/1.1\r\nHost: %s\r\n\r\n", i, domain)
		if rng.Intn(2) == 0 {
			time.Sleep(time.Duration(rng.Intn(5)) * time.Millisecond)
		}
	}
	// bounded progress: each user is announced to the owner (a work connection of its own was started) or closed
	// within userConnTimeout + 1.5 s + 20 x the worst timer overshoot measured meanwhile
	t0 := users[0].t0
	pending := func() (out []*user) {
		mu.Lock()
		defer mu.Unlock()
		for _, u := range users {
			if _, ok := announced[u.local]; !ok {
				out = append(out, u)
			}
		}
		return
	}
	for {
		over := load.MaxOvershoot(t0)
		bound := userConnTimeoutS*time.Second + 1500*time.Millisecond + 20*over
		left := pending()
		if len(left) == 0 || time.Since(users[len(users)-1].t0) > bound {
			break
		}
		time.Sleep(50 * time.Millisecond)
	}
	left := pending()
	stuck := 0
	for _, u := range left {
		// not announced: then it must have been closed (or answered with an error page) by now
		_ = u.c.SetReadDeadline(time.Now().Add(200 * time.Millisecond))
		var b [1]byte
		_, err := u.c.Read(b[:])
		if ne, ok := err.(net.Error); ok && ne.Timeout() {
			stuck++
		}
	}
	run.Count("http_fanout_users", int64(nUsers))
	run.Count("http_fanout_users_announced", int64(nUsers-len(left)))
	if stuck > 0 {
		c.Violation("user-connection-left-open-without-peer-http", "%d simultaneous requests on one vhost http route (grouped=%v, maxPoolCount %d) while earlier ones are still being answered: %d users have neither been given a work connection nor been closed %v after their request (userConnTimeout %d s, worst timer overshoot %v)",
			nUsers, grouped, ss.mp, stuck, time.Since(users[len(users)-1].t0).Round(10*time.Millisecond), userConnTimeoutS, load.MaxOvershoot(t0))
	}
	rel()
	run.Distinct(fmt.Sprintf("fanout|%d|%v|%d", nUsers, grouped, ss.mp))
	if c.Idx < 4000002 {
		run.Sample(map[string]any{"scenario": "http-fanout", "users": nUsers, "announced": nUsers - len(left), "stuck": stuck})
	}
}

// ---------------------------------------------------------------------------------------------
// H. CONNECT on the vhost http port while every work connection the owner supplies is already reset (tcpMux off:
// work connections are TCP connections of their own): the hijacked user connection is closed, never left open

var plainSrv *serverSet

func startPlainServer() {
	ps := pa.Block(2)
	srv, err := h.StartServerText(prop, fmt.Sprintf("bindAddr = \"127.0.0.1\"\nbindPort = %d\nvhostHTTPPort = %d\nauth.token = \"%s\"\nuserConnTimeout = %d\ntransport.tcpMux = false\ntransport.maxPoolCount = 3\n", ps[0], ps[1], token, userConnTimeoutS))
	if err != nil {
		fmt.Fprintln(os.Stderr, "plain server:", err)
		os.Exit(h.ExitHarnessError)
	}
	plainSrv = &serverSet{srv: srv, bind: ps[0], http: ps[1], mp: 3}
}

func scenarioConnectDeadPool(c *h.Case) {
	rng := c.Rng
	ss := plainSrv
	pool := rng.Intn(4)
	live := c.Idx%4 == 3 // control: a healthy supply, the tunnel must work
	c.Data["pool"], c.Data["live_supply"] = pool, live
	domain := fmt.Sprintf("d%d.deadpool.test", c.Idx)
	pname := fmt.Sprintf("d%d.px", c.Idx)
	var opened atomic.Int64
	p, err := h.DialPeer(h.PeerOpts{ServerPort: ss.bind, TCPMux: false, Token: token, PoolCount: pool})
	if err != nil || !p.LoggedIn() {
		run.Inconclusive("login failed")
		return
	}
	defer p.Close()
	stop := make(chan struct{})
	defer close(stop)
	go func() { // the supply: every ReqWorkConn is answered, with a connection that is reset at once (or a healthy one)
		for {
			_, err := p.WaitMsg(200*time.Millisecond, func(m msg.Message) bool { _, ok := m.(*msg.ReqWorkConn); return ok })
			select {
			case <-stop:
				return
			default:
			}
			if err == h.ErrPeerClosed {
				return
			}
			if err != nil {
				continue
			}
			wc, err := p.OpenWorkConn()
			if err != nil {
				continue
			}
			opened.Add(1)
			if !live {
				if lc, ok := wc.Conn.(interface{ SetLinger(int) error }); ok {
					_ = lc.SetLinger(0)
				}
				wc.Conn.Close()
				continue
			}
			go func() {
				defer wc.Conn.Close()
				if st, err := wc.ReadStart(20 * time.Second); err != nil || st.Error != "" {
					return
				}
				br := bufio.NewReader(wc.Conn)
				if _, err := http.ReadRequest(br); err != nil {
					return
				}
				_, _ = wc.Conn.Write([]byte("HTTP/1.1 200 Connection established\r\n\r\nTUNNEL-OK"))
			}()
		}
	}()
	if resp, err := p.NewProxy(&msg.NewProxy{ProxyName: pname, ProxyType: "http", CustomDomains: []string{domain}}, 10*time.Second); err != nil || resp.Error != "" {
		run.Inconclusive("registration failed")
		return
	}
	time.Sleep(150 * time.Millisecond) // let the advance requests be answered
	nUsers := 1 + rng.Intn(3)
	for u := 0; u < nUsers; u++ {
		uc, err := net.DialTimeout("tcp", fmt.Sprintf("127.0.0.1:%d", ss.http), 5*time.Second)
		if err != nil {
			run.Inconclusive("dial failed")
			return
		}
		t0 := time.Now()
		fmt.Fprintf(uc, "CONNECT %s:80 HTTP/1.1\r\nHost: %s:80\r\n\r\n", domain, domain)
		_ = uc.SetReadDeadline(time.Now().Add(closeGrace))
		var got []byte
		buf := make([]byte, 2048)
		stuck := false
		for {
			n, err := uc.Read(buf)
			got = append(got, buf[:n]...)
			if err != nil {
				if ne, ok := err.(net.Error); ok && ne.Timeout() {
					stuck = true
				}
				break
			}
		}
		uc.Close()
		run.Count("connect_users_dead_or_live_pool", 1)
		if stuck {
			c.Violation("user-connection-left-open-without-peer-http-connect", "CONNECT on the vhost http port, pool_count %d, every supplied work connection already reset=%v: the user connection is still open %v after the request (answer so far %q); neither bridged nor closed", pool, !live, time.Since(t0).Round(100*time.Millisecond), firstLine(got))
			return
		}
		if live && !strings.Contains(string(got), "TUNNEL-OK") {
			c.Violation("user-connection-lost-despite-prompt-supply", "CONNECT on the vhost http port with a healthy supply was not tunnelled: answer %q", firstLine(got))
			return
		}
	}
	run.Count("connect_work_connections_supplied", opened.Load())
	run.Distinct(fmt.Sprintf("connect-deadpool|%d|%v|%d", pool, live, nUsers))
}

func firstLine(b []byte) string {
	s := string(b)
	if i := strings.IndexByte(s, '\n'); i >= 0 {
		s = s[:i]
	}
	if len(s) > 80 {
		s = s[:80]
	}
	return strings.TrimSpace(s)
}

// ---------------------------------------------------------------------------------------------
// I. a user connection accepted for a proxy that the (real) client withdraws before the work connection is
// started: frpc is handed a work connection for a proxy that is no longer running — it has to close it, so that
// the user connection is closed too instead of staying bridged to a connection nobody serves

func scenarioWithdrawnProxy(c *h.Case) {
	ss := pluginSrv
	name := fmt.Sprintf("w%d.hold", c.Idx)
	gate := make(chan struct{})
	var once sync.Once
	release := func() { once.Do(func() { close(gate) }) }
	holdGates.Store(name, gate)
	defer func() { release(); holdGates.Delete(name); holdSeen.Delete(name) }()
	bl, err := net.Listen("tcp", "127.0.0.1:0")
	if err != nil {
		run.Inconclusive("backend listen failed")
		return
	}
	defer bl.Close()
	go func() {
		for {
			cn, err := bl.Accept()
			if err != nil {
				return
			}
			go func() { defer cn.Close(); _, _ = io.Copy(cn, cn) }()
		}
	}()
	rport := ss.remotePort()
	cli, err := h.StartClientText(prop, fmt.Sprintf(`
serverAddr = "127.0.0.1"
serverPort = %d
auth.token = "%s"
loginFailExit = false
transport.tls.enable = false
transport.poolCount = %d
[[proxies]]
name = "%s"
type = "tcp"
localIP = "127.0.0.1"
localPort = %d
remotePort = %d
healthCheck.type = "tcp"
healthCheck.intervalSeconds = 1
healthCheck.timeoutSeconds = 1
healthCheck.maxFailed = 1
`, ss.bind, token, c.Rng.Intn(2), name, bl.Addr().(*net.TCPAddr).Port, rport))
	if err != nil {
		run.Inconclusive("frpc did not start")
		return
	}
	defer cli.Close()
	if err := cli.WaitRunning(20*time.Second, name); err != nil {
		run.Inconclusive("frpc proxy did not come up")
		return
	}
	uc, err := net.DialTimeout("tcp", fmt.Sprintf("127.0.0.1:%d", rport), 5*time.Second)
	if err != nil {
		run.Inconclusive("dial failed")
		return
	}
	defer uc.Close()
	if !h.Eventually(10*time.Second, func() bool { _, ok := holdSeen.Load(name); return ok }) {
		run.Inconclusive("the user connection did not reach the NewUserConn plugin")
		return
	}
	bl.Close() // the backend goes away: the health check withdraws the proxy
	if !h.Eventually(15*time.Second, func() bool { return cli.ProxyPhase(name) == "check failed" }) {
		run.Inconclusive("frpc did not withdraw the proxy")
		return
	}
	t0 := time.Now()
	release()
	run.Count("user_connections_released_after_withdrawal", 1)
	_ = uc.SetReadDeadline(time.Now().Add(closeGrace))
	_, _ = uc.Write([]byte("N000000000000000"))
	buf := make([]byte, 64)
	for {
		_, err := uc.Read(buf)
		if err != nil {
			if ne, ok := err.(net.Error); ok && ne.Timeout() {
				c.Violation("user-connection-left-open-without-peer-withdrawn-proxy", "a user connection accepted for proxy %s was released from the NewUserConn chain after the client had withdrawn the proxy (phase check failed): %v later it is still open — neither served nor closed", name, time.Since(t0).Round(100*time.Millisecond))
			}
			break
		}
	}
	run.Distinct(fmt.Sprintf("withdrawn|%d", c.Idx%8))
}

// ---------------------------------------------------------------------------------------------
// J. transient accept errors: a child frps (vnode) with a lowered descriptor limit takes a burst of simultaneous
// users, so that accept on the proxy's listener fails with EMFILE for a while. When the burst is over and
// descriptors are free again, the proxy is still registered — so later users must be served: an accept loop that
// gave up on the first such error leaves them connected (kernel backlog) and unserved for ever.

func scenarioDescriptorExhaustion(c *h.Case) {
	ps := h.PortsSub(prop, 3, 4)
	bind, rport := ps.Get(), ps.Get()
	cfg := fmt.Sprintf("bindAddr = \"127.0.0.1\"\nbindPort = %d\nauth.token = \"%s\"\nuserConnTimeout = %d\nallowPorts = [{single=%d}]\n", bind, token, userConnTimeoutS, rport)
	limit := []int{64, 80, 96}[c.Idx%3]
	child, err := h.StartChild(prop, "frps", cfg, fmt.Sprintf("VNODE_NOFILE=%d", limit), "VNODE_LOG=info")
	if err != nil {
		run.Inconclusive("child frps did not start")
		return
	}
	defer child.Kill()
	p, err := h.DialPeer(h.PeerOpts{ServerPort: bind, TCPMux: true, Token: token, AutoWork: true, WorkHandler: h.IdentBackend("DX", token, false, false, nil)})
	if err != nil || !p.LoggedIn() {
		run.Inconclusive("login at the child frps failed")
		return
	}
	defer p.Close()
	pname := fmt.Sprintf("x%d.tcp", c.Idx)
	if r, err := p.NewProxy(&msg.NewProxy{ProxyName: pname, ProxyType: "tcp", RemotePort: rport}, 10*time.Second); err != nil || r.Error != "" {
		run.Inconclusive("registration at the child frps failed")
		return
	}
	addr := fmt.Sprintf("127.0.0.1:%d", rport)
	if id, err := h.AskIdent(addr, 10*time.Second); err != nil || id != "DX|"+pname {
		run.Inconclusive("the tunnel through the child frps does not work before the burst")
		return
	}
	// the burst: far more simultaneous users than the child has descriptors; they stay connected for a moment
	var burst []net.Conn
	for i := 0; i < 3*limit; i++ {
		if uc, err := net.DialTimeout("tcp", addr, 2*time.Second); err == nil {
			burst = append(burst, uc)
		}
	}
	time.Sleep(1500 * time.Millisecond)
	for _, uc := range burst {
		uc.Close()
	}
	if child.Exited() {
		c.Data["stderr_tail"] = child.Stderr()
		c.Violation("frps-died-under-descriptor-exhaustion", "the child frps (descriptor limit %d) exited during a burst of %d users", limit, len(burst))
		return
	}
	outB, _ := os.ReadFile(child.OutPath) // frp's console log goes to the child's stdout
	hit := strings.Contains(string(outB)+child.Stderr(), "too many open files")
	if !hit {
		run.Inconclusive("the burst did not exhaust the child's descriptors (no accept error seen)")
		return
	}
	run.Count("descriptor_exhaustion_bursts", 1)
	time.Sleep(1500 * time.Millisecond) // descriptors are free again, the retry delay of the accept loop (at most 1 s) is over
	if !p.Closed() {
		if _, err := p.Ping(10 * time.Second); err != nil {
			run.Inconclusive("the owner's session did not survive the burst")
			return
		}
	} else {
		run.Inconclusive("the owner's session did not survive the burst")
		return
	}
	served := 0
	var lastErr error
	for i := 0; i < 3; i++ {
		id, err := h.AskIdent(addr, closeGrace)
		if err == nil && id == "DX|"+pname {
			served++
		} else {
			lastErr = err
		}
	}
	if served == 0 {
		c.Violation("user-connection-left-open-without-peer-after-accept-error", "child frps with descriptor limit %d: accept on the proxy's listener failed with 'too many open files' during a burst of %d users; after the burst the owner's session is alive and the proxy registered, yet 3 later users were neither served nor closed within %v (%v): the accept loop is gone", limit, len(burst), closeGrace, lastErr)
	}
	run.Distinct(fmt.Sprintf("nofile|%d", limit))
}
