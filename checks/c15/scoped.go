// C15, scoped cases: what the server does with content a plugin rewrote, and with operations a plugin refused,
// where the effect is only visible through authentication scopes and the heartbeat clock.
//
// A real frps with auth.additionalScopes = [HeartBeats, NewWorkConns], transport.heartbeatTimeout = 3 and one or two
// plugins subscribed to Ping and NewWorkConn. The stubs answer by content:
//   - "invalidate": shift the timestamp (the key the client sent no longer matches) — the server must refuse,
//   - "repair":     shift the timestamp and sign it again — the server must accept although the client's key was wrong,
//   - refusal modes (reject, HTTP 500, malformed JSON) — the operation does not proceed: a refused ping is answered
//     with an error AND does not count as a sign of life (the session dies heartbeatTimeout after its last accepted ping).
package main

import (
	"encoding/json"
	"errors"
	"fmt"
	"io"
	"net"
	"net/http"
	"strings"
	"sync"
	"sync/atomic"
	"time"

	"github.com/fatedier/frp/pkg/msg"

	"verif/h"
)

const scopedHeartbeatTimeout = 3 // seconds

type scopedState struct {
	mu       sync.Mutex
	pingMode string // how plugin 0 answers pings of the user "victim" right now
	calls    map[string]int
}

var (
	scopedMu    sync.Mutex
	scopedCases = map[int]*scopedState{}
)

var scopedRefusals = []string{"reject", "http500", "badjson", "reject-unchanged"}

func stubScoped(w http.ResponseWriter, r *http.Request) {
	var ci, pi int
	if _, err := fmt.Sscanf(r.URL.Path, "/s%d/p%d", &ci, &pi); err != nil {
		http.Error(w, "bad path", 400)
		return
	}
	scopedMu.Lock()
	st := scopedCases[ci]
	scopedMu.Unlock()
	if st == nil {
		http.Error(w, "no case", 410)
		return
	}
	body, _ := io.ReadAll(r.Body)
	var req struct {
		Op      string         `json:"op"`
		Content map[string]any `json:"content"`
	}
	_ = json.Unmarshal(body, &req)
	mode := "accept"
	switch req.Op {
	case "Ping":
		u, _ := req.Content["user"].(map[string]any)
		if u != nil && u["user"] == "victim" && pi == 0 {
			st.mu.Lock()
			mode = st.pingMode
			st.mu.Unlock()
		}
		// a ping may carry its own instruction in the (otherwise unused) key prefix of the metas: see scopedCase
		if u != nil {
			if m, _ := u["metas"].(map[string]any); m != nil {
				if v, _ := m[fmt.Sprintf("ping-p%d", pi)].(string); v != "" && u["user"] != "victim" {
					mode = v
				}
			}
		}
	case "NewWorkConn":
		// the instruction travels in the run id the work connection announces is not available; use the timestamp's
		// last digit pattern instead: the harness encodes the mode per plugin in wcModes[timestamp]
		ts, _ := req.Content["timestamp"].(float64)
		wcModesMu.Lock()
		if ms := wcModes[int64(ts)]; ms != nil && pi < len(ms) {
			mode = ms[pi]
		}
		wcModesMu.Unlock()
	}
	st.mu.Lock()
	st.calls[req.Op+"/"+mode]++
	st.mu.Unlock()
	resign := func(shift int64, sign bool) map[string]any {
		b, _ := json.Marshal(req.Content)
		var c map[string]any
		_ = json.Unmarshal(b, &c)
		ts, _ := c["timestamp"].(float64)
		nts := int64(ts) + shift
		c["timestamp"] = float64(nts)
		if sign {
			c["privilege_key"] = h.AuthKey(token, nts)
		}
		if req.Op == "NewWorkConn" {
			// later plugins of the chain find their instruction under the new timestamp
			wcModesMu.Lock()
			if ms := wcModes[int64(ts)]; ms != nil {
				wcModes[nts] = ms
			}
			wcModesMu.Unlock()
		}
		return c
	}
	switch mode {
	case "accept":
		writeJSON(w, map[string]any{"reject": false, "unchange": true})
	case "invalidate":
		writeJSON(w, map[string]any{"reject": false, "unchange": false, "content": resign(int64(1000*(pi+1)), false)})
	case "repair":
		writeJSON(w, map[string]any{"reject": false, "unchange": false, "content": resign(int64(1000*(pi+1)), true)})
	case "reject":
		writeJSON(w, map[string]any{"reject": true, "reject_reason": "no"})
	case "reject-unchanged":
		writeJSON(w, map[string]any{"reject": true, "reject_reason": "no", "unchange": true})
	case "http500":
		w.Header().Set("Content-Type", "application/json")
		w.WriteHeader(500)
		_, _ = w.Write([]byte(`{"reject":false,"unchange":true}`))
	default: // badjson
		w.WriteHeader(200)
		_, _ = w.Write([]byte(`{"reject":false,"unchange":tr`))
	}
}

var (
	wcModesMu sync.Mutex
	wcModes   = map[int64][]string{}
	wcTsSeq   atomic.Int64
)

// chainVerdict is the reference model: does the chain let the operation through, and is the key of the content that
// reaches the server valid?
func chainVerdict(modes []string, clientKeyValid bool) (proceeds, keyValid bool) {
	keyValid = clientKeyValid
	for _, m := range modes {
		switch m {
		case "accept":
		case "invalidate":
			keyValid = false
		case "repair":
			keyValid = true
		default:
			return false, keyValid
		}
	}
	return true, keyValid
}

func scopedCase(c *h.Case) {
	rng := c.Rng
	nPlug := 1 + rng.Intn(2)
	ports := h.Ports(prop).Block(3) // bind, tcp proxy, spare
	st := &scopedState{pingMode: "accept", calls: map[string]int{}}
	scopedMu.Lock()
	scopedCases[c.Idx] = st
	scopedMu.Unlock()
	defer func() { scopedMu.Lock(); delete(scopedCases, c.Idx); scopedMu.Unlock() }()
	var sb strings.Builder
	fmt.Fprintf(&sb, "bindAddr = \"127.0.0.1\"\nbindPort = %d\nauth.token = \"%s\"\nauth.additionalScopes = [\"HeartBeats\", \"NewWorkConns\"]\ntransport.heartbeatTimeout = %d\nuserConnTimeout = 2\nallowPorts = [{start=%d,end=%d}]\n",
		ports[0], token, scopedHeartbeatTimeout, ports[1], ports[2])
	for i := 0; i < nPlug; i++ {
		fmt.Fprintf(&sb, "[[httpPlugins]]\nname = \"p%d\"\naddr = \"%s\"\npath = \"/s%d/p%d\"\nops = [\"Ping\", \"NewWorkConn\"]\n", i, stubLn.Addr().String(), c.Idx, i)
	}
	srv, err := h.StartServerText(prop, sb.String())
	if err != nil {
		run.Inconclusive("server start failed: " + err.Error())
		return
	}
	defer srv.Close()
	alphabet := []string{"accept", "accept", "invalidate", "repair", "reject", "http500", "badjson"}

	// ---- 1. pings: client key valid / invalid x per-plugin instruction (carried in the login metas of a throw-away session)
	for round := 0; round < 3; round++ {
		modes := make([]string, nPlug)
		metas := map[string]string{}
		for i := range modes {
			modes[i] = alphabet[rng.Intn(len(alphabet))]
			metas[fmt.Sprintf("ping-p%d", i)] = modes[i]
		}
		keyValid := rng.Intn(2) == 0
		p, err := h.DialPeer(h.PeerOpts{ServerPort: ports[0], TCPMux: true, Token: token, User: fmt.Sprintf("pinger%d", round), Metas: metas})
		if err != nil || !p.LoggedIn() {
			if p != nil {
				p.Close()
			}
			run.Inconclusive("scoped: login failed")
			return
		}
		ts := time.Now().Unix()
		ping := &msg.Ping{Timestamp: ts, PrivilegeKey: h.AuthKey(token, ts)}
		if !keyValid {
			ping.PrivilegeKey = "00000000000000000000000000000000"
		}
		pong, err := p.PingWith(ping, 10*time.Second)
		p.Close()
		if err != nil {
			c.Violation("ping-no-reply", "scoped ping (plugins %v, client signed correctly: %v): no Pong: %v", modes, keyValid, err)
			return
		}
		proceeds, valid := chainVerdict(modes, keyValid)
		want := proceeds && valid
		run.Count("scoped_pings", 1)
		if (pong.Error == "") != want {
			key := "server-ignores-last-plugin-content"
			if !proceeds {
				key = "operation-proceeded-despite-refusing-plugin"
			}
			c.Violation(key, "Ping with the HeartBeats scope: plugins answered %v, the client signed correctly: %v, so the content that reaches the server carries a valid signature: %v, the chain lets it through: %v; pong error %q", modes, keyValid, valid, proceeds, pong.Error)
		}
		run.Distinct(fmt.Sprintf("scoped-ping|%v|%v", modes, keyValid))
	}

	// ---- 2. work connections: same table; acceptance is decided by traffic through the pooled connection
	owner, err := h.DialPeer(h.PeerOpts{ServerPort: ports[0], TCPMux: true, Token: token, User: "owner", PoolCount: 0})
	if err != nil || !owner.LoggedIn() {
		run.Inconclusive("scoped: owner login failed")
		return
	}
	defer owner.Close()
	stopPing := make(chan struct{})
	defer close(stopPing)
	go func() { // keep the owner alive under the 3 s heartbeat timeout
		for {
			select {
			case <-stopPing:
				return
			case <-time.After(700 * time.Millisecond):
				ts := time.Now().Unix()
				_ = owner.Send(&msg.Ping{Timestamp: ts, PrivilegeKey: h.AuthKey(token, ts)})
			}
		}
	}()
	pname := fmt.Sprintf("s%d.tcp", c.Idx)
	if resp, err := owner.NewProxy(&msg.NewProxy{ProxyName: pname, ProxyType: "tcp", RemotePort: ports[1]}, 10*time.Second); err != nil || resp.Error != "" {
		run.Inconclusive("scoped: registration failed")
		return
	}
	for round := 0; round < 3; round++ {
		modes := make([]string, nPlug)
		for i := range modes {
			modes[i] = alphabet[rng.Intn(len(alphabet))]
		}
		keyValid := rng.Intn(2) == 0
		// a timestamp of its own identifies the offer to the stubs (well inside any clock tolerance: the token method
		// does not bound the timestamp)
		ts := time.Now().Unix() - 100000 - wcTsSeq.Add(1)*10000
		wcModesMu.Lock()
		wcModes[ts] = modes
		wcModesMu.Unlock()
		m := &msg.NewWorkConn{RunID: owner.RunID, Timestamp: ts, PrivilegeKey: h.AuthKey(token, ts)}
		if !keyValid {
			m.PrivilegeKey = "00000000000000000000000000000000"
		}
		wc, err := owner.OpenWorkConnMsg(m)
		if err != nil {
			run.Inconclusive("scoped: work connection could not be opened")
			return
		}
		proceeds, valid := chainVerdict(modes, keyValid)
		want := proceeds && valid
		// refused offers are answered with StartWorkConn{Error} (or closed); accepted ones are pooled silently
		accepted := false
		stm, rerr := wc.ReadStart(800 * time.Millisecond)
		var ne net.Error
		if rerr != nil && errors.As(rerr, &ne) && ne.Timeout() {
			// pooled: a user connection must come out of it
			go func() {
				if s2, e2 := wc.ReadStart(10 * time.Second); e2 == nil && s2.Error == "" {
					nonce := make([]byte, 16)
					if _, e3 := io.ReadFull(wc.Conn, nonce); e3 == nil {
						_, _ = wc.Conn.Write(append([]byte("W|"+s2.ProxyName+"|"), nonce...))
					}
				}
			}()
			id, ierr := h.AskIdent(fmt.Sprintf("127.0.0.1:%d", ports[1]), 6*time.Second)
			accepted = ierr == nil && id == "W|"+pname
		} else if rerr == nil && stm.Error == "" {
			accepted = true // started at once (a user was waiting): not expected here, but it is an acceptance
		}
		wc.Conn.Close()
		run.Count("scoped_work_connections", 1)
		if accepted != want {
			key := "server-ignores-last-plugin-content"
			if !proceeds {
				key = "operation-proceeded-despite-refusing-plugin"
			} else if want {
				key = "work-connection-with-plugin-repaired-key-refused"
			}
			c.Violation(key, "NewWorkConn with the NewWorkConns scope: plugins answered %v, the client signed correctly: %v, so the content that reaches the server carries a valid signature: %v, the chain lets it through: %v; the work connection was accepted: %v", modes, keyValid, valid, proceeds, accepted)
		}
		run.Distinct(fmt.Sprintf("scoped-wc|%v|%v", modes, keyValid))
	}

	// ---- 3. a refused ping is not a sign of life
	refusal := scopedRefusals[rng.Intn(len(scopedRefusals))]
	victim, err := h.DialPeer(h.PeerOpts{ServerPort: ports[0], TCPMux: true, Token: token, User: "victim"})
	if err != nil || !victim.LoggedIn() {
		run.Inconclusive("scoped: victim login failed")
		return
	}
	defer victim.Close()
	sendPing := func(p *h.Peer) (*msg.Pong, error) {
		ts := time.Now().Unix()
		return p.PingWith(&msg.Ping{Timestamp: ts, PrivilegeKey: h.AuthKey(token, ts)}, 5*time.Second)
	}
	for i := 0; i < 2; i++ {
		if pong, err := sendPing(victim); err != nil || pong.Error != "" {
			run.Inconclusive("scoped: accepted ping failed")
			return
		}
		time.Sleep(300 * time.Millisecond)
	}
	lp := h.StartLoadProbe()
	lastAccepted := time.Now()
	st.mu.Lock()
	st.pingMode = refusal
	st.mu.Unlock()
	// keep pinging (every 500 ms) for heartbeatTimeout + 5 s; every ping is refused by the plugin chain
	refused, gone := 0, false
	var goneAfter time.Duration
	for time.Since(lastAccepted) < (scopedHeartbeatTimeout+5)*time.Second {
		if victim.Closed() {
			gone, goneAfter = true, time.Since(lastAccepted)
			break
		}
		pong, err := sendPing(victim)
		if err == nil && pong.Error == "" {
			c.Violation("operation-proceeded-despite-refusing-plugin", "Ping: plugin answers %s, yet the ping was answered without error", refusal)
			return
		}
		if err == nil {
			refused++
		}
		time.Sleep(500 * time.Millisecond)
	}
	if !gone && victim.WaitClosed(1500*time.Millisecond) {
		gone, goneAfter = true, time.Since(lastAccepted)
	}
	run.Count("scoped_refused_ping_sessions", 1)
	run.Count("scoped_refused_pings", int64(refused))
	ownerAlive := !owner.Closed()
	if !ownerAlive {
		run.Inconclusive("scoped: the control session (accepted pings) did not survive")
		return
	}
	if !gone {
		over := lp.MaxOvershoot(lastAccepted)
		c.Violation("refused-ping-counted-as-sign-of-life", "heartbeatTimeout %d s: the session's last accepted ping was %v ago, since then %d pings were refused by the plugin chain (%s) and answered with an error, yet the session is still up (a session whose pings are accepted stayed up meanwhile; worst timer overshoot %v)",
			scopedHeartbeatTimeout, time.Since(lastAccepted).Round(100*time.Millisecond), refused, refusal, over)
	} else {
		run.Count("scoped_sessions_dropped_after_refused_pings", 1)
		_ = goneAfter
	}
	run.Distinct("scoped-liveness|" + refusal + fmt.Sprint(nPlug))
	if c.Idx%4 == 0 {
		run.Sample(map[string]any{"kind": "scoped", "plugins": nPlug, "refusal": refusal, "refused_pings": refused, "session_dropped_after": goneAfter.String()})
	}
}
