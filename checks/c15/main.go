// C15 — Server plugins gate every operation, fail closed, and see each other's edits.
//
// Monitor (DESIGN.md §5/C15): stub plugin HTTP endpoints log every call (plugin, op, request id,
// content) and answer as scripted per (plugin, op). A reference chain model computes from the
// scripts alone who must be called, with what content, and whether the operation may proceed; it
// is compared with the plugin-side log and with the outcome seen by the scripted client / user.
package main

import (
	"encoding/json"
	"fmt"
	"io"
	"net"
	"net/http"
	"os"
	"reflect"
	"sort"
	"strings"
	"sync"
	"time"

	"github.com/fatedier/frp/pkg/msg"

	"verif/h"
)

const prop = "C15"
const token = "c15-token"

var run *h.Run

var allOps = []string{"Login", "NewProxy", "Ping", "NewWorkConn", "NewUserConn", "CloseProxy"}

// outcomes a stub can be scripted with
var outcomes = []string{"accept", "accept", "accept", "accept", "modify", "modify", "modify", "reject", "http500", "http404", "reset", "badjson", "empty200", "reject-with-content", "reject-unchanged", "accept-then-garbage", "accept-then-second-object", "accept-truncated"}

func refuses(o string) bool { return o != "accept" && o != "modify" }

type call struct {
	Plugin  int
	Op      string
	ReqID   string
	Content map[string]any
	T       int64
}

type caseState struct {
	idx    int
	ops    [][]string          // per plugin: ops it is registered for
	script []map[string]string // per plugin: op -> outcome
	ports  []int               // allowed remote ports of the case (plugin i rewrites to ports[1+i])
	mu     sync.Mutex
	calls  []call
}

var (
	casesMu sync.Mutex
	cases   = map[int]*caseState{}
	stubLn  net.Listener
)

func main() {
	run = h.NewRun(prop, "exploration")
	run.Rule = "one real frps per case with a PRNG-chosen chain of 0-4 HTTP plugins (ops subset and per-(plugin,op) outcome from {accept, modify, reject, HTTP 500/404, connection reset, malformed JSON, empty body, reject-with-content}); the scripted client performs login, registration, ping, a user connection (NewUserConn + NewWorkConn), explicit close and session end; scoped cases (HeartBeats + NewWorkConns scopes, heartbeatTimeout 3 s): pings and work connections whose key a plugin invalidates or repairs, and sessions whose pings the chain refuses (must die heartbeatTimeout after the last accepted ping); distinct = distinct (ops subsets, outcome table) of the chain"
	run.Assumptions = []string{
		"a 200 answer that parses as JSON without 'reject' and without 'unchange' is 'accepted with (possibly empty) modified content' — the stubs always echo the full received content with their edits applied",
		"calls of one operation are grouped by the X-Frp-Reqid header the server sends to every plugin of one chain invocation",
		"CloseProxy notifications are asynchronous in frps: absence is decided 15 s after the stop was acknowledged (bounded-progress watchdog)",
	}
	var err error
	stubLn, err = net.Listen("tcp", "127.0.0.1:0")
	if err != nil {
		fmt.Fprintln(os.Stderr, err)
		os.Exit(h.ExitHarnessError)
	}
	go http.Serve(stubLn, http.HandlerFunc(func(w http.ResponseWriter, r *http.Request) {
		if strings.HasPrefix(r.URL.Path, "/s") {
			stubScoped(w, r)
			return
		}
		stub(w, r)
	}))

	n := run.N(300, 4000)
	var wgScoped sync.WaitGroup
	wgScoped.Add(1)
	go func() { defer wgScoped.Done(); run.ParallelRange(5000000, run.N(16, 240), 8, scopedCase) }()
	run.Parallel(n, 32, oneCase)
	wgScoped.Wait()
	run.Finish(50)
}

func stub(w http.ResponseWriter, r *http.Request) {
	var ci, pi int
	if _, err := fmt.Sscanf(r.URL.Path, "/c%d/p%d", &ci, &pi); err != nil {
		http.Error(w, "bad path", 400)
		return
	}
	casesMu.Lock()
	cs := cases[ci]
	casesMu.Unlock()
	if cs == nil {
		http.Error(w, "no case", 410)
		return
	}
	body, _ := io.ReadAll(r.Body)
	var req struct {
		Version string         `json:"version"`
		Op      string         `json:"op"`
		Content map[string]any `json:"content"`
	}
	_ = json.Unmarshal(body, &req)
	cs.mu.Lock()
	cs.calls = append(cs.calls, call{Plugin: pi, Op: req.Op, ReqID: r.Header.Get("X-Frp-Reqid"), Content: req.Content, T: h.Now()})
	out := cs.script[pi][req.Op]
	cs.mu.Unlock()
	if r.URL.Query().Get("op") != req.Op {
		out = "accept" // recorded anyway; the oracle flags the mismatch through the log
	}
	switch out {
	case "", "accept":
		writeJSON(w, map[string]any{"reject": false, "unchange": true})
	case "modify":
		writeJSON(w, map[string]any{"reject": false, "unchange": false, "content": modify(cs, pi, req.Op, req.Content)})
	case "reject":
		writeJSON(w, map[string]any{"reject": true, "reject_reason": fmt.Sprintf("no-%d", pi)})
	case "reject-unchanged": // what a plugin that never rewrites content sends when it says no
		writeJSON(w, map[string]any{"reject": true, "reject_reason": fmt.Sprintf("no-%d", pi), "unchange": true})
	case "reject-with-content":
		writeJSON(w, map[string]any{"reject": true, "reject_reason": fmt.Sprintf("no-%d", pi), "unchange": false, "content": modify(cs, pi, req.Op, req.Content)})
	case "http500": // non-success status with an otherwise perfectly valid "accept" body
		w.Header().Set("Content-Type", "application/json")
		w.WriteHeader(500)
		_, _ = w.Write([]byte(`{"reject":false,"unchange":true}`))
	case "http404":
		w.Header().Set("Content-Type", "application/json")
		w.WriteHeader(404)
		_, _ = w.Write([]byte(`{"reject":false,"unchange":true}`))
	case "badjson":
		w.WriteHeader(200)
		_, _ = w.Write([]byte("{\"reject\": fals"))
	case "empty200":
		w.WriteHeader(200)
	case "accept-then-garbage": // a complete accept object followed by bytes that make the body unparsable
		w.Header().Set("Content-Type", "application/json")
		_, _ = w.Write([]byte("{\"reject\":false,\"reject_reason\":\"\",\"unchange\":true}\n<html><body>502 Bad Gateway</body></html>"))
	case "accept-then-second-object":
		w.Header().Set("Content-Type", "application/json")
		_, _ = w.Write([]byte("{\"reject\":false,\"unchange\":true}{\"reject\":true,\"reject_reason\":\"denied\"}"))
	case "accept-truncated": // announces more bytes than it sends, then the connection is reset: the answer never arrived completely
		if hj, ok := w.(http.Hijacker); ok {
			c, bw, err := hj.Hijack()
			if err == nil {
				body := "{\"reject\":false,\"reject_reason\":\"\",\"unchange\":true}"
				fmt.Fprintf(bw, "HTTP/1.1 200 OK\r\nContent-Type: application/json\r\nContent-Length: %d\r\n\r\n%s", len(body)+64, body)
				_ = bw.Flush()
				time.Sleep(20 * time.Millisecond)
				if tc, ok := c.(*net.TCPConn); ok {
					_ = tc.SetLinger(0)
				}
				c.Close()
			}
		}
	case "reset":
		if hj, ok := w.(http.Hijacker); ok {
			c, _, err := hj.Hijack()
			if err == nil {
				if tc, ok := c.(*net.TCPConn); ok {
					_ = tc.SetLinger(0)
				}
				c.Close()
			}
		}
	}
}

func writeJSON(w http.ResponseWriter, v any) {
	w.Header().Set("Content-Type", "application/json")
	b, _ := json.Marshal(v)
	_, _ = w.Write(b)
}

// modify applies plugin pi's declared edit for op to a copy of the content.
func modify(cs *caseState, pi int, op string, in map[string]any) map[string]any {
	b, _ := json.Marshal(in)
	var c map[string]any
	_ = json.Unmarshal(b, &c)
	if c == nil {
		c = map[string]any{}
	}
	switch op {
	case "Login":
		c["user"] = fmt.Sprintf("user-by-p%d", pi)
		c["run_id"] = fmt.Sprintf("rid-c%d-p%d", cs.idx, pi)
		m, _ := c["metas"].(map[string]any)
		if m == nil {
			m = map[string]any{}
		}
		m[fmt.Sprintf("p%d", pi)] = "seen"
		// a rewrite may also REMOVE what the client sent: the client's own meta and its host name are dropped
		delete(m, "m")
		delete(c, "hostname")
		c["metas"] = m
	case "NewProxy":
		c["remote_port"] = float64(cs.ports[1+pi])
		c["proxy_name"] = fmt.Sprintf("%v-m%d", c["proxy_name"], pi)
		if nm, _ := c["metas"].(map[string]any); nm != nil {
			delete(nm, "np")
			nm[fmt.Sprintf("np%d", pi)] = "seen"
			c["metas"] = nm
		}
		delete(c, "group_key")
	case "Ping", "NewWorkConn":
		ts, _ := c["timestamp"].(float64)
		c["timestamp"] = ts + float64(1000*(pi+1))
	case "NewUserConn":
		c["remote_addr"] = fmt.Sprintf("9.9.9.%d:1", pi+1)
	case "CloseProxy":
		c["proxy_name"] = "ignored"
	}
	return c
}

// normalize drops null / empty values so that omitempty differences do not matter.
func normalize(v any) any {
	switch x := v.(type) {
	case map[string]any:
		o := map[string]any{}
		for k, e := range x {
			n := normalize(e)
			if n != nil {
				o[k] = n
			}
		}
		if len(o) == 0 {
			return nil
		}
		return o
	case []any:
		if len(x) == 0 {
			return nil
		}
		o := make([]any, len(x))
		for i := range x {
			o[i] = normalize(x[i])
		}
		return o
	case string:
		if x == "" {
			return nil
		}
	case float64:
		if x == 0 {
			return nil
		}
	case bool:
		if !x {
			return nil
		}
	}
	return v
}

func sameContent(a, b map[string]any) bool {
	return reflect.DeepEqual(normalize(a), normalize(b))
}

func chainOf(cs *caseState, op string) []int {
	var out []int
	for i, ops := range cs.ops {
		for _, o := range ops {
			if o == op {
				out = append(out, i)
			}
		}
	}
	return out
}

// expectedOK: does the scripted chain let `op` proceed, and which plugins are consulted.
func expectedOK(cs *caseState, op string) (ok bool, consulted []int) {
	for _, p := range chainOf(cs, op) {
		consulted = append(consulted, p)
		if refuses(cs.script[p][op]) {
			return false, consulted
		}
	}
	return true, consulted
}

// lastModifier returns the last plugin in the chain of op that modifies (only meaningful if the chain accepts).
func lastModifier(cs *caseState, op string) int {
	last := -1
	for _, p := range chainOf(cs, op) {
		if cs.script[p][op] == "modify" {
			last = p
		}
	}
	return last
}

func (cs *caseState) snapshot() []call {
	cs.mu.Lock()
	defer cs.mu.Unlock()
	return append([]call(nil), cs.calls...)
}

// verifyInvocations checks every chain invocation of `op` recorded so far against the reference model.
// first(content) validates the content the first plugin received against what the client sent.
func verifyInvocations(c *h.Case, cs *caseState, op string, minInvocations int, first func(map[string]any) string) {
	chain := chainOf(cs, op)
	_, consulted := expectedOK(cs, op)
	var calls []call
	var byReq map[string][]call
	var order []string
	collect := func() (inProgress bool) {
		calls = cs.snapshot()
		byReq = map[string][]call{}
		order = nil
		for _, k := range calls {
			if k.Op != op {
				continue
			}
			if _, seen := byReq[k.ReqID]; !seen {
				order = append(order, k.ReqID)
			}
			byReq[k.ReqID] = append(byReq[k.ReqID], k)
		}
		// a chain invocation that so far is a strict prefix of what the model expects may simply still be
		// running (e.g. the server's replacement work connection arriving while we look): give it time
		for _, rid := range order {
			inv := byReq[rid]
			if len(inv) < len(consulted) {
				pre := true
				for i, k := range inv {
					if k.Plugin != consulted[i] {
						pre = false
					}
				}
				if pre {
					return true
				}
			}
		}
		return false
	}
	h.Eventually(8*time.Second, func() bool { return !collect() })
	if len(chain) > 0 && len(order) < minInvocations {
		c.Violation("plugin-not-consulted", "operation %s was performed %d time(s) but only %d chain invocation(s) reached the plugins registered for it (%v)", op, minInvocations, len(order), chain)
	}
	for _, rid := range order {
		inv := byReq[rid]
		run.Count("chain_invocations_checked", 1)
		if op == "CloseProxy" {
			continue // judged by verifyCloseNotifications
		}
		var got []int
		for _, k := range inv {
			got = append(got, k.Plugin)
		}
		if !reflect.DeepEqual(got, consulted) {
			key := "plugin-chain-order-or-extent"
			if len(got) > len(consulted) {
				key = "plugin-consulted-after-refusal"
			} else if len(got) < len(consulted) {
				key = "plugin-not-consulted"
			}
			c.Violation(key, "op %s (reqid %s): plugins consulted %v, reference model says %v (chain %v, outcomes %v)", op, rid, got, consulted, chain, outcomesOf(cs, op))
			continue
		}
		for i, k := range inv {
			if i == 0 {
				if first != nil {
					if why := first(k.Content); why != "" {
						c.Violation("first-plugin-content-differs-from-message", "op %s: first plugin received content that differs from what the peer sent: %s (content %v)", op, why, k.Content)
					}
				}
				continue
			}
			prev := inv[i-1]
			want := prev.Content
			if cs.script[prev.Plugin][op] == "modify" {
				want = modify(cs, prev.Plugin, op, prev.Content)
			}
			if !sameContent(want, k.Content) {
				c.Violation("plugin-does-not-see-previous-edit", "op %s: plugin %d received %v, but plugin %d (outcome %s) handed on %v", op, k.Plugin, k.Content, prev.Plugin, cs.script[prev.Plugin][op], want)
			}
		}
	}
	// plugins not registered for the op must not have been called with it
	for _, k := range calls {
		if k.Op != op {
			continue
		}
		reg := false
		for _, o := range cs.ops[k.Plugin] {
			if o == op {
				reg = true
			}
		}
		if !reg {
			c.Violation("unregistered-plugin-consulted", "plugin %d is registered for %v but was called for %s", k.Plugin, cs.ops[k.Plugin], op)
		}
	}
}

func outcomesOf(cs *caseState, op string) []string {
	var o []string
	for _, p := range chainOf(cs, op) {
		o = append(o, fmt.Sprintf("p%d:%s", p, cs.script[p][op]))
	}
	return o
}

func oneCase(c *h.Case) {
	rng := c.Rng
	k := rng.Intn(5)
	ports := h.Ports(prop).Block(6) // [0]=bind, [1..4] plugin rewrite targets, [5]=client's requested port
	cs := &caseState{idx: c.Idx, ports: ports}
	for i := 0; i < k; i++ {
		var ops []string
		for _, o := range allOps {
			if rng.Intn(100) < 55 {
				ops = append(ops, o)
			}
		}
		sc := map[string]string{}
		for _, o := range ops {
			out := outcomes[rng.Intn(len(outcomes))]
			if o == "Login" && rng.Intn(100) < 50 { // keep deep operations reachable
				out = []string{"accept", "modify"}[rng.Intn(2)]
			}
			sc[o] = out
		}
		cs.ops = append(cs.ops, ops)
		cs.script = append(cs.script, sc)
	}
	c.Data["ops"], c.Data["script"], c.Data["ports"] = cs.ops, cs.script, ports
	casesMu.Lock()
	cases[c.Idx] = cs
	casesMu.Unlock()
	defer func() { casesMu.Lock(); delete(cases, c.Idx); casesMu.Unlock() }()

	var sb strings.Builder
	fmt.Fprintf(&sb, "bindAddr = \"127.0.0.1\"\nbindPort = %d\nauth.token = \"%s\"\nuserConnTimeout = 2\nallowPorts = [{start=%d,end=%d}]\n", ports[0], token, ports[1], ports[5])
	for i := range cs.ops {
		opsJSON, _ := json.Marshal(cs.ops[i])
		if cs.ops[i] == nil {
			opsJSON = []byte("[]")
		}
		fmt.Fprintf(&sb, "[[httpPlugins]]\nname = \"p%d\"\naddr = \"%s\"\npath = \"/c%d/p%d\"\nops = %s\n", i, stubLn.Addr().String(), c.Idx, i, opsJSON)
	}
	srv, err := h.StartServerText(prop, sb.String())
	if err != nil {
		run.Inconclusive("server start failed: " + err.Error())
		return
	}
	defer srv.Close()
	sig := fmt.Sprintf("%v|%v", cs.ops, cs.script)
	run.Distinct(sig)
	if c.Idx < 3 {
		run.Sample(map[string]any{"plugins": k, "ops": cs.ops, "script": cs.script})
	}

	// ---- Login
	user := fmt.Sprintf("u%d", c.Idx)
	p, err := h.DialPeer(h.PeerOpts{ServerPort: ports[0], TCPMux: true, Token: token, User: user, Metas: map[string]string{"m": "v"},
		AutoWork: true, WorkHandler: h.IdentBackend("B", token, false, false, nil)})
	if p != nil {
		defer p.Close()
	}
	wantLogin, _ := expectedOK(cs, "Login")
	run.Count("logins", 1)
	if err != nil && p == nil {
		run.Inconclusive("dial failed")
		return
	}
	if err != nil { // no LoginResp at all: the server must answer a login, refused or not
		c.Violation("login-no-reply", "no LoginResp: %v", err)
		return
	}
	verifyInvocations(c, cs, "Login", 1, func(ct map[string]any) string {
		if ct["user"] != user {
			return fmt.Sprintf("user %v != %s", ct["user"], user)
		}
		if _, ok := ct["client_address"].(string); !ok {
			return "client_address missing"
		}
		return ""
	})
	if p.LoggedIn() != wantLogin {
		key := "operation-proceeded-despite-refusing-plugin"
		if wantLogin {
			key = "operation-refused-although-all-plugins-accepted"
		}
		c.Violation(key, "Login: accepted=%v (error %q), reference model says accepted=%v (outcomes %v)", p.LoggedIn(), p.LoginResp.Error, wantLogin, outcomesOf(cs, "Login"))
		return
	}
	if !wantLogin {
		run.Count("logins_refused_by_plugin", 1)
		if n := len(srv.Snapshot().Sessions); n != 0 {
			c.Violation("refused-login-left-session", "%d sessions after a plugin-refused login", n)
		}
		return
	}
	effUser := user
	if lm := lastModifier(cs, "Login"); lm >= 0 {
		effUser = fmt.Sprintf("user-by-p%d", lm)
		if want := fmt.Sprintf("rid-c%d-p%d", c.Idx, lm); p.RunID != want {
			c.Violation("server-ignores-last-plugin-content", "Login: last modifying plugin p%d set run_id %s but the session got run id %s", lm, want, p.RunID)
		}
		run.Count("login_rewrites_checked", 1)
	}
	var sessUser string
	for _, s := range srv.Snapshot().Sessions {
		if s.RunID == p.RunID {
			sessUser = s.User
		}
	}
	if sessUser != effUser {
		c.Violation("server-ignores-last-plugin-content", "Login: session user is %q, the content after the plugin chain has user %q", sessUser, effUser)
	}

	// ---- NewProxy
	pname := fmt.Sprintf("c%d.tcp", c.Idx)
	resp, err := p.NewProxy(&msg.NewProxy{ProxyName: pname, ProxyType: "tcp", RemotePort: ports[5], Metas: map[string]string{"np": "v", "keep": "k"}, GroupKey: "gk"}, 10*time.Second)
	wantNP, _ := expectedOK(cs, "NewProxy")
	effName, effPort := pname, ports[5]
	if lm := lastModifier(cs, "NewProxy"); lm >= 0 && wantNP {
		// every modifying plugin appends its suffix; the port is the last modifier's
		effName = pname
		for _, q := range chainOf(cs, "NewProxy") {
			if cs.script[q]["NewProxy"] == "modify" {
				effName = fmt.Sprintf("%s-m%d", effName, q)
			}
		}
		effPort = ports[1+lm]
	}
	if err != nil {
		// the reply carries the (possibly rewritten) name; look for any NewProxyResp
		m, werr := p.WaitMsg(5*time.Second, func(x msg.Message) bool { _, ok := x.(*msg.NewProxyResp); return ok })
		if werr != nil {
			c.Violation("newproxy-no-reply", "no NewProxyResp: %v", err)
			return
		}
		resp = m.(*msg.NewProxyResp)
	}
	run.Count("registrations", 1)
	verifyInvocations(c, cs, "NewProxy", 1, func(ct map[string]any) string {
		if ct["proxy_name"] != pname {
			return fmt.Sprintf("proxy_name %v != %s", ct["proxy_name"], pname)
		}
		if ct["remote_port"] != float64(ports[5]) {
			return fmt.Sprintf("remote_port %v != %d", ct["remote_port"], ports[5])
		}
		u, _ := ct["user"].(map[string]any)
		if u == nil || u["user"] != effUser || u["run_id"] != p.RunID {
			return fmt.Sprintf("user info %v does not describe the session (user %s run id %s)", u, effUser, p.RunID)
		}
		// the session's metas are what the Login chain left: every modifying plugin removed the client's own
		// meta "m" and added its mark — a removal must be acted on like any other edit
		effMetas := map[string]any{"m": "v"}
		for _, q := range chainOf(cs, "Login") {
			if cs.script[q]["Login"] == "modify" {
				delete(effMetas, "m")
				effMetas[fmt.Sprintf("p%d", q)] = "seen"
			}
		}
		gotMetas, _ := u["metas"].(map[string]any)
		if gotMetas == nil {
			gotMetas = map[string]any{}
		}
		if !reflect.DeepEqual(normalize(gotMetas), normalize(effMetas)) {
			return fmt.Sprintf("session metas %v, the Login chain left %v", gotMetas, effMetas)
		}
		return ""
	})
	proxyUp := resp.Error == ""
	if proxyUp != wantNP {
		key := "operation-proceeded-despite-refusing-plugin"
		if wantNP {
			key = "operation-refused-although-all-plugins-accepted"
		}
		c.Violation(key, "NewProxy: registered=%v (error %q), reference model says %v (outcomes %v)", proxyUp, resp.Error, wantNP, outcomesOf(cs, "NewProxy"))
	}
	if proxyUp && wantNP {
		if resp.ProxyName != effName || resp.RemoteAddr != fmt.Sprintf(":%d", effPort) {
			c.Violation("server-ignores-last-plugin-content", "NewProxy: reply names %q at %q, content after the plugin chain is %q port %d", resp.ProxyName, resp.RemoteAddr, effName, effPort)
		}
		if got := srv.Snapshot().TCPPorts.Used[effPort]; got != effName {
			c.Violation("server-ignores-last-plugin-content", "NewProxy: port table has %d -> %q, want %q", effPort, got, effName)
		}
		run.Count("registrations_accepted", 1)
	}
	if !proxyUp {
		if names := srv.Snapshot().ProxyNames; len(names) != 0 {
			c.Violation("refused-registration-left-proxy", "proxy table %v after a plugin-refused registration", names)
		}
	}

	// ---- Ping
	ts := time.Now().Unix()
	pong, err := p.PingWith(&msg.Ping{Timestamp: ts}, 10*time.Second)
	run.Count("pings", 1)
	if err != nil {
		c.Violation("ping-no-reply", "no Pong: %v", err)
		return
	}
	wantPing, _ := expectedOK(cs, "Ping")
	verifyInvocations(c, cs, "Ping", 1, func(ct map[string]any) string {
		if ct["timestamp"] != float64(ts) {
			return fmt.Sprintf("timestamp %v != %d", ct["timestamp"], ts)
		}
		return ""
	})
	if (pong.Error == "") != wantPing {
		key := "operation-proceeded-despite-refusing-plugin"
		if wantPing {
			key = "operation-refused-although-all-plugins-accepted"
		}
		c.Violation(key, "Ping: pong error %q, reference model says accepted=%v (outcomes %v)", pong.Error, wantPing, outcomesOf(cs, "Ping"))
	}

	// ---- user connection: NewUserConn chain, then NewWorkConn chain
	if proxyUp && wantNP {
		wantUC, _ := expectedOK(cs, "NewUserConn")
		wantWC, _ := expectedOK(cs, "NewWorkConn")
		before := p.WorkConnsOpened.Load()
		id, ierr := h.AskIdent(fmt.Sprintf("127.0.0.1:%d", effPort), 12*time.Second)
		run.Count("user_connections", 1)
		bridged := ierr == nil && id == "B|"+effName
		verifyInvocations(c, cs, "NewUserConn", 1, func(ct map[string]any) string {
			if ct["proxy_name"] != effName || ct["proxy_type"] != "tcp" {
				return fmt.Sprintf("proxy %v/%v != %s/tcp", ct["proxy_name"], ct["proxy_type"], effName)
			}
			if ra, _ := ct["remote_addr"].(string); !strings.HasPrefix(ra, "127.0.0.1:") {
				return "remote_addr is not the user's address: " + ra
			}
			return ""
		})
		if !wantUC {
			if bridged {
				c.Violation("operation-proceeded-despite-refusing-plugin", "NewUserConn refused by the chain (%v) but the user connection was bridged", outcomesOf(cs, "NewUserConn"))
			}
			time.Sleep(100 * time.Millisecond)
			if n := p.WorkConnsOpened.Load() - before; n != 0 {
				c.Violation("operation-proceeded-despite-refusing-plugin", "NewUserConn refused by the chain but the server asked for %d work connection(s)", n)
			}
		} else {
			minWC := 0
			if p.WorkConnsOpened.Load() > before {
				minWC = 1
			}
			verifyInvocations(c, cs, "NewWorkConn", minWC, func(ct map[string]any) string {
				if ct["run_id"] != p.RunID {
					return fmt.Sprintf("run_id %v != %s", ct["run_id"], p.RunID)
				}
				return ""
			})
			if bridged != wantWC {
				key := "operation-proceeded-despite-refusing-plugin"
				if wantWC {
					key = "operation-refused-although-all-plugins-accepted"
				}
				c.Violation(key, "user connection bridged=%v (ident %q err %v); NewUserConn chain accepts, NewWorkConn chain accepts=%v (outcomes %v)", bridged, id, ierr, wantWC, outcomesOf(cs, "NewWorkConn"))
			}
			if bridged {
				run.Count("user_connections_bridged", 1)
			}
		}
	}

	// ---- stops: explicit close of the first proxy, session end for a second one
	var stopped []string
	if proxyUp && wantNP {
		_ = p.CloseProxy(effName)
		if _, err := p.PingWith(&msg.Ping{Timestamp: ts}, 10*time.Second); err != nil {
			run.Inconclusive("close barrier missing")
			return
		}
		stopped = append(stopped, effName)
	}
	if wantNP {
		second := fmt.Sprintf("c%d.second", c.Idx)
		r2, err := p.NewProxy(&msg.NewProxy{ProxyName: second, ProxyType: "tcp", RemotePort: ports[5]}, 10*time.Second)
		if err != nil {
			if m, werr := p.WaitMsg(5*time.Second, func(x msg.Message) bool { _, ok := x.(*msg.NewProxyResp); return ok }); werr == nil {
				r2 = m.(*msg.NewProxyResp)
			}
		}
		if r2 != nil && r2.Error == "" {
			stopped = append(stopped, r2.ProxyName)
			// several proxies alive at session end: each must get its own notification
			for x := 0; x < 1+rng.Intn(4); x++ {
				rx, err := p.NewProxy(&msg.NewProxy{ProxyName: fmt.Sprintf("c%d.extra%d", c.Idx, x), ProxyType: "stcp", Sk: "k"}, 10*time.Second)
				if err != nil {
					if m, werr := p.WaitMsg(5*time.Second, func(y msg.Message) bool { _, ok := y.(*msg.NewProxyResp); return ok }); werr == nil {
						rx = m.(*msg.NewProxyResp)
					}
				}
				if rx != nil && rx.Error == "" {
					stopped = append(stopped, rx.ProxyName)
				}
			}
		} else if r2 != nil && proxyUp {
			// the same script accepted the first registration; the second differs only in name
			c.Violation("registration-after-close-refused", "second registration on the freed port refused: %s", r2.Error)
		}
	}
	p.Close()
	run.Count("proxies_stopped", int64(len(stopped)))
	subs := chainOf(cs, "CloseProxy")
	if len(subs) > 0 && len(stopped) > 0 {
		complete := func() (missing []string) {
			calls := cs.snapshot()
			for _, name := range stopped {
				for _, s := range subs {
					n := 0
					for _, k := range calls {
						if k.Op == "CloseProxy" && k.Plugin == s && k.Content["proxy_name"] == name {
							n++
						}
					}
					if n == 0 {
						missing = append(missing, fmt.Sprintf("p%d:%s", s, name))
					}
				}
			}
			return
		}
		h.Eventually(15*time.Second, func() bool { return len(complete()) == 0 })
		if miss := complete(); len(miss) > 0 {
			c.Violation("closeproxy-notification-missing", "no CloseProxy notification 15 s after the stop for %v (stopped %v, subscribers %v, outcomes %v)", miss, stopped, subs, outcomesOf(cs, "CloseProxy"))
		}
		calls := cs.snapshot()
		cnt := map[string]int{}
		for _, k := range calls {
			if k.Op == "CloseProxy" {
				cnt[fmt.Sprintf("p%d:%v", k.Plugin, k.Content["proxy_name"])]++
				u, _ := k.Content["user"].(map[string]any)
				if u == nil || u["run_id"] != p.RunID {
					c.Violation("closeproxy-notification-wrong-session", "CloseProxy notification carries user %v, session run id %s", u, p.RunID)
				}
			}
		}
		for kx, n := range cnt {
			if n > 1 {
				c.Violation("closeproxy-notification-duplicated", "%d CloseProxy notifications for %s", n, kx)
			}
		}
		run.Count("close_notifications_checked", int64(len(subs)*len(stopped)))
	}
	verifyInvocations(c, cs, "CloseProxy", 0, nil)
	all := cs.snapshot()
	run.Count("plugin_calls_observed", int64(len(all)))
	keys := []string{}
	for _, k := range all {
		keys = append(keys, k.Op)
	}
	sort.Strings(keys)
	c.Ev("calls", "ops", strings.Join(keys, ","))
}
