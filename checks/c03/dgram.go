package main

import (
	"bytes"
	"encoding/binary"
	"fmt"
	"math/rand"
	"net"
	"sync"
	"sync/atomic"
	"time"

	"verif/h"
)

// ---------------------------------------------------------------------------------------------
// Datagram identities and payloads
//
// A request of length L >= hdrLen is  'Q' tun user j=0 seq(4) L(2) sum(2) body(L-12);
// a reply   of length L >= hdrLen is  'R' tun user j   seq(4) L(2) sum(2) body(L-12).
// Payloads shorter than the header ("tiny", 0..11 bytes) are pure PRNG bytes: they are identified
// by the exchange they belong to (one tiny request in flight per tunnel; tiny replies only in
// light-load exchanges, where the user has exactly one exchange outstanding).

const hdrLen = 12

type dgID struct {
	Tun, User, J int
	Seq          uint32
}

func (d dgID) String() string { return fmt.Sprintf("t%d/u%d/s%d/j%d", d.Tun, d.User, d.Seq, d.J) }
func (d dgID) req() dgID      { d.J = 0; return d }

func hdrSum(p []byte, salt uint16) uint16 {
	var s uint32 = uint32(salt) + 0x9e37
	for _, b := range p[:10] {
		s = s*31 + uint32(b)
	}
	return uint16(s ^ s>>16)
}

// fillBody writes deterministic bytes of a payload class.
func fillBody(p []byte, seed int64, class int) {
	if len(p) == 0 {
		return
	}
	rng := rand.New(rand.NewSource(seed))
	switch class {
	case 1: // zero runs with a few marks
		for i := 0; i < 1+len(p)/512; i++ {
			p[rng.Intn(len(p))] = byte(1 + rng.Intn(255))
		}
	case 2: // repetitive text, phase depends on the seed
		const unit = "the quick brown fox jumps over the lazy dog 0123456789\r\n"
		off := rng.Intn(len(unit))
		for i := range p {
			p[i] = unit[(off+i)%len(unit)]
		}
	case 3: // one repeated byte value (0x00, 0xff, '=', '"', '\\' ...: framing and JSON specials)
		v := []byte{0x00, 0xff, '=', '"', '\\', '\n', 0x7f, 'A'}[rng.Intn(8)]
		for i := range p {
			p[i] = v
		}
	default:
		rng.Read(p)
	}
}

func mkPayload(kind byte, id dgID, L int, caseSeed int64, salt uint16, class int) []byte {
	p := make([]byte, L)
	seed := caseSeed ^ int64(kind)<<56 ^ int64(id.Tun)<<48 ^ int64(id.User)<<40 ^ int64(id.J)<<32 ^ int64(id.Seq)
	if L < hdrLen {
		fillBody(p, seed, class)
		return p
	}
	p[0], p[1], p[2], p[3] = kind, byte(id.Tun), byte(id.User), byte(id.J)
	binary.BigEndian.PutUint32(p[4:], id.Seq)
	binary.BigEndian.PutUint16(p[8:], uint16(L))
	binary.BigEndian.PutUint16(p[10:], hdrSum(p, salt))
	fillBody(p[hdrLen:], seed, class)
	return p
}

// parseHdr recognises a header-carrying payload of the given kind; the declared length is returned, not enforced.
func parseHdr(p []byte, kind byte, salt uint16) (id dgID, declared int, ok bool) {
	if len(p) < hdrLen || p[0] != kind {
		return
	}
	if binary.BigEndian.Uint16(p[10:]) != hdrSum(p, salt) {
		return
	}
	id = dgID{Tun: int(p[1]), User: int(p[2]), J: int(p[3]), Seq: binary.BigEndian.Uint32(p[4:])}
	return id, int(binary.BigEndian.Uint16(p[8:])), true
}

func clip(p []byte) string {
	if len(p) > 24 {
		return fmt.Sprintf("%x…(%d bytes)", p[:24], len(p))
	}
	return fmt.Sprintf("%x(%d bytes)", p, len(p))
}

// relation describes how got differs from want (for violation keys).
func relation(got, want []byte) string {
	switch {
	case len(got) < len(want) && bytes.Equal(got, want[:len(got)]):
		return "truncated"
	case len(got) > len(want) && bytes.Equal(got[:len(want)], want):
		return "extended"
	case len(got) == len(want):
		return "corrupted"
	}
	return "altered"
}

func firstDiff(a, b []byte) int {
	n := len(a)
	if len(b) < n {
		n = len(b)
	}
	for i := 0; i < n; i++ {
		if a[i] != b[i] {
			return i
		}
	}
	return n
}

// ---------------------------------------------------------------------------------------------
// Per-case state: the registry of everything sent, and the monitors

type replyPlan struct {
	Payloads [][]byte
	Delay    time.Duration // before the first reply
	Gap      time.Duration // between consecutive replies (0 = back to back)
	SentAt   []int64       // h.Now() when reply j was handed to the socket (0 = not yet)
}

type caseState struct {
	c    *h.Case
	seed int64
	salt uint16

	mu        sync.Mutex
	sent      map[dgID][]byte     // request id -> exact payload (registered before the send)
	plans     map[dgID]*replyPlan // request id -> what the backend answers
	seen      map[dgID]int        // request id -> times handed to a backend
	seenAt    map[dgID]int64
	repSent   map[dgID]int // reply id -> times the backend sent it
	repGot    map[dgID]int // reply id -> times a user received it
	stopped   bool         // set at the first liveness violation: later losses are consequences
	arrivals  atomic.Int64
	deliverys atomic.Int64

	tunnels []*tunnel
	users   []*user

	// ports leased to this case (released when the case ends): a port of the static range that is only
	// transiently unbound (proxy re-registration, visitor restart) must not be handed to another case
	ports []int
}

var (
	leaseMu sync.Mutex
	leased  = map[int]bool{}
)

func (cs *caseState) getPort() int {
	for {
		p := pa.Get()
		leaseMu.Lock()
		if !leased[p] {
			leased[p] = true
			cs.ports = append(cs.ports, p)
			leaseMu.Unlock()
			return p
		}
		leaseMu.Unlock()
	}
}

func (cs *caseState) releasePorts() {
	leaseMu.Lock()
	for _, p := range cs.ports {
		delete(leased, p)
	}
	cs.ports = nil
	leaseMu.Unlock()
}

func newCaseState(c *h.Case) *caseState {
	return &caseState{c: c, seed: c.Rng.Int63(), salt: uint16(c.Idx*2654435761>>7) | 1,
		sent: map[dgID][]byte{}, plans: map[dgID]*replyPlan{}, seen: map[dgID]int{}, seenAt: map[dgID]int64{},
		repSent: map[dgID]int{}, repGot: map[dgID]int{}}
}

type tunnel struct {
	Idx       int
	Kind      string // udp | sudp
	Name      string
	Public    *net.UDPAddr // where users send
	Enc, Comp bool
	VEnc      bool // sudp: visitor leg
	VComp     bool
	Limit     string // "" | server | client: generous bandwidth limit (far above the judged light-load traffic)
	be        *backend
	tinyMu    sync.Mutex // one tiny request in flight per tunnel
}

// ---------------------------------------------------------------------------------------------
// Backend: logs and judges every datagram handed to it, answers as planned

type backend struct {
	cs   *caseState
	tun  int
	conn *net.UDPConn
	Port int

	mu      sync.Mutex
	tinyCur *dgID
	froms   map[string]map[int]bool // source address at the backend -> users seen from it
	wg      sync.WaitGroup
}

// listenStatic binds a UDP socket on a port of the check's private static range: stale flows of other
// programs on this host (KCP / QUIC retransmissions towards a closed ephemeral port) can never reach it.
func (cs *caseState) listenStatic() (*net.UDPConn, error) {
	var err error
	for try := 0; try < 8; try++ {
		var conn *net.UDPConn
		conn, err = net.ListenUDP("udp", &net.UDPAddr{IP: net.IPv4(127, 0, 0, 1), Port: cs.getPort()})
		if err == nil {
			return conn, nil
		}
	}
	return nil, err
}

func startBackend(cs *caseState, tun int) (*backend, error) {
	conn, err := cs.listenStatic()
	if err != nil {
		return nil, err
	}
	b := &backend{cs: cs, tun: tun, Port: conn.LocalAddr().(*net.UDPAddr).Port, froms: map[string]map[int]bool{}}
	b.serve(conn)
	return b, nil
}

func (b *backend) serve(conn *net.UDPConn) {
	_ = conn.SetReadBuffer(4 << 20)
	_ = conn.SetWriteBuffer(4 << 20)
	b.mu.Lock()
	b.conn = conn
	b.mu.Unlock()
	b.wg.Add(1)
	go func() {
		defer b.wg.Done()
		buf := make([]byte, 65536)
		for {
			n, from, err := conn.ReadFromUDP(buf)
			if err != nil {
				return
			}
			b.handle(append([]byte(nil), buf[:n]...), from.String(), func(rp []byte) { _, _ = conn.WriteToUDP(rp, from) })
		}
	}()
}

// Close stops the backend: its port becomes unreachable (ICMP port unreachable for whoever sends to it).
func (b *backend) Close() {
	b.mu.Lock()
	conn := b.conn
	b.mu.Unlock()
	if conn != nil { // nil: backend played by a scripted owner on the work connection itself
		conn.Close()
	}
	b.wg.Wait()
}

// Reopen brings the backend back on the same port (the port stays leased to the case meanwhile).
func (b *backend) Reopen() error {
	var err error
	for try := 0; try < 50; try++ {
		var conn *net.UDPConn
		conn, err = net.ListenUDP("udp", &net.UDPAddr{IP: net.IPv4(127, 0, 0, 1), Port: b.Port})
		if err == nil {
			b.serve(conn)
			return nil
		}
		time.Sleep(20 * time.Millisecond)
	}
	return err
}

func (b *backend) setTiny(id *dgID) {
	b.mu.Lock()
	b.tinyCur = id
	b.mu.Unlock()
}

// handle judges one payload handed to the backend; from names the source as the backend sees it, send
// returns a reply to that source.
func (b *backend) handle(p []byte, from string, send func(rp []byte)) {
	cs := b.cs
	cs.arrivals.Add(1)
	run.Count("backend_datagrams", 1)
	id, declared, ok := parseHdr(p, 'Q', cs.salt)
	tiny := false
	if !ok {
		b.mu.Lock()
		cur := b.tinyCur
		b.mu.Unlock()
		if cur == nil || len(p) >= hdrLen {
			// neither a header-carrying datagram of this case nor the tiny datagram in flight
			cs.c.Ev("backend-unknown", "tun", b.tun, "from", from, "payload", clip(p))
			cs.integrity("backend-datagram-not-sent-by-any-user", "backend of tunnel %d received %s from %s: no user sent a datagram with this payload (header does not verify; tiny datagram in flight: %v)",
				b.tun, clip(p), from, cur != nil)
			return
		}
		id, tiny = *cur, true
	}
	cs.mu.Lock()
	want, known := cs.sent[id]
	plan := cs.plans[id]
	if known {
		cs.seen[id]++
		if cs.seen[id] == 1 {
			cs.seenAt[id] = h.Now()
		}
	}
	times := cs.seen[id]
	cs.mu.Unlock()
	b.mu.Lock()
	if b.froms[from] == nil {
		b.froms[from] = map[int]bool{}
	}
	b.froms[from][id.User] = true
	b.mu.Unlock()
	if !known {
		cs.integrity("backend-datagram-not-sent-by-any-user", "backend of tunnel %d received a well-formed datagram %v (declared length %d, actual %d) that was never sent", b.tun, id, declared, len(p))
		return
	}
	if id.Tun != b.tun {
		cs.integrity("datagram-delivered-to-wrong-proxy", "datagram %v sent to the public endpoint of tunnel %d was handed to the backend of tunnel %d", id, id.Tun, b.tun)
	}
	if !bytes.Equal(p, want) {
		rel := relation(p, want)
		cs.c.Ev("backend-mismatch", "id", id.String(), "got", clip(p), "want", clip(want), "first_diff", firstDiff(p, want))
		cs.integrity("backend-datagram-"+rel, "datagram %v (tiny=%v): backend received %s, user sent %s (first difference at byte %d)", id, tiny, clip(p), clip(want), firstDiff(p, want))
		return
	}
	if times > 1 {
		cs.integrity("backend-datagram-duplicated", "datagram %v (%d bytes) was handed to the backend %d times, sent once", id, len(p), times)
	}
	if plan == nil {
		return
	}
	sendOne := func(j int) {
		rid := id
		rid.J = j + 1
		cs.mu.Lock()
		cs.repSent[rid]++
		if j < len(plan.SentAt) && plan.SentAt[j] == 0 {
			plan.SentAt[j] = h.Now()
		}
		cs.mu.Unlock()
		run.Count("replies_sent", 1)
		send(plan.Payloads[j])
	}
	sendAll := func() {
		for j := range plan.Payloads {
			sendOne(j)
		}
	}
	if plan.Gap > 0 {
		// a stream of replies spread over time, each on its own timer
		for j := range plan.Payloads {
			j := j
			time.AfterFunc(plan.Delay+time.Duration(j)*plan.Gap, func() { sendOne(j) })
		}
		return
	}
	if plan.Delay > 0 {
		time.AfterFunc(plan.Delay, sendAll)
	} else {
		sendAll()
	}
}

// sharedSources reports backend-side source addresses that carried more than one user (diagnostic).
func (b *backend) sources() (n int, shared int) {
	b.mu.Lock()
	defer b.mu.Unlock()
	for _, us := range b.froms {
		n++
		if len(us) > 1 {
			shared++
		}
	}
	return
}

// ---------------------------------------------------------------------------------------------
// User: one UDP socket = one user address

type pending struct {
	id   dgID
	want [][]byte // replies still expected (multiset)
	done chan struct{}
}

type user struct {
	cs   *caseState
	tun  *tunnel
	Idx  int
	conn *net.UDPConn
	seq  uint32

	mu   sync.Mutex
	pend *pending
	wg   sync.WaitGroup
}

func startUser(cs *caseState, tun *tunnel, idx int) (*user, error) {
	conn, err := cs.listenStatic()
	if err != nil {
		return nil, err
	}
	_ = conn.SetReadBuffer(4 << 20)
	u := &user{cs: cs, tun: tun, Idx: idx, conn: conn}
	cs.mu.Lock()
	cs.users = append(cs.users, u)
	cs.mu.Unlock()
	u.wg.Add(1)
	go u.readLoop()
	return u, nil
}

func (u *user) Close() { u.conn.Close(); u.wg.Wait() }

func (u *user) readLoop() {
	defer u.wg.Done()
	buf := make([]byte, 65536)
	for {
		n, from, err := u.conn.ReadFromUDP(buf)
		if err != nil {
			return
		}
		u.onReply(append([]byte(nil), buf[:n]...), from)
	}
}

func (u *user) onReply(p []byte, from *net.UDPAddr) {
	cs := u.cs
	cs.deliverys.Add(1)
	run.Count("user_datagrams", 1)
	if from.Port != u.tun.Public.Port || !from.IP.Equal(u.tun.Public.IP) {
		if _, _, ours := parseHdr(p, 'R', cs.salt); !ours {
			// not from the tunnel and not one of this case's replies: traffic of another program on this host
			run.Count("foreign_datagrams_ignored", 1)
			cs.c.Ev("foreign", "user", u.Idx, "from", from.String(), "payload", clip(p))
			return
		}
		cs.integrity("reply-source-not-public-endpoint", "user %d of tunnel %d received %s from %s, the public endpoint is %s", u.Idx, u.tun.Idx, clip(p), from, u.tun.Public)
	}
	u.mu.Lock()
	pd := u.pend
	u.mu.Unlock()
	rid, declared, ok := parseHdr(p, 'R', cs.salt)
	if ok {
		cs.mu.Lock()
		plan := cs.plans[rid.req()]
		sentN := cs.repSent[rid]
		cs.repGot[rid]++
		gotN := cs.repGot[rid]
		cs.mu.Unlock()
		if plan == nil || rid.J < 1 || rid.J > len(plan.Payloads) {
			cs.integrity("user-reply-not-sent-by-backend", "user %d received a well-formed reply %v (declared %d, actual %d bytes) that no backend sent", u.Idx, rid, declared, len(p))
			return
		}
		want := plan.Payloads[rid.J-1]
		if rid.User != u.Idx || rid.Tun != u.tun.Idx {
			cs.integrity("reply-delivered-to-wrong-user", "reply %v answers a datagram of user %d (tunnel %d) but was delivered to user %d (tunnel %d, address %s)",
				rid, rid.User, rid.Tun, u.Idx, u.tun.Idx, u.conn.LocalAddr())
		}
		if !bytes.Equal(p, want) {
			cs.c.Ev("user-mismatch", "id", rid.String(), "got", clip(p), "want", clip(want), "first_diff", firstDiff(p, want))
			cs.integrity("user-reply-"+relation(p, want), "reply %v: user received %s, backend sent %s (first difference at byte %d)", rid, clip(p), clip(want), firstDiff(p, want))
			return
		}
		if sentN == 0 {
			cs.integrity("user-reply-not-sent-by-backend", "user %d received reply %v which the backend has not sent", u.Idx, rid)
			return
		}
		if gotN > sentN {
			cs.integrity("user-reply-duplicated", "reply %v (%d bytes) was delivered %d times, the backend sent it %d times", rid, len(p), gotN, sentN)
			return
		}
	} else {
		// tiny (or mangled) reply: legal only as one of the replies still expected by this user's outstanding exchange
		if pd == nil || !pd.take(p, u) {
			var exp []string
			key := "user-reply-not-sent-by-backend"
			if pd != nil {
				u.mu.Lock()
				for _, w := range pd.want {
					exp = append(exp, clip(w))
				}
				if len(pd.want) == 1 {
					key = "user-reply-" + relation(p, pd.want[0])
				}
				u.mu.Unlock()
			}
			if other := cs.expectedByOther(u, p); other != nil {
				cs.c.Ev("user-misdelivered", "user", u.Idx, "payload", clip(p), "belongs_to", other.Idx)
				cs.integrity("reply-delivered-to-wrong-user", "a %d-byte reply %s that the backend sent in answer to user %d (%s) was delivered to user %d (%s)",
					len(p), clip(p), other.Idx, other.conn.LocalAddr(), u.Idx, u.conn.LocalAddr())
				return
			}
			cs.c.Ev("user-unknown", "user", u.Idx, "payload", clip(p), "expected", exp)
			cs.integrity(key, "user %d of tunnel %d received %s which is not a reply any backend sent to it (outstanding expected replies: %v)", u.Idx, u.tun.Idx, clip(p), exp)
		}
		return
	}
	if pd != nil && rid.req() == pd.id {
		pd.take(p, u)
	}
}

// expectedByOther finds another user whose outstanding exchange expects exactly this header-less reply.
func (cs *caseState) expectedByOther(me *user, p []byte) *user {
	cs.mu.Lock()
	us := append([]*user(nil), cs.users...)
	cs.mu.Unlock()
	for _, o := range us {
		if o == me {
			continue
		}
		o.mu.Lock()
		pd := o.pend
		found := false
		if pd != nil {
			for _, w := range pd.want {
				if len(w) < hdrLen && bytes.Equal(w, p) {
					found = true
				}
			}
		}
		o.mu.Unlock()
		if found {
			return o
		}
	}
	return nil
}

// take removes p from the expected multiset; closes done when nothing is left.
func (pd *pending) take(p []byte, u *user) bool {
	u.mu.Lock()
	defer u.mu.Unlock()
	for i, w := range pd.want {
		if bytes.Equal(w, p) {
			pd.want = append(pd.want[:i], pd.want[i+1:]...)
			if len(pd.want) == 0 {
				select {
				case <-pd.done:
				default:
					close(pd.done)
				}
			}
			return true
		}
	}
	return false
}

// exSpec is one planned exchange.
type exSpec struct {
	L         int
	Class     int
	RepL      []int // reply lengths (0..2 replies)
	RClass    int
	Delay     time.Duration
	Gap       time.Duration // replies are sent Gap apart (a stream); 0 = all at once after Delay
	LossKey   string        // violation key if this light-load exchange loses its reply (default light-load-reply-lost)
	ArriveKey string        // violation key if this light-load datagram never reaches the backend (default light-load-datagram-lost)
	Note      string        // context appended to a liveness violation of this exchange
}

// prepare registers the request and its planned replies; returns the id and payload.
func (u *user) prepare(sp exSpec) (dgID, []byte, *replyPlan) {
	cs := u.cs
	u.seq++
	id := dgID{Tun: u.tun.Idx, User: u.Idx, Seq: u.seq}
	req := mkPayload('Q', id, sp.L, cs.seed, cs.salt, sp.Class)
	plan := &replyPlan{Delay: sp.Delay, Gap: sp.Gap, SentAt: make([]int64, len(sp.RepL))}
	for j, l := range sp.RepL {
		rid := id
		rid.J = j + 1
		plan.Payloads = append(plan.Payloads, mkPayload('R', rid, l, cs.seed, cs.salt, sp.RClass))
	}
	cs.mu.Lock()
	cs.sent[id] = req
	cs.plans[id] = plan
	cs.mu.Unlock()
	return id, req, plan
}

// integrity reports a safety violation (payload, identity, addressing); liveness verdicts that follow in
// the same case would be consequences and are suppressed.
func (cs *caseState) integrity(key, format string, args ...any) {
	cs.mu.Lock()
	cs.stopped = true
	cs.mu.Unlock()
	cs.c.Violation(key, format, args...)
}

func (cs *caseState) seenCount(id dgID) int {
	cs.mu.Lock()
	defer cs.mu.Unlock()
	return cs.seen[id]
}

// overFrameBefore describes a payload of the tunnel, other than exchange `not`, that exceeds the control frame.
func (cs *caseState) overFrameBefore(tun int, not dgID) string {
	cs.mu.Lock()
	defer cs.mu.Unlock()
	for id, p := range cs.sent {
		if id.Tun != tun || id == not {
			continue
		}
		if overFrame(len(p)) {
			return fmt.Sprintf("datagram %v of %d bytes", id, len(p))
		}
		if pl := cs.plans[id]; pl != nil && cs.seen[id] > 0 {
			for _, r := range pl.Payloads {
				if overFrame(len(r)) {
					return fmt.Sprintf("a reply of %d bytes to %v", len(r), id)
				}
			}
		}
	}
	return ""
}

// overFrameKey: one finding - a payload within the configured udpPacketSize does not fit the control frame; it is
// lost and (request direction) the tunnel stops forwarding for every user.
const overFrameKey = "light-load-loss-payload-over-control-frame-limit"

// overFrame: would this payload, base64-encoded inside a UDPPacket message, exceed the 10240-byte control frame?
func overFrame(l int) bool { return 4*((l+2)/3)+54 > 10240 }

// exchange performs one light-load exchange: send, then wait until the backend has the datagram and the user
// has every planned reply. wait is the bounded-progress watchdog. must=false (inside a re-establishment
// window) only reports whether it completed.
func (u *user) exchange(sp exSpec, wait time.Duration, must bool) bool {
	cs := u.cs
	id, req, plan := u.prepare(sp)
	if sp.L < hdrLen {
		u.tun.tinyMu.Lock()
		u.tun.be.setTiny(&id)
		defer func() {
			u.tun.be.setTiny(nil)
			u.tun.tinyMu.Unlock()
		}()
		run.Count("tiny_requests", 1)
	}
	pd := &pending{id: id, want: append([][]byte(nil), plan.Payloads...), done: make(chan struct{})}
	if len(pd.want) == 0 {
		close(pd.done)
	}
	u.mu.Lock()
	u.pend = pd
	u.mu.Unlock()
	defer func() {
		u.mu.Lock()
		u.pend = nil
		u.mu.Unlock()
	}()
	t0 := h.Now()
	cs.c.Ev("send", "id", id.String(), "len", sp.L, "replies", sp.RepL, "delay_ms", sp.Delay.Milliseconds())
	if _, err := u.conn.WriteToUDP(req, u.tun.Public); err != nil {
		run.Inconclusive("user socket write failed")
		return false
	}
	run.Count("datagrams_sent", 1)
	span := sp.Delay // how long the backend takes to have sent every planned reply
	if n := len(sp.RepL); n > 1 {
		span += time.Duration(n-1) * sp.Gap
	}
	deadline := time.Now().Add(wait + span)
	gotReplies := false
	select {
	case <-pd.done:
		gotReplies = true
	case <-time.After(wait + span):
	}
	arrived := h.Eventually(time.Until(deadline), func() bool { return cs.seenCount(id) > 0 })
	if gotReplies && arrived {
		if d := time.Duration(h.Now() - t0); d > 2*time.Second+span {
			run.Count("slow_exchanges", 1)
		}
		return true
	}
	if !must {
		return false
	}
	cs.mu.Lock()
	already := cs.stopped
	cs.stopped = true
	cs.mu.Unlock()
	if already {
		return false
	}
	u.mu.Lock()
	missing := len(pd.want)
	var ml []int
	for _, w := range pd.want {
		ml = append(ml, len(w))
	}
	u.mu.Unlock()
	cs.c.Ev("lost", "id", id.String(), "arrived_at_backend", arrived, "replies_missing", missing)
	if big := cs.overFrameBefore(u.tun.Idx, id); big != "" && !overFrame(sp.L) {
		// collateral damage: an earlier payload of this tunnel did not fit the control frame
		cs.c.Violation(overFrameKey, "light load: exchange %v (%d bytes, replies %v) of user %d did not complete within %v (request reached the backend: %v) after %s had been sent through the same tunnel (%s)",
			id, sp.L, sp.RepL, u.Idx, wait+span, arrived, big, u.tun.describe())
		return false
	}
	if !arrived {
		key := "light-load-datagram-lost"
		if u.tun.Limit == "server" && (u.tun.Enc || u.tun.Comp) {
			key = "light-load-loss-with-server-limit-and-enc-or-comp"
		}
		if sp.ArriveKey != "" {
			key = sp.ArriveKey
		}
		if overFrame(sp.L) {
			key = overFrameKey
		}
		cs.c.Violation(key, "light load (one datagram outstanding per user): datagram %v of %d bytes sent by user %d to %s (%s) never reached the backend within %v%s",
			id, sp.L, u.Idx, u.tun.Public, u.tun.describe(), wait+span, sp.Note)
		return false
	}
	key := "light-load-reply-lost"
	if u.tun.Limit == "server" && (u.tun.Enc || u.tun.Comp) {
		key = "light-load-loss-with-server-limit-and-enc-or-comp"
	}
	if sp.LossKey != "" {
		key = sp.LossKey
	}
	for _, l := range ml {
		if overFrame(l) {
			key = overFrameKey
		}
	}
	cs.c.Violation(key, "light load: the backend received datagram %v and sent %d replies (lengths %v, after %v) but %d (lengths %v) never reached user %d at %s within %v (%s)%s",
		id, len(plan.Payloads), sp.RepL, sp.Delay, missing, ml, u.Idx, u.conn.LocalAddr(), wait+span, u.tun.describe(), sp.Note)
	return false
}

// blast sends without waiting (stress phase); replies are judged by the read loop.
func (u *user) blast(sp exSpec) {
	_, req, _ := u.prepare(sp)
	if _, err := u.conn.WriteToUDP(req, u.tun.Public); err == nil {
		run.Count("datagrams_sent", 1)
		run.Count("stress_datagrams_sent", 1)
	}
}

func (t *tunnel) describe() string {
	lim := "no bandwidth limit"
	if t.Limit != "" {
		lim = fmt.Sprintf("bandwidthLimit=%s mode=%s", generousLimit, t.Limit)
	}
	if t.Kind == "sudp" {
		return fmt.Sprintf("sudp proxy enc=%v comp=%v %s, visitor enc=%v comp=%v", t.Enc, t.Comp, lim, t.VEnc, t.VComp)
	}
	return fmt.Sprintf("udp proxy enc=%v comp=%v %s", t.Enc, t.Comp, lim)
}

// generousLimit: bandwidth limit of limited tunnels; the judged light-load traffic (at most 16 users x 2 x 9 KiB
// outstanding) is far below it, so the limiter never delays an exchange noticeably.
const generousLimit = "4MB"

// quiesce waits until neither backends nor users have seen a new datagram for `calm`.
func (cs *caseState) quiesce(calm, max time.Duration) {
	deadline := time.Now().Add(max)
	last := cs.arrivals.Load() + cs.deliverys.Load()
	lastChange := time.Now()
	for time.Now().Before(deadline) {
		time.Sleep(20 * time.Millisecond)
		cur := cs.arrivals.Load() + cs.deliverys.Load()
		if cur != last {
			last, lastChange = cur, time.Now()
		} else if time.Since(lastChange) >= calm {
			return
		}
	}
}
