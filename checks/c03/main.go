// C03 — UDP tunnels preserve datagram payloads, boundaries and reply addressing.
// (uses vnode: sacrificial frps / frpc processes for the close-under-traffic schedules)
//
// Real frps and real frpc (udp proxy; sudp proxy + sudp visitor) run in this process. Users are UDP
// sockets of the check (one socket = one user address), backends are UDP sockets of the check.
// Every datagram carries (tunnel, user, seq, length, header checksum) followed by PRNG bytes; what was
// sent is registered before the send, and both ends judge online what they receive.
//
// Monitors (DESIGN.md §5/C03):
//  1. backend side: every payload handed to a backend is byte-for-byte one registered datagram of a
//     user of that tunnel (not corrupted / truncated / extended / merged / split / unknown), at most once.
//  2. user side: every datagram a user socket receives is byte-for-byte a reply the backend sent in
//     answer to a datagram of that same user address, at most as often as the backend sent it, and
//     comes from the public endpoint.
//  3. light load (one outstanding exchange per user): every datagram reaches the backend and every
//     reply reaches the user (bounded-progress watchdog 20 s; first exchange 40 s) — before and after a
//     stress burst, and after the work connection (or the whole session) was cut at a relay: loss is
//     tolerated only inside the window [cut, first completed exchange].
//     3b. replacement cycles (tcpMux off, frpc without TLS behind the relay): with the users silent, only the
//     work connections are cut; re-establishment is over when the relay has seen frps hand a new work
//     connection to every udp proxy (StartWorkConn frame on a connection made after the cut) plus 1 s.
//     From then on every light-load exchange must complete - no datagram may be spent on "warming up"
//     the replaced connection. Three cycles in a row on the same tunnel.
//     3c. backend restart: the backend socket is closed, every user (and one user that never sent before)
//     sends one datagram into the void (loss tolerated for exactly those; frpc's connected local sockets
//     get ICMP port unreachable), the backend comes back on the same port, and 500 ms later every
//     exchange of the SAME user sockets - and of a fresh user as positive control - must complete.
//  4. tunnel closed under traffic (session cut at the relay in the middle of a burst against a child
//     frps; sudp visitor frpc stopped in the middle of a burst): the process must survive / stop
//     without a crash, and the tunnel must carry light-load traffic again afterwards.
//  5. per-user local socket expiry (30 s idle): a reply that the backend sends while its request is
//     less than 30 s old must still arrive; a user coming back after the expiry is served again.
package main

import (
	"encoding/base64"
	"fmt"
	"math/rand"
	"net"
	"os"
	"os/exec"
	"sort"
	"strings"
	"sync"
	"sync/atomic"
	"time"

	clientproxy "github.com/fatedier/frp/client/proxy"
	"github.com/fatedier/frp/pkg/config/v1/validation"
	"github.com/fatedier/frp/pkg/msg"

	"verif/h"
)

const prop = "C03"
const token = "c03-token"

var run *h.Run
var pa *h.PortAlloc

type world struct {
	Size  int
	Mux   bool
	Port  int
	srv   *h.Server
	child *h.Child // private world of a close-under-traffic case: frps in a sacrificial process
}

func (w *world) addr() string { return fmt.Sprintf("127.0.0.1:%d", w.Port) }

var worlds []*world

// fetchWorlds: [tcpMux on (scripted owner), tcpMux off (real frpc behind a refusing relay)], userConnTimeout = fetchTimeoutS
var fetchWorlds []*world

const fetchTimeoutS = 2

// progress watchdog for "frps asks again": a failed fetch costs userConnTimeout + 1 s; 3x that + 10 s and some
const askAgainWait = 25 * time.Second

func serverText(port, size int, mux bool) string {
	return fmt.Sprintf(`
bindAddr = "127.0.0.1"
bindPort = %d
auth.token = "%s"
allowPorts = [{start=13000,end=13999}]
udpPacketSize = %d
transport.tcpMux = %v
`, port, token, size, mux)
}

// sizeAccepted: does the repository's own loader + validator accept this udpPacketSize for frps and frpc?
func sizeAccepted(size int) bool {
	cfg, err := h.LoadServerConfig(prop, serverText(13000, size, true))
	if err != nil {
		return false
	}
	if _, err := validation.ValidateServerConfig(cfg); err != nil {
		return false
	}
	cc, ps, vs, err := h.LoadClientConfig(prop, fmt.Sprintf("serverAddr = \"127.0.0.1\"\nserverPort = 13000\nudpPacketSize = %d\n", size))
	if err != nil {
		return false
	}
	if _, err := validation.ValidateAllClientConfig(cc, ps, vs); err != nil {
		return false
	}
	return true
}

const jumbo = 9216

// largestSize: the largest udpPacketSize <= jumbo that the configuration layer accepts (monotone predicate assumed).
func largestSize() int {
	if sizeAccepted(jumbo) {
		return jumbo
	}
	lo, hi := 1500, jumbo // lo accepted, hi refused
	if !sizeAccepted(lo) {
		return 0
	}
	for hi-lo > 1 {
		mid := (lo + hi) / 2
		if sizeAccepted(mid) {
			lo = mid
		} else {
			hi = mid
		}
	}
	return lo
}

func main() {
	run = h.NewRun(prop, "exploration")
	run.Rule = "a case = (world: udpPacketSize x tcpMux; 1-2 tunnels of kind udp or sudp with PRNG encryption/compression per leg; 1-16 user sockets per tunnel; PRNG payload lengths 0..udpPacketSize biased to boundaries, 4 payload classes, 0-2 replies of independent length, reply delays; phases light / stress burst / light, or light / relay cut / recovery / light, or idle-expiry schedules); distinct = distinct (kind, world, legs' settings, users, hash of the generated length lists)"
	run.Assumptions = []string{
		"users, backends, frps and frpc share one host: loopback UDP does not lose datagrams while at most one datagram per user socket is outstanding (socket buffers 208 KiB, at most 16 users x 9 KiB)",
		"light-load liveness is decided by a watchdog of 20 s per exchange (40 s for the first exchange of a tunnel, 60 s for recovery after a cut); no timer of that order exists on the datagram path (work-connection acquisition: 500 ms start delay, userConnTimeout 10 s)",
		"after a cut, the re-establishment window ends with the first completed exchange of any user of the tunnel plus 300 ms",
		"payload sizes are limited to the configured udpPacketSize; the largest configured size is the largest value <= 9216 that frp's own configuration validation accepts",
	}
	clientproxy.VerifSetTimings(200*time.Millisecond, 0, 2*time.Second)
	pa = h.Ports(prop)

	sizes := []int{1500, 4096, 7168}
	maxSize := largestSize()
	run.Set("largest_accepted_udpPacketSize_le_9216", maxSize)
	if maxSize > 7168 {
		sizes = append(sizes, maxSize)
	}
	for _, sz := range sizes {
		for _, mux := range []bool{true, false} {
			port := pa.Get()
			srv, err := h.StartServerText(prop, serverText(port, sz, mux))
			if err != nil {
				fmt.Fprintln(os.Stderr, "server:", err)
				os.Exit(h.ExitHarnessError)
			}
			worlds = append(worlds, &world{Size: sz, Mux: mux, Port: port, srv: srv})
		}
	}

	// two servers with a short userConnTimeout for the failed-work-connection-fetch schedules
	for _, mux := range []bool{true, false} {
		port := pa.Get()
		srv, err := h.StartServerText(prop, serverText(port, 4096, mux)+fmt.Sprintf("userConnTimeout = %d\n", fetchTimeoutS))
		if err != nil {
			fmt.Fprintln(os.Stderr, "server:", err)
			os.Exit(h.ExitHarnessError)
		}
		fetchWorlds = append(fetchWorlds, &world{Size: 4096, Mux: mux, Port: port, srv: srv})
	}

	n := run.N(110, 1300)
	run.Parallel(n, 10, oneCase)
	for _, w := range fetchWorlds {
		w.srv.Close()
	}
	for _, w := range worlds {
		w.srv.Close()
	}
	run.Finish(40)
}

// ---------------------------------------------------------------------------------------------
// case plumbing

type env struct {
	c       *h.Case
	cs      *caseState
	w       *world
	rng     *rand.Rand
	pfx     string
	clients []*h.Client
	relays  map[string]*h.TCPRelay // "owner" | "visitor"
	users   []*user
	closers []func()

	childVisitor bool     // run the sudp visitor frpc in a sacrificial process
	visitorText  string   // its configuration (to restart it)
	visitor      *h.Child // current visitor process
	stressBig    bool     // stress bursts use near-full-size datagrams
	plainWire    bool     // frpc without TLS: the relay sees the message types on every connection
}

func (e *env) close() {
	for _, u := range e.users {
		u.Close()
	}
	// let frps / the visitor drain what is still queued on their UDP sockets before the tunnels are closed
	time.Sleep(50 * time.Millisecond)
	for _, cl := range e.clients {
		cl.Close()
	}
	if e.visitor != nil {
		e.visitor.Kill()
	}
	for _, r := range e.relays {
		r.Close()
	}
	for _, t := range e.cs.tunnels {
		if t.be != nil {
			t.be.Close()
		}
	}
	for _, f := range e.closers {
		f()
	}
	e.cs.releasePorts()
}

func (e *env) serverPort(role string, relay bool) (int, error) {
	if !relay {
		return e.w.Port, nil
	}
	var r *h.TCPRelay
	var err error
	for try := 0; try < 5; try++ {
		port := e.cs.getPort()
		if r, err = h.StartTCPRelay(port, e.w.addr(), 64); err == nil {
			break
		}
		out, _ := exec.Command("ss", "-tanp", "sport", "=", fmt.Sprint(port)).CombinedOutput()
		fmt.Fprintf(os.Stderr, "case %d: relay listen on %d failed: %v\n%s\n", e.c.Idx, port, err, out)
		run.Count("relay_port_retries", 1)
	}
	if err != nil {
		return 0, err
	}
	e.relays[role] = r
	return r.Port, nil
}

func (e *env) clientHead(port int) string {
	return fmt.Sprintf(`
serverAddr = "127.0.0.1"
serverPort = %d
auth.token = "%s"
loginFailExit = false
udpPacketSize = %d
transport.tcpMux = %v
transport.poolCount = %d
%s`, port, token, e.w.Size, e.w.Mux, e.rng.Intn(2), map[bool]string{true: "transport.tls.enable = false\n"}[e.plainWire])
}

type tunSpec struct {
	Kind                   string
	Enc, Comp, VEnc, VComp bool
	Limit                  string // "" | server | client
}

// randSpec draws the per-leg settings of a tunnel: encryption, compression (proxy and, for sudp, visitor leg) and
// the bandwidth limit dimension {none, generous server-mode, generous client-mode}.
func randSpec(rng *rand.Rand, kind string) tunSpec {
	return tunSpec{Kind: kind, Enc: rng.Intn(2) == 0, Comp: rng.Intn(2) == 0, VEnc: rng.Intn(2) == 0, VComp: rng.Intn(2) == 0,
		Limit: []string{"", "", "server", "client"}[rng.Intn(4)]}
}

func (sp tunSpec) limitLines() string {
	if sp.Limit == "" {
		return ""
	}
	return fmt.Sprintf("transport.bandwidthLimit = %q\ntransport.bandwidthLimitMode = %q\n", generousLimit, sp.Limit)
}

// build starts backends, frpc processes and (for sudp) visitors for the given tunnels.
func (e *env) build(specs []tunSpec, relay bool) error {
	var udpSpecs, sudpSpecs []*tunnel
	for i, sp := range specs {
		t := &tunnel{Idx: i, Kind: sp.Kind, Name: fmt.Sprintf("%s%s%d", e.pfx, sp.Kind, i), Enc: sp.Enc, Comp: sp.Comp, VEnc: sp.VEnc, VComp: sp.VComp, Limit: sp.Limit}
		be, err := startBackend(e.cs, i)
		if err != nil {
			return err
		}
		t.be = be
		port := e.cs.getPort()
		t.Public = &net.UDPAddr{IP: net.IPv4(127, 0, 0, 1), Port: port}
		e.cs.tunnels = append(e.cs.tunnels, t)
		if sp.Kind == "udp" {
			udpSpecs = append(udpSpecs, t)
		} else {
			sudpSpecs = append(sudpSpecs, t)
		}
	}
	sp, err := e.serverPort("owner", relay)
	if err != nil {
		return err
	}
	var sb strings.Builder
	sb.WriteString(e.clientHead(sp))
	var names []string
	for _, t := range e.cs.tunnels {
		names = append(names, t.Name)
		if t.Kind == "udp" {
			fmt.Fprintf(&sb, "[[proxies]]\nname = %q\ntype = \"udp\"\nlocalIP = \"127.0.0.1\"\nlocalPort = %d\nremotePort = %d\ntransport.useEncryption = %v\ntransport.useCompression = %v\n",
				t.Name, t.be.Port, t.Public.Port, t.Enc, t.Comp)
		} else {
			fmt.Fprintf(&sb, "[[proxies]]\nname = %q\ntype = \"sudp\"\nsecretKey = \"sk-%s\"\nlocalIP = \"127.0.0.1\"\nlocalPort = %d\ntransport.useEncryption = %v\ntransport.useCompression = %v\n",
				t.Name, t.Name, t.be.Port, t.Enc, t.Comp)
		}
		sb.WriteString(specs[t.Idx].limitLines())
	}
	e.c.Data["owner_config"] = sb.String()
	owner, err := h.StartClientText(prop, sb.String())
	if err != nil {
		return err
	}
	e.clients = append(e.clients, owner)
	if err := owner.WaitRunning(20*time.Second, names...); err != nil {
		return err
	}
	if len(sudpSpecs) > 0 {
		vp, err := e.serverPort("visitor", relay)
		if err != nil {
			return err
		}
		var vb strings.Builder
		vb.WriteString(e.clientHead(vp))
		for _, t := range sudpSpecs {
			fmt.Fprintf(&vb, "[[visitors]]\nname = %q\ntype = \"sudp\"\nserverName = %q\nsecretKey = \"sk-%s\"\nbindAddr = \"127.0.0.1\"\nbindPort = %d\ntransport.useEncryption = %v\ntransport.useCompression = %v\n",
				t.Name+".v", t.Name, t.Name, t.Public.Port, t.VEnc, t.VComp)
		}
		e.c.Data["visitor_config"] = vb.String()
		e.visitorText = vb.String()
		if e.childVisitor {
			return e.startChildVisitor()
		}
		vis, err := h.StartClientText(prop, vb.String())
		if err != nil {
			return err
		}
		e.clients = append(e.clients, vis)
		ok := h.Eventually(20*time.Second, func() bool {
			own := h.OwnUDPPorts()
			for _, t := range sudpSpecs {
				if !own[t.Public.Port] {
					return false
				}
			}
			return true
		})
		if !ok {
			return fmt.Errorf("sudp visitor did not bind its port")
		}
	}
	return nil
}

// startChildVisitor runs the visitor frpc as a child process and waits until its UDP ports are bound.
func (e *env) startChildVisitor() error {
	ch, err := h.StartChild(prop, "frpc", e.visitorText)
	if err != nil {
		return err
	}
	e.visitor = ch
	ok := h.Eventually(20*time.Second, func() bool {
		for _, t := range e.cs.tunnels {
			if t.Kind != "sudp" {
				continue
			}
			l, err := net.ListenUDP("udp", t.Public)
			if err == nil {
				l.Close()
				return false
			}
		}
		return true
	})
	if !ok {
		return fmt.Errorf("child sudp visitor did not bind its port")
	}
	return nil
}

func (e *env) addUsers(perTunnel []int) error {
	for ti, n := range perTunnel {
		for i := 0; i < n; i++ {
			u, err := startUser(e.cs, e.cs.tunnels[ti], len(e.users))
			if err != nil {
				return err
			}
			e.users = append(e.users, u)
		}
	}
	return nil
}

// ---------------------------------------------------------------------------------------------
// generators

var boundaries = []int{12, 13, 255, 256, 1023, 1024, 1025, 1471, 1472, 1473, 1499, 1500, 2047, 2048, 2049, 4095, 4096, 5119, 5120, 5121, 7167, 7168}

func pickLen(rng *rand.Rand, size int, allowTiny bool) int {
	for {
		var l int
		switch rng.Intn(10) {
		case 0:
			l = rng.Intn(hdrLen)
		case 1:
			l = boundaries[rng.Intn(len(boundaries))]
		case 2, 3:
			l = size - rng.Intn(size/8+1)
		case 4:
			l = size - rng.Intn(3)
		default:
			l = rng.Intn(size + 1)
		}
		if l > size || l < 0 {
			continue
		}
		if l < hdrLen && !allowTiny {
			continue
		}
		return l
	}
}

func pickSpec(rng *rand.Rand, size int, light bool) exSpec {
	sp := exSpec{L: pickLen(rng, size, light), Class: rng.Intn(4), RClass: rng.Intn(4)}
	k := 1
	switch r := rng.Intn(20); {
	case r == 0:
		k = 0
	case r <= 3:
		k = 2
	}
	for j := 0; j < k; j++ {
		sp.RepL = append(sp.RepL, pickLen(rng, size, light))
	}
	if light && rng.Intn(4) == 0 {
		sp.Delay = time.Duration(1+rng.Intn(40)) * time.Millisecond
	}
	return sp
}

// edgeSpecs: the exchanges every tunnel sees once (empty and full-size payloads in both directions).
func edgeSpecs(size int) []exSpec {
	return []exSpec{
		{L: size, RepL: []int{size}},
		{L: 0, RepL: []int{size}, Class: 0},
		{L: size, RepL: []int{0}, RClass: 0},
		{L: 0, RepL: []int{0}},
		{L: 1, RepL: []int{1}},
		{L: hdrLen - 1, RepL: []int{hdrLen - 1, hdrLen}},
		{L: size - 1, RepL: []int{size - 1, size}, Class: 3, RClass: 3},
	}
}

type lenSig struct {
	mu sync.Mutex
	l  []int
}

func (s *lenSig) add(sp exSpec) {
	s.mu.Lock()
	s.l = append(s.l, sp.L)
	s.l = append(s.l, sp.RepL...)
	s.mu.Unlock()
}
func (s *lenSig) sig() string {
	s.mu.Lock()
	defer s.mu.Unlock()
	l := append([]int(nil), s.l...)
	sort.Ints(l)
	return h.TraceSig(strings.Fields(fmt.Sprint(l)))
}

// ---------------------------------------------------------------------------------------------
// phases

const exWait = 20 * time.Second

// lightRound: every user performs its list of exchanges, one outstanding at a time, all users concurrently.
func (e *env) lightRound(plan map[*user][]exSpec, wait time.Duration) bool {
	var wg sync.WaitGroup
	var failed atomic.Bool
	for u, l := range plan {
		wg.Add(1)
		go func(u *user, l []exSpec) {
			defer wg.Done()
			for _, sp := range l {
				if failed.Load() {
					return
				}
				if !u.exchange(sp, wait, true) {
					failed.Store(true)
					return
				}
				run.Count("light_exchanges", 1)
			}
		}(u, l)
	}
	wg.Wait()
	return !failed.Load()
}

func (e *env) genLight(nEx int, sig *lenSig, withEdges bool) map[*user][]exSpec {
	plan := map[*user][]exSpec{}
	for _, u := range e.users {
		for i := 0; i < nEx; i++ {
			sp := pickSpec(e.rng, e.w.Size, true)
			plan[u] = append(plan[u], sp)
			sig.add(sp)
		}
	}
	if withEdges {
		// spread the edge exchanges of each tunnel over its users
		for _, t := range e.cs.tunnels {
			var us []*user
			for _, u := range e.users {
				if u.tun == t {
					us = append(us, u)
				}
			}
			for i, sp := range edgeSpecs(e.w.Size) {
				u := us[i%len(us)]
				plan[u] = append(plan[u], sp)
			}
		}
	}
	return plan
}

// first: the first exchange of every tunnel (work connection / visitor connection come up), longer watchdog.
func (e *env) first() bool {
	plan := map[*user][]exSpec{}
	seen := map[*tunnel]bool{}
	for _, u := range e.users {
		if !seen[u.tun] {
			seen[u.tun] = true
			plan[u] = []exSpec{{L: 64, RepL: []int{64}}}
		}
	}
	return e.lightRound(plan, 2*exWait)
}

func (e *env) stress(perUser int, sig *lenSig, mid func()) {
	var wg sync.WaitGroup
	specs := map[*user][]exSpec{}
	for _, u := range e.users {
		for i := 0; i < perUser; i++ {
			sp := exSpec{Class: e.rng.Intn(4), RClass: e.rng.Intn(4)}
			if e.stressBig {
				sp.L = e.w.Size - e.rng.Intn(e.w.Size/4)
			} else if e.rng.Intn(10) < 7 {
				sp.L = hdrLen + e.rng.Intn(300)
			} else {
				sp.L = pickLen(e.rng, e.w.Size, false)
			}
			k := 1
			if e.rng.Intn(8) == 0 {
				k = 2
			}
			for j := 0; j < k; j++ {
				if e.rng.Intn(10) < 7 {
					sp.RepL = append(sp.RepL, hdrLen+e.rng.Intn(300))
				} else {
					sp.RepL = append(sp.RepL, pickLen(e.rng, e.w.Size, false))
				}
			}
			specs[u] = append(specs[u], sp)
			if i < 8 {
				sig.add(sp)
			}
		}
	}
	pauseEvery := 16 + e.rng.Intn(64)
	for u, l := range specs {
		wg.Add(1)
		go func(u *user, l []exSpec) {
			defer wg.Done()
			for i, sp := range l {
				u.blast(sp)
				if i%pauseEvery == pauseEvery-1 {
					time.Sleep(time.Millisecond)
				}
			}
		}(u, l)
	}
	if mid != nil {
		mid()
	}
	wg.Wait()
	e.cs.quiesce(400*time.Millisecond, 20*time.Second)
}

func (e *env) tally(phase string) {
	cs := e.cs
	cs.mu.Lock()
	var sent, arrived, rs, rg int64
	for id := range cs.sent {
		sent++
		if cs.seen[id] > 0 {
			arrived++
		}
	}
	for _, n := range cs.repSent {
		rs += int64(n)
	}
	for _, n := range cs.repGot {
		rg += int64(n)
	}
	cs.mu.Unlock()
	e.c.Ev("tally", "phase", phase, "sent", sent, "arrived", arrived, "replies_sent", rs, "replies_received", rg)
	e.c.Data["tally_"+phase] = map[string]int64{"sent": sent, "arrived": arrived, "replies_sent": rs, "replies_received": rg}
}

// cut closes relayed connections: everything, or everything except each relay's first (control) connection.
func (e *env) cut(role string, workOnly bool) int {
	r := e.relays[role]
	if r == nil {
		return 0
	}
	n := 0
	for i, p := range r.Pairs() {
		if workOnly && i == 0 {
			continue
		}
		p.Close()
		n++
	}
	return n
}

// recoverWindow: users probe (one outstanding each, 1 s per probe) until the first exchange completes.
func (e *env) recoverWindow(max time.Duration) bool {
	var okFlag atomic.Bool
	deadline := time.Now().Add(max)
	byTun := map[*tunnel]*atomic.Bool{}
	for _, t := range e.cs.tunnels {
		byTun[t] = &atomic.Bool{}
	}
	var wg sync.WaitGroup
	for _, u := range e.users {
		wg.Add(1)
		go func(u *user) {
			defer wg.Done()
			for !byTun[u.tun].Load() && time.Now().Before(deadline) {
				if u.exchange(exSpec{L: 40 + u.Idx, RepL: []int{33}}, time.Second, false) {
					byTun[u.tun].Store(true)
				} else {
					run.Count("window_probes_lost", 1)
				}
			}
		}(u)
	}
	wg.Wait()
	okFlag.Store(true)
	for _, f := range byTun {
		if !f.Load() {
			okFlag.Store(false)
		}
	}
	return okFlag.Load()
}

// ---------------------------------------------------------------------------------------------
// cases

func oneCase(c *h.Case) {
	rng := c.Rng
	nIdle, nClose, nRepl, nBack, nFetch := 4, 4, 6, 6, 7
	if run.Thorough() {
		nIdle, nClose, nRepl, nBack, nFetch = 16, 24, 60, 60, 50
	}
	// the long schedules come first so that they overlap with everything else: idle expiry and reply streams
	if c.Idx < nIdle {
		if c.Idx%4 >= 2 {
			streamCase(c)
		} else {
			idleCase(c)
		}
		return
	}
	if c.Idx < nIdle+nClose {
		closeCase(c, c.Idx-nIdle)
		return
	}
	if c.Idx < nIdle+nClose+nRepl {
		replaceCase(c)
		return
	}
	if c.Idx < nIdle+nClose+nRepl+nBack {
		backendCase(c)
		return
	}
	if c.Idx < nIdle+nClose+nRepl+nBack+nFetch {
		if c.Idx%2 == 0 {
			fetchCase(c)
		} else {
			refuseCase(c)
		}
		return
	}
	r := rng.Intn(100)
	switch {
	case r < 50:
		trafficCase(c, "udp", false)
	case r < 72:
		trafficCase(c, "sudp", false)
	case r < 88:
		trafficCase(c, "udp", true)
	default:
		trafficCase(c, "sudp", true)
	}
}

// pickWorld: the worlds with the largest accepted udpPacketSize (above 7168) get one case in ten; schedules
// that are about something else than sizes (idle expiry, close under traffic) stay at 1500..7168.
func pickWorld(rng *rand.Rand, withLargest bool) *world {
	var std, big []*world
	for _, w := range worlds {
		if w.Size > 7168 {
			big = append(big, w)
		} else {
			std = append(std, w)
		}
	}
	if withLargest && len(big) > 0 && rng.Intn(10) == 0 {
		return big[rng.Intn(len(big))]
	}
	return std[rng.Intn(len(std))]
}

func newEnv(c *h.Case, w *world) *env {
	return &env{c: c, cs: newCaseState(c), w: w, rng: c.Rng, pfx: fmt.Sprintf("c%d.", c.Idx), relays: map[string]*h.TCPRelay{}}
}

func trafficCase(c *h.Case, kind string, withCut bool) {
	rng := c.Rng
	w := pickWorld(rng, true)
	e := newEnv(c, w)
	defer e.close()
	nTun := 1 + rng.Intn(2)
	var specs []tunSpec
	for i := 0; i < nTun; i++ {
		k := kind
		if i == 1 && rng.Intn(3) == 0 { // a second tunnel of the other kind on the same frpc
			k = map[string]string{"udp": "sudp", "sudp": "udp"}[kind]
		}
		specs = append(specs, randSpec(rng, k))
	}
	var perTun []int
	totalUsers := 0
	for range specs {
		n := []int{1, 2, 3, 5, 8, 16}[rng.Intn(6)]
		if nTun == 2 && n > 8 {
			n = 8
		}
		perTun = append(perTun, n)
		totalUsers += n
	}
	cutRole, cutMid := "owner", false
	if withCut {
		if kind == "sudp" && rng.Intn(2) == 0 {
			cutRole = "visitor"
		}
		// cutting the whole session in the middle of a burst closes the server-side proxy under traffic;
		// that schedule runs against a sacrificial frps (closeCase)
		cutMid = !w.Mux && rng.Intn(3) != 0
	}
	c.Data["kind"], c.Data["cut"], c.Data["cut_role"], c.Data["cut_mid_burst"] = kind, withCut, cutRole, cutMid
	c.Data["world"] = map[string]any{"udpPacketSize": w.Size, "tcpMux": w.Mux}
	c.Data["tunnels"], c.Data["users_per_tunnel"] = specs, perTun

	if err := e.build(specs, withCut); err != nil {
		c.Ev("setup-failed", "err", err.Error())
		run.Inconclusive("setup: " + trimErr(err))
		return
	}
	if err := e.addUsers(perTun); err != nil {
		run.Inconclusive("setup: user sockets")
		return
	}
	sig := &lenSig{}
	finish := func(phase string) {
		e.tally(phase)
		srcs, shared := 0, 0
		for _, t := range e.cs.tunnels {
			a, b := t.be.sources()
			srcs, shared = srcs+a, shared+b
		}
		c.Data["backend_sources"], c.Data["backend_sources_shared_by_users"] = srcs, shared
	}
	if !e.first() {
		finish("first")
		return
	}
	if !e.lightRound(e.genLight(2+rng.Intn(3), sig, true), exWait) {
		finish("light-a")
		return
	}
	e.tally("light-a")

	if !withCut {
		per := 40 + rng.Intn(200)
		if totalUsers*per > 2400 {
			per = 2400 / totalUsers
		}
		e.stress(per, sig, nil)
		e.tally("stress")
		run.Count("stress_bursts", 1)
	} else {
		workOnly := !w.Mux
		doCut := func() {
			n := e.cut(cutRole, workOnly)
			c.Ev("cut", "role", cutRole, "work_only", workOnly, "connections", n)
			run.Count("cuts", 1)
			if workOnly {
				run.Count("cuts_work_connection_only", 1)
			}
		}
		if cutMid {
			per := 30 + rng.Intn(100)
			if totalUsers*per > 1200 {
				per = 1200 / totalUsers
			}
			e.stress(per, sig, func() {
				time.Sleep(time.Duration(rng.Intn(20)) * time.Millisecond)
				doCut()
			})
			e.tally("stress-with-cut")
		} else {
			doCut()
		}
		if !e.recoverWindow(60 * time.Second) {
			finish("window")
			cs := e.cs
			cs.mu.Lock()
			stopped := cs.stopped
			cs.mu.Unlock()
			if stopped {
				return
			}
			if workOnly {
				c.Violation("no-delivery-after-work-connection-replacement", "after the relay cut the %s side's work connections (control connection untouched) no exchange of any user completed within 60 s (%s)", cutRole, e.cs.tunnels[0].describe())
			} else {
				run.Inconclusive("no recovery within 60 s after cutting the whole session (C14 territory)")
			}
			return
		}
		time.Sleep(300 * time.Millisecond)
		e.cs.quiesce(300*time.Millisecond, 10*time.Second)
		e.tally("window")
	}
	if !e.lightRound(e.genLight(2+rng.Intn(3), sig, withCut), exWait) {
		finish("light-b")
		return
	}
	finish("light-b")
	ts := make([]string, 0, len(specs))
	for _, s := range specs {
		ts = append(ts, fmt.Sprintf("%s/%v%v%v%v/%s", s.Kind, s.Enc, s.Comp, s.VEnc && s.Kind == "sudp", s.VComp && s.Kind == "sudp", s.Limit))
	}
	run.Distinct(fmt.Sprintf("traffic|%v|%s|%v|%d|%v|%v|%v|%s", withCut, cutRole, cutMid, w.Size, w.Mux, ts, perTun, sig.sig()))
	run.Count("cases_"+kind, 1)
	run.Count("tunnels", int64(len(specs)))
	run.Count("user_sockets", int64(totalUsers))
	if c.Idx%37 == 5 {
		run.Sample(map[string]any{"case": c.Idx, "kind": kind, "cut": withCut, "world": c.Data["world"], "tunnels": specs, "users_per_tunnel": perTun, "tally": c.Data["tally_light-b"]})
	}
}

func trimErr(err error) string {
	s := err.Error()
	if len(s) > 60 {
		s = s[:60]
	}
	return s
}

// idleCase: schedules around the 30 s expiry of the client's per-user local socket.
func idleCase(c *h.Case) {
	rng := c.Rng
	variants := []string{"reply-straddles-expiry", "return-after-expiry"}
	variant := variants[c.Idx%2]
	kind := "udp"
	if (c.Idx/4)%2 == 1 {
		kind = "sudp"
	}
	w := pickWorld(rng, false)
	e := newEnv(c, w)
	defer e.close()
	spec := randSpec(rng, kind)
	c.Data["kind"], c.Data["variant"], c.Data["tunnels"] = "idle-"+kind, variant, []tunSpec{spec}
	c.Data["world"] = map[string]any{"udpPacketSize": w.Size, "tcpMux": w.Mux}
	if err := e.build([]tunSpec{spec}, false); err != nil {
		run.Inconclusive("setup: " + trimErr(err))
		return
	}
	if err := e.addUsers([]int{2}); err != nil {
		run.Inconclusive("setup: user sockets")
		return
	}
	if !e.first() {
		return
	}
	idle, chatty := e.users[0], e.users[1]
	// the chatty user keeps its socket alive and must never be disturbed by the other user's expiry
	stop := make(chan struct{})
	var wg sync.WaitGroup
	wg.Add(1)
	go func() {
		defer wg.Done()
		for {
			if !chatty.exchange(exSpec{L: 100, RepL: []int{100}}, exWait, true) {
				return
			}
			run.Count("light_exchanges", 1)
			select {
			case <-stop:
				return
			case <-time.After(3 * time.Second):
			}
		}
	}()
	defer func() { close(stop); wg.Wait() }()

	if !idle.exchange(exSpec{L: 200, RepL: []int{200}}, exWait, true) {
		return
	}
	tReply := time.Now() // the client armed its 30 s read deadline just before this reply reached the user
	switch variant {
	case "reply-straddles-expiry":
		// request 29.4 s after the previous reply; the backend answers 1.6 s later, i.e. ~31 s after the
		// local socket last saw a reply but only 1.6 s after it carried a request
		off := 29400 - rng.Intn(300)
		time.Sleep(time.Until(tReply.Add(time.Duration(off) * time.Millisecond)))
		c.Data["offset_ms"] = off
		if !idle.exchange(exSpec{L: 300, RepL: []int{300}, Delay: 1600 * time.Millisecond, LossKey: "reply-lost-local-socket-expired-while-request-pending"}, exWait, true) {
			return
		}
	case "return-after-expiry":
		off := 30500 + rng.Intn(1500)
		time.Sleep(time.Until(tReply.Add(time.Duration(off) * time.Millisecond)))
		c.Data["offset_ms"] = off
		if !idle.exchange(exSpec{L: 300, RepL: []int{300, 20}}, exWait, true) {
			return
		}
	}
	if !idle.exchange(exSpec{L: 50, RepL: []int{w.Size}}, exWait, true) {
		return
	}
	run.Count("light_exchanges", 3)
	run.Count("idle_expiry_schedules", 1)
	e.tally("idle")
	run.Distinct(fmt.Sprintf("idle|%s|%s|%d|%v|%v|%v", variant, kind, w.Size, w.Mux, spec, c.Data["offset_ms"]))
	if c.Idx < 2 {
		run.Sample(map[string]any{"case": c.Idx, "kind": "idle-" + kind, "variant": variant, "world": c.Data["world"], "offset_ms": c.Data["offset_ms"]})
	}
}

// closeCase: the owner of the public UDP socket closes it while datagrams keep arriving. The process that
// owns the socket is a child (vnode), so a crash is observed instead of ending the monitors.
func closeCase(c *h.Case, k int) {
	rng := c.Rng
	variant := []string{"session-cut-in-burst", "visitor-stopped-in-burst"}[k%2]
	rounds := 4
	if run.Thorough() {
		rounds = 8
	}
	c.Data["kind"], c.Data["variant"], c.Data["rounds"] = "close", variant, rounds
	sizes := []int{1500, 4096, 7168}
	sig := &lenSig{}
	crashed := func(ch *h.Child, who string) bool {
		line, frame, ok := ch.Crash()
		if !ok {
			return false
		}
		c.Ev("crash", "process", who, "line", line, "frame", frame)
		c.Violation("panic:"+frame, "%s crashed when its udp tunnel was closed while datagrams were arriving (%s): %s", who, variant, line)
		return true
	}
	switch variant {
	case "session-cut-in-burst":
		w := &world{Size: sizes[rng.Intn(len(sizes))], Mux: rng.Intn(2) == 0}
		e := newEnv(c, w)
		defer e.close()
		w.Port = e.cs.getPort()
		ch, err := h.StartChild(prop, "frps", serverText(w.Port, w.Size, w.Mux))
		if err != nil {
			if ch != nil {
				ch.Kill()
			}
			run.Inconclusive("setup: child frps")
			return
		}
		e.closers = append(e.closers, ch.Kill) // after the in-process frpc has been closed
		w.child = ch
		c.Data["world"] = map[string]any{"udpPacketSize": w.Size, "tcpMux": w.Mux, "frps": "child process"}
		e.stressBig = true
		specs := []tunSpec{randSpec(rng, "udp")}
		if rng.Intn(2) == 0 {
			specs = append(specs, randSpec(rng, "udp"))
		}
		c.Data["tunnels"] = specs
		if err := e.build(specs, true); err != nil {
			run.Inconclusive("setup: " + trimErr(err))
			return
		}
		per := make([]int, len(specs))
		for i := range per {
			per[i] = 2 + rng.Intn(4)
		}
		if err := e.addUsers(per); err != nil || !e.first() {
			return
		}
		for r := 0; r < rounds; r++ {
			e.stress(120, sig, func() {
				time.Sleep(time.Duration(2+rng.Intn(25)) * time.Millisecond)
				n := e.cut("owner", false)
				c.Ev("cut", "round", r, "connections", n)
			})
			run.Count("cuts", 1)
			run.Count("closes_under_traffic", 1)
			if ch.Exited() {
				if !crashed(ch, "frps") {
					run.Inconclusive("child frps exited without a crash message")
				}
				return
			}
			if !e.recoverWindow(60 * time.Second) {
				if ch.Exited() && crashed(ch, "frps") {
					return
				}
				run.Inconclusive("no recovery within 60 s after cutting the whole session (C14 territory)")
				return
			}
			time.Sleep(300 * time.Millisecond)
			e.cs.quiesce(300*time.Millisecond, 10*time.Second)
			if !e.lightRound(e.genLight(1, sig, r == 0), exWait) {
				if ch.Exited() {
					crashed(ch, "frps")
				}
				return
			}
		}
		e.tally("close")
		run.Distinct(fmt.Sprintf("close|%s|%d|%v|%v|%v|%s", variant, w.Size, w.Mux, specs, per, sig.sig()))
	case "visitor-stopped-in-burst":
		w := pickWorld(rng, false)
		c.Data["world"] = map[string]any{"udpPacketSize": w.Size, "tcpMux": w.Mux, "visitor": "child process"}
		e := newEnv(c, w)
		defer e.close()
		e.stressBig, e.childVisitor = true, true
		specs := []tunSpec{randSpec(rng, "sudp")}
		c.Data["tunnels"] = specs
		if err := e.build(specs, false); err != nil {
			run.Inconclusive("setup: " + trimErr(err))
			return
		}
		nu := 2 + rng.Intn(4)
		if err := e.addUsers([]int{nu}); err != nil || !e.first() {
			return
		}
		for r := 0; r < rounds; r++ {
			vis := e.visitor
			e.stress(120, sig, func() {
				time.Sleep(time.Duration(2+rng.Intn(25)) * time.Millisecond)
				vis.Term(10 * time.Second)
			})
			run.Count("closes_under_traffic", 1)
			if crashed(vis, "frpc (sudp visitor)") {
				return
			}
			if err := e.startChildVisitor(); err != nil {
				run.Inconclusive("setup: " + trimErr(err))
				return
			}
			if !e.first() || !e.lightRound(e.genLight(1, sig, r == 0), exWait) {
				return
			}
		}
		e.tally("close")
		run.Distinct(fmt.Sprintf("close|%s|%d|%v|%v|%d|%s", variant, w.Size, w.Mux, specs, nu, sig.sig()))
	}
	run.Count("cases_close", 1)
	if k < 2 {
		run.Sample(map[string]any{"case": c.Idx, "kind": "close", "variant": variant, "world": c.Data["world"], "rounds": rounds})
	}
}

// replaceCase: the work connection of a udp proxy is replaced while nobody sends; when the relay has seen the
// replacement being handed to the proxy, the very first datagrams afterwards must arrive.
func replaceCase(c *h.Case) {
	rng := c.Rng
	var cand []*world
	for _, w := range worlds {
		if !w.Mux && w.Size <= 7168 {
			cand = append(cand, w)
		}
	}
	w := cand[rng.Intn(len(cand))]
	e := newEnv(c, w)
	defer e.close()
	e.plainWire = true
	specs := []tunSpec{randSpec(rng, "udp")}
	if rng.Intn(3) == 0 {
		specs = append(specs, randSpec(rng, "udp"))
	}
	per := make([]int, len(specs))
	for i := range per {
		per[i] = 1 + rng.Intn(4)
	}
	cycles := 3
	c.Data["kind"], c.Data["cycles"], c.Data["tunnels"], c.Data["users_per_tunnel"] = "replace", cycles, specs, per
	c.Data["world"] = map[string]any{"udpPacketSize": w.Size, "tcpMux": w.Mux}
	if err := e.build(specs, true); err != nil {
		run.Inconclusive("setup: " + trimErr(err))
		return
	}
	if err := e.addUsers(per); err != nil || !e.first() {
		return
	}
	sig := &lenSig{}
	if !e.lightRound(e.genLight(1, sig, false), exWait) {
		return
	}
	relay := e.relays["owner"]
	for cyc := 1; cyc <= cycles; cyc++ {
		e.cs.quiesce(200*time.Millisecond, 5*time.Second)
		before := len(relay.Pairs())
		n := e.cut("owner", true)
		tCut := h.Now()
		c.Ev("cut", "cycle", cyc, "connections_closed", n, "relayed_connections_so_far", before)
		run.Count("cuts", 1)
		run.Count("cuts_work_connection_only", 1)
		// re-establishment is over when frps has sent StartWorkConn on as many connections made after the cut
		// as there are udp proxies (nobody sends datagrams meanwhile: frps replaces the connection by itself)
		handed := 0
		ok := h.Eventually(45*time.Second, func() bool {
			handed = 0
			ps := relay.Pairs()
			for _, p := range ps[before:] {
				if _, down := p.Captured(); len(down) > 0 && down[0] == 's' {
					handed++
				}
			}
			return handed >= len(specs)
		})
		if !ok {
			c.Ev("no-replacement", "cycle", cyc, "handed", handed)
			run.Inconclusive("replacement work connection not observed at the relay within 45 s")
			return
		}
		c.Ev("replaced", "cycle", cyc, "after_ms", (h.Now()-tCut)/1e6, "new_connections", len(relay.Pairs())-before, "start_work_conn_seen_on", handed)
		time.Sleep(time.Second)
		note := fmt.Sprintf(" — replacement cycle %d: the relay cut only the work connections (control connection untouched, no datagram in flight), frps handed new work connections to all %d udp proxies (StartWorkConn seen at the relay %d ms after the cut) and this datagram was sent at least 1 s after that", cyc, len(specs), (h.Now()-tCut)/1e6-1000)
		plan := map[*user][]exSpec{}
		for _, u := range e.users {
			for i := 0; i < 4; i++ {
				sp := pickSpec(rng, w.Size, false)
				sp.Delay = 0
				sp.ArriveKey, sp.LossKey, sp.Note = "datagram-lost-after-work-connection-was-replaced", "reply-lost-after-work-connection-was-replaced", note
				plan[u] = append(plan[u], sp)
				sig.add(sp)
			}
		}
		if !e.lightRound(plan, exWait) {
			e.tally(fmt.Sprintf("cycle-%d", cyc))
			return
		}
		run.Count("replacement_cycles", 1)
	}
	e.tally("replace")
	run.Count("cases_replace", 1)
	run.Distinct(fmt.Sprintf("replace|%d|%v|%v|%s", w.Size, specs, per, sig.sig()))
	if c.Idx%3 == 0 {
		run.Sample(map[string]any{"case": c.Idx, "kind": "replace", "world": c.Data["world"], "tunnels": specs, "users_per_tunnel": per, "cycles": cycles})
	}
}

// backendCase: the local service behind the tunnel goes away and comes back; users keep their source addresses.
func backendCase(c *h.Case) {
	rng := c.Rng
	kind := []string{"udp", "sudp"}[c.Idx%2]
	w := pickWorld(rng, false)
	e := newEnv(c, w)
	defer e.close()
	specs := []tunSpec{randSpec(rng, kind)}
	nu := 1 + rng.Intn(4)
	cycles := 2
	c.Data["kind"], c.Data["cycles"], c.Data["tunnels"], c.Data["users"] = "backend-restart-"+kind, cycles, specs, nu
	c.Data["world"] = map[string]any{"udpPacketSize": w.Size, "tcpMux": w.Mux}
	if err := e.build(specs, false); err != nil {
		run.Inconclusive("setup: " + trimErr(err))
		return
	}
	if err := e.addUsers([]int{nu}); err != nil || !e.first() {
		return
	}
	sig := &lenSig{}
	if !e.lightRound(e.genLight(1, sig, false), exWait) {
		return
	}
	t := e.cs.tunnels[0]
	for cyc := 1; cyc <= cycles; cyc++ {
		e.cs.quiesce(200*time.Millisecond, 5*time.Second)
		t.be.Close()
		c.Ev("backend-down", "cycle", cyc, "port", t.be.Port)
		// a user whose very first datagram meets the dead backend
		if err := e.addUsers([]int{1}); err != nil {
			run.Inconclusive("setup: user sockets")
			return
		}
		var wg sync.WaitGroup
		for _, u := range e.users {
			wg.Add(1)
			go func(u *user) {
				defer wg.Done()
				// into the void: these datagrams (one per user) may be lost, nothing else
				if u.exchange(exSpec{L: 60 + u.Idx, RepL: []int{20}}, 400*time.Millisecond, false) {
					run.Count("datagrams_delivered_while_backend_down", 1)
				}
			}(u)
		}
		wg.Wait()
		if err := t.be.Reopen(); err != nil {
			run.Inconclusive("backend port could not be re-opened")
			return
		}
		c.Ev("backend-up", "cycle", cyc)
		time.Sleep(500 * time.Millisecond)
		// positive control: a user address the client has never seen
		if err := e.addUsers([]int{1}); err != nil {
			run.Inconclusive("setup: user sockets")
			return
		}
		fresh := e.users[len(e.users)-1]
		plan := map[*user][]exSpec{}
		for _, u := range e.users {
			who := "which had sent one datagram while the backend was down"
			if u == fresh {
				who = "which is new (positive control)"
			}
			for i := 0; i < 3; i++ {
				sp := pickSpec(rng, w.Size, true)
				sp.ArriveKey, sp.LossKey = "datagram-lost-after-backend-came-back", "reply-lost-after-backend-came-back"
				sp.Note = fmt.Sprintf(" — backend restart cycle %d: the backend socket on port %d was closed, every user sent one datagram, the backend was re-opened on the same port, and this datagram was sent at least 500 ms later from user address %s %s", cyc, t.be.Port, u.conn.LocalAddr(), who)
				plan[u] = append(plan[u], sp)
				sig.add(sp)
			}
		}
		if !e.lightRound(plan, exWait) {
			e.tally(fmt.Sprintf("restart-%d", cyc))
			return
		}
		run.Count("backend_restarts", 1)
	}
	e.tally("backend-restart")
	run.Count("cases_backend_restart", 1)
	run.Distinct(fmt.Sprintf("backend|%s|%d|%v|%v|%d|%s", kind, w.Size, w.Mux, specs, nu, sig.sig()))
	if c.Idx%3 == 0 {
		run.Sample(map[string]any{"case": c.Idx, "kind": "backend-restart-" + kind, "world": c.Data["world"], "tunnels": specs, "users": nu, "cycles": cycles})
	}
}

// fetchCase: GetWorkConnFromPool fails (nobody answers ReqWorkConn within userConnTimeout) while the control
// session stays up; later requests are answered. Scripted owner, tcpMux on.
func fetchCase(c *h.Case) {
	rng := c.Rng
	w := fetchWorlds[0]
	e := newEnv(c, w)
	defer e.close()
	spec := randSpec(rng, "udp")
	if spec.Limit == "client" {
		spec.Limit = "" // a client-mode limit lives in frpc, which is scripted here
	}
	t := &tunnel{Idx: 0, Kind: "udp", Name: e.pfx + "fetch", Enc: spec.Enc, Comp: spec.Comp, Limit: spec.Limit}
	t.Public = &net.UDPAddr{IP: net.IPv4(127, 0, 0, 1), Port: e.cs.getPort()}
	t.be = &backend{cs: e.cs, tun: 0, froms: map[string]map[int]bool{}}
	e.cs.tunnels = append(e.cs.tunnels, t)
	nu := 1 + rng.Intn(3)
	c.Data["kind"], c.Data["tunnels"], c.Data["users"] = "failed-fetch-scripted-owner", []tunSpec{spec}, nu
	c.Data["world"] = map[string]any{"udpPacketSize": w.Size, "tcpMux": w.Mux, "userConnTimeout": fetchTimeoutS}

	p, err := h.DialPeer(h.PeerOpts{ServerPort: w.Port, TCPMux: true, Token: token})
	if err != nil || !p.LoggedIn() {
		run.Inconclusive("setup: scripted owner login")
		return
	}
	e.closers = append(e.closers, p.Close)
	np := &msg.NewProxy{ProxyName: t.Name, ProxyType: "udp", RemotePort: t.Public.Port, UseEncryption: t.Enc, UseCompression: t.Comp}
	if t.Limit == "server" {
		np.BandwidthLimit, np.BandwidthLimitMode = generousLimit, "server"
	}
	resp, err := p.NewProxy(np, 10*time.Second)
	if err != nil || resp.Error != "" {
		c.Ev("setup-failed", "resp", fmt.Sprint(resp), "err", fmt.Sprint(err))
		run.Inconclusive("setup: scripted owner could not register the udp proxy")
		return
	}
	if err := e.addUsers([]int{nu}); err != nil {
		run.Inconclusive("setup: user sockets")
		return
	}
	// serve plays frpc's udp proxy and the backend at once on a started work connection
	serve := func(wc *h.WorkConn) {
		rwc, err := h.Wrap(wc.Conn, token, t.Enc, t.Comp)
		if err != nil {
			return
		}
		var wmu sync.Mutex
		for {
			m, err := msg.ReadMsg(rwc)
			if err != nil {
				return
			}
			um, ok := m.(*msg.UDPPacket)
			if !ok {
				continue
			}
			buf, err := base64.StdEncoding.DecodeString(um.Content)
			if err != nil {
				c.Violation("work-connection-frame-not-base64", "UDPPacket on the work connection carries content that is not base64: %q", clip([]byte(um.Content)))
				continue
			}
			raddr := um.RemoteAddr
			t.be.handle(buf, "work-conn:"+raddr.String(), func(rp []byte) {
				wmu.Lock()
				_ = msg.WriteMsg(rwc, &msg.UDPPacket{Content: base64.StdEncoding.EncodeToString(rp), RemoteAddr: raddr})
				wmu.Unlock()
			})
		}
	}
	sig := &lenSig{}
	var cur *h.WorkConn
	seen := func() int64 { return p.ReqWorkConnSeen.Load() }
	for _, phase := range []string{"start-up", "replacement"} {
		n0 := int64(0) // start-up: every ReqWorkConn of this fresh session counts
		if phase == "replacement" {
			n0 = seen()
			cur.Conn.Close() // the work connection dies; frps has to fetch another one
			c.Ev("work-conn-closed-by-owner")
		}
		k := 1 + rng.Intn(2)
		c.Ev("phase", "name", phase, "requests_ignored", k, "req_seen_before", n0)
		if !h.Eventually(askAgainWait, func() bool { return seen() > n0 }) {
			run.Inconclusive("frps never asked for a work connection (" + phase + ")")
			return
		}
		tFirst := h.Now()
		// into the void: one datagram per user while no work connection exists (may be lost or delivered late)
		var wg sync.WaitGroup
		for _, u := range e.users {
			wg.Add(1)
			go func(u *user) {
				defer wg.Done()
				u.exchange(exSpec{L: 50 + u.Idx, RepL: []int{30}}, 300*time.Millisecond, false)
			}(u)
		}
		wg.Wait()
		for i := 1; i <= k; i++ {
			// request n0+i is ignored: the fetch fails after userConnTimeout; frps must ask again
			if !h.Eventually(askAgainWait, func() bool { return seen() > n0+int64(i) }) {
				c.Ev("never-asked-again", "phase", phase, "requests_seen", seen()-n0, "ignored", i)
				c.Violation("work-connection-never-requested-again-after-failed-fetch",
					"%s: the owner (control session up, %s registered) did not answer %d ReqWorkConn, so frps's fetch failed after userConnTimeout=%ds; no further ReqWorkConn arrived within %v after the ignored one (first request of this phase %d ms ago) - frps has given up fetching a work connection for the proxy",
					phase, t.describe(), i, fetchTimeoutS, askAgainWait, (h.Now()-tFirst)/1e6)
				return
			}
			run.Count("failed_fetches", 1)
		}
		wc, err := p.OpenWorkConn()
		if err != nil {
			run.Inconclusive("scripted owner could not open a work connection")
			return
		}
		st, err := wc.ReadStart(15 * time.Second)
		if err != nil || st.ProxyName != t.Name {
			c.Ev("no-start", "err", fmt.Sprint(err), "start", fmt.Sprint(st))
			run.Inconclusive("offered work connection was not started for the udp proxy")
			return
		}
		cur = wc
		go serve(wc)
		c.Ev("work-conn-started", "phase", phase, "after_ms", (h.Now()-tFirst)/1e6)
		time.Sleep(500 * time.Millisecond)
		note := fmt.Sprintf(" — %s: %d ReqWorkConn went unanswered (fetch failed after userConnTimeout=%ds each), the next one was answered, frps sent StartWorkConn on that connection and this datagram was sent at least 500 ms later", phase, k, fetchTimeoutS)
		plan := map[*user][]exSpec{}
		for _, u := range e.users {
			for i := 0; i < 3; i++ {
				sp := pickSpec(rng, w.Size, true)
				sp.ArriveKey, sp.LossKey, sp.Note = "datagram-lost-after-failed-work-connection-fetch", "reply-lost-after-failed-work-connection-fetch", note
				plan[u] = append(plan[u], sp)
				sig.add(sp)
			}
		}
		if !e.lightRound(plan, exWait) {
			e.tally("fetch-" + phase)
			return
		}
		time.Sleep(200 * time.Millisecond)
	}
	e.tally("fetch")
	run.Count("cases_failed_fetch", 1)
	run.Distinct(fmt.Sprintf("fetch|scripted|%v|%d|%s", spec, nu, sig.sig()))
	if c.Idx%4 == 0 {
		run.Sample(map[string]any{"case": c.Idx, "kind": "failed-fetch-scripted-owner", "world": c.Data["world"], "tunnel": spec, "users": nu})
	}
}

// refuseCase: real frpc behind the relay, tcpMux off: the work connections are cut and the relay refuses new
// connections for 3.5 s (at least one fetch of frps fails after userConnTimeout), then lets them through.
func refuseCase(c *h.Case) {
	rng := c.Rng
	w := fetchWorlds[1]
	e := newEnv(c, w)
	defer e.close()
	e.plainWire = true
	specs := []tunSpec{randSpec(rng, "udp")}
	nu := 1 + rng.Intn(3)
	c.Data["kind"], c.Data["tunnels"], c.Data["users"] = "failed-fetch-refusing-relay", specs, nu
	c.Data["world"] = map[string]any{"udpPacketSize": w.Size, "tcpMux": w.Mux, "userConnTimeout": fetchTimeoutS}
	if err := e.build(specs, true); err != nil {
		run.Inconclusive("setup: " + trimErr(err))
		return
	}
	if err := e.addUsers([]int{nu}); err != nil || !e.first() {
		return
	}
	sig := &lenSig{}
	if !e.lightRound(e.genLight(1, sig, false), exWait) {
		return
	}
	relay := e.relays["owner"]
	e.cs.quiesce(200*time.Millisecond, 5*time.Second)
	relay.SetRefuse(true)
	before := len(relay.Pairs())
	n := e.cut("owner", true)
	tCut := h.Now()
	c.Ev("cut-and-refuse", "connections_closed", n)
	run.Count("cuts", 1)
	run.Count("cuts_work_connection_only", 1)
	refuseFor := 3500 * time.Millisecond
	time.Sleep(refuseFor)
	relay.SetRefuse(false)
	c.Ev("relay-accepts-again")
	started := func() bool {
		for _, p := range relay.Pairs()[before:] {
			if _, down := p.Captured(); len(down) > 0 && down[0] == 's' {
				return true
			}
		}
		return false
	}
	if !h.Eventually(askAgainWait, started) {
		c.Violation("no-work-connection-after-failed-fetch",
			"the relay cut the work connections of frpc (control connection untouched) and refused new connections for %v, so at least one fetch of frps failed after userConnTimeout=%ds; %v after the relay accepted connections again frps has not started a work connection for the udp proxy (%s) - %d connections were relayed since",
			refuseFor, fetchTimeoutS, askAgainWait, e.cs.tunnels[0].describe(), len(relay.Pairs())-before)
		return
	}
	run.Count("failed_fetches", 1)
	c.Ev("work-conn-started", "after_ms", (h.Now()-tCut)/1e6)
	time.Sleep(time.Second)
	note := fmt.Sprintf(" — the relay had refused frpc's work-connection dials for %v (fetch of frps failed after userConnTimeout=%ds), then frps started a new work connection (StartWorkConn seen at the relay) and this datagram was sent at least 1 s later", refuseFor, fetchTimeoutS)
	plan := map[*user][]exSpec{}
	for _, u := range e.users {
		for i := 0; i < 3; i++ {
			sp := pickSpec(rng, w.Size, true)
			sp.ArriveKey, sp.LossKey, sp.Note = "datagram-lost-after-failed-work-connection-fetch", "reply-lost-after-failed-work-connection-fetch", note
			plan[u] = append(plan[u], sp)
			sig.add(sp)
		}
	}
	if !e.lightRound(plan, exWait) {
		e.tally("refuse")
		return
	}
	e.tally("refuse")
	run.Count("cases_failed_fetch", 1)
	run.Distinct(fmt.Sprintf("fetch|relay|%v|%d|%s", specs, nu, sig.sig()))
}

// streamCase: one request answered by a stream of replies that outlasts the 30 s expiry of the per-user local socket.
func streamCase(c *h.Case) {
	rng := c.Rng
	kind := []string{"udp", "sudp"}[(c.Idx/4+c.Idx)%2]
	w := pickWorld(rng, false)
	e := newEnv(c, w)
	defer e.close()
	spec := randSpec(rng, kind)
	const gap = 500 * time.Millisecond
	k := 73 + rng.Intn(4) // last reply 36-37.5 s after the request
	c.Data["kind"], c.Data["tunnels"], c.Data["replies"], c.Data["gap_ms"] = "reply-stream-"+kind, []tunSpec{spec}, k, gap.Milliseconds()
	c.Data["world"] = map[string]any{"udpPacketSize": w.Size, "tcpMux": w.Mux}
	if err := e.build([]tunSpec{spec}, false); err != nil {
		run.Inconclusive("setup: " + trimErr(err))
		return
	}
	if err := e.addUsers([]int{2}); err != nil || !e.first() {
		return
	}
	listener, chatty := e.users[0], e.users[1]
	stop := make(chan struct{})
	var wg sync.WaitGroup
	wg.Add(1)
	go func() { // another user address keeps exchanging meanwhile
		defer wg.Done()
		for {
			if !chatty.exchange(exSpec{L: 100, RepL: []int{100}}, exWait, true) {
				return
			}
			run.Count("light_exchanges", 1)
			select {
			case <-stop:
				return
			case <-time.After(2 * time.Second):
			}
		}
	}()
	defer func() { close(stop); wg.Wait() }()

	sp := exSpec{L: 80, Gap: gap, Class: rng.Intn(4), RClass: rng.Intn(4)}
	for j := 0; j < k; j++ {
		l := hdrLen + rng.Intn(400)
		if rng.Intn(8) == 0 {
			l = pickLen(rng, w.Size, false)
		}
		sp.RepL = append(sp.RepL, l)
	}
	listener.mu.Lock()
	seq := listener.seq + 1
	listener.mu.Unlock()
	id := dgID{Tun: 0, User: listener.Idx, Seq: seq}
	ok := listener.exchange(sp, exWait, false)
	run.Count("reply_streams", 1)
	cs := e.cs
	cs.mu.Lock()
	stopped := cs.stopped
	plan := cs.plans[id]
	var missing, late []int
	var lastGotBefore int64
	if plan != nil {
		t0 := cs.seenAt[id]
		for j := range plan.Payloads {
			rid := id
			rid.J = j + 1
			if cs.repSent[rid] > 0 && cs.repGot[rid] == 0 {
				missing = append(missing, j+1)
				if plan.SentAt[j]-t0 > int64(30*time.Second) {
					late = append(late, j+1)
				}
			} else if cs.repGot[rid] > 0 {
				lastGotBefore = (plan.SentAt[j] - t0) / 1e6
			}
		}
	}
	arrived := cs.seen[id] > 0
	cs.mu.Unlock()
	c.Ev("stream-end", "complete", ok, "request_arrived", arrived, "missing", missing)
	if stopped {
		return
	}
	if !ok {
		switch {
		case !arrived:
			c.Violation("light-load-datagram-lost", "the request %v of the reply-stream schedule never reached the backend (%s)", id, e.cs.tunnels[0].describe())
		case len(missing) > 0 && len(late) == len(missing):
			c.Violation("streamed-reply-lost-after-30s-without-request",
				"one request of user %d (%s), then the backend sent %d replies %v apart to it while the user sent nothing and another user kept exchanging: the %d replies sent more than 30 s after the request (numbers %d..%d) never arrived within %v, every earlier reply did (last delivered reply was sent %d ms after the request) (%s)",
				listener.Idx, listener.conn.LocalAddr(), k, gap, len(missing), missing[0], missing[len(missing)-1], exWait, lastGotBefore, e.cs.tunnels[0].describe())
		default:
			c.Violation("streamed-reply-lost", "reply stream (%d replies %v apart, light load) to user %d: replies %v never arrived within %v (%s)", k, gap, listener.Idx, missing, exWait, e.cs.tunnels[0].describe())
		}
		return
	}
	run.Count("streamed_replies_delivered_after_30s", int64(k-60))
	// afterwards the same user address is still served
	if !listener.exchange(exSpec{L: 64, RepL: []int{w.Size}}, exWait, true) {
		return
	}
	e.tally("stream")
	run.Distinct(fmt.Sprintf("stream|%s|%d|%v|%v|%d", kind, w.Size, w.Mux, spec, k))
	if c.Idx%4 == 2 {
		run.Sample(map[string]any{"case": c.Idx, "kind": "reply-stream-" + kind, "world": c.Data["world"], "tunnel": spec, "replies": k, "gap_ms": gap.Milliseconds()})
	}
}
