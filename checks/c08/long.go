package main

import (
	"fmt"
	"io"
	"math/rand"
	"net"
	"sync"
	"sync/atomic"
	"time"

	"verif/h"
)

// Long-lived streams (monitor E): an admitted stcp stream through the real frpc visitor and owner carries a
// verified echo right after admission, stays idle for longer than the visitor's 10 s handshake limit
// (client/visitor/stcp.go: literal 10 s on the visitor connection), and then carries a verified echo again
// (user -> backend and backend -> user). The verdict is logical: the bytes written after the pause come back
// intact, or the stream is observed broken (EOF / error / mismatch). The pause is a lower bound only.
// Variants: server / client tcpMux on (yamux stream) and off (plain TCP connection), four enc/comp
// combinations (thorough: all 16), and a "stall" variant in which the backend stops reading after the pause
// until the pipeline is full, so that writes on every hop really wait for window / socket space before the
// backend resumes.

const longPause = 12 * time.Second // > the literal 10 s in STCPVisitor.handleConn

const longKey = "stcp-stream-broken-after-visitor-handshake-deadline"

// stallBackend: ident, then echo; while stall is set it does not read.
type stallBackend struct {
	b     *h.TCPBackend
	stall atomic.Bool
	mu    sync.Mutex // one stall case per server at a time
}

func startStallBackend(id string) (*stallBackend, error) {
	sb := &stallBackend{}
	b, err := h.StartTCPBackend(0, func(_ *h.TCPBackend, c net.Conn) {
		nonce := make([]byte, 16)
		if _, err := io.ReadFull(c, nonce); err != nil {
			return
		}
		if _, err := c.Write(append([]byte(id+"||"), nonce...)); err != nil {
			return
		}
		buf := make([]byte, 64<<10)
		for {
			for sb.stall.Load() {
				time.Sleep(2 * time.Millisecond)
			}
			n, err := c.Read(buf)
			if n > 0 {
				if _, werr := c.Write(buf[:n]); werr != nil {
					return
				}
			}
			if err != nil {
				return
			}
		}
	})
	sb.b = b
	return sb, err
}

type countWriter struct {
	w io.Writer
	n atomic.Int64
}

func (cw *countWriter) Write(p []byte) (int, error) {
	n, err := cw.w.Write(p)
	cw.n.Add(int64(n))
	return n, err
}

func longCombos() []int {
	if run.Thorough() {
		return []int{0, 1, 2, 3, 4, 5, 6, 7, 8, 9, 10, 11, 12, 13, 14, 15}
	}
	return []int{0, 5, 10, 15}
}

func longStalls() int { return run.N(1, 2) }

func longCaseCount() int { return 2 * (len(longCombos()) + longStalls()) }

// echoChunk writes n bytes of a PRNG stream and verifies the echo; it reports what was observed.
func echoChunk(conn net.Conn, rng *rand.Rand, n int64) (got int64, mismatch bool, rerr, werr error) {
	seed, class := rng.Int63(), rng.Intn(h.NumClasses)
	wr := rand.New(rand.NewSource(rng.Int63()))
	var wg sync.WaitGroup
	wg.Add(1)
	go func() {
		defer wg.Done()
		_, werr = h.WriteStream(conn, seed, class, n, wr, 16384, false)
	}()
	got, _, mismatch, rerr = h.ReadStream(conn, seed, class, n, 32768)
	wg.Wait()
	return
}

func longCase(c *h.Case, k int) {
	ei := k % 2
	j := k / 2
	re := getRealEnv(ei)
	if re.err != nil {
		run.Inconclusive("real clients: setup failed: " + re.err.Error())
		return
	}
	rng := c.Rng
	combos := longCombos()
	stall := j >= len(combos)
	visitor, proxy, what := "vslow", "slow", "stalled backend, no enc/comp"
	if !stall {
		pe, pc, ve, vc := combo(combos[j])
		visitor, proxy = fmt.Sprintf("vs%d", combos[j]), fmt.Sprintf("s%d", combos[j])
		what = fmt.Sprintf("proxy enc=%v comp=%v visitor enc=%v comp=%v", pe, pc, ve, vc)
	}
	what = fmt.Sprintf("server %s (tcpMux=%v), %s", re.e.id, re.e.tcpMux, what)
	c.Data["server"], c.Data["visitor"], c.Data["stall"] = re.e.id, visitor, stall
	if stall {
		re.slow.mu.Lock()
		defer re.slow.mu.Unlock()
		defer re.slow.stall.Store(false)
	}
	conn, err := net.DialTimeout("tcp", fmt.Sprintf("127.0.0.1:%d", re.bind[visitor]), 10*time.Second)
	if err != nil {
		run.Inconclusive("long stream: visitor port not reachable")
		return
	}
	defer conn.Close()
	_ = conn.SetDeadline(time.Now().Add(10 * time.Minute)) // harness safety only
	t0 := time.Now()
	id, err := identExchange(conn, realNonce(c, true))
	if err != nil || id != "B-"+proxy+"|" {
		run.Inconclusive("long stream: not admitted / ident failed at the start")
		c.Ev("long-ident-failed", "id", id, "err", fmt.Sprint(err))
		return
	}
	n1 := int64(1 + rng.Intn(64<<10))
	if got, mm, rerr, werr := echoChunk(conn, rng, n1); mm || rerr != nil || got != n1 {
		// young streams are judged by the other real-client cases; here it only means the case cannot run
		c.Ev("long-first-chunk-failed", "got", got, "mismatch", mm, "rerr", fmt.Sprint(rerr), "werr", fmt.Sprint(werr))
		run.Inconclusive("long stream: first exchange failed")
		return
	}
	c.Ev("long-first-chunk", "bytes", n1)
	time.Sleep(longPause - time.Since(t0) + time.Duration(rng.Intn(1500))*time.Millisecond)
	age := time.Since(t0)
	if age < longPause {
		run.Inconclusive("long stream: pause too short")
		return
	}
	run.Count("long_streams_paused", 1)

	if !stall {
		n2 := int64(1 + rng.Intn(256<<10))
		got, mm, rerr, werr := echoChunk(conn, rng, n2)
		c.Ev("long-second-chunk", "bytes", n2, "got", got, "mismatch", mm, "rerr", fmt.Sprint(rerr), "werr", fmt.Sprint(werr), "age_ms", age.Milliseconds())
		if mm || rerr != nil || got != n2 {
			c.Violation(longKey, "%s: admitted stcp stream, first echo of %d bytes fine; after an idle pause (stream age %v) only %d of %d bytes came back (mismatch=%v, read error %v, write error %v)",
				what, n1, age.Round(time.Millisecond), got, n2, mm, rerr, werr)
			return
		}
		run.Count("long_streams_verified", 1)
		run.Count("stream_bytes_verified", n1+n2)
		run.Distinct(fmt.Sprintf("long|%s|%s", re.e.id, visitor))
		return
	}

	// stall variant: the backend stops reading; the user keeps writing until nothing moves any more (every hop
	// is then waiting for window / buffer space), then the backend resumes and the whole echo is verified
	n2 := int64(run.N(48, 64)) << 20
	seed, class := rng.Int63(), h.ClassText
	wr := rand.New(rand.NewSource(rng.Int63()))
	cw := &countWriter{w: conn}
	re.slow.stall.Store(true)
	var werr error
	wdone := make(chan struct{})
	go func() {
		defer close(wdone)
		_, werr = h.WriteStream(cw, seed, class, n2, wr, 65536, false)
	}()
	stalledAt := int64(-1)
	last, lastMove := int64(0), time.Now()
wait:
	for {
		select {
		case <-wdone:
			break wait
		case <-time.After(50 * time.Millisecond):
		}
		if cur := cw.n.Load(); cur != last {
			last, lastMove = cur, time.Now()
		} else if time.Since(lastMove) > 1500*time.Millisecond {
			stalledAt = cur
			break wait
		}
	}
	c.Ev("long-stalled", "written", cw.n.Load(), "stalled_at", stalledAt)
	if stalledAt >= 0 {
		run.Count("long_stall_pipeline_filled", 1)
		time.Sleep(time.Duration(500+rng.Intn(1000)) * time.Millisecond) // writes on every hop are now waiting
	} else {
		run.Inconclusive("long stream: pipeline did not fill before the writer finished")
	}
	re.slow.stall.Store(false)
	got, _, mm, rerr := h.ReadStream(conn, seed, class, n2, 65536)
	<-wdone
	if mm || rerr != nil || got != n2 {
		c.Violation(longKey, "%s: admitted stcp stream aged %v, backend paused until %d bytes were in flight, then resumed: only %d of %d bytes came back (mismatch=%v, read error %v, write error %v)",
			what, age.Round(time.Millisecond), stalledAt, got, n2, mm, rerr, werr)
		return
	}
	run.Count("long_streams_verified", 1)
	run.Count("stream_bytes_verified", n1+n2)
	run.Distinct(fmt.Sprintf("long|%s|stall", re.e.id))
}
