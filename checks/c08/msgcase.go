package main

import (
	"crypto/md5"
	"encoding/hex"
	"fmt"
	"math"
	"math/rand"
	"sort"
	"strings"
	"sync"
	"sync/atomic"
	"time"

	"github.com/fatedier/frp/pkg/msg"

	"verif/h"
)

// user names with near misses of each other (exact matching is part of the property)
var userPool = []string{"", "alice", "bob", "carol", "Alice", "alice ", "ali", "alice.bob", "b", "bob*", "any"}

type vsess struct {
	User string
	Peer *h.Peer
}

type visit struct {
	K       int    `json:"k"`
	Kind    string `json:"kind"` // stream | precheck | nathole
	Slot    int    `json:"slot"` // slot whose name / key the message is derived from
	Name    string `json:"name"`
	NameVar string `json:"name_var"`
	KeyVar  string `json:"key_var"`
	TsVar   string `json:"ts_var"`
	RunVar  string `json:"run_var"`
	Ts      int64  `json:"ts"`
	Key     string `json:"key"`
	RunID   string `json:"run_id"`
	Sender  int    `json:"sender"` // visitor session index (-1 = the first owner session)
	User    string `json:"user"`   // authenticated user according to the model
	NoAuth  bool   `json:"no_auth"`
	Focus   string `json:"focus"`
	Enc     bool   `json:"enc"`
	Comp    bool   `json:"comp"`
}

type msgWorld struct {
	c      *h.Case
	e      *env
	pfx    string
	rng    *rand.Rand
	slots  []*slot
	owners []*vsess // two owner sessions
	ol     *ownerLog
	vis    []*vsess
	closed string // run id of a session that has ended

	admittedNonce map[string]map[string]bool // proxy -> nonces of requests the model admitted
	admittedNat   map[string]int             // proxy -> admitted NAT-hole session requests
	flagged       map[string]int             // proxy -> requests already reported as wrongly admitted
	caseSids      map[string]bool
	pendingNat    []pendingNat
	nonceSeq      int
	natUncertain  bool
}

type pendingNat struct {
	sender *h.Peer
	tid    string
	sid    string
	proxy  string
}

func genAllow(rng *rand.Rand, ownerUser string, others []string) []string {
	switch rng.Intn(10) {
	case 0, 1, 2:
		return nil // default: the owner's user
	case 3:
		return []string{"*"}
	case 4:
		return []string{ownerUser}
	case 5:
		return []string{pick(rng, others...)}
	case 6:
		return []string{pick(rng, others...), pick(rng, userPool...)}
	case 7:
		return []string{pick(rng, userPool...), "*"}
	case 8:
		return []string{""}
	default:
		// a near miss of somebody present
		u := pick(rng, append([]string{ownerUser}, others...)...)
		return []string{pick(rng, u+" ", strings.ToUpper(u)+"x", u+"*", "x"+u)}
	}
}

func randKey(rng *rand.Rand) string {
	switch rng.Intn(8) {
	case 0:
		return "" // an empty key is accepted by frps
	case 1:
		return "k"
	case 2:
		return "k1"
	}
	return fmt.Sprintf("sk-%x", rng.Int63())
}

func msgCase(c *h.Case) {
	rng := c.Rng
	w := &msgWorld{c: c, rng: rng, e: envs[rng.Intn(len(envs))], pfx: fmt.Sprintf("c%d.", c.Idx), ol: newOwnerLog(),
		admittedNonce: map[string]map[string]bool{}, admittedNat: map[string]int{}, flagged: map[string]int{}, caseSids: map[string]bool{}}
	c.Data["server"] = w.e.id

	// sessions
	ownerUser := pick(rng, userPool...)
	otherUser := pick(rng, userPool...)
	for otherUser == ownerUser {
		otherUser = pick(rng, userPool...)
	}
	near := pick(rng, ownerUser+" ", strings.ToUpper(ownerUser)+"x", "x"+ownerUser, ownerUser+"*", otherUser+".")
	visUsers := []string{ownerUser, otherUser, near, pick(rng, userPool...)}
	c.Data["owner_users"], c.Data["visitor_users"] = []string{ownerUser, otherUser}, visUsers
	// proxies
	nSlots := 2 + rng.Intn(3)
	for i := 0; i < nSlots; i++ {
		s := &slot{Name: fmt.Sprintf("%sp%d", w.pfx, i), Type: pick(rng, "stcp", "stcp", "stcp", "sudp", "xtcp", "xtcp"),
			Enc: rng.Intn(2) == 0, Comp: rng.Intn(2) == 0}
		if i == 0 && rng.Intn(2) == 0 {
			s.Type = "xtcp"
		}
		w.slots = append(w.slots, s)
		w.ol.types[s.Name] = slotWire{Type: s.Type, Enc: s.Enc, Comp: s.Comp}
	}
	defer w.shutdown()
	for i, u := range []string{ownerUser, otherUser} {
		p, err := dial(w.e, u, w.ol, fmt.Sprintf("O%d", i), i)
		if err != nil {
			run.Inconclusive("msg case: owner login failed")
			return
		}
		w.owners = append(w.owners, &vsess{User: u, Peer: p})
	}
	for _, u := range visUsers {
		p, err := dial(w.e, u, nil, "", 0)
		if err != nil {
			run.Inconclusive("msg case: visitor login failed")
			return
		}
		w.vis = append(w.vis, &vsess{User: u, Peer: p})
	}
	// a session of the owner's user that has ended: its run id must authenticate nobody
	if p, err := dial(w.e, ownerUser, nil, "", 0); err == nil {
		id := p.RunID
		p.Close()
		if sessionGone(w.e, id, 10*time.Second) {
			w.closed = id
		}
	}

	// a name that is never registered (messages derived from it carry a key nobody ever registered)
	ghost := &slot{Name: w.pfx + "ghost", Type: pick(rng, "stcp", "xtcp"), Sk: "ghost-key"}
	w.slots = append(w.slots, ghost)
	for i := 0; i < nSlots; i++ {
		if i == nSlots-1 && rng.Intn(3) == 0 {
			w.slots[i].Sk = randKey(rng) // stays unregistered until an op registers it
			continue
		}
		if !w.register(i, rng.Intn(2)) {
			return
		}
	}
	c.Data["slots"] = w.describeSlots()

	// operations
	nOps := 12 + rng.Intn(14)
	if run.Thorough() {
		nOps += rng.Intn(12)
	}
	for k := 0; k < nOps; k++ {
		switch x := rng.Intn(100); {
		case x < 6:
			i := rng.Intn(nSlots)
			if w.slots[i].Live {
				if !w.closeSlot(i) {
					return
				}
			}
		case x < 14:
			i := rng.Intn(nSlots)
			if w.slots[i].Live {
				if !w.closeSlot(i) {
					return
				}
			}
			if !w.register(i, rng.Intn(2)) {
				return
			}
		default:
			v := w.genVisit(k)
			if !w.perform(v) {
				return
			}
		}
		if c.Violations() > 2 {
			break
		}
	}
	w.finish()
}

func (w *msgWorld) describeSlots() []map[string]any {
	var out []map[string]any
	for _, s := range w.slots {
		out = append(out, map[string]any{"name": s.Name, "type": s.Type, "sk": s.Sk, "allow": s.Allow, "enc": s.Enc, "comp": s.Comp,
			"owner_user": s.OwnerUser, "live": s.Live, "gen": s.Gen})
	}
	return out
}

// register (re-)registers slot i from owner session o with a fresh key and allow-list.
func (w *msgWorld) register(i, o int) bool {
	s := w.slots[i]
	own := w.owners[o]
	var others []string
	for _, v := range w.vis {
		others = append(others, v.User)
	}
	sk := randKey(w.rng)
	for sk == s.Sk && s.Gen > 0 {
		sk = randKey(w.rng) // a re-registration always changes the key: the old key must stop working
	}
	allow := genAllow(w.rng, own.User, others)
	m := &msg.NewProxy{ProxyName: s.Name, ProxyType: s.Type, Sk: sk, AllowUsers: allow, UseEncryption: s.Enc, UseCompression: s.Comp}
	if s.Type == "xtcp" {
		w.e.xtcpMu.Lock()
		defer w.e.xtcpMu.Unlock()
	}
	resp, err := own.Peer.NewProxy(m, replyGrace)
	if err != nil {
		run.Inconclusive("msg case: registration got no reply")
		return false
	}
	if resp.Error != "" {
		w.c.Ev("register-refused", "name", s.Name, "error", resp.Error)
		w.c.Violation("fresh-secret-proxy-refused", "registration of %s (%s) with no live holder of the name was refused: %s", s.Name, s.Type, resp.Error)
		return false
	}
	s.Sk, s.Allow, s.Owner, s.OwnerUser, s.Live = sk, allow, o, own.User, true
	s.Gen++
	w.c.Ev("register", "name", s.Name, "type", s.Type, "sk", sk, "allow", allow, "owner", o, "owner_user", own.User, "gen", s.Gen)
	run.Count("registrations", 1)
	return true
}

func (w *msgWorld) closeSlot(i int) bool {
	s := w.slots[i]
	own := w.owners[s.Owner]
	if s.Type == "xtcp" {
		w.e.xtcpMu.Lock()
		defer w.e.xtcpMu.Unlock()
	}
	_ = own.Peer.CloseProxy(s.Name)
	if _, err := own.Peer.Ping(replyGrace); err != nil {
		run.Inconclusive("msg case: close barrier missing")
		return false
	}
	s.Live = false
	w.c.Ev("close", "name", s.Name)
	run.Count("closures", 1)
	return true
}

var leftOpenSeen atomic.Int64

func md5hex(s string) string { x := md5.Sum([]byte(s)); return hex.EncodeToString(x[:]) }

func (w *msgWorld) genVisit(k int) *visit {
	rng := w.rng
	v := &visit{K: k, Enc: rng.Intn(2) == 0, Comp: rng.Intn(2) == 0}
	// focused visits start from a request the model admits and leave at most one dimension to chance
	var live []int
	for i, s := range w.slots {
		if s.Live {
			live = append(live, i)
		}
	}
	free := "all"
	switch {
	case len(live) > 0 && rng.Intn(100) < 60:
		v.Slot = live[rng.Intn(len(live))]
		free = pick(rng, "none", "none", "none", "name", "key", "key", "user", "user", "kind")
	case len(live) > 0 && rng.Intn(100) < 75:
		v.Slot = live[rng.Intn(len(live))]
	default:
		v.Slot = rng.Intn(len(w.slots))
	}
	v.Focus = free
	s := w.slots[v.Slot]
	fit := func(dim string) bool { return free != "all" && free != dim }
	// kind: mostly the one that fits the slot's type
	switch {
	case s.Type == "xtcp" && fit("kind"):
		v.Kind = pick(rng, "nathole", "nathole", "precheck")
	case s.Type == "xtcp":
		v.Kind = pick(rng, "nathole", "nathole", "nathole", "precheck", "precheck", "stream")
	case fit("kind"):
		v.Kind = "stream"
	default:
		v.Kind = pick(rng, "stream", "stream", "stream", "stream", "stream", "stream", "nathole", "precheck")
	}
	// name
	switch x := rng.Intn(100); {
	case x < 80 || fit("name"):
		v.Name, v.NameVar = s.Name, "exact"
	case x < 85:
		v.Name, v.NameVar = s.Name+"x", "suffix"
	case x < 89:
		v.Name, v.NameVar = strings.ToUpper(s.Name), "upper"
	case x < 93:
		v.Name, v.NameVar = strings.TrimPrefix(s.Name, w.pfx), "no-prefix"
	case x < 96:
		v.Name, v.NameVar = "", "empty"
	default:
		v.Name, v.NameVar = s.Name+" ", "trailing-space"
	}
	// timestamp: frps accepts any value as long as the signature covers it
	now := time.Now().Unix()
	switch x := rng.Intn(100); {
	case x < 60:
		v.Ts, v.TsVar = now, "now"
	case x < 68:
		v.Ts, v.TsVar = 0, "zero"
	case x < 74:
		v.Ts, v.TsVar = -1-rng.Int63n(1000), "negative"
	case x < 82:
		v.Ts, v.TsVar = now-86400*400, "stale"
	case x < 88:
		v.Ts, v.TsVar = now+86400*400, "future"
	case x < 92:
		v.Ts, v.TsVar = math.MaxInt64, "max"
	case x < 95:
		v.Ts, v.TsVar = math.MinInt64, "min"
	default:
		v.Ts, v.TsVar = 1+rng.Int63n(9), "small"
	}
	// signature
	good := h.AuthKey(s.Sk, v.Ts)
	other := w.slots[rng.Intn(len(w.slots))]
	switch x := rng.Intn(100); {
	case x < 40 || fit("key"):
		v.Key, v.KeyVar = good, "correct"
	case x < 47:
		v.Key, v.KeyVar = h.AuthKey(s.Sk+"x", v.Ts), "wrong-key"
	case x < 54:
		v.Key, v.KeyVar = "", "empty"
	case x < 61:
		v.Key, v.KeyVar = h.AuthKey(other.Sk, v.Ts), "other-proxy-key"
	case x < 67:
		v.Key, v.KeyVar = h.AuthKey(s.Sk, v.Ts+1), "other-ts"
	case x < 72:
		v.Key, v.KeyVar = strings.ToUpper(good), "upper-hex"
	case x < 77:
		v.Key, v.KeyVar = good[:len(good)-1], "truncated"
	case x < 82:
		v.Key, v.KeyVar = h.AuthKey(token, v.Ts), "server-token"
	case x < 86:
		v.Key, v.KeyVar = good+" ", "trailing-space"
	case x < 89:
		v.Key, v.KeyVar = md5hex(s.Sk), "no-ts"
	case x < 92:
		v.Key, v.KeyVar = s.Sk, "plain-key"
	case x < 95:
		v.Key, v.KeyVar = md5hex(fmt.Sprint(v.Ts)), "ts-only"
	case x < 97:
		v.Key, v.KeyVar = h.AuthKey(s.Name, v.Ts), "name-as-key"
	default:
		v.Key, v.KeyVar = good[1:]+good[:1], "rotated"
	}
	// who
	type ident struct {
		sender     int
		run, user  string
		runVar     string
		noAuth     bool
		streamOnly bool
	}
	sess := func(i int) *vsess {
		if i < 0 {
			return w.owners[0]
		}
		return w.vis[i]
	}
	if fit("user") {
		var ok []ident
		for i := -1; i < len(w.vis); i++ {
			if userAllowed(s.Allow, s.OwnerUser, sess(i).User) {
				ok = append(ok, ident{sender: i, run: sess(i).Peer.RunID, user: sess(i).User, runVar: "own"})
			}
		}
		if v.Kind == "stream" {
			if userAllowed(s.Allow, s.OwnerUser, "") {
				ok = append(ok, ident{sender: rng.Intn(len(w.vis)+1) - 1, runVar: "none"})
			}
			if userAllowed(s.Allow, s.OwnerUser, w.owners[1].User) {
				ok = append(ok, ident{sender: rng.Intn(len(w.vis)+1) - 1, run: w.owners[1].Peer.RunID, user: w.owners[1].User, runVar: "owner-session"})
			}
		}
		if len(ok) > 0 {
			id := ok[rng.Intn(len(ok))]
			v.Sender, v.User, v.RunVar = id.sender, id.user, id.runVar
			if v.Kind == "stream" {
				v.RunID = id.run
			} else {
				v.RunVar = "sender"
			}
			return v
		}
	}
	v.Sender = rng.Intn(len(w.vis)+1) - 1 // -1 = the first owner session acting as visitor
	senderUser, senderRun := sess(v.Sender).User, sess(v.Sender).Peer.RunID
	if v.Kind != "stream" {
		v.User, v.RunVar = senderUser, "sender"
		return v
	}
	switch x := rng.Intn(100); {
	case x < 45:
		v.RunID, v.User, v.RunVar = senderRun, senderUser, "own"
	case x < 58:
		v.RunID, v.User, v.RunVar = "", "", "none"
	case x < 70:
		j := rng.Intn(len(w.vis))
		v.RunID, v.User, v.RunVar = w.vis[j].Peer.RunID, w.vis[j].User, "borrowed"
	case x < 78:
		o := w.owners[rng.Intn(2)]
		v.RunID, v.User, v.RunVar = o.Peer.RunID, o.User, "owner-session"
	case x < 86:
		v.RunID, v.NoAuth, v.RunVar = fmt.Sprintf("%016x", rng.Uint64()), true, "unknown"
	case x < 93:
		if w.closed != "" {
			v.RunID, v.NoAuth, v.RunVar = w.closed, true, "ended-session"
		} else {
			v.RunID, v.NoAuth, v.RunVar = "0000000000000000", true, "unknown"
		}
	default:
		v.RunID, v.NoAuth, v.RunVar = senderRun+"x", true, "mangled"
	}
	return v
}

// expect is the reference model's verdict.
func (w *msgWorld) expect(v *visit) (admit bool, reason string, target *slot) {
	for _, s := range w.slots {
		if s.Live && s.Name == v.Name {
			target = s
		}
	}
	if target == nil {
		return false, "no-such-proxy", nil
	}
	if (v.Kind == "stream") == (target.Type == "xtcp") {
		return false, "wrong-proxy-type", target
	}
	if v.Kind == "stream" && v.NoAuth {
		return false, "unknown-run-id", target
	}
	if v.Kind != "precheck" && v.Key != h.AuthKey(target.Sk, v.Ts) {
		return false, "bad-signature", target
	}
	if !userAllowed(target.Allow, target.OwnerUser, v.User) {
		return false, "user-not-allowed", target
	}
	return true, "", target
}

func (w *msgWorld) nonce(k int) string {
	w.nonceSeq++
	return fmt.Sprintf("N%05dK%04dS%04d", w.c.Idx%100000, k%10000, w.nonceSeq%10000)
}

func (w *msgWorld) perform(v *visit) bool {
	admit, reason, target := w.expect(v)
	sender := w.owners[0].Peer
	if v.Sender >= 0 {
		sender = w.vis[v.Sender].Peer
	}
	shape, rel, ttype := "-", "-", "-"
	if target != nil {
		shape, ttype = allowShape(target.Allow, target.OwnerUser), target.Type
		switch {
		case v.NoAuth:
			rel = "nobody"
		case v.User == target.OwnerUser:
			rel = "owner-user"
		default:
			rel = "other-user"
		}
	}
	run.Distinct(strings.Join([]string{"msg", w.e.id, v.Kind, ttype, v.NameVar, v.KeyVar, v.TsVar, v.RunVar, shape, rel, reason,
		fmt.Sprint(v.Enc, v.Comp)}, "|"))
	run.Count("messages", 1)
	run.Count("messages_"+v.Kind, 1)
	if admit {
		run.Count("model_admit", 1)
	} else {
		run.Count("model_refuse_"+reason, 1)
	}
	w.c.Ev("visit", "v", v, "model_admit", admit, "reason", reason)
	if v.Kind == "stream" {
		return w.performStream(v, sender, admit, reason, target)
	}
	return w.performNat(v, sender, admit, reason, target)
}

func (w *msgWorld) performStream(v *visit, carrier *h.Peer, admit bool, reason string, target *slot) bool {
	c := w.c
	m := &msg.NewVisitorConn{RunID: v.RunID, ProxyName: v.Name, SignKey: v.Key, Timestamp: v.Ts, UseEncryption: v.Enc, UseCompression: v.Comp}
	conn, resp, err := carrier.OpenVisitorConn(m, replyGrace)
	if err != nil {
		c.Ev("visit-no-reply", "k", v.K, "err", err.Error())
		if carrier.Closed() || isTimeout(err) {
			if target != nil {
				w.flagged[target.Name]++
			}
			run.Inconclusive("stream visitor: no reply (watchdog / carrier gone)")
			return !carrier.Closed()
		}
		if !admit {
			c.Violation("stream-refusal-without-error-reply", "NewVisitorConn that must be refused (%s) was not answered with an error: the connection ended with %v", reason, err)
		} else {
			w.flagged[target.Name]++ // the owner may have been reached for it: its transcript is not judged
			run.Inconclusive("stream visitor: admissible request got no reply")
		}
		return true
	}
	defer conn.Close()
	c.Ev("visit-reply", "k", v.K, "error", resp.Error)
	if resp.Error != "" {
		run.Count("refused_observed", 1)
		if admit {
			c.Violation("admissible-stream-visitor-refused", "NewVisitorConn signed with the key of %s by user %q (allow-list %v, owner %q) was refused: %s",
				target.Name, v.User, target.Allow, target.OwnerUser, resp.Error)
			return true
		}
		// a refused connection is closed by the server and carries nothing else
		if leftOpenSeen.Load() >= 3 {
			return true // reported already; do not spend 20 s per refusal on a tree that never closes them
		}
		_ = conn.SetReadDeadline(time.Now().Add(20 * time.Second))
		buf := make([]byte, 64)
		n, rerr := conn.Read(buf)
		switch {
		case n > 0:
			c.Violation("data-after-refusal", "refused visitor connection (%s) received %d more bytes after the error reply: %q", reason, n, buf[:n])
		case isTimeout(rerr):
			leftOpenSeen.Add(1)
			c.Violation("refused-visitor-connection-left-open", "visitor connection refused with %q (%s) is still open 20 s after the error reply", resp.Error, reason)
		}
		return true
	}
	// success reply
	sk := w.slots[v.Slot].Sk
	if target != nil {
		sk = target.Sk
	}
	nonce := w.nonce(v.K)
	if !admit {
		if target != nil {
			w.flagged[target.Name]++
		}
		// who is behind it?
		reached := "nobody answered"
		if rwc, werr := h.Wrap(conn, sk, v.Enc, v.Comp); werr == nil {
			_ = conn.SetDeadline(time.Now().Add(5 * time.Second))
			if id, ierr := identExchange(rwc, nonce); ierr == nil {
				reached = "answered by " + id
			}
		}
		c.Violation("stream-visitor-admitted-"+reason, "NewVisitorConn{proxy %q, ts %d (%s), key %s, run id %s -> user %q} got a success reply although the model refuses it (%s); %s; proxy: %s",
			v.Name, v.Ts, v.TsVar, v.KeyVar, v.RunVar, v.User, reason, reached, describeTarget(target))
		return true
	}
	run.Count("admitted_observed", 1)
	if w.admittedNonce[target.Name] == nil {
		w.admittedNonce[target.Name] = map[string]bool{}
	}
	w.admittedNonce[target.Name][nonce] = true
	rwc, err := h.Wrap(conn, sk, v.Enc, v.Comp)
	if err != nil {
		w.flagged[target.Name]++
		run.Inconclusive("wrap failed")
		return true
	}
	_ = conn.SetDeadline(time.Now().Add(60 * time.Second))
	id, err := identExchange(rwc, nonce)
	if err != nil {
		c.Ev("ident-failed", "k", v.K, "err", err.Error())
		if isTimeout(err) {
			run.Inconclusive("admitted visitor: ident exchange timed out")
			return true
		}
		c.Violation("admitted-stream-not-transparent", "admitted visitor stream to %s (visitor enc=%v comp=%v, proxy enc=%v comp=%v): ident exchange failed: %v",
			target.Name, v.Enc, v.Comp, target.Enc, target.Comp, err)
		return true
	}
	want := fmt.Sprintf("O%d|%s", target.Owner, target.Name)
	if id != want {
		c.Violation("visitor-bridged-to-wrong-proxy", "visitor admitted to %s was answered by %q, want %q", target.Name, id, want)
		return true
	}
	// stream monitor through visitor wrappers -> frps -> proxy wrappers -> owner echo and back
	size := int64(1 + w.rng.Intn(32<<10))
	if w.rng.Intn(8) == 0 {
		size = int64(64<<10 + w.rng.Intn(256<<10))
	}
	if run.Thorough() && w.rng.Intn(16) == 0 {
		size = int64(1<<20 + w.rng.Intn(2<<20))
	}
	seed, class := w.rng.Int63(), w.rng.Intn(h.NumClasses)
	wr := rand.New(rand.NewSource(w.rng.Int63()))
	var wg sync.WaitGroup
	var werr error
	wg.Add(1)
	go func() {
		defer wg.Done()
		_, werr = h.WriteStream(rwc, seed, class, size, wr, 8192, false)
	}()
	n, _, mismatch, rerr := h.ReadStream(rwc, seed, class, size, 16384)
	wg.Wait()
	combo := fmt.Sprintf("visitor enc=%v comp=%v, proxy enc=%v comp=%v, %s", v.Enc, v.Comp, target.Enc, target.Comp, target.Type)
	switch {
	case mismatch:
		c.Violation("admitted-stream-not-transparent", "echo through %s (%s): %v", target.Name, combo, rerr)
	case rerr != nil && isTimeout(rerr):
		run.Inconclusive("admitted visitor: stream watchdog")
	case rerr != nil || n != size:
		c.Violation("admitted-stream-truncated", "echo through %s (%s): %d of %d bytes came back (read error %v, write error %v)", target.Name, combo, n, size, rerr, werr)
	default:
		run.Count("stream_bytes_verified", n)
		run.Count("streams_verified", 1)
		run.Distinct(fmt.Sprintf("stream|%s|%s|%v%v%v%v|%d", w.e.id, target.Type, v.Enc, v.Comp, target.Enc, target.Comp, class))
	}
	return true
}

func describeTarget(s *slot) string {
	if s == nil {
		return "none live under that name"
	}
	return fmt.Sprintf("%s %s gen %d, allow-list %q, owner user %q", s.Type, s.Name, s.Gen, s.Allow, s.OwnerUser)
}

func (w *msgWorld) performNat(v *visit, sender *h.Peer, admit bool, reason string, target *slot) bool {
	c := w.c
	pre := v.Kind == "precheck"
	tid := fmt.Sprintf("%st%d", w.pfx, v.K)
	m := &msg.NatHoleVisitor{TransactionID: tid, ProxyName: v.Name, PreCheck: pre, Protocol: "quic", SignKey: v.Key, Timestamp: v.Ts,
		MappedAddrs: visitorAddrs(v.Sender+1, v.K), AssistedAddrs: []string{"192.168.9.9:20000"}}
	isResp := func(x msg.Message) bool { r, ok := x.(*msg.NatHoleResp); return ok && r.TransactionID == tid }
	before := 0
	if target != nil {
		before = w.ol.sidCount(target.Name)
	}
	if pre {
		w.e.xtcpMu.RLock()
	}
	g := grace()
	err := sender.Send(m)
	var got msg.Message
	if err == nil && (pre || !admit) {
		got, err = sender.WaitMsg(g, isResp)
		if err != nil && !sender.Closed() {
			watchdogHits.Add(1)
		}
	}
	if pre {
		w.e.xtcpMu.RUnlock()
	}
	if sender.Closed() {
		run.Inconclusive("nat-hole visitor: sender session ended")
		return false
	}
	kindKey := "nathole-session"
	if pre {
		kindKey = "nathole-precheck"
	}
	if pre || !admit {
		notified := target != nil && w.ol.sidCount(target.Name) > before
		if err != nil {
			c.Ev("nat-no-reply", "k", v.K, "err", err.Error())
			if notified {
				w.flagged[target.Name]++
				c.Violation(kindKey+"-admitted-"+reason, "NatHoleVisitor{proxy %q, pre_check %v, key %s, ts %s} from user %q: the owner received a sid although the model refuses it (%s); proxy: %s",
					v.Name, pre, v.KeyVar, v.TsVar, v.User, reason, describeTarget(target))
				return true
			}
			if !admit {
				c.Violation(kindKey+"-refusal-without-error-reply", "NatHoleVisitor{proxy %q, pre_check %v} that must be refused (%s) got no NatHoleResp within %v", v.Name, pre, reason, g)
			} else {
				run.Inconclusive("pre-check: admissible request got no reply")
			}
			return true
		}
		r := got.(*msg.NatHoleResp)
		c.Ev("nat-reply", "k", v.K, "error", r.Error, "sid", r.Sid)
		if pre && (r.Sid != "" || notified) {
			if target != nil {
				w.flagged[target.Name]++
			}
			c.Violation("nathole-precheck-created-state", "pre-check for %q produced sid %q / notified the owner (%v)", v.Name, r.Sid, notified)
			return true
		}
		switch {
		case admit && r.Error != "":
			c.Violation("admissible-precheck-refused", "pre-check for %s by user %q (allow-list %q, owner %q) was refused: %s", target.Name, v.User, target.Allow, target.OwnerUser, r.Error)
		case admit:
			run.Count("admitted_observed", 1)
		case r.Error == "":
			if target != nil {
				w.flagged[target.Name]++
			}
			c.Violation(kindKey+"-admitted-"+reason, "NatHoleVisitor{proxy %q, pre_check %v, key %s, ts %d (%s)} from user %q was answered without error (sid %q, candidates %v; owner notified: %v) although the model refuses it (%s); proxy: %s",
				v.Name, pre, v.KeyVar, v.Ts, v.TsVar, v.User, r.Sid, r.CandidateAddrs, notified, reason, describeTarget(target))
		default:
			run.Count("refused_observed", 1)
			if r.Sid != "" || len(r.CandidateAddrs) > 0 {
				c.Violation("nathole-refusal-leaks-session-data", "error reply %q carries sid %q / candidates %v", r.Error, r.Sid, r.CandidateAddrs)
			}
		}
		return true
	}
	// admissible session request: the owner must be given the sid
	if err != nil {
		run.Inconclusive("nat-hole visitor: send failed")
		return false
	}
	okSid := h.Eventually(grace(), func() bool { return w.ol.sidCount(target.Name) > before })
	if !okSid {
		watchdogHits.Add(1)
		if r, err := sender.WaitMsg(time.Millisecond, isResp); err == nil && r.(*msg.NatHoleResp).Error != "" {
			c.Violation("admissible-nathole-visitor-refused", "NatHoleVisitor signed with the key of %s by user %q (allow-list %q, owner %q) was refused: %s",
				target.Name, v.User, target.Allow, target.OwnerUser, r.(*msg.NatHoleResp).Error)
			return true
		}
		w.natUncertain = true
		run.Inconclusive("nat-hole visitor: admissible request, owner not notified within the watchdog")
		return true
	}
	run.Count("admitted_observed", 1)
	w.admittedNat[target.Name]++
	sid := w.ol.lastSid(target.Name)
	w.caseSids[sid] = true
	w.pendingNat = append(w.pendingNat, pendingNat{sender: sender, tid: tid, sid: sid, proxy: target.Name})
	return true
}

// finish: owner-side join, ledger.
func (w *msgWorld) finish() {
	c := w.c
	// replies to admitted NAT-hole requests (they arrive after the owner answered; the sender role waits 1 s)
	for _, p := range w.pendingNat {
		tid := p.tid
		got, err := p.sender.WaitMsg(grace(), func(x msg.Message) bool { r, ok := x.(*msg.NatHoleResp); return ok && r.TransactionID == tid })
		if err != nil {
			watchdogHits.Add(1)
			run.Inconclusive("nat-hole visitor: no final reply for an admitted request")
			continue
		}
		r := got.(*msg.NatHoleResp)
		if r.Error == "" && r.Sid == p.sid {
			run.Count("nathole_pairs_completed", 1)
		} else {
			c.Ev("nat-final-reply-odd", "tid", tid, "error", r.Error, "sid", r.Sid, "owner_sid", p.sid)
			run.Count("nathole_pairs_odd_reply", 1)
		}
	}
	if !w.ol.settled(25 * time.Second) {
		c.Ev("owner-unsettled")
	}
	time.Sleep(50 * time.Millisecond)
	evs := w.ol.snapshot()
	c.Data["owner_transcript"] = evs
	sidSeen := map[string]int{}
	for _, e := range evs {
		run.Count("owner_work_connections", 1)
		typ := w.ol.wire(e.Proxy).Type
		if w.flagged[e.Proxy] > 0 {
			continue // already reported from the visitor's side
		}
		if typ == "xtcp" {
			if e.Sid != "" {
				sidSeen[e.Proxy]++
			} else {
				c.Violation("owner-reached-for-refused-visitor", "owner %s got a work connection for xtcp proxy %s that carried no sid (%s); admitted requests: %d", e.Sess, e.Proxy, e.Err, w.admittedNat[e.Proxy])
			}
			continue
		}
		if e.Nonce != "" && !strings.HasPrefix(e.Nonce, "N") {
			c.Violation("owner-read-bytes-no-visitor-sent", "owner %s read %q as the first 16 bytes of a work connection for %s: no visitor of this case sent that", e.Sess, e.Nonce, e.Proxy)
		} else if e.Nonce == "" || !w.admittedNonce[e.Proxy][e.Nonce] {
			c.Violation("owner-reached-for-refused-visitor", "owner %s received StartWorkConn for %s with nonce %q (%s, done=%v) that belongs to no admitted visitor request", e.Sess, e.Proxy, e.Nonce, e.Err, e.Done)
		}
	}
	for _, s := range w.slots {
		if s.Type != "xtcp" || w.flagged[s.Name] > 0 || w.natUncertain {
			continue
		}
		if sidSeen[s.Name] != w.admittedNat[s.Name] {
			c.Violation("owner-notified-for-refused-nathole-request", "owner of %s received %d sids, the model admitted %d session requests", s.Name, sidSeen[s.Name], w.admittedNat[s.Name])
		}
	}

	// ledger: listener tables restricted to this case == model
	var wantVis, wantNat []string
	for _, s := range w.slots {
		if s.Live && s.Type == "xtcp" {
			wantNat = append(wantNat, s.Name)
		} else if s.Live {
			wantVis = append(wantVis, s.Name)
		}
	}
	sort.Strings(wantVis)
	sort.Strings(wantNat)
	snap := w.e.srv.Snapshot()
	mine := func(l []string) []string {
		var o []string
		for _, x := range l {
			if strings.HasPrefix(x, w.pfx) {
				o = append(o, x)
			}
		}
		sort.Strings(o)
		return o
	}
	if a := mine(snap.Visitors); strings.Join(a, ",") != strings.Join(wantVis, ",") {
		c.Violation("ledger-visitor-listeners", "visitor listener table %v != model %v", a, wantVis)
	}
	if a := mine(snap.NatHoleClients); strings.Join(a, ",") != strings.Join(wantNat, ",") {
		c.Violation("ledger-nathole-clients", "NAT-hole client table %v != model %v", a, wantNat)
	}
	anyFlag := 0
	for _, n := range w.flagged {
		anyFlag += n
	}
	for _, sid := range snap.NatHoleSess {
		o, ok := sidOrigin.Load(sid)
		if !ok {
			sid := sid
			if !h.Eventually(3*time.Second, func() bool { _, ok := sidOrigin.Load(sid); return ok }) {
				c.Violation("nathole-session-without-admission", "session table holds sid %s that no admitted request created", sid)
			}
			continue
		}
		if strings.HasPrefix(o.(string), w.pfx) && !w.caseSids[sid] && anyFlag == 0 && !w.natUncertain {
			c.Violation("nathole-session-for-refused-request", "session %s for %s exists although no admitted request of this case created it", sid, o)
		}
	}
	run.Count("ledger_checks", 1)
	if c.Idx < 2 {
		run.Sample(map[string]any{"kind": "message case", "slots": w.describeSlots(), "events": len(c.Log.Snapshot())})
	}
}

func (w *msgWorld) shutdown() {
	for _, v := range w.vis {
		v.Peer.Close()
	}
	for i, o := range w.owners {
		var x []string
		for _, s := range w.slots {
			if s.Type == "xtcp" && s.Owner == i && s.Gen > 0 {
				x = append(x, s.Name)
			}
		}
		closeOwner(w.e, o.Peer, x)
	}
}
