package main

import (
	"fmt"
	"strings"
	"time"

	"github.com/fatedier/frp/pkg/msg"
	"github.com/fatedier/frp/pkg/nathole"

	"verif/h"
)

// Forced hand-over cases (monitor D): an admitted NAT-hole request is parked at the controller's own hook between
// its admission check and the hand-over of the session id; meanwhile the xtcp proxy it was checked against is
// closed and the same name is registered again by another session of another user with another key and an
// allow-list that does not admit the visitor. The request was never checked against the later registration, so
// the later owner must not be handed it: no NatHoleSid for it on the later owner's work connections, no
// addresses of the later owner for the visitor, and the session leaves the table after the controller's own
// time-out.

func forcedCase(c *h.Case) {
	rng := c.Rng
	e := envs[rng.Intn(len(envs))]
	pfx := fmt.Sprintf("c%d.", c.Idx)
	name := pfx + "f"

	u1 := pick(rng, "ua", "alice", "")
	vuser := u1
	var l1 []string
	switch rng.Intn(4) {
	case 0:
		l1 = nil // default: the owner's user; the visitor logs in as that user
	case 1:
		vuser, l1 = "vis", []string{"vis"}
	case 2:
		vuser, l1 = "vis", []string{"*"}
	default:
		vuser, l1 = "vis", []string{"other", "vis"}
	}
	u2 := pick(rng, "ub", "bob", "Alice")
	var l2 []string
	l2user := u2 // a user the later registration admits (for the positive probe)
	switch rng.Intn(4) {
	case 0:
		l2 = nil
	case 1:
		l2 = []string{u2}
	case 2:
		l2, l2user = []string{"someone"}, "someone"
	default:
		// the later list would admit the visitor's user, but the request is not signed with the later key
		l2, l2user = []string{"*"}, vuser
	}
	k1, k2 := fmt.Sprintf("k1-%x", rng.Int63()), fmt.Sprintf("k2-%x", rng.Int63())
	drop := rng.Intn(3) == 0
	c.Data["server"], c.Data["gen1"], c.Data["gen2"], c.Data["visitor_user"], c.Data["drop"] = e.id,
		generation{Sk: k1, Allow: l1, OwnerUser: u1, Drop: drop}, generation{Sk: k2, Allow: l2, OwnerUser: u2}, vuser, drop

	ol1, ol2 := newOwnerLog(), newOwnerLog()
	ol1.types[name] = slotWire{Type: "xtcp"}
	ol2.types[name] = slotWire{Type: "xtcp"}
	o1, err := dial(e, u1, ol1, "F1", 1)
	if err != nil {
		run.Inconclusive("forced case: owner login failed")
		return
	}
	defer func() { closeOwner(e, o1, []string{name}) }()
	vis, err := dial(e, vuser, nil, "", 0)
	if err != nil {
		run.Inconclusive("forced case: visitor login failed")
		return
	}
	defer vis.Close()

	register := func(o *h.Peer, sk string, allow []string) (string, error) {
		e.xtcpMu.Lock()
		defer e.xtcpMu.Unlock()
		resp, err := o.NewProxy(&msg.NewProxy{ProxyName: name, ProxyType: "xtcp", Sk: sk, AllowUsers: allow}, replyGrace)
		if err != nil {
			return "", err
		}
		return resp.Error, nil
	}
	if es, err := register(o1, k1, l1); err != nil || es != "" {
		run.Inconclusive("forced case: first registration failed")
		return
	}

	sidCh := make(chan string, 8)
	rmRec := h.OnHook("nathole.visitor.afterLookup", name, func(_ string, args []any) {
		if len(args) >= 2 {
			if s, ok := args[1].(string); ok {
				select {
				case sidCh <- s:
				default:
				}
			}
		}
	})
	defer rmRec()
	gate := h.NewGate("nathole.visitor.afterLookup", name, 1)
	defer gate.Release()

	ts := time.Now().Unix()
	tid := pfx + "forced"
	isResp := func(x msg.Message) bool { r, ok := x.(*msg.NatHoleResp); return ok && r.TransactionID == tid }
	_ = vis.Send(&msg.NatHoleVisitor{TransactionID: tid, ProxyName: name, Protocol: "quic", SignKey: h.AuthKey(k1, ts), Timestamp: ts,
		MappedAddrs: visitorAddrs(7, c.Idx), AssistedAddrs: []string{"192.168.9.9:20000"}})
	if !gate.WaitArrived(20 * time.Second) {
		if r, err := vis.WaitMsg(time.Millisecond, isResp); err == nil && r.(*msg.NatHoleResp).Error != "" {
			c.Violation("admissible-nathole-visitor-refused", "NatHoleVisitor signed with the key of %s by user %q (allow-list %q, owner %q) was refused: %s", name, vuser, l1, u1, r.(*msg.NatHoleResp).Error)
			return
		}
		run.Inconclusive("forced case: hand-over gate not reached")
		return
	}
	var sid string
	select {
	case sid = <-sidCh:
	case <-time.After(5 * time.Second):
		run.Inconclusive("forced case: sid not recorded")
		return
	}
	run.Count("forced_requests_parked", 1)
	c.Ev("parked", "sid", sid)

	// generation 1 ends while the request is parked
	e.xtcpMu.Lock()
	if drop {
		o1.Close()
		namesGoneIn(e, 20*time.Second, name)
	} else {
		_ = o1.CloseProxy(name)
		_, _ = o1.Ping(replyGrace)
	}
	e.xtcpMu.Unlock()
	c.Ev("generation-1-down", "drop", drop)

	// generation 2: another session, another user, another key, a list that was never consulted for the request
	o2, err := dial(e, u2, ol2, "F2", 2)
	if err != nil {
		run.Inconclusive("forced case: second owner login failed")
		return
	}
	defer func() { closeOwner(e, o2, []string{name}) }()
	registered := false
	for deadline := time.Now().Add(20 * time.Second); time.Now().Before(deadline); time.Sleep(5 * time.Millisecond) {
		es, err := register(o2, k2, l2)
		if err != nil {
			break
		}
		if es == "" {
			registered = true
			break
		}
		c.Ev("register-retry", "error", es)
	}
	if !registered {
		run.Inconclusive("forced case: second registration failed")
		return
	}
	c.Ev("generation-2-up")
	gate.Release()
	run.Count("forced_handover_windows", 1)

	// the controller gives the hand-over up after NatHoleTimeout; bounded-progress watchdog 3x + 15 s
	watchdog := time.Duration(3*nathole.NatHoleTimeout+15) * time.Second
	inTable := func() bool {
		for _, s := range e.srv.Snapshot().NatHoleSess {
			if s == sid {
				return true
			}
		}
		return false
	}
	h.Eventually(watchdog, func() bool { return ol2.sidCount(name) > 0 || !inTable() })
	time.Sleep(100 * time.Millisecond)
	desc := fmt.Sprintf("request signed with the key of generation 1 of %s (owner %q, allow-list %q) by user %q, parked between admission and hand-over while generation 1 %s and generation 2 (owner %q, other key, allow-list %q) registered the name",
		name, u1, l1, vuser, map[bool]string{true: "dropped its session", false: "closed the proxy"}[drop], u2, l2)
	switch {
	case ol2.sidCount(name) > 0:
		extra := "the visitor got no reply yet"
		if r, err := vis.WaitMsg(3*time.Second, isResp); err == nil {
			rr := r.(*msg.NatHoleResp)
			extra = fmt.Sprintf("the visitor was answered with error %q, sid %q, candidate addresses %v", rr.Error, rr.Sid, rr.CandidateAddrs)
		}
		c.Violation("nathole-request-handed-to-later-owner-of-the-name", "%s: the generation 2 owner received NatHoleSid %s (parked sid %s); %s", desc, ol2.lastSid(name), sid, extra)
		return
	case inTable():
		c.Violation("nathole-session-left-after-owner-closed", "%s: session %s is still in the table %v after the hand-over was released", desc, sid, watchdog)
		return
	}
	if r, err := vis.WaitMsg(time.Millisecond, isResp); err == nil {
		rr := r.(*msg.NatHoleResp)
		if rr.Error == "" {
			c.Violation("nathole-request-handed-to-later-owner-of-the-name", "%s: the visitor was answered without error (sid %q, candidate addresses %v)", desc, rr.Sid, rr.CandidateAddrs)
			return
		}
		run.Count("forced_visitor_got_error", 1)
	} else {
		run.Count("forced_visitor_got_nothing", 1)
	}

	// generation 2 is live and serves a visitor holding its own credentials (the negative above is not vacuous)
	if p, err := dial(e, l2user, nil, "", 0); err == nil {
		ts := time.Now().Unix()
		_ = p.Send(&msg.NatHoleVisitor{TransactionID: pfx + "probe", ProxyName: name, Protocol: "quic", SignKey: h.AuthKey(k2, ts), Timestamp: ts,
			MappedAddrs: visitorAddrs(8, c.Idx), AssistedAddrs: []string{"192.168.9.9:20000"}})
		if h.Eventually(replyGrace, func() bool { return ol2.sidCount(name) > 0 }) {
			run.Count("forced_generation2_serves_its_own_visitor", 1)
		} else {
			run.Inconclusive("forced case: generation 2 did not serve its own visitor within the watchdog")
		}
		p.Close()
	}
	run.Distinct(strings.Join([]string{"forced", e.id, allowShape(l1, u1), allowShape(l2, u2), fmt.Sprint(drop), fmt.Sprint(l2user == vuser)}, "|"))
	if c.Idx%5 == 0 {
		run.Sample(map[string]any{"kind": "forced hand-over", "gen1": c.Data["gen1"], "gen2": c.Data["gen2"], "visitor_user": vuser})
	}
}
