package main

import (
	"bytes"
	"fmt"
	"io"
	"math/rand"
	"net"
	"strings"
	"sync"
	"time"

	"verif/h"
)

// Real clients: a real frpc owner (user "own") with stcp and sudp proxies for the 16 combinations of
// proxy enc/comp x visitor enc/comp, real frpc visitors of the same user (A) and of user "eve" (B).
// Nonces / datagrams of requests that must be refused start with 'X', all others with 'L': a backend that
// ever sees an 'X' was contacted for a refused visitor.

const perEnvReal = 43

type nonceBackend struct {
	id string
	b  *h.TCPBackend
	mu sync.Mutex
	ns []string
}

func startNonceBackend(id string) (*nonceBackend, error) {
	nb := &nonceBackend{id: id}
	b, err := h.StartTCPBackend(0, func(_ *h.TCPBackend, c net.Conn) {
		nonce := make([]byte, 16)
		if _, err := io.ReadFull(c, nonce); err != nil {
			return
		}
		nb.mu.Lock()
		nb.ns = append(nb.ns, string(nonce))
		nb.mu.Unlock()
		if _, err := c.Write(append([]byte(id+"||"), nonce...)); err != nil {
			return
		}
		_, _ = io.Copy(c, c)
	})
	nb.b = b
	return nb, err
}

func (nb *nonceBackend) nonces() []string {
	nb.mu.Lock()
	defer nb.mu.Unlock()
	return append([]string(nil), nb.ns...)
}

type realEnv struct {
	e       *env
	clients []*h.Client
	tcp     map[string]*nonceBackend // proxy name -> backend
	udp     map[string]*h.UDPBackend // proxy name -> backend
	bind    map[string]int           // visitor name -> local port
	stcpVis []string
	slow    *stallBackend
	delay   map[string]*delayBackend // proxy name -> backend that answers "slow" datagrams late (dgram.go)
	err     error
}

var (
	realOnce [2]sync.Once
	realEnvs [2]*realEnv
)

func realCaseCount() int { return 2 * perEnvReal * run.N(3, 12) }

func combo(j int) (pe, pc, ve, vc bool) { return j&1 != 0, j&2 != 0, j&4 != 0, j&8 != 0 }

func getRealEnv(i int) *realEnv {
	realOnce[i].Do(func() { realEnvs[i] = setupReal(envs[i]) })
	return realEnvs[i]
}

func setupReal(e *env) *realEnv {
	re := &realEnv{e: e, tcp: map[string]*nonceBackend{}, udp: map[string]*h.UDPBackend{}, bind: map[string]int{}, delay: map[string]*delayBackend{}}
	common := func(user string) string {
		return fmt.Sprintf("serverAddr = \"127.0.0.1\"\nserverPort = %d\nuser = %q\nauth.token = %q\nloginFailExit = false\ntransport.tcpMux = %v\n",
			e.port, user, token, e.tcpMux)
	}
	var own, visA, visB strings.Builder
	own.WriteString(common("own"))
	visA.WriteString(common("own"))
	visB.WriteString(common("eve"))
	var proxyNames []string
	addProxy := func(name, typ, allow string, enc, comp bool) bool {
		port := 0
		if typ == "stcp" {
			nb, err := startNonceBackend("B-" + name)
			if err != nil {
				re.err = err
				return false
			}
			re.tcp[name] = nb
			port = nb.b.Port
		} else {
			ub, err := h.StartUDPBackend(0, 4096, func(p []byte) [][]byte { return [][]byte{p} })
			if err != nil {
				re.err = err
				return false
			}
			re.udp[name] = ub
			port = ub.Port
		}
		fmt.Fprintf(&own, "\n[[proxies]]\nname = %q\ntype = %q\nsecretKey = %q\nlocalIP = \"127.0.0.1\"\nlocalPort = %d\ntransport.useEncryption = %v\ntransport.useCompression = %v\n",
			name, typ, "sk-"+name, port, enc, comp)
		if allow != "" {
			fmt.Fprintf(&own, "allowUsers = [%s]\n", allow)
		}
		proxyNames = append(proxyNames, "own."+name)
		return true
	}
	addVisitor := func(sb *strings.Builder, vname, typ, server, sk string, foreign bool, enc, comp bool) {
		port := pa.Get()
		re.bind[vname] = port
		if typ == "stcp" {
			re.stcpVis = append(re.stcpVis, vname)
		}
		fmt.Fprintf(sb, "\n[[visitors]]\nname = %q\ntype = %q\nserverName = %q\nsecretKey = %q\nbindAddr = \"127.0.0.1\"\nbindPort = %d\ntransport.useEncryption = %v\ntransport.useCompression = %v\n",
			vname, typ, server, sk, port, enc, comp)
		if foreign {
			fmt.Fprintf(sb, "serverUser = \"own\"\n")
		}
	}
	for j := 0; j < 16; j++ {
		pe, pc, ve, vc := combo(j)
		if !addProxy(fmt.Sprintf("s%d", j), "stcp", "", pe, pc) || !addProxy(fmt.Sprintf("u%d", j), "sudp", "", pe, pc) {
			return re
		}
		addVisitor(&visA, fmt.Sprintf("vs%d", j), "stcp", fmt.Sprintf("s%d", j), fmt.Sprintf("sk-s%d", j), false, ve, vc)
		addVisitor(&visA, fmt.Sprintf("vu%d", j), "sudp", fmt.Sprintf("u%d", j), fmt.Sprintf("sk-u%d", j), false, ve, vc)
	}
	for _, p := range []struct{ name, typ, allow string }{
		{"ownonly", "stcp", ""}, {"open", "stcp", `"*"`}, {"eveok", "stcp", `"eve"`}, {"uonly", "sudp", ""}, {"uopen", "sudp", `"*"`},
	} {
		if !addProxy(p.name, p.typ, p.allow, true, false) {
			return re
		}
	}
	// long-lived stall variant (long.go): a backend the harness can pause
	if sb, err := startStallBackend("B-slow"); err != nil {
		re.err = err
		return re
	} else {
		re.slow = sb
		fmt.Fprintf(&own, "\n[[proxies]]\nname = \"slow\"\ntype = \"stcp\"\nsecretKey = \"sk-slow\"\nlocalIP = \"127.0.0.1\"\nlocalPort = %d\n", sb.b.Port)
		proxyNames = append(proxyNames, "own.slow")
	}
	for i, o := range []struct{ pe, pc, ve, vc bool }{{false, false, false, false}, {true, false, false, true}} {
		db, err := startDelayBackend()
		if err != nil {
			re.err = err
			return re
		}
		name := fmt.Sprintf("ud%d", i)
		re.delay[name] = db
		fmt.Fprintf(&own, "\n[[proxies]]\nname = %q\ntype = \"sudp\"\nsecretKey = %q\nlocalIP = \"127.0.0.1\"\nlocalPort = %d\ntransport.useEncryption = %v\ntransport.useCompression = %v\n",
			name, "sk-"+name, db.port, o.pe, o.pc)
		proxyNames = append(proxyNames, "own."+name)
		addVisitor(&visA, "v"+name, "sudp", name, "sk-"+name, false, o.ve, o.vc)
	}
	addVisitor(&visA, "vslow", "stcp", "slow", "sk-slow", false, false, false)
	addVisitor(&visA, "a-ownonly-badkey", "stcp", "ownonly", "sk-ownonlY", false, false, false)
	addVisitor(&visA, "a-eveok", "stcp", "eveok", "sk-eveok", false, false, true)
	addVisitor(&visA, "a-uonly-badkey", "sudp", "uonly", "", false, false, false)
	addVisitor(&visB, "b-ownonly", "stcp", "ownonly", "sk-ownonly", true, true, false)
	addVisitor(&visB, "b-open", "stcp", "open", "sk-open", true, true, true)
	addVisitor(&visB, "b-eveok", "stcp", "eveok", "sk-eveok", true, false, false)
	addVisitor(&visB, "b-open-badkey", "stcp", "open", "sk-open ", true, false, false)
	addVisitor(&visB, "b-uonly", "sudp", "uonly", "sk-uonly", true, false, false)
	addVisitor(&visB, "b-uopen", "sudp", "uopen", "sk-uopen", true, false, true)

	oc, err := h.StartClientText(prop, own.String())
	if err != nil {
		re.err = err
		return re
	}
	re.clients = append(re.clients, oc)
	if err := oc.WaitRunning(30*time.Second, proxyNames...); err != nil {
		re.err = err
		return re
	}
	for _, t := range []string{visA.String(), visB.String()} {
		vc, err := h.StartClientText(prop, t)
		if err != nil {
			re.err = err
			return re
		}
		re.clients = append(re.clients, vc)
	}
	// stcp visitors listen once the client is logged in
	for _, n := range re.stcpVis {
		if err := h.WaitTCP(fmt.Sprintf("127.0.0.1:%d", re.bind[n]), 30*time.Second); err != nil {
			re.err = fmt.Errorf("visitor %s: %w", n, err)
			return re
		}
	}
	return re
}

func realCase(c *h.Case, k int) {
	ei := k % 2
	j := (k / 2) % perEnvReal
	round := k / (2 * perEnvReal)
	re := getRealEnv(ei)
	if re.err != nil {
		run.Inconclusive("real clients: setup failed: " + re.err.Error())
		return
	}
	c.Data["server"], c.Data["real_case"], c.Data["round"] = re.e.id, j, round
	rng := c.Rng
	switch {
	case j < 16:
		pe, pc, ve, vc := combo(j)
		realStream(c, re, fmt.Sprintf("vs%d", j), fmt.Sprintf("s%d", j), true, ve, vc, fmt.Sprintf("stcp proxy enc=%v comp=%v visitor enc=%v comp=%v", pe, pc, ve, vc), rng)
	case j < 32:
		pe, pc, ve, vc := combo(j - 16)
		realDgram(c, re, fmt.Sprintf("vu%d", j-16), fmt.Sprintf("u%d", j-16), true, ve, vc, fmt.Sprintf("sudp proxy enc=%v comp=%v visitor enc=%v comp=%v", pe, pc, ve, vc), rng)
	case j == 32:
		realStream(c, re, "a-ownonly-badkey", "ownonly", false, false, false, "stcp visitor of the owner's user with a wrong key", rng)
	case j == 33:
		realStream(c, re, "b-ownonly", "ownonly", false, true, false, "stcp visitor with the right key, user eve, default allow-list (owner's user only)", rng)
	case j == 34:
		realStream(c, re, "b-open", "open", true, true, true, "stcp visitor of user eve, allow-list *", rng)
	case j == 35:
		realStream(c, re, "b-eveok", "eveok", true, false, false, "stcp visitor of user eve, allow-list [eve]", rng)
	case j == 36:
		realStream(c, re, "a-eveok", "eveok", false, false, true, "stcp visitor of the owner's own user, allow-list [eve]", rng)
	case j == 37:
		realStream(c, re, "b-open-badkey", "open", false, false, false, "stcp visitor of user eve, allow-list *, key with a trailing space", rng)
	case j == 38:
		realDgram(c, re, "a-uonly-badkey", "uonly", false, false, false, "sudp visitor of the owner's user with an empty key", rng)
	case j == 39:
		realDgram(c, re, "b-uonly", "uonly", false, false, false, "sudp visitor with the right key, user eve, default allow-list", rng)
	case j == 40:
		realDgram(c, re, "b-uopen", "uopen", true, false, true, "sudp visitor of user eve, allow-list *", rng)
	case j == 41:
		realDgramShared(c, re, "vud0", "ud0", "two users and bursts on one sudp visitor, no enc/comp", rng)
	default:
		realDgramShared(c, re, "vud1", "ud1", "two users and bursts on one sudp visitor, proxy enc, visitor comp", rng)
	}
}

func realNonce(c *h.Case, legit bool) string {
	t := "X"
	if legit {
		t = "L"
	}
	return fmt.Sprintf("%sR%06dT%07d", t, c.Idx%1000000, h.Now()%10000000)
}

// stcpSilent: like sudpSilent, for admitted stcp sessions that carry nothing.
var stcpSilent sync.Map

func realStream(c *h.Case, re *realEnv, visitor, proxy string, legit bool, ve, vc bool, what string, rng *rand.Rand) {
	key := fmt.Sprintf("stcp-visitor-session-not-transparent-enc-%v-comp-%v", ve, vc)
	addr := fmt.Sprintf("127.0.0.1:%d", re.bind[visitor])
	conn, err := net.DialTimeout("tcp", addr, 10*time.Second)
	if err != nil {
		run.Inconclusive("real stcp: visitor port not reachable")
		return
	}
	defer conn.Close()
	nonce := realNonce(c, legit)
	c.Ev("real-stream", "visitor", visitor, "proxy", proxy, "legit", legit, "nonce", nonce)
	run.Count("real_connections", 1)
	if !legit {
		_ = conn.SetDeadline(time.Now().Add(20 * time.Second))
		_, _ = conn.Write([]byte(nonce))
		buf := make([]byte, 64)
		n, rerr := conn.Read(buf)
		switch {
		case n > 0:
			c.Violation("real-visitor-bridged-without-credentials", "%s: the user connection received %q", what, buf[:n])
		case isTimeout(rerr):
			run.Inconclusive("real stcp: refused visitor did not close the user connection within the watchdog")
		default:
			run.Count("real_refusals_observed", 1)
		}
		run.Distinct(fmt.Sprintf("real|%s|%s|refused", re.e.id, visitor))
		return
	}
	// bounded-progress watchdog on a path without timers: 16 bytes there, an answer back
	wd := 60 * time.Second
	if n, ok := stcpSilent.Load(key); ok && n.(int) >= 2 {
		wd = 8 * time.Second
	}
	_ = conn.SetDeadline(time.Now().Add(wd))
	id, err := identExchange(conn, nonce)
	if err != nil {
		if isTimeout(err) {
			n, _ := stcpSilent.LoadOrStore(key, 0)
			stcpSilent.Store(key, n.(int)+1)
		}
		c.Violation(key, "%s (visitor %s -> proxy %s on %s): ident exchange through an admitted real stcp visitor session failed: %v", what, visitor, proxy, re.e.id, err)
		return
	}
	_ = conn.SetDeadline(time.Now().Add(90 * time.Second))
	if id != "B-"+proxy+"|" {
		c.Violation("visitor-bridged-to-wrong-proxy", "%s: visitor %s answered by %q, want backend of %s", what, visitor, id, proxy)
		return
	}
	size := int64(1 + rng.Intn(96<<10))
	if run.Thorough() && rng.Intn(4) == 0 {
		size = int64(512<<10 + rng.Intn(2<<20))
	}
	seed, class := rng.Int63(), rng.Intn(h.NumClasses)
	wr := rand.New(rand.NewSource(rng.Int63()))
	var wg sync.WaitGroup
	wg.Add(1)
	go func() {
		defer wg.Done()
		_, _ = h.WriteStream(conn, seed, class, size, wr, 16384, false)
	}()
	n, _, mismatch, rerr := h.ReadStream(conn, seed, class, size, 32768)
	wg.Wait()
	switch {
	case mismatch:
		c.Violation(key, "%s: %v", what, rerr)
	case rerr != nil && isTimeout(rerr):
		run.Inconclusive("real stcp: stream watchdog")
	case rerr != nil || n != size:
		c.Violation(key, "%s: %d of %d bytes came back (%v)", what, n, size, rerr)
	default:
		run.Count("stream_bytes_verified", n)
		run.Count("real_streams_verified", 1)
		run.Distinct(fmt.Sprintf("real|%s|%s|class%d", re.e.id, visitor, class))
	}
}

// sudpSilent counts sudp sessions already reported as carrying nothing, per key: later cases of a tree that is
// broken in that combination do not wait for the full watchdog again.
var sudpSilent sync.Map

// realDgram drives a real sudp visitor (frpc visitor of type sudp bound to a local UDP port; ve / vc are its
// own useEncryption / useCompression) with tagged datagrams that the owner's UDP backend echoes. Transparent
// means: at least one datagram comes back byte-exact (UDP: resent every 350 ms for up to 30 s, a bounded-progress
// watchdog on a path without timers) and nothing that was not sent ever arrives.
func realDgram(c *h.Case, re *realEnv, visitor, proxy string, legit bool, ve, vc bool, what string, rng *rand.Rand) {
	key := fmt.Sprintf("sudp-visitor-session-not-transparent-enc-%v-comp-%v", ve, vc)
	ua, _ := net.ResolveUDPAddr("udp", fmt.Sprintf("127.0.0.1:%d", re.bind[visitor]))
	conn, err := net.DialUDP("udp", nil, ua)
	if err != nil {
		run.Inconclusive("real sudp: dial failed")
		return
	}
	defer conn.Close()
	tag := "X"
	if legit {
		tag = "L"
	}
	nd := 4 + rng.Intn(12)
	sent := map[string]bool{}
	var list [][]byte
	for i := 0; i < nd; i++ {
		p := []byte(fmt.Sprintf("%sD%06d#%03d|", tag, c.Idx%1000000, i))
		p = append(p, h.StreamBytes(rng.Int63(), rng.Intn(h.NumClasses), rng.Intn(1100))...)
		sent[string(p)] = true
		list = append(list, p)
	}
	c.Ev("real-dgram", "visitor", visitor, "proxy", proxy, "legit", legit, "datagrams", nd)
	run.Count("real_datagrams_sent", int64(nd))
	got := 0
	buf := make([]byte, 4096)
	start := time.Now()
	deadline := start.Add(30 * time.Second)
	if n, ok := sudpSilent.Load(key); ok && n.(int) >= 2 {
		deadline = time.Now().Add(5 * time.Second)
	}
	if !legit {
		deadline = time.Now().Add(700 * time.Millisecond)
	}
	for round := 0; time.Now().Before(deadline) && got < nd; round++ {
		for _, p := range list {
			_, _ = conn.Write(p)
			time.Sleep(200 * time.Microsecond)
		}
		_ = conn.SetReadDeadline(time.Now().Add(350 * time.Millisecond))
		for {
			n, err := conn.Read(buf)
			if err != nil {
				break
			}
			if !legit {
				c.Violation("real-visitor-bridged-without-credentials", "%s: a datagram came back: %q", what, buf[:min(n, 40)])
				return
			}
			if !sent[string(buf[:n])] {
				c.Violation(key, "%s: echoed datagram of %d bytes is none of the %d datagrams sent (starts %q)", what, n, nd, buf[:min(n, 24)])
				return
			}
			got++
		}
	}
	if legit {
		if got == 0 {
			atBackend := 0
			pfx := fmt.Sprintf("LD%06d#", c.Idx%1000000)
			if ub := re.udp[proxy]; ub != nil {
				for _, d := range ub.Datagrams() {
					if strings.HasPrefix(string(d.Payload), pfx) {
						atBackend++
					}
				}
			}
			n, _ := sudpSilent.LoadOrStore(key, 0)
			sudpSilent.Store(key, n.(int)+1)
			c.Violation(key, "%s (visitor %s -> proxy %s on %s): %d distinct datagrams resent for %v through an admitted sudp visitor session, none was echoed; the owner's backend received %d of them",
				what, visitor, proxy, re.e.id, nd, time.Since(start).Round(time.Second), atBackend)
			return
		}
		run.Count("real_datagrams_verified", int64(got))
		run.Distinct(fmt.Sprintf("real|%s|%s|dgram", re.e.id, visitor))
	} else {
		run.Count("real_refusals_observed", 1)
		run.Distinct(fmt.Sprintf("real|%s|%s|refused", re.e.id, visitor))
	}
}

// realFinal: no backend may ever have seen a nonce / datagram of a request that had to be refused, and the
// backends of proxies that only refused visitors were sent to must never have been contacted at all.
func realFinal() {
	for i := range realEnvs {
		re := realEnvs[i]
		if re == nil || re.err != nil {
			continue
		}
		time.Sleep(300 * time.Millisecond)
		for name, nb := range re.tcp {
			for _, n := range nb.nonces() {
				if strings.HasPrefix(n, "X") {
					run.Violation("backend-contacted-for-refused-visitor", "server %s: backend of stcp proxy %s received nonce %q of a visitor that had to be refused", re.e.id, name, n)
				}
			}
			if name == "ownonly" && nb.b.Accepts.Load() != 0 {
				run.Violation("backend-contacted-for-refused-visitor", "server %s: backend of %s was connected to %d times although every visitor sent to it had to be refused", re.e.id, name, nb.b.Accepts.Load())
			}
			run.Count("real_backend_accepts", nb.b.Accepts.Load())
		}
		for name, ub := range re.udp {
			for _, d := range ub.Datagrams() {
				if bytes.HasPrefix(d.Payload, []byte("X")) || name == "uonly" {
					run.Violation("backend-contacted-for-refused-visitor", "server %s: backend of sudp proxy %s received datagram %q of a visitor that had to be refused", re.e.id, name, d.Payload[:min(len(d.Payload), 24)])
					break
				}
			}
		}
		for _, cl := range re.clients {
			cl.Close()
		}
		for _, nb := range re.tcp {
			nb.b.Close()
		}
		for _, ub := range re.udp {
			ub.Close()
		}
		if re.slow != nil {
			re.slow.b.Close()
		}
		for _, db := range re.delay {
			db.conn.Close()
		}
	}
}
