// C08 — Secret proxies admit only visitors holding the key and an allowed user.
//
// Monitors (DESIGN.md §5/C08):
//
//	A. message cases (msgcase.go): generated NewVisitorConn / NatHoleVisitor (pre-check and session) messages of
//	   scripted visitor sessions against stcp / sudp / xtcp proxies of scripted owners, interleaved with closures
//	   and re-registrations (other key, other allow-list, other owner user). A reference model (own md5, exact
//	   user matching, default = owner's user, "*" = anyone) says admit / refuse for every message; judged are the
//	   visitor's transcript (error reply for every refusal, refused connection closed, success reply only when the
//	   model admits), the owner's transcript (every StartWorkConn / NatHoleSid is joined on a nonce / counted
//	   against the admitted requests), the ledger (visitor listeners, NAT-hole clients and sessions against the
//	   model) and the stream monitor on every admitted stream under visitor enc/comp x proxy enc/comp.
//	B. order cases (order.go): visitors with fixed credentials hammer one name while generations of owners
//	   (each with its own key, allow-list and user) register, close, drop and re-register it, with PRNG delays at
//	   the registration hooks: whoever is reached (owner-side nonce, visitor-side ident) must hold the key and an
//	   allowed user of exactly the generation that was reached.
//	D. forced hand-over (forced.go): an admitted NAT-hole request is parked at the controller's hook between admission
//	   and hand-over while the name changes hands (other owner, user, key, allow-list): the later owner must not get it.
//	E. long-lived streams (long.go): an admitted stcp stream through real frpc visitor and owner is verified, left idle
//	   for longer than the visitor's 10 s handshake limit, and verified again (also with a backend that stalls until
//	   the pipeline is full), tcpMux on and off.
//	C. real clients (real.go): real frpc owner + real frpc visitors (stcp and sudp) for the 16 combinations of
//	   visitor / proxy encryption and compression (stream / datagram monitor), and real visitors with a wrong
//	   key or a user outside the allow-list whose backends must never be contacted.
package main

import (
	"fmt"
	"io"
	"os"
	"strings"
	"sync"
	"sync/atomic"
	"time"

	"github.com/fatedier/frp/pkg/msg"

	"verif/h"
)

const prop = "C08"
const token = "c08-token"

var run *h.Run
var pa *h.PortAlloc

// replyGrace bounds "a reply exists": frps answers a visitor message synchronously, no timer is configured;
// this is a bounded-progress watchdog only.
const replyGrace = 30 * time.Second

// watchdogHits counts expired reply watchdogs. On a tree that answers (every tree on which the check is silent) it
// stays 0; once several full-length watchdogs have expired (each already reported), later waits are shortened so
// that a tree which never answers does not take hours.
var watchdogHits atomic.Int64

func grace() time.Duration {
	if watchdogHits.Load() >= 6 {
		return 4 * time.Second
	}
	return replyGrace
}

// env is one real frps shared by many cases (names embed the case id).
type env struct {
	id       string
	srv      *h.Server
	port     int
	tcpMux   bool
	detailed bool
	// xtcpMu serialises xtcp registration / closure against pre-check requests of other cases: the pinned
	// controller reads its client table without the lock in the pre-check branch (DESIGN §6 F9, judged by
	// C16); an unsynchronised map access there can abort the whole process, which is not this property.
	xtcpMu sync.RWMutex
}

var envs []*env

func startEnvs() {
	for i, o := range []struct{ mux, detailed bool }{{true, true}, {false, false}} {
		port := pa.Get()
		srv, err := h.StartServerText(prop, fmt.Sprintf(`
bindAddr = "127.0.0.1"
bindPort = %d
auth.token = "%s"
allowPorts = [{start=18990,end=18999}]
userConnTimeout = 5
transport.maxPoolCount = 2
transport.tcpMux = %v
transport.heartbeatTimeout = -1
detailedErrorsToClient = %v
`, port, token, o.mux, o.detailed))
		if err != nil {
			fmt.Fprintln(os.Stderr, "server:", err)
			os.Exit(h.ExitHarnessError)
		}
		envs = append(envs, &env{id: fmt.Sprintf("E%d", i), srv: srv, port: port, tcpMux: o.mux, detailed: o.detailed})
	}
}

// sidOrigin: NAT-hole session id -> proxy name, recorded at the controller's own hook right after it created
// the session (the hook is only reached on the admitted path of the pinned code).
var sidOrigin sync.Map

func main() {
	run = h.NewRun(prop, "exploration")
	run.Rule = "message cases: PRNG-generated visitor messages (kind x target-name variant x signature variant x timestamp variant x run-id / sender variant x declared enc/comp) against 2-4 secret proxies with generated keys and allow-lists, interleaved with closures and re-registrations; distinct = distinct (kind, proxy type, name variant, key variant, ts variant, run-id variant, allow-list shape, user relation, model verdict); order cases are distinct by (type, generations, visitor credential vector, interleaving signature); real-client cases by (server, proxy type, enc/comp combination, visitor kind); forced hand-over cases by (server, allow-list shapes of both generations, how generation 1 ends)"
	run.Assumptions = []string{
		"the visitor's authenticated user is the login user of the session named by run_id (stream visitors; empty without run_id) or of the control session that sent the NAT-hole message; an unknown run_id authenticates nobody",
		"user names are arbitrary strings except the literal \"*\" (an owner who logs in as \"*\" with an empty allow-list is not generated)",
		"pre-check requests are unsigned by honest clients: they must fail for an unknown proxy or a disallowed user and create no state; the signature is demanded only where something is bridged",
		"an admissible request that is refused is reported too (it would silently empty the admitted side of the monitors)",
		"xtcp registration / closure is serialised against pre-check requests by the harness (unsynchronised read in the pinned pre-check branch is judged by C16, not here)",
		"reply and closure watchdogs (30 s / 20 s) are bounded-progress limits on synchronous server paths, not timing verdicts",
		"a backend that speaks first on an admitted visitor connection is not generated (ordering of NewVisitorConnResp vs. early backend data is judged by C01)",
	}
	pa = h.Ports(prop)
	startEnvs()
	rmSid := h.OnHook("nathole.visitor.afterLookup", "", func(_ string, args []any) {
		if len(args) >= 2 {
			name, _ := args[0].(string)
			sid, _ := args[1].(string)
			sidOrigin.Store(sid, name)
		}
	})
	defer rmSid()

	nMsg := run.N(400, 4000)
	nOrder := run.N(150, 1500)
	nReal := realCaseCount()
	nForced := run.N(12, 72)
	total := nMsg + nOrder + nReal
	// the forced hand-over cases wait for the controller's own 10 s time-out: they run beside the other cases
	var fwg sync.WaitGroup
	fwg.Add(2)
	go func() {
		defer fwg.Done()
		run.ParallelRange(total, nForced, 6, forcedCase)
	}()
	// long-lived streams sleep for 12 s each: they run beside everything else too
	nLong := longCaseCount()
	go func() {
		defer fwg.Done()
		run.ParallelRange(total+nForced, nLong, 12, func(c *h.Case) { longCase(c, c.Idx-total-nForced) })
	}()
	run.ParallelRange(0, total, 12, func(c *h.Case) {
		switch {
		case c.Idx < nMsg:
			msgCase(c)
		case c.Idx < nMsg+nOrder:
			orderCase(c)
		default:
			realCase(c, c.Idx-nMsg-nOrder)
		}
	})
	fwg.Wait()
	if run.OnlyCase < 0 || run.OnlyCase >= nMsg+nOrder {
		realFinal()
	}
	finalLedger()
	for _, e := range envs {
		e.srv.Close()
	}
	run.Set("hook_hits", h.HookHits())
	run.Finish(run.N(800, 3000))
}

// finalLedger: at the end of the run every NAT-hole session still in a server's table must stem from a request
// that went through the controller's admitted path, and no listener of any case may be left.
func finalLedger() {
	for _, e := range envs {
		snap := e.srv.Snapshot()
		for _, sid := range snap.NatHoleSess {
			if _, ok := sidOrigin.Load(sid); !ok {
				if !h.Eventually(3*time.Second, func() bool { _, ok := sidOrigin.Load(sid); return ok }) {
					run.Violation("nathole-session-without-admission", "server %s holds NAT-hole session %s that no admitted request created", e.id, sid)
				}
			}
		}
		run.Count("final_nathole_sessions", int64(len(snap.NatHoleSess)))
	}
}

// ---------------------------------------------------------------------------------------------
// reference model

type slot struct {
	Name      string
	Type      string // stcp | sudp | xtcp
	Sk        string
	Allow     []string
	Enc, Comp bool // the proxy's own transport options (work-connection side)
	Owner     int  // index of the owning session
	OwnerUser string
	Live      bool
	Gen       int
}

func userAllowed(allow []string, ownerUser, user string) bool {
	if len(allow) == 0 {
		allow = []string{ownerUser}
	}
	for _, a := range allow {
		if a == "*" || a == user {
			return true
		}
	}
	return false
}

func allowShape(allow []string, ownerUser string) string {
	switch {
	case len(allow) == 0:
		return "default"
	case len(allow) == 1 && allow[0] == "*":
		return "star"
	case len(allow) == 1 && allow[0] == ownerUser:
		return "owner"
	case len(allow) == 1 && allow[0] == "":
		return "empty-name"
	case len(allow) == 1:
		return "one"
	}
	for _, a := range allow {
		if a == "*" {
			return "many+star"
		}
	}
	return "many"
}

// ---------------------------------------------------------------------------------------------
// owner side: a scripted session that plays owner and backend and records everything it is told

type ownerEvent struct {
	Sess  string `json:"sess"`
	Proxy string `json:"proxy"`
	Nonce string `json:"nonce,omitempty"`
	Sid   string `json:"sid,omitempty"`
	Err   string `json:"err,omitempty"`
	Done  bool   `json:"done"`
	T     int64  `json:"t_ns"`
}

type ownerLog struct {
	mu    sync.Mutex
	evs   []*ownerEvent
	types map[string]slotWire // proxy name -> wire options (fixed for the life of a case)
}

type slotWire struct {
	Type      string
	Enc, Comp bool
}

func newOwnerLog() *ownerLog { return &ownerLog{types: map[string]slotWire{}} }

func (ol *ownerLog) add(sess, proxy string) *ownerEvent {
	e := &ownerEvent{Sess: sess, Proxy: proxy, T: h.Now()}
	ol.mu.Lock()
	ol.evs = append(ol.evs, e)
	ol.mu.Unlock()
	return e
}

func (ol *ownerLog) finish(e *ownerEvent, f func(e *ownerEvent)) {
	ol.mu.Lock()
	f(e)
	e.Done = true
	ol.mu.Unlock()
}

func (ol *ownerLog) snapshot() []ownerEvent {
	ol.mu.Lock()
	defer ol.mu.Unlock()
	out := make([]ownerEvent, len(ol.evs))
	for i, e := range ol.evs {
		out[i] = *e
	}
	return out
}

func (ol *ownerLog) wire(name string) slotWire {
	ol.mu.Lock()
	defer ol.mu.Unlock()
	return ol.types[name]
}

func (ol *ownerLog) sidCount(proxy string) int {
	ol.mu.Lock()
	defer ol.mu.Unlock()
	n := 0
	for _, e := range ol.evs {
		if e.Proxy == proxy && e.Sid != "" {
			n++
		}
	}
	return n
}

func (ol *ownerLog) lastSid(proxy string) string {
	ol.mu.Lock()
	defer ol.mu.Unlock()
	for i := len(ol.evs) - 1; i >= 0; i-- {
		if ol.evs[i].Proxy == proxy && ol.evs[i].Sid != "" {
			return ol.evs[i].Sid
		}
	}
	return ""
}

// settled waits until every recorded work connection has been resolved (nonce read, sid read, or ended).
func (ol *ownerLog) settled(timeout time.Duration) bool {
	return h.Eventually(timeout, func() bool {
		ol.mu.Lock()
		defer ol.mu.Unlock()
		for _, e := range ol.evs {
			if !e.Done {
				return false
			}
		}
		return true
	})
}

// ownerAddrs are the (fake) NAT observations an owner reports; the third octet identifies the owner.
func ownerAddrs(idNum int) []string {
	a := fmt.Sprintf("10.1.%d.1:41000", idNum%250)
	return []string{a, a}
}

// visitorAddrs: the second and third octets identify the visitor request.
func visitorAddrs(v, k int) []string {
	a := fmt.Sprintf("10.2.%d.%d:%d", v%250, k%250, 20000+k%40000)
	return []string{a, a}
}

// workHandler is the owner's reaction to a StartWorkConn: it records it, then plays the backend (stream
// proxies: 16-byte nonce -> "<id>|<proxy>|" + nonce, then echo) or the xtcp client (reads the sid, answers
// with a NatHoleClient on its control connection).
func (ol *ownerLog) workHandler(id string, idNum int) func(p *h.Peer, wc *h.WorkConn) {
	return func(p *h.Peer, wc *h.WorkConn) {
		defer wc.Conn.Close()
		if wc.Start == nil || wc.Start.Error != "" {
			return
		}
		name := wc.Start.ProxyName
		ev := ol.add(id, name)
		ol.mu.Lock()
		w, ok := ol.types[name]
		ol.mu.Unlock()
		if !ok {
			ol.finish(ev, func(e *ownerEvent) { e.Err = "work connection for a proxy this case never registered" })
			return
		}
		if w.Type == "xtcp" {
			var m msg.NatHoleSid
			_ = wc.Conn.SetReadDeadline(time.Now().Add(20 * time.Second))
			if err := msg.ReadMsgInto(wc.Conn, &m); err != nil {
				ol.finish(ev, func(e *ownerEvent) { e.Err = err.Error() })
				return
			}
			ol.finish(ev, func(e *ownerEvent) { e.Sid = m.Sid })
			_ = p.Send(&msg.NatHoleClient{TransactionID: "o-" + m.Sid, ProxyName: name, Sid: m.Sid,
				MappedAddrs: ownerAddrs(idNum), AssistedAddrs: []string{fmt.Sprintf("192.168.%d.2:41000", idNum%250)}})
			return
		}
		rwc, err := h.Wrap(wc.Conn, token, w.Enc, w.Comp)
		if err != nil {
			ol.finish(ev, func(e *ownerEvent) { e.Err = err.Error() })
			return
		}
		nonce := make([]byte, 16)
		_ = wc.Conn.SetReadDeadline(time.Now().Add(20 * time.Second))
		if _, err := io.ReadFull(rwc, nonce); err != nil {
			ol.finish(ev, func(e *ownerEvent) { e.Err = err.Error() })
			return
		}
		_ = wc.Conn.SetReadDeadline(time.Time{})
		ol.finish(ev, func(e *ownerEvent) { e.Nonce = string(nonce) })
		if _, err := rwc.Write(append([]byte(id+"|"+name+"|"), nonce...)); err != nil {
			return
		}
		_, _ = io.Copy(rwc, rwc)
	}
}

// identExchange is the visitor's half of the ident protocol with a caller-chosen nonce.
func identExchange(rw io.ReadWriter, nonce string) (string, error) {
	if len(nonce) != 16 {
		panic("nonce must be 16 bytes")
	}
	if _, err := rw.Write([]byte(nonce)); err != nil {
		return "", err
	}
	buf := make([]byte, 0, 96)
	one := make([]byte, 1)
	bars := 0
	for bars < 2 {
		if _, err := io.ReadFull(rw, one); err != nil {
			return "", fmt.Errorf("ident read: %w (got %q)", err, buf)
		}
		if one[0] == '|' {
			bars++
			if bars == 2 {
				break
			}
		}
		buf = append(buf, one[0])
		if len(buf) > 400 {
			return "", fmt.Errorf("ident too long: %q", buf)
		}
	}
	back := make([]byte, 16)
	if _, err := io.ReadFull(rw, back); err != nil {
		return string(buf), err
	}
	if string(back) != nonce {
		return string(buf), fmt.Errorf("nonce mismatch: sent %q got %q", nonce, back)
	}
	return string(buf), nil
}

func isTimeout(err error) bool {
	if err == nil {
		return false
	}
	type to interface{ Timeout() bool }
	if t, ok := err.(to); ok && t.Timeout() {
		return true
	}
	return strings.Contains(err.Error(), "timeout") || strings.Contains(err.Error(), "deadline")
}

// dial logs a scripted session in on e.
func dial(e *env, user string, ol *ownerLog, id string, idNum int) (*h.Peer, error) {
	o := h.PeerOpts{ServerPort: e.port, TCPMux: e.tcpMux, Token: token, User: user}
	if ol != nil {
		o.AutoWork, o.PoolCount, o.WorkHandler = true, 1, ol.workHandler(id, idNum)
	}
	p, err := h.DialPeer(o)
	if err != nil {
		return nil, err
	}
	if !p.LoggedIn() {
		p.Close()
		return nil, fmt.Errorf("login refused: %s", p.LoginResp.Error)
	}
	return p, nil
}

func sessionGone(e *env, runID string, timeout time.Duration) bool {
	return h.Eventually(timeout, func() bool {
		for _, s := range e.srv.Snapshot().Sessions {
			if s.RunID == runID {
				return false
			}
		}
		return true
	})
}

func namesGone(e *env, timeout time.Duration, names ...string) bool {
	if watchdogHits.Load() >= 6 && timeout > 2*time.Second {
		timeout = 2 * time.Second
	}
	ok := namesGoneIn(e, timeout, names...)
	if !ok {
		watchdogHits.Add(1)
	}
	return ok
}

func namesGoneIn(e *env, timeout time.Duration, names ...string) bool {
	return h.Eventually(timeout, func() bool {
		have := map[string]bool{}
		snap := e.srv.Snapshot()
		for _, n := range snap.ProxyNames {
			have[n] = true
		}
		for _, n := range snap.Visitors {
			have[n] = true
		}
		for _, n := range snap.NatHoleClients {
			have[n] = true
		}
		for _, n := range names {
			if have[n] {
				return false
			}
		}
		return true
	})
}

// closeOwner ends an owner session; when it may hold xtcp proxies the teardown is kept apart from pre-checks.
func closeOwner(e *env, p *h.Peer, xtcpNames []string) {
	if p == nil {
		return
	}
	if len(xtcpNames) == 0 {
		p.Close()
		return
	}
	e.xtcpMu.Lock()
	p.Close()
	namesGone(e, 10*time.Second, xtcpNames...)
	e.xtcpMu.Unlock()
}

func pick[T any](rng interface{ Intn(int) int }, xs ...T) T { return xs[rng.Intn(len(xs))] }
