package main

import (
	"fmt"
	"math/rand"
	"net"
	"strings"
	"sync"
	"time"

	"verif/h"
)

// Shared sudp visitor sessions (part of monitor C): every datagram is sent exactly once, so what the owner's
// backend and the users receive can be joined on the payload:
//   (a) two local users (two sockets) share one real sudp visitor; the backend answers datagrams marked "slow"
//       300 ms late, so a reply is outstanding while the other user's datagram passes: every echo must arrive at
//       the user that sent it and at nobody else;
//   (b) one user sends small back-to-back bursts: the backend receives no datagram twice, the user receives no
//       echo twice, nothing that was not sent arrives, and at least 90 % come back (light load on loopback).

const slowMark = "|slow|"

type delayBackend struct {
	conn *net.UDPConn
	port int
	mu   sync.Mutex
	seen map[string]int // payload -> times received
}

func startDelayBackend() (*delayBackend, error) {
	ua, _ := net.ResolveUDPAddr("udp", "127.0.0.1:0")
	conn, err := net.ListenUDP("udp", ua)
	if err != nil {
		return nil, err
	}
	_ = conn.SetReadBuffer(8 << 20)
	_ = conn.SetWriteBuffer(8 << 20)
	db := &delayBackend{conn: conn, port: conn.LocalAddr().(*net.UDPAddr).Port, seen: map[string]int{}}
	go func() {
		buf := make([]byte, 8192)
		for {
			n, from, err := conn.ReadFromUDP(buf)
			if err != nil {
				return
			}
			p := append([]byte(nil), buf[:n]...)
			db.mu.Lock()
			db.seen[string(p)]++
			db.mu.Unlock()
			if strings.Contains(string(p[:min(n, 48)]), slowMark) {
				go func() {
					time.Sleep(300 * time.Millisecond)
					_, _ = conn.WriteToUDP(p, from)
				}()
			} else {
				_, _ = conn.WriteToUDP(p, from)
			}
		}
	}()
	return db, nil
}

func (db *delayBackend) count(p string) int {
	db.mu.Lock()
	defer db.mu.Unlock()
	return db.seen[p]
}

// userSock is one local user of the visitor's UDP port; it records everything it receives.
type userSock struct {
	id   string
	conn *net.UDPConn
	mu   sync.Mutex
	got  []string
	done chan struct{}
}

func newUserSock(id string, port int) (*userSock, error) {
	ua, _ := net.ResolveUDPAddr("udp", fmt.Sprintf("127.0.0.1:%d", port))
	conn, err := net.DialUDP("udp", nil, ua)
	if err != nil {
		return nil, err
	}
	_ = conn.SetReadBuffer(4 << 20)
	u := &userSock{id: id, conn: conn, done: make(chan struct{})}
	go func() {
		defer close(u.done)
		buf := make([]byte, 8192)
		for {
			n, err := conn.Read(buf)
			if err != nil {
				return
			}
			u.mu.Lock()
			u.got = append(u.got, string(buf[:n]))
			u.mu.Unlock()
		}
	}()
	return u, nil
}

func (u *userSock) received() []string {
	u.mu.Lock()
	defer u.mu.Unlock()
	return append([]string(nil), u.got...)
}

func (u *userSock) close() { u.conn.Close(); <-u.done }

func short(s string) string { return fmt.Sprintf("%q", s[:min(len(s), 28)]) }

func realDgramShared(c *h.Case, re *realEnv, visitor, proxy string, what string, rng *rand.Rand) {
	db := re.delay[proxy]
	port := re.bind[visitor]
	what = fmt.Sprintf("%s (visitor %s -> proxy %s on %s)", what, visitor, proxy, re.e.id)
	ua, err := newUserSock("A", port)
	if err != nil {
		run.Inconclusive("shared sudp: dial failed")
		return
	}
	defer ua.close()
	ub, err := newUserSock("B", port)
	if err != nil {
		run.Inconclusive("shared sudp: dial failed")
		return
	}
	defer ub.close()
	pfx := fmt.Sprintf("LS%06d", c.Idx%1000000)
	// warm-up (not judged here: the plain sudp cases judge whether a session carries anything at all)
	warm := func(u *userSock) bool {
		p := pfx + "|warm|" + u.id
		return h.Eventually(20*time.Second, func() bool {
			_, _ = u.conn.Write([]byte(p))
			time.Sleep(100 * time.Millisecond)
			for _, g := range u.received() {
				if g == p {
					return true
				}
			}
			return false
		})
	}
	if !warm(ua) || !warm(ub) {
		run.Inconclusive("shared sudp: warm-up echo missing")
		return
	}
	time.Sleep(400 * time.Millisecond) // stray warm-up echoes
	sentBy := map[string]string{}      // payload -> user id ("A" / "B"), every payload is sent exactly once
	var order []string
	send := func(u *userSock, tag string) {
		p := fmt.Sprintf("%s|%s%s#%03d|", pfx, u.id, tag, len(order))
		p += string(h.StreamBytes(rng.Int63(), h.ClassText, rng.Intn(600)))
		sentBy[p] = u.id
		order = append(order, p)
		_, _ = u.conn.Write([]byte(p))
	}
	// (a) a reply is outstanding for one user while the other user's datagram passes
	rounds := 3 + rng.Intn(3)
	for r := 0; r < rounds; r++ {
		first, second := ua, ub
		if rng.Intn(2) == 0 {
			first, second = ub, ua
		}
		send(first, slowMark)
		time.Sleep(time.Duration(20+rng.Intn(80)) * time.Millisecond)
		send(second, "|fast|")
		if rng.Intn(2) == 0 {
			time.Sleep(time.Duration(10+rng.Intn(40)) * time.Millisecond)
			send(second, "|fast|")
		}
		time.Sleep(time.Duration(350+rng.Intn(100)) * time.Millisecond)
	}
	nShared := len(order)
	// (b) back-to-back bursts from one user
	bursts := 4 + rng.Intn(4)
	for b := 0; b < bursts; b++ {
		u := ua
		if b%2 == 1 {
			u = ub
		}
		for i := 0; i < 5; i++ {
			send(u, "|burst|")
		}
		time.Sleep(time.Duration(60+rng.Intn(80)) * time.Millisecond)
	}
	c.Ev("shared-sudp-sent", "shared", nShared, "burst", len(order)-nShared)
	run.Count("shared_sudp_datagrams_sent", int64(len(order)))
	// quiescence: everything echoed, or nothing new for 1.5 s (at most 10 s)
	total := func() int { return len(ua.received()) + len(ub.received()) }
	last, lastMove := total(), time.Now()
	for deadline := time.Now().Add(10 * time.Second); time.Now().Before(deadline); time.Sleep(50 * time.Millisecond) {
		if cur := total(); cur != last {
			last, lastMove = cur, time.Now()
		}
		if time.Since(lastMove) > 1500*time.Millisecond {
			break
		}
	}
	echoed := map[string]int{}
	for _, u := range []*userSock{ua, ub} {
		for _, g := range u.received() {
			if strings.Contains(g, "|warm|") && strings.HasPrefix(g, pfx) {
				continue
			}
			owner, ok := sentBy[g]
			switch {
			case !ok:
				c.Violation("sudp-foreign-datagram", "%s: user %s received %d bytes %s that neither user of this case sent", what, u.id, len(g), short(g))
				return
			case owner != u.id:
				c.Violation("sudp-reply-delivered-to-other-user", "%s: the echo of %s, sent by user %s, was delivered to user %s (two local users share the visitor; a delayed reply was outstanding)", what, short(g), owner, u.id)
				return
			}
			echoed[g]++
		}
	}
	for _, p := range order {
		if n := db.count(p); n > 1 {
			c.Violation("sudp-datagram-duplicated", "%s: the owner's backend received %s %d times, it was sent once", what, short(p), n)
			return
		}
		if n := echoed[p]; n > 1 {
			c.Violation("sudp-datagram-duplicated", "%s: user %s received the echo of %s %d times, it was sent once", what, sentBy[p], short(p), n)
			return
		}
	}
	if len(echoed)*10 < len(order)*9 {
		atBackend := 0
		for _, p := range order {
			if db.count(p) > 0 {
				atBackend++
			}
		}
		c.Violation("sudp-datagrams-lost", "%s: %d datagrams sent once each under light load (pairs and bursts of 5), the backend received %d, only %d echoes came back", what, len(order), atBackend, len(echoed))
		return
	}
	run.Count("shared_sudp_datagrams_verified", int64(len(echoed)))
	run.Count("shared_sudp_sessions_verified", 1)
	run.Distinct(fmt.Sprintf("real|%s|%s|shared|%d|%d", re.e.id, visitor, rounds, bursts))
}
