package main

import (
	"fmt"
	"strings"
	"sync"
	"sync/atomic"
	"time"

	"github.com/fatedier/frp/pkg/msg"

	"verif/h"
)

// Order cases: one proxy name, generations of owners (each generation has its own key, allow-list and owner
// user), visitors with fixed credentials hammering the name before, during and after every generation. Whoever
// is reached must hold the credentials of exactly the generation that was reached.

type generation struct {
	Sk        string   `json:"sk"`
	Allow     []string `json:"allow"`
	OwnerUser string   `json:"owner_user"`
	Drop      bool     `json:"drop"` // ends by dropping the session instead of CloseProxy
	HoldMs    int      `json:"hold_ms"`
}

type hammer struct {
	User   string `json:"user"`
	NoRun  bool   `json:"no_run"`  // stream visitors only: message without run id (user "")
	KeyGen int    `json:"key_gen"` // generation whose key it holds (-1 = none)
}

func (hm hammer) user() string {
	if hm.NoRun {
		return ""
	}
	return hm.User
}

func (hm hammer) validFor(g int, gens []generation) bool {
	return hm.KeyGen == g && userAllowed(gens[g].Allow, gens[g].OwnerUser, hm.user())
}

func orderCase(c *h.Case) {
	rng := c.Rng
	e := envs[rng.Intn(len(envs))]
	pfx := fmt.Sprintf("c%d.", c.Idx)
	name := pfx + "r"
	typ := pick(rng, "stcp", "stcp", "stcp", "sudp", "sudp", "xtcp", "xtcp")
	users := []string{"ua", "ub", "uc"}
	nGen := 2 + rng.Intn(3)
	gens := make([]generation, nGen)
	for g := range gens {
		gens[g] = generation{Sk: fmt.Sprintf("g%d-%x", g, rng.Int63()), OwnerUser: pick(rng, "ua", "ub"), Drop: rng.Intn(3) == 0, HoldMs: 15 + rng.Intn(60)}
		switch rng.Intn(6) {
		case 0, 1:
			gens[g].Allow = nil
		case 2:
			gens[g].Allow = []string{"*"}
		case 3:
			gens[g].Allow = []string{pick(rng, users...)}
		case 4:
			gens[g].Allow = []string{"uc", pick(rng, "ua", "ub")}
		default:
			gens[g].Allow = []string{""}
		}
	}
	nv := 3 + rng.Intn(3)
	hams := make([]hammer, nv)
	var credSig []string
	for i := range hams {
		hams[i] = hammer{User: pick(rng, users...), KeyGen: rng.Intn(nGen+1) - 1}
		if typ != "xtcp" && rng.Intn(4) == 0 {
			hams[i].NoRun = true
		}
		credSig = append(credSig, fmt.Sprintf("%s/%v/%d", hams[i].User, hams[i].NoRun, hams[i].KeyGen))
	}
	enc, comp := rng.Intn(2) == 0, rng.Intn(2) == 0
	c.Data["server"], c.Data["type"], c.Data["generations"], c.Data["visitors"] = e.id, typ, gens, hams

	rmPerturb, trace := h.Perturb(rng, pfx)
	defer rmPerturb()

	if typ == "xtcp" {
		// widen the window between the admission check and the hand-over of the sid: a request parked here may
		// see the name change hands (next generation: other key, other list, other owner)
		var pmu sync.Mutex
		prng := run.RandFor("order-park", c.Idx)
		rmPark := h.OnHook("nathole.visitor.afterLookup", name, func(string, []any) {
			pmu.Lock()
			x, d := prng.Intn(100), 5+prng.Intn(45)
			pmu.Unlock()
			if x < 30 {
				time.Sleep(time.Duration(d) * time.Millisecond)
			}
		})
		defer rmPark()
	}
	ol := newOwnerLog()
	ol.types[name] = slotWire{Type: typ, Enc: enc, Comp: comp}

	// visitor sessions
	peers := make([]*h.Peer, nv)
	for i := range hams {
		p, err := dial(e, hams[i].User, nil, "", 0)
		if err != nil {
			run.Inconclusive("order case: visitor login failed")
			for _, q := range peers {
				if q != nil {
					q.Close()
				}
			}
			return
		}
		peers[i] = p
	}
	defer func() {
		for _, p := range peers {
			p.Close()
		}
	}()

	var stop atomic.Bool
	var vmu sync.Mutex
	reachedBy := map[int]map[int]int{} // visitor -> generation -> bridged connections (visitor's view)
	var attempts, bridged, refused atomic.Int64
	var wg sync.WaitGroup
	for i := range hams {
		wg.Add(1)
		go func(i int) {
			defer wg.Done()
			hm, p := hams[i], peers[i]
			lrng := run.RandFor(fmt.Sprintf("order-v%d", i), c.Idx)
			for k := 0; !stop.Load() && k < 400; k++ {
				ts := time.Now().Unix() + int64(lrng.Intn(3)) - 1
				key := "no-key-at-all"
				if hm.KeyGen >= 0 {
					key = h.AuthKey(gens[hm.KeyGen].Sk, ts)
				}
				attempts.Add(1)
				if typ == "xtcp" {
					_ = p.Send(&msg.NatHoleVisitor{TransactionID: fmt.Sprintf("%sv%dk%d", pfx, i, k), ProxyName: name, Protocol: "quic",
						SignKey: key, Timestamp: ts, MappedAddrs: visitorAddrs(i, k)})
					time.Sleep(time.Duration(1+lrng.Intn(4)) * time.Millisecond)
					continue
				}
				m := &msg.NewVisitorConn{ProxyName: name, SignKey: key, Timestamp: ts, UseEncryption: lrng.Intn(2) == 0, UseCompression: lrng.Intn(2) == 0}
				if !hm.NoRun {
					m.RunID = p.RunID
				}
				conn, resp, err := p.OpenVisitorConn(m, replyGrace)
				if err != nil {
					continue
				}
				if resp.Error != "" {
					refused.Add(1)
					conn.Close()
					time.Sleep(time.Duration(lrng.Intn(2000)) * time.Microsecond)
					continue
				}
				keySk := ""
				if hm.KeyGen >= 0 {
					keySk = gens[hm.KeyGen].Sk
				}
				rwc, werr := h.Wrap(conn, keySk, m.UseEncryption, m.UseCompression)
				if werr != nil {
					conn.Close()
					continue
				}
				_ = conn.SetDeadline(time.Now().Add(20 * time.Second))
				id, ierr := identExchange(rwc, fmt.Sprintf("V%03dK%05dC%05d", i, k, c.Idx%100000))
				conn.Close()
				g := -1
				if ierr == nil && strings.HasSuffix(id, "|"+name) {
					fmt.Sscanf(id, "G%d|", &g)
				}
				c.Ev("visitor-ok", "v", i, "k", k, "ident", id, "err", fmt.Sprint(ierr))
				if ierr == nil && g < 0 {
					c.Violation("visitor-bridged-to-wrong-proxy", "visitor %d admitted to %s was answered by %q", i, name, id)
					continue
				}
				if g < 0 || g >= nGen {
					// success reply but nobody answered: only legal if the visitor could be admitted by some generation
					legal := false
					for gg := range gens {
						legal = legal || hm.validFor(gg, gens)
					}
					if !legal {
						c.Violation("order-visitor-admitted-without-credentials", "visitor %d (user %q, key of generation %d) got a success reply for %s although no generation admits it (%v)", i, hm.user(), hm.KeyGen, name, gens)
					}
					continue
				}
				bridged.Add(1)
				vmu.Lock()
				if reachedBy[i] == nil {
					reachedBy[i] = map[int]int{}
				}
				reachedBy[i][g]++
				vmu.Unlock()
				if !hm.validFor(g, gens) {
					c.Violation("order-stream-visitor-reached-generation-without-its-credentials", "visitor %d (user %q, key of generation %d) was bridged to generation %d of %s (key %q, allow-list %q, owner %q)",
						i, hm.user(), hm.KeyGen, g, name, gens[g].Sk, gens[g].Allow, gens[g].OwnerUser)
				}
			}
		}(i)
	}

	// the generations, one after the other
	var owners []*h.Peer
	genOK := 0
	for g := range gens {
		time.Sleep(time.Duration(rng.Intn(15)) * time.Millisecond) // visitors run against a missing proxy
		o, err := dial(e, gens[g].OwnerUser, ol, fmt.Sprintf("G%d", g), g)
		if err != nil {
			run.Inconclusive("order case: owner login failed")
			break
		}
		owners = append(owners, o)
		m := &msg.NewProxy{ProxyName: name, ProxyType: typ, Sk: gens[g].Sk, AllowUsers: gens[g].Allow, UseEncryption: enc, UseCompression: comp}
		registered := false
		deadline := time.Now().Add(20 * time.Second)
		for time.Now().Before(deadline) {
			if typ == "xtcp" {
				e.xtcpMu.Lock()
			}
			resp, err := o.NewProxy(m, replyGrace)
			if typ == "xtcp" {
				e.xtcpMu.Unlock()
			}
			if err != nil {
				break
			}
			if resp.Error == "" {
				registered = true
				break
			}
			c.Ev("register-retry", "gen", g, "error", resp.Error)
			time.Sleep(5 * time.Millisecond)
		}
		if !registered {
			run.Inconclusive("order case: generation could not register")
			break
		}
		genOK++
		c.Ev("generation-up", "gen", g)
		time.Sleep(time.Duration(gens[g].HoldMs) * time.Millisecond)
		if typ == "xtcp" {
			e.xtcpMu.Lock()
		}
		if gens[g].Drop {
			o.Close()
			namesGone(e, 15*time.Second, name)
		} else {
			_ = o.CloseProxy(name)
			_, _ = o.Ping(replyGrace)
		}
		if typ == "xtcp" {
			e.xtcpMu.Unlock()
		}
		c.Ev("generation-down", "gen", g, "drop", gens[g].Drop)
	}
	time.Sleep(time.Duration(rng.Intn(10)) * time.Millisecond)
	stop.Store(true)
	wg.Wait()

	// after the last closure a visitor with the last generation's own credentials must be refused
	if genOK == nGen && namesGone(e, 15*time.Second, name) {
		last := gens[nGen-1]
		u := last.OwnerUser
		if len(last.Allow) > 0 && last.Allow[0] != "*" {
			u = last.Allow[0]
		}
		if p, err := dial(e, u, nil, "", 0); err == nil {
			ts := time.Now().Unix()
			if typ == "xtcp" {
				tid := pfx + "after"
				_ = p.Send(&msg.NatHoleVisitor{TransactionID: tid, ProxyName: name, Protocol: "quic", SignKey: h.AuthKey(last.Sk, ts), Timestamp: ts, MappedAddrs: visitorAddrs(99, 1)})
				got, err := p.WaitMsg(replyGrace, func(x msg.Message) bool { r, ok := x.(*msg.NatHoleResp); return ok && r.TransactionID == tid })
				if err == nil && got.(*msg.NatHoleResp).Error == "" {
					c.Violation("visitor-admitted-after-closure", "NatHoleVisitor for %s after its closure was answered without error", name)
				} else if err != nil && !p.Closed() {
					c.Violation("nathole-session-refusal-without-error-reply", "NatHoleVisitor for closed %s got no reply", name)
				}
			} else {
				conn, resp, err := p.OpenVisitorConn(&msg.NewVisitorConn{RunID: p.RunID, ProxyName: name, SignKey: h.AuthKey(last.Sk, ts), Timestamp: ts}, replyGrace)
				if err == nil {
					if resp.Error == "" {
						c.Violation("visitor-admitted-after-closure", "NewVisitorConn for %s after its closure got a success reply", name)
					}
					conn.Close()
				}
			}
			run.Count("order_after_closure_probes", 1)
			p.Close()
		}
	}

	// xtcp: both sides' inboxes tell who was paired with whom
	if typ == "xtcp" {
		time.Sleep(2500 * time.Millisecond) // the sender role is answered 1 s late
		for g, o := range owners {
			for _, x := range o.Inbox() {
				r, ok := x.(*msg.NatHoleResp)
				if !ok || r.Error != "" || len(r.CandidateAddrs) == 0 {
					continue
				}
				var vi, k, port int
				if n, _ := fmt.Sscanf(r.CandidateAddrs[0], "10.2.%d.%d:%d", &vi, &k, &port); n != 3 || vi >= nv {
					continue
				}
				bridged.Add(1)
				vmu.Lock()
				if reachedBy[vi] == nil {
					reachedBy[vi] = map[int]int{}
				}
				reachedBy[vi][g]++
				vmu.Unlock()
				if !hams[vi].validFor(g, gens) {
					c.Violation("order-nathole-visitor-reached-generation-without-its-credentials", "xtcp visitor %d (user %q, key of generation %d) was paired (sid %s) with generation %d of %s (key %q, allow-list %q, owner %q)",
						vi, hams[vi].user(), hams[vi].KeyGen, r.Sid, g, name, gens[g].Sk, gens[g].Allow, gens[g].OwnerUser)
				}
			}
		}
		for i, p := range peers {
			for _, x := range p.Inbox() {
				r, ok := x.(*msg.NatHoleResp)
				if !ok {
					continue
				}
				if r.Error != "" {
					refused.Add(1)
					continue
				}
				var g int
				if len(r.CandidateAddrs) == 0 {
					continue
				}
				if n, _ := fmt.Sscanf(r.CandidateAddrs[0], "10.1.%d.1:41000", &g); n != 1 || g >= nGen {
					continue
				}
				if !hams[i].validFor(g, gens) {
					c.Violation("order-nathole-visitor-reached-generation-without-its-credentials", "xtcp visitor %d (user %q, key of generation %d) received the addresses of generation %d of %s (key %q, allow-list %q, owner %q)",
						i, hams[i].user(), hams[i].KeyGen, g, name, gens[g].Sk, gens[g].Allow, gens[g].OwnerUser)
				}
			}
		}
	}

	// the owners' transcripts: every nonce / sid an owner saw must stem from a visitor holding that generation's credentials
	ol.settled(25 * time.Second)
	for _, ev := range ol.snapshot() {
		run.Count("owner_work_connections", 1)
		var g int
		if n, _ := fmt.Sscanf(ev.Sess, "G%d", &g); n != 1 || g >= nGen {
			continue
		}
		if typ == "xtcp" {
			if ev.Sid != "" {
				ok := false
				for _, hm := range hams {
					ok = ok || hm.validFor(g, gens)
				}
				if !ok {
					c.Violation("order-nathole-owner-reached-without-credentials", "generation %d of %s received sid %s although no visitor holds its credentials", g, name, ev.Sid)
				}
			}
			continue
		}
		if ev.Nonce == "" {
			continue // an admitted connection torn down by the closure before its first bytes: legal here
		}
		var vi, k, ci int
		if n, _ := fmt.Sscanf(ev.Nonce, "V%3dK%5dC%5d", &vi, &k, &ci); n != 3 || vi >= nv || ci != c.Idx%100000 {
			c.Violation("owner-read-bytes-no-visitor-sent", "generation %d of %s read %q as the first 16 bytes of a work connection: no visitor of this case sent that", g, name, ev.Nonce)
			continue
		}
		if !hams[vi].validFor(g, gens) {
			c.Violation("order-owner-reached-without-credentials", "generation %d of %s (key %q, allow-list %q, owner %q) was reached by visitor %d (user %q, key of generation %d)",
				g, name, gens[g].Sk, gens[g].Allow, gens[g].OwnerUser, vi, hams[vi].user(), hams[vi].KeyGen)
		}
	}
	for _, o := range owners {
		if typ == "xtcp" {
			closeOwner(e, o, []string{name})
		} else {
			o.Close()
		}
	}
	c.Data["reached"] = reachedBy
	run.Count("order_attempts", attempts.Load())
	run.Count("order_bridged", bridged.Load())
	run.Count("order_refused", refused.Load())
	run.Count("order_generations", int64(genOK))
	run.Distinct(fmt.Sprintf("order|%s|%s|%d|%s|%s", e.id, typ, nGen, strings.Join(credSig, ","), h.TraceSig(trace())))
	if c.Idx%37 == 0 {
		run.Sample(map[string]any{"kind": "order case", "type": typ, "generations": gens, "visitors": hams, "reached": reachedBy})
	}
}
