// C13 — Load-balancing groups: keyed membership, live members only, clean lifecycle.
//
// Monitors (DESIGN.md §5/C13):
//  1. membership ledger: model (from acknowledged joins/leaves) = server snapshot = OS connectability,
//     after every step of generated join / wrong-key join / different-endpoint join / leave / drop histories,
//     for tcp (fixed and server-chosen port), http and tcpmux groups;
//  2. exactly-once hand-off: every connection / request at the group endpoint is answered by exactly one
//     currently live member (identified through its scripted owner), none lost while a member is live;
//     http rotation: k static members, k consecutive sequential requests -> k distinct members;
//  3. forced join ∥ last-leave in both orders (gate between group lookup and group mutation), followed by
//     functional probes of whatever survived, a further join and the final leave; process liveness.
package main

import (
	"bufio"
	"encoding/base64"
	"fmt"
	"io"
	"net"
	"net/http"
	"os"
	"sort"
	"strings"
	"sync"
	"sync/atomic"
	"time"

	"github.com/fatedier/frp/pkg/msg"
	"github.com/fatedier/frp/server"

	"verif/h"
)

const prop = "C13"
const token = "c13-token"

var (
	run      *h.Run
	srv      *h.Server
	srvAuto  *h.Server // tcp groups with a server-chosen port get a server (and port range) of their own,
	bindAuto int       // so that the server's random choice cannot collide with ports picked for other cases
	pa       *h.PortAlloc
	httpPort int
	muxPort  int
	bindPort int
	loPort   int
	hiPort   int
)

func main() {
	run = h.NewRun(prop, "exploration")
	run.Rule = "histories: PRNG-generated sequences of join (right key / wrong key / different endpoint), leave, session drop and traffic probes over one group of kind tcp-fixed | tcp-auto | http | tcpmux with 1-4 scripted members, ledger after every step; race cases: join ∥ last-leave with the gate order forced both ways per kind; distinct = distinct (kind, step sequence) or (kind, order, hook trace signature)"
	run.Assumptions = []string{
		"a member is identified by its scripted owner answering on the work connection with its session id and the proxy name from StartWorkConn",
		"leave = CloseProxy followed by Ping/Pong on the same session (frps handles a session's messages in order)",
		"a session drop is acknowledged when its run id has left the session table (bounded by 10 s)",
		"endpoint disappearance after the last leave is decided by a refused connect (tcp) / not-found answer (http, tcpmux) observed within a 10 s bounded-progress window",
	}
	pa = h.Ports(prop)
	ps := pa.Block(3)
	bindPort, httpPort, muxPort = ps[0], ps[1], ps[2]
	loPort, hiPort = 23100, 23899
	var err error
	srv, err = h.StartServerText(prop, fmt.Sprintf(`
bindAddr = "127.0.0.1"
bindPort = %d
vhostHTTPPort = %d
tcpmuxHTTPConnectPort = %d
auth.token = "%s"
userConnTimeout = 5
subDomainHost = "sub.c13.test"
allowPorts = [{start=%d,end=%d}]
`, bindPort, httpPort, muxPort, token, loPort, hiPort))
	if err != nil {
		fmt.Fprintln(os.Stderr, "server:", err)
		os.Exit(h.ExitHarnessError)
	}
	bindAuto = pa.Get()
	srvAuto, err = h.StartServerText(prop, fmt.Sprintf(`
bindAddr = "127.0.0.1"
bindPort = %d
auth.token = "%s"
userConnTimeout = 5
allowPorts = [{start=23900,end=23999}]
`, bindAuto, token))
	if err != nil {
		fmt.Fprintln(os.Stderr, "server:", err)
		os.Exit(h.ExitHarnessError)
	}
	nHist := run.N(100, 4000)
	nRace := run.N(80, 2400)
	run.Parallel(nHist+nRace, 10, func(c *h.Case) {
		if c.Idx < nHist {
			historyCase(c)
		} else {
			raceCase(c)
		}
	})
	run.ParallelRange(100000, run.N(24, 640), 8, handoffCase)
	run.ParallelRange(200000, run.N(12, 240), 6, rejoinCase)
	srv.Close()
	srvAuto.Close()
	run.Finish(30)
}

var kinds = []string{"tcp-fixed", "tcp-auto", "http", "tcpmux"}

// member is one scripted session holding (at most) one proxy of the group.
type member struct {
	id   string // "S<n>"
	peer *h.Peer
	name string // proxy name
	in   bool
	gen  *atomic.Int64 // registration generation (http members answer with the generation their work connection was started in)
}

// ident is what a probe must be answered with when this member serves it.
func (m *member) ident(kind string) string {
	if kind == "http" {
		return fmt.Sprintf("%s|%s|g%d", m.id, m.name, m.gen.Load())
	}
	return m.id + "|" + m.name
}

type group struct {
	c         *h.Case
	probeSeq  atomic.Int64
	subdomain string // http groups addressed by subdomain (then domain = subdomain + "." + subDomainHost)
	kind      string
	name      string
	key       string
	domain    string
	port      int // requested port (0 for tcp-auto)
	real      int // port reported by the server (tcp kinds)
	// http / tcpmux endpoint parameters beyond the domain: route restricted to an HTTP user and / or protected by credentials
	routeUser string
	authUser  string
	authPass  string
}

// S is the server this group lives on.
func (g *group) S() *h.Server {
	if g.kind == "tcp-auto" {
		return srvAuto
	}
	return srv
}

// wedged is set when a state snapshot of a server did not come back: the accessor takes the group controllers'
// own locks, which the code holds for microseconds (the harness's gates hold them for at most ~300 ms).
var wedged atomic.Bool

// snap reads the server's state with a bounded-progress watchdog. A snapshot that cannot take the group locks for
// 30 s means joins and leaves on that server are stuck for ever ("no ordering of joins and leaves can bring the
// server down"); it is reported once per case and the rest of the run is cut short.
func (g *group) snap() server.VerifSnapshot {
	ch := make(chan server.VerifSnapshot, 1)
	go func() { ch <- g.S().Snapshot() }()
	select {
	case sn := <-ch:
		return sn
	case <-time.After(30 * time.Second):
		wedged.Store(true)
		g.c.Violation("server-wedged-group-locks-never-released", "%s group %s: the server's group state could not be read for 30 s (a join or leave holds the group locks for ever); further joins and leaves on this server hang", g.kind, g.name)
		return server.VerifSnapshot{}
	}
}

func (g *group) bind() int {
	if g.kind == "tcp-auto" {
		return bindAuto
	}
	return bindPort
}

func (g *group) allowed() (int, int) {
	if g.kind == "tcp-auto" {
		return 23900, 23999
	}
	return loPort, hiPort
}

func newGroup(c *h.Case, kind string) *group {
	g := &group{c: c, kind: kind, name: fmt.Sprintf("c%d.g", c.Idx), key: fmt.Sprintf("k%d", c.Idx), domain: fmt.Sprintf("c%d.group.test", c.Idx)}
	if kind == "http" && (c.Idx/4)%2 == 1 {
		// every other http group is addressed by a subdomain of the server's subDomainHost instead of a custom domain
		g.subdomain = fmt.Sprintf("c%dsub", c.Idx)
		g.domain = g.subdomain + ".sub.c13.test"
	}
	if kind == "tcp-fixed" {
		g.port = pickPort()
	}
	if kind == "http" || kind == "tcpmux" {
		switch c.Rng.Intn(4) {
		case 1: // route restricted to an http user
			g.routeUser = fmt.Sprintf("ru%d", c.Idx)
		case 2: // password protected
			g.authUser, g.authPass = fmt.Sprintf("hu%d", c.Idx), "pw"
		case 3: // both (the same user name: the request's user selects the route and carries the credentials)
			g.routeUser = fmt.Sprintf("u%d", c.Idx)
			g.authUser, g.authPass = g.routeUser, "pw"
		}
	}
	c.Data["group_variant"] = map[string]string{"routeByHTTPUser": g.routeUser, "httpUser": g.authUser}
	return g
}

var portMu sync.Mutex
var nextPort = 23100

func pickPort() int {
	portMu.Lock()
	defer portMu.Unlock()
	for i := 0; i < 2000; i++ {
		p := nextPort
		nextPort++
		if nextPort > 23890 {
			nextPort = 23100
		}
		l, err := net.Listen("tcp", fmt.Sprintf("127.0.0.1:%d", p))
		if err == nil {
			l.Close()
			return p
		}
	}
	panic("no port")
}

func (g *group) newProxyMsg(pname, key string, diffEndpoint bool) *msg.NewProxy {
	m := &msg.NewProxy{ProxyName: pname, Group: g.name, GroupKey: key}
	switch g.kind {
	case "tcp-fixed", "tcp-auto":
		m.ProxyType = "tcp"
		m.RemotePort = g.port
		if diffEndpoint {
			if g.real != 0 {
				m.RemotePort = g.real + 1
			} else {
				m.RemotePort = 23899
			}
		}
	case "http":
		m.ProxyType = "http"
		m.CustomDomains = []string{g.domain}
		if g.subdomain != "" {
			m.CustomDomains, m.SubDomain = nil, g.subdomain
		}
		m.RouteByHTTPUser, m.HTTPUser, m.HTTPPwd = g.routeUser, g.authUser, g.authPass
		if diffEndpoint {
			m.Locations = []string{"/other"}
		}
	case "tcpmux":
		m.ProxyType = "tcpmux"
		m.Multiplexer = "httpconnect"
		m.CustomDomains = []string{g.domain}
		m.RouteByHTTPUser, m.HTTPUser, m.HTTPPwd = g.routeUser, g.authUser, g.authPass
		if diffEndpoint {
			m.CustomDomains = []string{"x" + g.domain}
		}
	}
	return m
}

func dialMember(g *group, n int) (*member, error) {
	id := fmt.Sprintf("S%d", n)
	gen := &atomic.Int64{}
	var wh func(p *h.Peer, wc *h.WorkConn)
	if g.kind == "http" {
		wh = httpMember(id, gen)
	} else {
		wh = h.IdentBackend(id, token, false, false, nil)
	}
	p, err := h.DialPeer(h.PeerOpts{ServerPort: g.bind(), TCPMux: true, Token: token, AutoWork: true, WorkHandler: wh})
	if err != nil || !p.LoggedIn() {
		if p != nil {
			p.Close()
		}
		return nil, fmt.Errorf("login: %v", err)
	}
	return &member{id: id, peer: p, name: fmt.Sprintf("%sm%d", strings.TrimSuffix(g.name, "g"), n), gen: gen}, nil
}

// httpMember serves HTTP on the work connection, answering with the member identity.
func httpMember(id string, gen *atomic.Int64) func(p *h.Peer, wc *h.WorkConn) {
	return func(p *h.Peer, wc *h.WorkConn) {
		defer wc.Conn.Close()
		// the generation this work connection was started in: a connection kept from an earlier registration of
		// the same name (the member left and joined again) identifies itself as stale
		g0 := gen.Load()
		br := bufio.NewReader(wc.Conn)
		for {
			req, err := http.ReadRequest(br)
			if err != nil {
				return
			}
			_, _ = io.Copy(io.Discard, req.Body)
			body := fmt.Sprintf("%s|%s|g%d", id, wc.Start.ProxyName, g0)
			_, err = fmt.Fprintf(wc.Conn, "HTTP/1.1 200 OK\r\nContent-Length: %d\r\nContent-Type: text/plain\r\n\r\n%s", len(body), body)
			if err != nil {
				return
			}
		}
	}
}

// probe sends one connection / request to the group endpoint. It returns the answering "S<n>|<proxy>" or
// "" when the endpoint refused (connect refused / 404 / CONNECT refused), err for anything else.
func (g *group) probe() (who string, refused bool, err error) {
	switch g.kind {
	case "tcp-fixed", "tcp-auto":
		if g.real == 0 {
			return "", true, nil
		}
		c, derr := net.DialTimeout("tcp", fmt.Sprintf("127.0.0.1:%d", g.real), 3*time.Second)
		if derr != nil {
			return "", true, nil
		}
		defer c.Close()
		id, ierr := h.AskIdentOn(c, 15*time.Second)
		return id, false, ierr
	case "http":
		// every other probe is a CONNECT request: the vhost HTTP port tunnels those through the same route
		// (connectHandler -> the route's connection factory), so they are handed to members like any request
		raw := fmt.Sprintf("GET /p HTTP/1.1\r\nHost: %s\r\n%sConnection: close\r\n\r\n", g.domain, g.authHeader("Authorization"))
		if g.probeSeq.Add(1)%2 == 0 {
			raw = fmt.Sprintf("CONNECT %s:80 HTTP/1.1\r\nHost: %s:80\r\n%s%s\r\n", g.domain, g.domain, g.authHeader("Proxy-Authorization"), g.authHeader("Authorization"))
			run.Count("http_group_connect_probes", 1)
		}
		resp, body, rerr := h.RawHTTP(fmt.Sprintf("127.0.0.1:%d", httpPort), []byte(raw), 15*time.Second)
		if rerr != nil {
			return "", false, rerr
		}
		if resp.StatusCode == 404 {
			return "", true, nil
		}
		if resp.StatusCode == 401 {
			return "", false, fmt.Errorf("401 challenge: a protected route for %s exists", g.domain)
		}
		if resp.StatusCode != 200 {
			return "", false, fmt.Errorf("status %d", resp.StatusCode)
		}
		return string(body), false, nil
	default: // tcpmux
		c, derr := net.DialTimeout("tcp", fmt.Sprintf("127.0.0.1:%d", muxPort), 3*time.Second)
		if derr != nil {
			return "", false, derr
		}
		defer c.Close()
		_ = c.SetDeadline(time.Now().Add(15 * time.Second))
		fmt.Fprintf(c, "CONNECT %s:80 HTTP/1.1\r\nHost: %s:80\r\n%s\r\n", g.domain, g.domain, g.authHeader("Proxy-Authorization"))
		br := bufio.NewReader(c)
		resp, rerr := http.ReadResponse(br, &http.Request{Method: "CONNECT"})
		if rerr != nil {
			return "", true, nil // muxer closes the connection for an unknown host
		}
		if resp.StatusCode != 200 {
			return "", true, nil
		}
		id, ierr := h.AskIdentOn(struct {
			io.Reader
			io.Writer
		}{br, c}, 15*time.Second)
		return id, false, ierr
	}
}

// authHeader returns the header line a user of this group must present ("" for an open, unrestricted group).
func (g *group) authHeader(name string) string {
	user, pass := g.authUser, g.authPass
	if user == "" {
		user = g.routeUser
	}
	if user == "" {
		return ""
	}
	return name + ": Basic " + base64.StdEncoding.EncodeToString([]byte(user+":"+pass)) + "\r\n"
}

// routeRegistered reports whether the server's route table still lists this group's endpoint (http / tcpmux).
func (g *group) routeRegistered() bool {
	s := g.snap()
	routes := s.HTTPRoutes
	if g.kind == "tcpmux" {
		routes = s.TCPMuxRoutes
	}
	for _, r := range routes {
		if r.Domain == g.domain {
			return true
		}
	}
	return false
}

// snapshotMembers returns the member count (tcp, tcpmux) or names (http) the server accounts for this group.
func (g *group) snapshotMembers() (n int, exists bool) {
	s := g.snap()
	switch g.kind {
	case "tcp-fixed", "tcp-auto":
		n, exists = s.TCPGroups[g.name]
	case "http":
		var l []string
		l, exists = s.HTTPGroups[g.name]
		n = len(l)
	default:
		n, exists = s.TCPMuxGroups[g.name]
	}
	return
}

// ledger compares model / snapshot / OS truth for the group.
func (g *group) ledger(when string, live []*member) {
	c := g.c
	n, exists := g.snapshotMembers()
	if n != len(live) || (exists && len(live) == 0) {
		c.Violation("group-membership-ledger-mismatch", "%s %s: model has %d live members, server accounts %d (group entry exists=%v)", g.kind, when, len(live), n, exists)
	}
	run.Count("ledger_checks", 1)
	if len(live) == 0 {
		// endpoint must be gone (bounded-progress window)
		gone := h.Eventually(10*time.Second, func() bool { _, refused, err := g.probe(); return refused && err == nil })
		if !gone {
			who, _, err := g.probe()
			c.Violation("group-endpoint-outlives-last-member", "%s %s: endpoint still answers (%q, err %v) with zero members", g.kind, when, who, err)
		}
		if (g.kind == "http" || g.kind == "tcpmux") && g.routeRegistered() {
			c.Violation("group-route-outlives-last-member", "%s %s: the route table still lists %s (routeByHTTPUser %q, httpUser %q) with zero members", g.kind, when, g.domain, g.routeUser, g.authUser)
		}
		if g.kind == "tcp-fixed" || g.kind == "tcp-auto" {
			if g.real != 0 {
				if owner, used := g.snap().TCPPorts.Used[g.real]; used && strings.HasPrefix(owner, strings.TrimSuffix(g.name, "g")) {
					c.Violation("group-port-not-released", "%s %s: port %d still accounted to %s after the last member left", g.kind, when, g.real, owner)
				}
			}
		}
		return
	}
	// hand-off: 2*len(live)+1 sequential probes must each be answered by exactly one live member
	want := map[string]bool{}
	for _, m := range live {
		want[m.ident(g.kind)] = true
	}
	var seq []string
	for i := 0; i < 2*len(live)+1; i++ {
		who, refused, err := g.probe()
		run.Count("group_probes", 1)
		if refused {
			c.Violation("group-endpoint-missing-with-live-members", "%s %s: endpoint refused although %d member(s) are live", g.kind, when, len(live))
			return
		}
		if err != nil {
			c.Violation("group-connection-lost", "%s %s: connection to the group endpoint was not served although %d member(s) are live: %v (partial %q)", g.kind, when, len(live), err, who)
			return
		}
		if !want[who] {
			c.Violation("group-handoff-to-non-member", "%s %s: connection answered by %q, live members are %v", g.kind, when, who, keys(want))
			return
		}
		seq = append(seq, who)
	}
	if g.kind == "http" && len(live) > 1 {
		k := len(live)
		for i := 0; i+k <= len(seq); i++ {
			d := map[string]bool{}
			for _, w := range seq[i : i+k] {
				d[w] = true
			}
			if len(d) != k {
				c.Violation("http-group-rotation", "http group with %d static members: %d consecutive sequential requests visited only %d members (%v)", k, k, len(d), seq[i:i+k])
				break
			}
		}
		run.Count("rotation_windows_checked", int64(len(seq)-k+1))
	}
}

func keys(m map[string]bool) []string {
	var o []string
	for k := range m {
		o = append(o, k)
	}
	sort.Strings(o)
	return o
}

func (g *group) join(m *member, key string, diffEndpoint bool) (*msg.NewProxyResp, error) {
	m.gen.Add(1) // work connections started from now on belong to this registration
	resp, err := m.peer.NewProxy(g.newProxyMsg(m.name, key, diffEndpoint), 15*time.Second)
	if err == nil && resp.Error == "" {
		m.in = true
		if g.kind == "tcp-fixed" || g.kind == "tcp-auto" {
			var p int
			fmt.Sscanf(resp.RemoteAddr, ":%d", &p)
			g.real = p
		}
	}
	return resp, err
}

func (g *group) leave(m *member) error {
	_ = m.peer.CloseProxy(m.name)
	_, err := m.peer.Ping(15 * time.Second)
	m.in = false
	return err
}

func waitSessionGone(g *group, rid string) bool {
	return h.Eventually(10*time.Second, func() bool {
		for _, s := range g.snap().Sessions {
			if s.RunID == rid {
				return false
			}
		}
		return true
	})
}

func liveOf(ms []*member) []*member {
	var o []*member
	for _, m := range ms {
		if m.in {
			o = append(o, m)
		}
	}
	return o
}

// ---------------------------------------------------------------------------------------------
// 1+2. sequential histories with ledger after every step

func historyCase(c *h.Case) {
	if wedged.Load() {
		run.Inconclusive("a server wedged earlier in this run")
		return
	}
	rng := c.Rng
	g := newGroup(c, kinds[c.Idx%len(kinds)])
	nMembers := 2 + rng.Intn(3)
	nSteps := 5 + rng.Intn(6)
	var ms []*member
	for i := 1; i <= nMembers; i++ {
		m, err := dialMember(g, i)
		if err != nil {
			run.Inconclusive("member login failed")
			return
		}
		defer m.peer.Close()
		ms = append(ms, m)
	}
	var steps []string
	firstPort := 0
	nextID := nMembers
	for s := 0; s < nSteps; s++ {
		mi := rng.Intn(len(ms))
		m := ms[mi]
		live := liveOf(ms)
		var step string
		switch {
		case m.in && rng.Intn(3) > 0:
			step = "leave"
		case m.in:
			step = "drop"
		default:
			step = []string{"join", "join", "join", "join-wrong-key", "join-other-endpoint"}[rng.Intn(5)]
			if (g.kind == "http" || g.kind == "tcpmux") && len(live) > 0 && rng.Intn(6) == 0 {
				// same endpoint, other credentials (or credentials where the group has none, or none where it has some)
				step = "join-other-credentials"
			}
			if (g.kind == "http" || g.kind == "tcpmux") && rng.Intn(5) == 0 {
				// a proxy with two domains: the first one is the group's endpoint (that part of the registration
				// succeeds), the second one is not — the registration is refused as a whole and must leave nothing
				step = "join-second-domain"
			}
		}
		if s == nSteps-1 { // end with everyone leaving one by one (exercises last leave + re-creation in the next case part)
			step = "leave-all"
		}
		steps = append(steps, step)
		c.Ev("step", "n", s, "step", step, "member", m.id)
		switch step {
		case "join":
			resp, err := g.join(m, g.key, false)
			if err != nil {
				c.Violation("group-join-no-reply", "%s: join got no reply: %v", g.kind, err)
				return
			}
			if resp.Error != "" {
				c.Violation("group-join-with-right-key-refused", "%s: member %s with the group's key and endpoint refused (%d live members): %s", g.kind, m.id, len(live), resp.Error)
				return
			}
			run.Count("joins", 1)
			if g.kind == "tcp-fixed" && g.real != g.port {
				c.Violation("group-reported-port-differs", "tcp group asked for port %d, reply says %s", g.port, resp.RemoteAddr)
			}
			if g.kind == "tcp-auto" {
				if lo, hi := g.allowed(); g.real < lo || g.real > hi {
					c.Violation("group-port-outside-allowed-set", "tcp group with server-chosen port reports %s, allowed %d-%d", resp.RemoteAddr, lo, hi)
				}
				if len(live) == 0 && firstPort != 0 && g.real != firstPort {
					run.Count("auto_port_changed_on_recreate", 1) // reserved-port reuse is C09's business; counted only
				}
				if firstPort == 0 {
					firstPort = g.real
				}
			}
		case "join-other-credentials":
			pm := g.newProxyMsg(m.name, g.key, false)
			switch {
			case pm.HTTPUser == "" && pm.HTTPPwd == "":
				pm.HTTPUser, pm.HTTPPwd = "joiner", "Pw-Joiner1"
			case rng.Intn(2) == 0:
				pm.HTTPUser, pm.HTTPPwd = "", ""
			default:
				pm.HTTPPwd += "-other"
			}
			resp, err := m.peer.NewProxy(pm, 15*time.Second)
			if err != nil {
				c.Violation("group-join-no-reply", "%s: join got no reply: %v", g.kind, err)
				return
			}
			run.Count("bad_joins_other_credentials", 1)
			if resp.Error == "" {
				c.Violation("group-join-accepted-other-credentials", "%s: a proxy with the group's key and endpoint but credentials %q:%q (the group's are %q:%q) was accepted into group %s", g.kind, pm.HTTPUser, pm.HTTPPwd, g.authUser, g.authPass, g.name)
				return
			}
			m.in = false
		case "join-second-domain":
			pm := g.newProxyMsg(m.name, g.key, false)
			pm.CustomDomains = append(pm.CustomDomains, "second."+g.domain)
			resp, err := m.peer.NewProxy(pm, 15*time.Second)
			if err != nil {
				c.Violation("group-join-no-reply", "%s: join got no reply: %v", g.kind, err)
				return
			}
			run.Count("bad_joins_second_domain", 1)
			if resp.Error == "" {
				c.Violation("group-join-accepted-second-domain", "%s: a proxy whose second domain is not the group's endpoint was accepted into group %s (reply %+v)", g.kind, g.name, resp)
				return
			}
			m.in = false
		case "join-wrong-key", "join-other-endpoint":
			if len(live) == 0 {
				// no group to join: this creates a group with these parameters; undo to keep the model simple
				steps[len(steps)-1] = "noop"
				continue
			}
			var resp *msg.NewProxyResp
			var err error
			if step == "join-wrong-key" {
				resp, err = g.join(m, g.key+"-wrong", false)
			} else {
				resp, err = g.join(m, g.key, true)
			}
			if err != nil {
				c.Violation("group-join-no-reply", "%s: join got no reply: %v", g.kind, err)
				return
			}
			run.Count("bad_joins", 1)
			if resp.Error == "" {
				c.Violation("group-join-accepted-"+strings.TrimPrefix(step, "join-"), "%s: %s was accepted into group %s (reply %+v)", g.kind, step, g.name, resp)
				return
			}
			m.in = false
		case "leave":
			if err := g.leave(m); err != nil {
				run.Inconclusive("leave barrier missing")
				return
			}
			run.Count("leaves", 1)
		case "drop":
			rid := m.peer.RunID
			m.peer.Close()
			m.in = false
			if !waitSessionGone(g, rid) {
				c.Violation("session-not-removed", "session %s still in the table 10 s after its connection closed", rid)
				return
			}
			run.Count("drops", 1)
			// replace the dropped member by a fresh session so that the history can go on
			nextID++
			nm, err := dialMember(g, nextID)
			if err != nil {
				run.Inconclusive("member login failed")
				return
			}
			defer nm.peer.Close()
			ms[mi] = nm
		case "leave-all":
			for _, x := range liveOf(ms) {
				if err := g.leave(x); err != nil {
					run.Inconclusive("leave barrier missing")
					return
				}
				g.ledger(fmt.Sprintf("step %d leave-all after %s left", s, x.id), liveOf(ms))
			}
			// immediately re-creatable
			x := ms[0]
			resp, err := g.join(x, g.key, false)
			if err != nil || resp.Error != "" {
				c.Violation("group-not-recreatable-after-last-leave", "%s: join right after the last leave failed: %v %+v", g.kind, err, resp)
				return
			}
			run.Count("recreations", 1)
		}
		g.ledger(fmt.Sprintf("step %d (%s %s)", s, step, m.id), liveOf(ms))
		if c.Violations() > 0 {
			return
		}
	}
	run.Distinct("hist|" + g.kind + "|" + strings.Join(steps, ","))
	if c.Idx < 4 {
		run.Sample(map[string]any{"kind": g.kind, "members": nMembers, "steps": steps})
	}
}

// ---------------------------------------------------------------------------------------------
// 3. join ∥ last-leave, both orders forced

func raceCase(c *h.Case) {
	if wedged.Load() {
		run.Inconclusive("a server wedged earlier in this run")
		return
	}
	rng := c.Rng
	kind := kinds[c.Idx%len(kinds)]
	joinerFirst := (c.Idx/len(kinds))%2 == 0 // which side is parked between lookup and mutation
	g := newGroup(c, kind)
	c.Data["kind"], c.Data["joiner_parked"] = kind, joinerFirst
	rm, trace := h.Perturb(rng, g.name)
	defer rm()
	a, err := dialMember(g, 1)
	if err != nil {
		run.Inconclusive("member login failed")
		return
	}
	defer a.peer.Close()
	b, err := dialMember(g, 2)
	if err != nil {
		run.Inconclusive("member login failed")
		return
	}
	defer b.peer.Close()
	if resp, err := g.join(a, g.key, false); err != nil || resp.Error != "" {
		c.Violation("group-join-with-right-key-refused", "%s: first member refused: %v %+v", kind, err, resp)
		return
	}
	hook := map[string]string{"tcp-fixed": "server.group.tcp.afterLookup", "tcp-auto": "server.group.tcp.afterLookup", "http": "server.group.http.afterLookup", "tcpmux": "server.group.tcpmux.afterLookup"}[kind]

	var joinResp *msg.NewProxyResp
	var joinErr error
	done := make(chan struct{})
	if joinerFirst {
		// B looks the group up (A is the only member), is parked; A leaves (last leave) and is acknowledged; B continues.
		gate := h.NewGate(hook, g.name, 1)
		defer gate.Release()
		go func() { joinResp, joinErr = g.join(b, g.key, false); close(done) }()
		if !gate.WaitArrived(10 * time.Second) {
			run.Inconclusive("afterLookup gate not reached")
			gate.Release()
			<-done
			return
		}
		// The last leave is issued while the joiner is parked. If the code serialises join and leave
		// itself, the leave cannot complete before the joiner moves on: then the gate is opened and the
		// code's own order (join, then leave) is what gets exercised.
		leaveDone := make(chan error, 1)
		go func() { leaveDone <- g.leave(a) }()
		var lerr error
		select {
		case lerr = <-leaveDone:
			run.Count("forced_joiner_parked_then_last_leave_completed", 1)
			gate.Release()
		case <-time.After(300 * time.Millisecond):
			run.Count("forced_joiner_parked_leave_blocked_by_code", 1)
			gate.Release()
			lerr = <-leaveDone
		}
		if lerr != nil {
			run.Inconclusive("leave barrier missing")
			return
		}
		<-done
	} else {
		// unforced concurrency with perturbation: leave and join issued together
		go func() { joinResp, joinErr = g.join(b, g.key, false); close(done) }()
		if rng.Intn(2) == 0 {
			time.Sleep(time.Duration(rng.Intn(300)) * time.Microsecond)
		}
		if err := g.leave(a); err != nil {
			run.Inconclusive("leave barrier missing")
			return
		}
		<-done
		run.Count("concurrent_join_and_last_leave", 1)
	}
	if joinErr != nil {
		c.Violation("group-join-no-reply", "%s: join concurrent with the last leave got no reply: %v", kind, joinErr)
		return
	}
	// Admissible outcomes: (1) join refused -> no members, endpoint gone, re-creatable;
	// (2) join accepted -> group alive with B as sole member, fully functional.
	if joinResp.Error != "" {
		b.in = false
		run.Count("race_outcome_join_refused", 1)
	} else {
		run.Count("race_outcome_join_accepted", 1)
	}
	g.ledger("after join ∥ last-leave", liveOf([]*member{a, b}))
	if c.Violations() > 0 {
		return
	}
	// whatever happened, a further member with the right key must be admitted and served ...
	third, err := dialMember(g, 3)
	if err != nil {
		run.Inconclusive("member login failed")
		return
	}
	defer third.peer.Close()
	if resp, err := g.join(third, g.key, false); err != nil || resp.Error != "" {
		c.Violation("group-unusable-after-join-leave-race", "%s: after join ∥ last-leave (joiner accepted=%v) a further join with the right key fails: %v %+v", kind, b.in, err, resp)
		return
	}
	g.ledger("after third member joined", liveOf([]*member{a, b, third}))
	// ... and everybody can leave without bringing the server down
	for _, m := range liveOf([]*member{b, third}) {
		if err := g.leave(m); err != nil {
			c.Violation("group-leave-after-race-unacknowledged", "%s: leave of %s after the race was not acknowledged: %v", kind, m.id, err)
			return
		}
	}
	g.ledger("after everybody left", nil)
	run.Distinct(fmt.Sprintf("race|%s|%v|%v|%s", kind, joinerFirst, joinResp.Error == "", h.TraceSig(trace())))
	if c.Idx%50 == 0 {
		run.Sample(map[string]any{"kind": kind, "joiner_parked_before_last_leave": joinerFirst, "join_accepted": joinResp.Error == ""})
	}
}

// ---------------------------------------------------------------------------------------------
// 4. a user connection taken by the group worker but not yet handed to a member while the last member leaves

func handoffCase(c *h.Case) {
	if wedged.Load() {
		run.Inconclusive("a server wedged earlier in this run")
		return
	}
	kind := []string{"tcp-fixed", "tcpmux"}[c.Idx%2]
	g := newGroup(c, kind)
	g.routeUser, g.authUser, g.authPass = "", "", ""
	a, err := dialMember(g, 1)
	if err != nil {
		run.Inconclusive("member login failed")
		return
	}
	defer a.peer.Close()
	if resp, err := g.join(a, g.key, false); err != nil || resp.Error != "" {
		c.Violation("group-join-with-right-key-refused", "%s: first member refused: %v %+v", kind, err, resp)
		return
	}
	point := map[string]string{"tcp-fixed": "server.group.tcp.worker.beforeHandoff", "tcpmux": "server.group.tcpmux.worker.beforeHandoff"}[kind]
	gate := h.NewGate(point, g.name, 1)
	defer gate.Release()
	var uc net.Conn
	if kind == "tcp-fixed" {
		uc, err = net.DialTimeout("tcp", fmt.Sprintf("127.0.0.1:%d", g.real), 5*time.Second)
	} else {
		uc, err = net.DialTimeout("tcp", fmt.Sprintf("127.0.0.1:%d", muxPort), 5*time.Second)
		if err == nil {
			fmt.Fprintf(uc, "CONNECT %s:80 HTTP/1.1\r\nHost: %s:80\r\n\r\n", g.domain, g.domain)
		}
	}
	if err != nil {
		run.Inconclusive("user dial failed")
		return
	}
	defer uc.Close()
	if !gate.WaitArrived(10 * time.Second) {
		run.Inconclusive("beforeHandoff gate not reached")
		return
	}
	// the last member leaves while the connection sits between the worker's accept and the hand-off
	if err := g.leave(a); err != nil {
		run.Inconclusive("leave barrier missing")
		return
	}
	gate.Release()
	run.Count("handoff_parked_during_last_leave_"+kind, 1)
	// the server must survive (a crash ends this process: the wrapper reports it), the group must be gone and re-creatable
	g.ledger("after last leave with a connection parked before the hand-off", nil)
	b, err := dialMember(g, 2)
	if err != nil {
		c.Violation("server-not-serving-after-handoff-race", "%s: no login possible after the last leave raced with a hand-off: %v", kind, err)
		return
	}
	defer b.peer.Close()
	if resp, err := g.join(b, g.key, false); err != nil || resp.Error != "" {
		c.Violation("group-not-recreatable-after-last-leave", "%s: join after the last leave raced with a hand-off failed: %v %+v", kind, err, resp)
		return
	}
	g.ledger("after re-creation", []*member{b})
	_ = g.leave(b)
	run.Distinct(fmt.Sprintf("handoff|%s|%d", kind, c.Idx%16))
}

// ---------------------------------------------------------------------------------------------
// 5. a member leaves a still-populated group by CloseProxy (its session stays up) and joins again under the same
// name: from then on the requests handed to it must be served by the NEW registration — nothing that was kept
// for the old one (an idle backend connection, a pooled work connection) may answer.

func rejoinCase(c *h.Case) {
	if wedged.Load() {
		run.Inconclusive("a server wedged earlier in this run")
		return
	}
	kind := []string{"http", "http", "tcpmux", "tcp-fixed"}[c.Idx%4]
	g := newGroup(c, kind)
	c.Data["kind"] = kind
	a, err := dialMember(g, 1)
	if err != nil {
		run.Inconclusive("member login failed")
		return
	}
	defer a.peer.Close()
	b, err := dialMember(g, 2)
	if err != nil {
		run.Inconclusive("member login failed")
		return
	}
	defer b.peer.Close()
	for _, m := range []*member{a, b} {
		if resp, err := g.join(m, g.key, false); err != nil || resp.Error != "" {
			c.Violation("group-join-with-right-key-refused", "%s: member %s refused: %v %+v", kind, m.id, err, resp)
			return
		}
	}
	g.ledger("both joined", []*member{a, b}) // the probes leave idle kept-alive connections to both members
	if c.Violations() > 0 {
		return
	}
	rounds := 1 + c.Rng.Intn(2)
	for r := 0; r < rounds; r++ {
		if err := g.leave(a); err != nil {
			run.Inconclusive("leave barrier missing")
			return
		}
		g.ledger(fmt.Sprintf("round %d: a left, b stays", r), []*member{b})
		if c.Violations() > 0 {
			return
		}
		if resp, err := g.join(a, g.key, false); err != nil || resp.Error != "" {
			c.Violation("group-join-with-right-key-refused", "%s: member %s refused when joining again: %v %+v", kind, a.id, err, resp)
			return
		}
		run.Count("rejoins_into_populated_group", 1)
		g.ledger(fmt.Sprintf("round %d: a joined again", r), []*member{a, b})
		if c.Violations() > 0 {
			return
		}
	}
	run.Distinct(fmt.Sprintf("rejoin|%s|%d|%d", kind, rounds, c.Idx%20))
}
