package main

// Fake OpenID Connect issuer (discovery document, JWKS, client-credentials token endpoint) and a
// hand-written JWT forge, so that the check controls every field of every token frps sees.

import (
	"crypto"
	"crypto/hmac"
	"crypto/rand"
	"crypto/rsa"
	"crypto/sha256"
	"crypto/x509"
	"encoding/base64"
	"encoding/json"
	"fmt"
	"math/big"
	"net"
	"net/http"
	"strings"
	"sync/atomic"
	"time"
)

const oidcAudience = "frps-c04"

type issuer struct {
	URL      string
	key      *rsa.PrivateKey // the key published in the JWKS
	otherKey *rsa.PrivateKey // a key the issuer never published
	srv      *http.Server
	Tokens   atomic.Int64 // tokens handed out by the token endpoint
}

func b64(b []byte) string { return base64.RawURLEncoding.EncodeToString(b) }

func startIssuer(port int) (*issuer, error) {
	k1, err := rsa.GenerateKey(rand.Reader, 2048)
	if err != nil {
		return nil, err
	}
	k2, err := rsa.GenerateKey(rand.Reader, 2048)
	if err != nil {
		return nil, err
	}
	is := &issuer{URL: fmt.Sprintf("http://127.0.0.1:%d", port), key: k1, otherKey: k2}
	mux := http.NewServeMux()
	mux.HandleFunc("/.well-known/openid-configuration", func(w http.ResponseWriter, r *http.Request) {
		w.Header().Set("Content-Type", "application/json")
		_ = json.NewEncoder(w).Encode(map[string]any{
			"issuer":                                is.URL,
			"authorization_endpoint":                is.URL + "/auth",
			"token_endpoint":                        is.URL + "/token",
			"jwks_uri":                              is.URL + "/keys",
			"id_token_signing_alg_values_supported": []string{"RS256"},
			"response_types_supported":              []string{"id_token"},
			"subject_types_supported":               []string{"public"},
		})
	})
	mux.HandleFunc("/keys", func(w http.ResponseWriter, r *http.Request) {
		w.Header().Set("Content-Type", "application/json")
		_ = json.NewEncoder(w).Encode(map[string]any{"keys": []any{map[string]any{
			"kty": "RSA", "kid": "k1", "alg": "RS256", "use": "sig",
			"n": b64(k1.N.Bytes()), "e": b64(big.NewInt(int64(k1.E)).Bytes()),
		}}})
	})
	// client-credentials grant for real frpc clients: subject = client id, secret must be "secret-<id>"
	mux.HandleFunc("/token", func(w http.ResponseWriter, r *http.Request) {
		_ = r.ParseForm()
		id, sec, ok := r.BasicAuth()
		if !ok {
			id, sec = r.Form.Get("client_id"), r.Form.Get("client_secret")
		}
		if id == "" || sec != "secret-"+id {
			w.WriteHeader(401)
			_, _ = w.Write([]byte(`{"error":"invalid_client"}`))
			return
		}
		is.Tokens.Add(1)
		w.Header().Set("Content-Type", "application/json")
		_ = json.NewEncoder(w).Encode(map[string]any{
			"access_token": is.Good(id), "token_type": "Bearer", "expires_in": 3600,
		})
	})
	ln, err := net.Listen("tcp", fmt.Sprintf("127.0.0.1:%d", port))
	if err != nil {
		return nil, err
	}
	is.srv = &http.Server{Handler: mux}
	go func() { _ = is.srv.Serve(ln) }()
	return is, nil
}

type claims struct {
	Iss string `json:"iss,omitempty"`
	Sub string `json:"sub,omitempty"`
	Aud any    `json:"aud,omitempty"`
	Exp int64  `json:"exp,omitempty"`
	Iat int64  `json:"iat,omitempty"`
	Nbf int64  `json:"nbf,omitempty"`
}

func (is *issuer) std(sub string) claims {
	now := time.Now().Unix()
	return claims{Iss: is.URL, Sub: sub, Aud: oidcAudience, Exp: now + 3600, Iat: now - 5}
}

func signRS256(k *rsa.PrivateKey, hdr map[string]any, cl any) string {
	hb, _ := json.Marshal(hdr)
	cb, _ := json.Marshal(cl)
	in := b64(hb) + "." + b64(cb)
	d := sha256.Sum256([]byte(in))
	sig, _ := rsa.SignPKCS1v15(rand.Reader, k, crypto.SHA256, d[:])
	return in + "." + b64(sig)
}

// Good is a token the issuer really signed for subject sub, for the audience frps expects.
func (is *issuer) Good(sub string) string {
	return signRS256(is.key, map[string]any{"alg": "RS256", "kid": "k1", "typ": "JWT"}, is.std(sub))
}

// oidcBadKinds are the classes of tokens that are NOT "a token the issuer signed for the expected audience".
var oidcBadKinds = []string{
	"empty", "garbage", "other-key", "other-key-no-kid", "alg-none", "alg-hs256-pubkey", "expired", "wrong-audience",
	"no-audience", "wrong-issuer", "tampered-payload", "truncated-signature", "md5-style-key", "good-token-with-suffix",
	"not-yet-valid-far", "two-part",
}

// Bad forges a token of the given class for subject sub.
func (is *issuer) Bad(kind, sub string) string {
	hdr := map[string]any{"alg": "RS256", "kid": "k1", "typ": "JWT"}
	cl := is.std(sub)
	switch kind {
	case "empty":
		return ""
	case "garbage":
		return "not.a.jwt"
	case "other-key":
		return signRS256(is.otherKey, hdr, cl)
	case "other-key-no-kid":
		return signRS256(is.otherKey, map[string]any{"alg": "RS256", "typ": "JWT"}, cl)
	case "alg-none":
		hb, _ := json.Marshal(map[string]any{"alg": "none", "typ": "JWT"})
		cb, _ := json.Marshal(cl)
		return b64(hb) + "." + b64(cb) + "."
	case "alg-hs256-pubkey":
		hb, _ := json.Marshal(map[string]any{"alg": "HS256", "kid": "k1", "typ": "JWT"})
		cb, _ := json.Marshal(cl)
		in := b64(hb) + "." + b64(cb)
		pub, _ := x509.MarshalPKIXPublicKey(&is.key.PublicKey)
		m := hmac.New(sha256.New, pub)
		m.Write([]byte(in))
		return in + "." + b64(m.Sum(nil))
	case "expired":
		cl.Exp = time.Now().Unix() - 3600
		cl.Iat = cl.Exp - 3600
		return signRS256(is.key, hdr, cl)
	case "wrong-audience":
		cl.Aud = "some-other-service"
		return signRS256(is.key, hdr, cl)
	case "no-audience":
		cl.Aud = nil
		return signRS256(is.key, hdr, cl)
	case "wrong-issuer":
		cl.Iss = "http://127.0.0.1:1/evil"
		return signRS256(is.key, hdr, cl)
	case "tampered-payload":
		t := is.Good("nobody")
		p := strings.Split(t, ".")
		cb, _ := json.Marshal(cl)
		return p[0] + "." + b64(cb) + "." + p[2]
	case "truncated-signature":
		t := is.Good(sub)
		return t[:len(t)-8]
	case "md5-style-key":
		return "d41d8cd98f00b204e9800998ecf8427e"
	case "good-token-with-suffix":
		return is.Good(sub) + "AAAA"
	case "not-yet-valid-far":
		cl.Nbf = time.Now().Unix() + 86400
		return signRS256(is.key, hdr, cl)
	case "two-part":
		t := is.Good(sub)
		p := strings.Split(t, ".")
		return p[0] + "." + p[1]
	}
	panic("unknown oidc bad kind " + kind)
}
