package main

// Attack-sequence cases: a PRNG-generated sequence of unauthenticated / wrongly authenticated messages
// against one server configuration over one transport, next to an honest "victim" session of the same
// case (positive control) and the server's honest incumbent.

import (
	"bytes"
	"encoding/binary"
	"fmt"
	"net"
	"os"
	"sort"
	"strings"
	"sync"
	"sync/atomic"
	"time"

	"github.com/fatedier/frp/pkg/msg"

	"verif/h"
)

// ---------------------------------------------------------------------------------------------
// watchdogs: 20 s for things the server does immediately (reply, close); after the same watchdog
// finding was reported three times the remaining waits are cut short (their reports are dropped anyway).

var wdCount sync.Map

func wd(key string) time.Duration {
	if v, ok := wdCount.Load(key); ok && v.(*atomic.Int64).Load() >= 3 {
		return time.Second
	}
	return 20 * time.Second
}

func wdFired(key string) {
	v, _ := wdCount.LoadOrStore(key, new(atomic.Int64))
	v.(*atomic.Int64).Add(1)
}

// readRest reads until the connection ends or d expires. closed = ended before the deadline.
func readRest(conn net.Conn, d time.Duration) (closed bool, extra int) {
	deadline := time.Now().Add(d)
	_ = conn.SetReadDeadline(deadline)
	buf := make([]byte, 2048)
	for {
		n, err := conn.Read(buf)
		extra += n
		if err != nil {
			return time.Now().Before(deadline.Add(-20 * time.Millisecond)), extra
		}
		if time.Now().After(deadline) {
			return false, extra
		}
	}
}

func frame(m msg.Message) []byte {
	var b bytes.Buffer
	_ = msg.WriteMsg(&b, m)
	return b.Bytes()
}

func rawFrame(typ byte, body []byte) []byte {
	var b bytes.Buffer
	b.WriteByte(typ)
	_ = binary.Write(&b, binary.BigEndian, int64(len(body)))
	b.Write(body)
	return b.Bytes()
}

// ---------------------------------------------------------------------------------------------

type atk struct {
	c      *h.Case
	si     *srvInfo
	tr     string
	tag    string // "c<idx>"
	tp     *h.Peer
	victim *honest
	vProxy string

	atkIDs      []string // run ids claimed by refused logins
	atkHookHits atomic.Int64
	atkHookMu   sync.Mutex
	atkHookPts  []string
	seq         int
	sig         []string
	unsol       int
	flipMux     bool
}

func (a *atk) stream() (net.Conn, bool) {
	for try := 0; try < 2; try++ {
		if a.tp == nil {
			o := transportOpts(a.si, a.tr)
			o.SkipLogin = true
			if a.flipMux {
				o.TCPMux = !o.TCPMux // speak the other framing than the listener expects
			}
			p, err := h.DialPeer(o)
			if err != nil {
				continue
			}
			a.tp = p
			return p.Ctl, true
		}
		conn, err := a.tp.NewStream()
		if err == nil {
			return conn, true
		}
		a.tp.Close()
		a.tp = nil
	}
	run.Inconclusive("attacker transport could not be opened (" + a.tr + ")")
	return nil, false
}

var longStr = strings.Repeat("A", 3000)

// fuzzLogin fills every field other than the key; returns how the run id was chosen.
func (a *atk) fuzzLogin(lm *msg.Login) string {
	rng := a.c.Rng
	lm.Version = []string{"0.62.1", "", "0.1.0", "999.0.0", "0.62.1\x00", longStr[:200]}[rng.Intn(6)]
	lm.Hostname = []string{"verif", "", "localhost", longStr, "frps", "a\nb"}[rng.Intn(6)]
	lm.Os = []string{"linux", "", "windows", "ssh-tunnel"}[rng.Intn(4)]
	lm.Arch = []string{"amd64", "", "internal"}[rng.Intn(3)]
	lm.User = []string{a.tag + ".atk", "", "inc", a.tag, "../" + a.tag + ".atk", "admin"}[rng.Intn(6)]
	lm.PoolCount = []int{0, 0, 1, 5, -1, -100, 100, 1 << 30}[rng.Intn(8)]
	if rng.Intn(3) == 0 {
		lm.Metas = map[string]string{"always_auth_pass": "true", "token": "x", a.tag: "atk"}
	}
	switch rng.Intn(4) {
	case 0:
		lm.ClientSpec = msg.ClientSpec{Type: "ssh-tunnel", AlwaysAuthPass: true}
	case 1:
		lm.ClientSpec = msg.ClientSpec{AlwaysAuthPass: true}
	case 2:
		lm.ClientSpec = msg.ClientSpec{Type: "ssh-tunnel"}
	}
	switch r := rng.Intn(20); {
	case r < 8:
		return "none"
	case r < 13:
		a.seq++
		lm.RunID = fmt.Sprintf("atk-%s-%d", a.tag, a.seq)
		a.atkIDs = append(a.atkIDs, lm.RunID)
		return "claimed"
	case r < 17:
		lm.RunID = a.victim.P.RunID
		return "victim"
	default:
		lm.RunID = a.si.Inc.P.RunID
		return "incumbent"
	}
}

// shortFrameIsSlow: on a plain tcp connection without multiplexing the port multiplexer in front of frps waits
// (10 s) for the first 10 bytes before it hands the connection over; shorter first writes are refused only
// then. Correct, but slow: the quick tier leaves them to the thorough tier.
func (a *atk) shortFrameIsSlow(n int) bool {
	return n < 10 && !a.si.Mux && a.tr == "tcp" && !a.flipMux && !run.Thorough()
}

// wdog: with mismatched framing nothing is expected back, do not wait long for it
func (a *atk) wdog(key string) time.Duration {
	if a.flipMux {
		return 300 * time.Millisecond
	}
	return wd(key)
}

func (a *atk) sshSuffix() string {
	if a.si.SSHLogins.Load() > 0 {
		return "-after-ssh-gateway-login"
	}
	return ""
}

func (a *atk) vio(key, format string, args ...any) {
	a.c.Violation(key, "[%s/%s] "+format, append([]any{a.si.Name, a.tr}, args...)...)
}

// afterRefusal: the connection of a refused attempt must end without further data.
func (a *atk) afterRefusal(conn net.Conn, what string) {
	if a.flipMux {
		// framing mismatch: what comes back belongs to the multiplexing layer (or, on kcp without it, no
		// closure is observable at all); only "no success reply" and the ledgers are judged
		conn.Close()
		return
	}
	key := "refused-" + what + "-connection-not-closed"
	closed, extra := readRest(conn, wd(key))
	if extra > 0 {
		a.vio("data-sent-after-refusing-"+what, "%d bytes arrived after the refusal of an attempt without valid key", extra)
	}
	if !closed {
		wdFired(key)
		a.vio(key, "the server refused the %s but did not close the connection within the watchdog (20 s)", what)
	}
	conn.Close()
}

// judgeLoginReply reads the reply to a login that carried no valid key.
func (a *atk) judgeLoginReply(conn net.Conn, desc string, specClaimed bool, sentKey string, ts int64) {
	key := "refused-login-connection-not-closed"
	_ = conn.SetReadDeadline(time.Now().Add(a.wdog(key)))
	var resp msg.LoginResp
	t0 := time.Now()
	err := msg.ReadMsgInto(conn, &resp)
	switch {
	case err == nil && resp.Error == "":
		k := "login-accepted-without-valid-key"
		if specClaimed {
			k = "login-accepted-without-valid-key-client-spec-claimed"
		}
		if a.si.SSHLogins.Load() > 0 {
			k = "login-accepted-without-valid-key-after-ssh-gateway-login"
			desc += fmt.Sprintf(" — after %d legitimate logins through this server's ssh gateway", a.si.SSHLogins.Load())
		}
		a.vio(k, "LoginResp without error (run id %q) for %s", resp.RunID, desc)
		run.Count("bad_logins_ACCEPTED", 1)
		conn.Close()
		return
	case err == nil:
		run.Count("bad_logins_refused_with_reply", 1)
		if !a.flipMux {
			defer a.learn("login", resp.Error, ts, "", sentKey)
		}
	case a.flipMux:
		conn.Close()
		return
	case time.Since(t0) >= wd(key)-50*time.Millisecond && isTimeout(err):
		wdFired(key)
		a.vio(key, "no reply and no close within the watchdog for %s", desc)
		conn.Close()
		return
	default:
		run.Count("bad_logins_refused_by_close", 1)
	}
	a.afterRefusal(conn, "login")
}

func (a *atk) badLogin() {
	rng := a.c.Rng
	conn, ok := a.stream()
	if !ok {
		return
	}
	kind, key, ts := a.si.badKey(rng, a.tag, false)
	lm := &msg.Login{Timestamp: ts, PrivilegeKey: key}
	idKind := a.fuzzLogin(lm)
	pipelined := rng.Intn(2) == 0
	buf := frame(lm)
	if pipelined {
		buf = append(buf, frame(&msg.NewProxy{ProxyName: a.tag + ".atk.p", ProxyType: "tcp", RemotePort: a.si.PortLo + 1 + rng.Intn(a.si.PortHi-a.si.PortLo)})...)
		buf = append(buf, frame(&msg.Ping{})...)
		buf = append(buf, frame(&msg.NewWorkConn{RunID: lm.RunID})...)
	}
	desc := fmt.Sprintf("Login{key-kind=%s run-id=%s user=%q pool=%d client_spec=%+v pipelined=%v}", kind, idKind, lm.User, lm.PoolCount, lm.ClientSpec, pipelined)
	a.c.Ev("bad-login", "kind", kind, "run_id", lm.RunID, "user", lm.User, "pool", lm.PoolCount, "spec", lm.ClientSpec, "ts", ts, "key", clip(key), "pipelined", pipelined)
	a.sig = append(a.sig, "L:"+kind+":"+idKind)
	if _, err := conn.Write(buf); err != nil {
		conn.Close()
		run.Count("attempts_write_failed", 1)
		return
	}
	run.Count("bad_logins", 1)
	a.judgeLoginReply(conn, desc, lm.ClientSpec.AlwaysAuthPass || lm.ClientSpec.Type != "", key, ts)
	switch idKind {
	case "claimed":
		a.workConnExpectRefused(&msg.NewWorkConn{RunID: lm.RunID}, "run id claimed by a refused login", false)
	case "victim":
		a.checkNotDisturbed(a.victim, "victim", desc)
	case "incumbent":
		a.checkNotDisturbed(a.si.Inc, "incumbent", desc)
	}
}

func (a *atk) checkNotDisturbed(hn *honest, who, after string) {
	if n := hn.Replaced.Load(); n > 0 {
		a.vio("refused-login-replaced-existing-session", "the %s session %s was replaced (%d times) although no login with a valid key named its run id; last attempt: %s", who, hn.P.RunID, n, after)
	}
	if hn.P.Closed() {
		a.vio("existing-session-closed-by-refused-attempt", "control connection of the %s session %s ended during the attack; last attempt: %s", who, hn.P.RunID, after)
	}
}

func clip(s string) string {
	if len(s) > 80 {
		return s[:40] + "..." + s[len(s)-20:]
	}
	return s
}

// rawLogin sends hand-written JSON bodies that try to smuggle an exemption or confuse the decoder.
func (a *atk) rawLogin() {
	rng := a.c.Rng
	conn, ok := a.stream()
	if !ok {
		return
	}
	_, key, ts := a.si.badKey(rng, a.tag, false)
	q := func(s string) string { return fmt.Sprintf("%q", s) }
	bodies := []struct{ kind, body string }{
		{"extra-fields", fmt.Sprintf(`{"version":"0.62.1","privilege_key":%s,"timestamp":%d,"internal":true,"always_auth_pass":true,"AlwaysAuthPass":true,"client_spec":{"type":"ssh-tunnel","always_auth_pass":true,"AlwaysAuthPass":true},"user":%s}`, q(key), ts, q(a.tag+".atk"))},
		{"upper-case-keys", fmt.Sprintf(`{"VERSION":"0.62.1","PRIVILEGE_KEY":%s,"TIMESTAMP":%d,"CLIENT_SPEC":{"TYPE":"ssh-tunnel","ALWAYS_AUTH_PASS":true},"USER":%s}`, q(key), ts, q(a.tag+".atk"))},
		{"duplicate-keys", fmt.Sprintf(`{"privilege_key":%s,"timestamp":%d,"privilege_key":%s,"timestamp":%d,"user":%s}`, q(key), ts, q("00"+key), ts+1, q(a.tag+".atk"))},
		{"key-wrong-type", fmt.Sprintf(`{"privilege_key":true,"timestamp":%d,"user":%s}`, ts, q(a.tag+".atk"))},
		{"key-null", fmt.Sprintf(`{"privilege_key":null,"timestamp":%d,"client_spec":{"always_auth_pass":true},"user":%s}`, ts, q(a.tag+".atk"))},
		{"key-array", fmt.Sprintf(`{"privilege_key":[%s],"timestamp":%d}`, q(key), ts)},
		{"timestamp-string", fmt.Sprintf(`{"privilege_key":%s,"timestamp":"%d"}`, q(key), ts)},
		{"timestamp-float", fmt.Sprintf(`{"privilege_key":%s,"timestamp":%d.5}`, q(key), ts)},
		{"timestamp-huge", fmt.Sprintf(`{"privilege_key":%s,"timestamp":1e400}`, q(key))},
		{"spec-as-bool", fmt.Sprintf(`{"privilege_key":%s,"timestamp":%d,"client_spec":true}`, q(key), ts)},
		{"spec-string-true", fmt.Sprintf(`{"privilege_key":%s,"timestamp":%d,"client_spec":{"always_auth_pass":"true"}}`, q(key), ts)},
		{"empty-object", `{}`},
		{"empty-body", ``},
		{"null-body", `null`},
		{"array-body", `[]`},
		{"truncated-json", fmt.Sprintf(`{"privilege_key":%s,"timestamp":%d`, q(key), ts)},
		{"nested-login", fmt.Sprintf(`{"login":{"privilege_key":%s},"client_spec":{"always_auth_pass":true},"run_id":%s}`, q(key), q(a.victim.P.RunID))},
	}
	b := bodies[rng.Intn(len(bodies))]
	for a.shortFrameIsSlow(9 + len(b.body)) {
		b = bodies[rng.Intn(len(bodies))]
	}
	a.c.Ev("raw-login", "kind", b.kind, "body", clip(b.body))
	a.sig = append(a.sig, "R:"+b.kind)
	if _, err := conn.Write(rawFrame(msg.TypeLogin, []byte(b.body))); err != nil {
		conn.Close()
		return
	}
	run.Count("raw_logins", 1)
	a.judgeLoginReply(conn, "raw Login body kind="+b.kind+" body="+clip(b.body), true, key, ts)
	if b.kind == "nested-login" {
		a.checkNotDisturbed(a.victim, "victim", "raw login "+b.kind)
	}
}

// firstMsg: a message that is not a login / work connection / visitor connection as first message.
func (a *atk) firstMsg() {
	rng := a.c.Rng
	conn, ok := a.stream()
	if !ok {
		return
	}
	port := a.si.PortLo + 1 + rng.Intn(a.si.PortHi-a.si.PortLo)
	type fm struct {
		kind string
		b    []byte
		slow bool // the server may legitimately wait for its 10 s read timeout
	}
	opts := []fm{
		{"NewProxy-tcp", frame(&msg.NewProxy{ProxyName: a.tag + ".atk.t", ProxyType: "tcp", RemotePort: port}), false},
		{"NewProxy-stcp", frame(&msg.NewProxy{ProxyName: a.tag + ".atk.s", ProxyType: "stcp", Sk: "k"}), false},
		{"CloseProxy-incumbent", frame(&msg.CloseProxy{ProxyName: a.si.IncProxy}), false},
		{"CloseProxy-victim", frame(&msg.CloseProxy{ProxyName: a.vProxy}), false},
		{"Ping", frame(&msg.Ping{}), false},
		{"ReqWorkConn", frame(&msg.ReqWorkConn{}), false},
		{"StartWorkConn", frame(&msg.StartWorkConn{ProxyName: a.si.IncProxy}), false},
		{"LoginResp", frame(&msg.LoginResp{RunID: a.victim.P.RunID}), false},
		{"NewProxyResp", frame(&msg.NewProxyResp{ProxyName: a.tag + ".atk.t"}), false},
		{"Pong", frame(&msg.Pong{}), false},
		{"UDPPacket", frame(&msg.UDPPacket{Content: "aGk="}), false},
		{"NatHoleVisitor", frame(&msg.NatHoleVisitor{ProxyName: a.vProxy, TransactionID: a.tag}), false},
		{"NatHoleClient", frame(&msg.NatHoleClient{ProxyName: a.vProxy, Sid: a.tag}), false},
		{"NatHoleReport", frame(&msg.NatHoleReport{Sid: a.tag, Success: true}), false},
		{"unknown-type-byte", rawFrame('Z', []byte(`{}`)), false},
		{"zero-type-byte", rawFrame(0, []byte(`{}`)), false},
		{"oversized-length", append([]byte{msg.TypeLogin}, 0, 0, 0, 0, 0, 1, 0, 0), false},
		{"negative-length", append([]byte{msg.TypeLogin}, 0xff, 0xff, 0xff, 0xff, 0xff, 0xff, 0xff, 0xff), false},
		{"http-request", []byte("GET / HTTP/1.1\r\nHost: x\r\n\r\n"), false},
		{"tls-hello-inside", []byte{0x16, 0x03, 0x01, 0x00, 0x05, 1, 2, 3, 4, 5}, false},
	}
	if run.Thorough() && rng.Intn(10) == 0 || rng.Intn(60) == 0 {
		opts = []fm{
			{"half-frame", frame(&msg.Login{PrivilegeKey: "x", User: a.tag + ".atk"})[:12], true},
			{"type-byte-only", []byte{msg.TypeLogin}, true},
		}
	}
	o := opts[rng.Intn(len(opts))]
	for !o.slow && a.shortFrameIsSlow(len(o.b)) {
		o = opts[rng.Intn(len(opts))]
	}
	a.c.Ev("first-msg", "kind", o.kind)
	a.sig = append(a.sig, "F:"+o.kind)
	if _, err := conn.Write(o.b); err != nil {
		conn.Close()
		return
	}
	run.Count("first_messages", 1)
	key := "unauthenticated-first-message-connection-not-closed"
	d := a.wdog(key)
	if o.slow && !a.flipMux {
		d += 30 * time.Second // 3 x connReadTimeout (10 s) + 10 s
		if wd(key) < 20*time.Second {
			d = time.Second
		}
	}
	// anything that decodes as a success reply is a violation; otherwise only closure is demanded
	_ = conn.SetReadDeadline(time.Now().Add(d))
	t0 := time.Now()
	m, err := msg.ReadMsg(conn)
	if err == nil {
		bad := false
		switch r := m.(type) {
		case *msg.LoginResp:
			bad = r.Error == ""
		case *msg.NewProxyResp:
			bad = r.Error == ""
		case *msg.Pong:
			bad = r.Error == ""
		case *msg.StartWorkConn:
			bad = r.Error == ""
		case *msg.NatHoleResp:
			bad = r.Error == ""
		}
		if bad {
			a.vio("success-reply-to-unauthenticated-first-message", "first message %s on a fresh connection was answered with %T without error", o.kind, m)
		}
	} else if a.flipMux {
		conn.Close()
		run.Count("first_messages_refused", 1)
		return
	} else if time.Since(t0) >= d-50*time.Millisecond && isTimeout(err) {
		wdFired(key)
		a.vio(key, "first message %s: connection neither answered nor closed within %v", o.kind, d)
		conn.Close()
		return
	}
	if a.flipMux {
		conn.Close()
		run.Count("first_messages_refused", 1)
		return
	}
	closed, _ := readRest(conn, wd(key))
	if !closed {
		wdFired(key)
		a.vio(key, "first message %s: connection still open after the watchdog", o.kind)
	}
	conn.Close()
	run.Count("first_messages_refused", 1)
}

// workConnExpectRefused opens a work connection that must be refused: no StartWorkConn without error, closed.
// wantReply: the property promises an error reply (known session, scope on) — absence is tolerated, success never.
func (a *atk) workConnExpectRefused(m *msg.NewWorkConn, why string, knownSession bool) {
	conn, ok := a.stream()
	if !ok {
		return
	}
	if err := msg.WriteMsg(conn, m); err != nil {
		conn.Close()
		return
	}
	run.Count("bad_workconns", 1)
	key := "refused-workconn-connection-not-closed"
	d := a.wdog(key)
	_ = conn.SetReadDeadline(time.Now().Add(d))
	var st msg.StartWorkConn
	t0 := time.Now()
	err := msg.ReadMsgInto(conn, &st)
	switch {
	case err == nil && st.Error == "":
		a.vio("workconn-started-without-valid-key"+a.sshSuffix(), "work connection (%s; run id %q key %q ts %d) received StartWorkConn{proxy %q} without error: it was pooled and handed a user connection", why, m.RunID, clip(m.PrivilegeKey), m.Timestamp, st.ProxyName)
		conn.Close()
		return
	case err == nil:
		run.Count("bad_workconns_error_reply", 1)
		if !a.flipMux {
			defer a.learn("workconn", st.Error, m.Timestamp, m.RunID, m.PrivilegeKey)
		}
	case a.flipMux:
		conn.Close()
		return
	case time.Since(t0) >= d-50*time.Millisecond && isTimeout(err):
		wdFired(key)
		pooled := ""
		if knownSession {
			pooled = fmt.Sprintf(" (server pool ledger: %s)", a.poolState())
		}
		k := key
		if knownSession && a.victim.Pooled.Load() > a.victim.SentWork.Load() {
			k = "workconn-pooled-without-valid-key" + a.sshSuffix()
		}
		a.vio(k, "work connection (%s; run id %q key %q ts %d) was neither refused nor closed within the watchdog%s", why, m.RunID, clip(m.PrivilegeKey), m.Timestamp, pooled)
		conn.Close()
		return
	default:
		run.Count("bad_workconns_closed_without_reply", 1)
	}
	a.afterRefusal(conn, "workconn")
}

func (a *atk) poolState() string {
	for _, s := range a.si.S.Snapshot().Sessions {
		if s.RunID == a.victim.P.RunID {
			return fmt.Sprintf("victim pool len %d, honest work conns sent %d, pooled (hook) %d", s.PoolLen, a.victim.SentWork.Load(), a.victim.Pooled.Load())
		}
	}
	return "victim session not in table"
}

func (a *atk) workConn() {
	rng := a.c.Rng
	vid := a.victim.P.RunID
	r := rng.Intn(12)
	switch {
	case r < 5: // unknown session
		ids := []struct{ k, id string }{
			{"random", fmt.Sprintf("%016x", rng.Uint64())},
			{"empty", ""},
			{"victim-prefix", vid[:len(vid)-1]},
			{"victim-plus-char", vid + "0"},
			{"victim-upper", strings.ToUpper(vid) + ""},
			{"victim-space", " " + vid},
			{"victim-nul", vid + "\x00"},
			{"long", longStr[:500]},
		}
		c := ids[rng.Intn(len(ids))]
		if c.id == vid { // upper-casing an all-digit id
			c.id = vid + "X"
		}
		m := &msg.NewWorkConn{RunID: c.id}
		if rng.Intn(2) == 0 { // even a perfectly signed message must not help for an unknown session
			m = a.si.validWork(c.id)
		}
		a.c.Ev("workconn-unknown-session", "kind", c.k, "run_id", clip(c.id), "signed", m.PrivilegeKey != "")
		a.sig = append(a.sig, "W:unknown:"+c.k)
		a.workConnExpectRefused(m, "unknown session ("+c.k+")", false)
	case r < 10: // known session, key variants
		target := a.victim
		who := "victim"
		if rng.Intn(4) == 0 {
			target, who = a.si.Inc, "incumbent"
		}
		kind, key, ts := a.si.badKey(rng, a.tag, true)
		m := &msg.NewWorkConn{RunID: target.P.RunID, PrivilegeKey: key, Timestamp: ts}
		a.c.Ev("workconn-known-session", "who", who, "kind", kind, "key", clip(key), "ts", ts, "scope", a.si.WC)
		if a.si.WC {
			a.sig = append(a.sig, "W:badkey:"+kind+":"+who)
			a.workConnExpectRefused(m, "known session ("+who+"), NewWorkConns scope on, key kind "+kind, who == "victim")
			return
		}
		// scope off: the run id is the credential, the connection is legitimately pooled (control)
		a.sig = append(a.sig, "W:noscope:"+who)
		a.honestUnsolicited(target, m)
	default: // positive control: valid key
		a.sig = append(a.sig, "W:valid")
		a.honestUnsolicited(a.victim, a.si.validWork(vid))
	}
}

// honestUnsolicited sends a work connection the server must accept, and serves it like the session's own.
func (a *atk) honestUnsolicited(target *honest, m *msg.NewWorkConn) {
	if target != a.victim {
		// do not fill the incumbent's pool from many cases at once: only the refusal side is exercised there
		return
	}
	if a.unsol >= 4 {
		return // keep well below the pool capacity (pool_count + 10)
	}
	a.unsol++
	target.SentWork.Add(1)
	wc, err := target.P.OpenWorkConnMsg(m)
	if err != nil {
		target.SentWork.Add(-1)
		return
	}
	run.Count("valid_workconns_sent", 1)
	go func() {
		if _, err := wc.ReadStart(0); err != nil || wc.Start.Error != "" {
			if err == nil {
				a.c.Ev("valid-workconn-refused", "error", wc.Start.Error)
				run.Count("valid_workconns_REFUSED", 1)
			}
			wc.Conn.Close()
			return
		}
		h.IdentBackend(target.ID, a.si.Token, false, false, nil)(target.P, wc)
	}()
}

func (a *atk) ping() {
	rng := a.c.Rng
	p := a.victim.P
	if rng.Intn(3) == 0 {
		pong, err := p.PingWith(a.si.validPing(), 20*time.Second)
		a.sig = append(a.sig, "P:valid")
		if err != nil {
			run.Inconclusive("no pong for a valid ping")
			return
		}
		if pong.Error != "" {
			run.Count("valid_pings_REFUSED", 1)
			a.c.Ev("valid-ping-refused", "error", pong.Error)
			return
		}
		run.Count("valid_pings_acknowledged", 1)
		return
	}
	kind, key, ts := a.si.badKey(rng, a.tag, true)
	pong, err := p.PingWith(&msg.Ping{PrivilegeKey: key, Timestamp: ts}, 20*time.Second)
	a.c.Ev("bad-ping", "kind", kind, "key", clip(key), "ts", ts, "scope", a.si.HB, "pong", pong, "err", fmt.Sprint(err))
	if err != nil {
		run.Inconclusive("no pong for an invalid ping")
		return
	}
	if a.si.HB {
		a.sig = append(a.sig, "P:bad:"+kind)
		run.Count("bad_pings", 1)
		if pong.Error == "" {
			k := "invalid-heartbeat-acknowledged"
			if a.si.SSHLogins.Load() > 0 {
				k += "-after-ssh-gateway-login"
			}
			a.vio(k, "HeartBeats scope on: Ping{key kind %s, key %q, ts %d} was answered with Pong without error", kind, clip(key), ts)
		} else {
			a.learn("heartbeat", pong.Error, ts, "", key)
		}
	} else {
		a.sig = append(a.sig, "P:noscope")
		run.Count("unsigned_pings_scope_off", 1)
	}
}

// ---------------------------------------------------------------------------------------------

func attackCase(c *h.Case, si *srvInfo, tr string) {
	a := &atk{c: c, si: si, tr: tr, tag: fmt.Sprintf("c%d", c.Idx)}
	rng := c.Rng
	nSteps := 4 + rng.Intn(7)
	c.Data["kind"], c.Data["server"], c.Data["transport"], c.Data["steps"] = "attack", si.Name, tr, nSteps

	if _, err := probeTCP(si.IncPort, si.Inc.ID+"|"); err != nil {
		run.Inconclusive("incumbent tunnel not working before the case")
		return
	}
	// positive control: the same kind of login with a valid key is accepted and can register a proxy
	a.flipMux = tr != "quic" && rng.Intn(8) == 0
	c.Data["attacker_flips_mux"] = a.flipMux
	v, err := loginHonest(si, tr, a.tag, "V-"+a.tag, 0)
	if err != nil {
		// the attack still runs over tr; only the positive control moves to plain tcp
		c.Ev("positive-control-login-failed", "err", err.Error())
		run.Inconclusive("positive control login failed (" + tr + ")")
		run.Count("positive_control_login_failed", 1)
		if v, err = loginHonest(si, "tcp", a.tag, "V-"+a.tag, 0); err != nil {
			return
		}
	}
	a.victim = v
	defer v.Close()
	run.Count("honest_logins", 1)
	a.vProxy = a.tag + ".v"
	resp, err := v.P.NewProxy(&msg.NewProxy{ProxyName: a.vProxy, ProxyType: "stcp", Sk: "sk-" + a.tag, AllowUsers: []string{"*"}}, 20*time.Second)
	if err != nil || resp.Error != "" {
		run.Inconclusive("positive control registration failed")
		return
	}
	rmAtk := h.OnHook("", "atk-"+a.tag+"-", func(point string, args []any) {
		a.atkHookHits.Add(1)
		a.atkHookMu.Lock()
		a.atkHookPts = append(a.atkHookPts, point)
		a.atkHookMu.Unlock()
	})
	defer rmAtk()
	defer func() {
		if a.tp != nil {
			a.tp.Close()
		}
	}()

	for i := 0; i < nSteps && c.Violations() == 0; i++ {
		switch r := rng.Intn(20); {
		case r < 8:
			a.badLogin()
		case r < 10:
			a.rawLogin()
		case r < 13:
			a.firstMsg()
		case r < 18:
			a.workConn()
		default:
			a.ping()
		}
	}
	c.Data["sig"] = append([]string{}, a.sig...)
	a.ledger()
	if run.OnlyCase >= 0 { // replay: show the timed event log
		for _, e := range c.Log.Snapshot() {
			fmt.Fprintf(os.Stderr, "%+v\n", e)
		}
	}
	sort.Strings(a.sig)
	run.Distinct(fmt.Sprintf("attack|%s|%s|%v|%s", si.Name, tr, a.flipMux, strings.Join(a.sig, ",")))
	if c.Idx < 3 {
		run.Sample(map[string]any{"kind": "attack", "server": si.Name, "transport": tr, "steps": a.sig})
	}
}

// ledger: model (what honest peers were granted) vs. the server's own tables vs. traffic.
func (a *atk) ledger() {
	c, si, v := a.c, a.si, a.victim
	vid := v.P.RunID
	// 1. nothing exists for run ids claimed by refused logins; hooks past authentication never saw them
	if n := a.atkHookHits.Load(); n > 0 {
		a.atkHookMu.Lock()
		pts := strings.Join(a.atkHookPts, ",")
		a.atkHookMu.Unlock()
		a.vio("server-state-created-for-refused-login", "code past the login verification ran for run ids claimed only by refused logins: %s", pts)
	}
	checkTables := func(phase string) {
		snap := si.S.Snapshot()
		var mine []string
		for _, s := range snap.Sessions {
			if strings.HasPrefix(s.RunID, "atk-"+a.tag+"-") || strings.Contains(s.User, a.tag+".atk") {
				a.vio("session-exists-for-refused-login", "%s: session table holds run id %q user %q, which only refused logins named", phase, s.RunID, s.User)
			}
			if s.RunID == vid {
				mine = s.Proxies
				if sent := v.SentWork.Load(); int64(s.PoolLen) > sent {
					a.vio("workconn-pooled-without-valid-key"+a.sshSuffix(), "%s: pool of session %s holds %d connections but only %d work connections with a valid key were ever sent", phase, vid, s.PoolLen, sent)
				}
			}
		}
		if strings.Join(mine, ",") != a.vProxy {
			a.vio("existing-session-proxies-changed", "%s: victim session %s holds proxies %v, want [%s]", phase, vid, mine, a.vProxy)
		}
		for _, n := range snap.ProxyNames {
			if strings.HasPrefix(n, a.tag+".") && n != a.vProxy {
				a.vio("proxy-registered-without-session", "%s: proxy table holds %q, which only unauthenticated messages named", phase, n)
			}
		}
		for port, n := range snap.TCPPorts.Used {
			if strings.HasPrefix(n, a.tag+".") {
				a.vio("port-held-without-session", "%s: tcp port %d is held by %q", phase, port, n)
			}
		}
		incOK := false
		for _, s := range snap.Sessions {
			if s.RunID == si.Inc.P.RunID && strings.Join(s.Proxies, ",") == si.IncProxy {
				incOK = true
			}
		}
		if !incOK {
			a.vio("incumbent-session-changed", "%s: incumbent session %s / proxy %s is no longer in the server's tables", phase, si.Inc.P.RunID, si.IncProxy)
		}
	}
	checkTables("after the attack sequence")
	a.checkNotDisturbed(v, "victim", "end of sequence")
	a.checkNotDisturbed(si.Inc, "incumbent", "end of sequence")

	// 2. pool ledger through the hook: connections that passed verification for the victim == valid ones sent
	okPool := h.Eventually(15*time.Second, func() bool { return v.Pooled.Load() >= v.SentWork.Load() })
	if p, s := v.Pooled.Load(), v.SentWork.Load(); p > s {
		a.vio("workconn-pooled-without-valid-key"+a.sshSuffix(), "%d work connections passed verification for session %s but only %d carried a valid key", p, vid, s)
	} else if !okPool {
		run.Inconclusive("valid work connections not registered within 15 s")
	} else {
		run.Count("valid_workconns_pooled", s)
	}

	// 3. traffic: the victim's and the incumbent's tunnels still work and are served by their owners
	if !v.P.Closed() {
		if pong, err := v.P.PingWith(si.validPing(), 20*time.Second); err != nil || pong.Error != "" {
			a.vio("existing-session-stopped-working", "victim session no longer answers valid pings after the attack: %v %v", err, pong)
		}
		ts := time.Now().Unix()
		conn, resp, err := v.P.OpenVisitorConn(&msg.NewVisitorConn{RunID: vid, ProxyName: a.vProxy, Timestamp: ts, SignKey: h.AuthKey("sk-"+a.tag, ts)}, 20*time.Second)
		if err != nil || resp.Error != "" {
			a.vio("existing-session-stopped-working", "visitor connection to the victim's proxy refused after the attack: %v %v", err, resp)
		} else {
			id, err := h.AskIdentOn(conn, 20*time.Second)
			conn.Close()
			if err != nil || id != v.ID+"|"+a.vProxy {
				a.vio("existing-session-stopped-working", "victim's proxy answered %q (%v), want %q", id, err, v.ID+"|"+a.vProxy)
			} else {
				run.Count("victim_probes_ok", 1)
			}
		}
	}
	if id, err := probeTCP(si.IncPort, si.Inc.ID+"|"); err != nil {
		a.vio("incumbent-tunnel-disturbed", "incumbent tunnel on port %d stopped working during the attack: %q %v", si.IncPort, id, err)
	} else {
		run.Count("incumbent_probes_ok", 1)
	}
	checkTables("after the probes")
	c.Ev("ledger", "victim_sent", v.SentWork.Load(), "victim_pooled", v.Pooled.Load())
}

// ---------------------------------------------------------------------------------------------
// barrage: many refused attempts at once while the incumbent's tunnel carries traffic

func barrageCase(c *h.Case, si *srvInfo, tr string) {
	rng := c.Rng
	tag := fmt.Sprintf("c%d", c.Idx)
	n := 60 + rng.Intn(run.N(80, 400))
	workers := 3 + rng.Intn(4)
	c.Data["kind"], c.Data["server"], c.Data["transport"], c.Data["attempts"], c.Data["workers"] = "barrage", si.Name, tr, n, workers
	if _, err := probeTCP(si.IncPort, si.Inc.ID+"|"); err != nil {
		run.Inconclusive("incumbent tunnel not working before the case")
		return
	}
	before := si.S.Snapshot()
	var accepted, refused atomic.Int64
	var wg sync.WaitGroup
	stop := make(chan struct{})
	var probes, probeFail atomic.Int64
	var lastErr atomic.Value
	go func() {
		for {
			select {
			case <-stop:
				return
			default:
			}
			if id, err := probeTCP(si.IncPort, si.Inc.ID+"|"); err != nil {
				probeFail.Add(1)
				lastErr.Store(fmt.Sprintf("%q %v", id, err))
			}
			probes.Add(1)
			time.Sleep(20 * time.Millisecond)
		}
	}()
	seeds := make([]int64, workers)
	for i := range seeds {
		seeds[i] = rng.Int63()
	}
	for w := 0; w < workers; w++ {
		wg.Add(1)
		go func(w int) {
			defer wg.Done()
			r := run.RandFor(fmt.Sprintf("barrage-%d", w), c.Idx)
			o := transportOpts(si, tr)
			o.SkipLogin = true
			tp, err := h.DialPeer(o)
			if err != nil {
				run.Inconclusive("attacker transport could not be opened (" + tr + ")")
				return
			}
			defer tp.Close()
			for i := 0; i < n/workers; i++ {
				conn := tp.Ctl // the transport's first stream must not stay idle (see the stall cases)
				if i > 0 {
					if conn, err = tp.NewStream(); err != nil {
						return
					}
				}
				var b []byte
				kindSel := r.Intn(3)
				switch kindSel {
				case 0:
					_, key, ts := si.badKey(r, tag, false)
					b = frame(&msg.Login{User: tag + ".atk", PrivilegeKey: key, Timestamp: ts, RunID: []string{"", si.Inc.P.RunID, "atk-" + tag + "-b"}[r.Intn(3)],
						ClientSpec: msg.ClientSpec{AlwaysAuthPass: r.Intn(2) == 0}})
				case 1:
					b = frame(&msg.NewWorkConn{RunID: fmt.Sprintf("%016x", r.Uint64())})
				default:
					b = frame(&msg.NewProxy{ProxyName: tag + ".atk.b", ProxyType: "stcp", Sk: "k"})
				}
				_, _ = conn.Write(b)
				key := "barrage-attempt-neither-answered-nor-closed"
				d := wd(key)
				_ = conn.SetReadDeadline(time.Now().Add(d))
				t0 := time.Now()
				m, err := msg.ReadMsg(conn)
				if err != nil && time.Since(t0) >= d-50*time.Millisecond && isTimeout(err) {
					wdFired(key)
					c.Violation(key, "[%s/%s] an unauthenticated attempt of a barrage (kind %d) was neither answered nor closed within the watchdog", si.Name, tr, kindSel)
					conn.Close()
					return
				}
				ok := false
				if err == nil {
					switch x := m.(type) {
					case *msg.LoginResp:
						ok = x.Error == ""
					case *msg.StartWorkConn:
						ok = x.Error == ""
					case *msg.NewProxyResp:
						ok = x.Error == ""
					}
				}
				if ok {
					accepted.Add(1)
				} else {
					refused.Add(1)
				}
				conn.Close()
			}
		}(w)
	}
	wg.Wait()
	close(stop)
	run.Count("barrage_attempts", refused.Load()+accepted.Load())
	if accepted.Load() > 0 {
		c.Violation("barrage-attempt-accepted", "[%s/%s] %d of %d unauthenticated attempts of a barrage received a success reply", si.Name, tr, accepted.Load(), n)
	}
	if f := probeFail.Load(); f > 0 {
		c.Violation("incumbent-tunnel-disturbed", "[%s/%s] %d of %d probes through the incumbent's tunnel failed during a barrage of %d refused attempts: %v", si.Name, tr, f, probes.Load(), n, lastErr.Load())
	}
	run.Count("incumbent_probes_ok", probes.Load()-probeFail.Load())
	if si.Inc.Replaced.Load() > 0 || si.Inc.P.Closed() {
		c.Violation("refused-login-replaced-existing-session", "[%s/%s] incumbent session replaced/closed during a barrage", si.Name, tr)
	}
	after := si.S.Snapshot()
	for _, s := range after.Sessions {
		if strings.HasPrefix(s.RunID, "atk-"+tag+"-") || strings.Contains(s.User, tag+".atk") {
			c.Violation("session-exists-for-refused-login", "[%s/%s] after a barrage the session table holds run id %q user %q", si.Name, tr, s.RunID, s.User)
		}
	}
	for _, nme := range after.ProxyNames {
		if strings.HasPrefix(nme, tag+".") {
			c.Violation("proxy-registered-without-session", "[%s/%s] after a barrage the proxy table holds %q", si.Name, tr, nme)
		}
	}
	_ = before
	run.Distinct(fmt.Sprintf("barrage|%s|%s|%d|%d", si.Name, tr, n, workers))
}
