package main

// ssh tunnel gateway: the virtual client it creates reaches frps through the internal listener, the only
// place where client_spec.always_auth_pass is honoured. With an authorized-keys file only holders of a
// listed key get that far; without one the virtual client must still present the token.

import (
	"crypto/ed25519"
	"crypto/rand"
	"fmt"
	"io"
	"net"
	"os"
	"path/filepath"
	"strings"
	"sync"
	"time"

	"golang.org/x/crypto/ssh"

	"verif/h"
)

var (
	sshAuthKeysFile string
	sshKnownSigner  ssh.Signer // listed in the authorized-keys file (comment = user "sshalice")
	sshOtherSigner  ssh.Signer // not listed
)

func setupSSHKeys() error {
	mk := func() (ssh.Signer, error) {
		_, priv, err := ed25519.GenerateKey(rand.Reader)
		if err != nil {
			return nil, err
		}
		return ssh.NewSignerFromKey(priv)
	}
	var err error
	if sshKnownSigner, err = mk(); err != nil {
		return err
	}
	if sshOtherSigner, err = mk(); err != nil {
		return err
	}
	sshAuthKeysFile = filepath.Join(h.RunDir(prop), "authorized_keys")
	line := strings.TrimSpace(string(ssh.MarshalAuthorizedKey(sshKnownSigner.PublicKey()))) + " sshalice\n"
	return os.WriteFile(sshAuthKeysFile, []byte(line), 0o600)
}

type sshResult struct {
	dialErr   error
	output    string
	ended     bool // the server ended the ssh connection
	sawState  string
	tunnelID  string
	tunnelErr error
}

// sshAttempt opens an ssh connection like `ssh -R :80:x:y v0@gw -p port <payload>` and watches the server's
// tables for `watch` (substring of a proxy name) while the connection is up (at most hold).
func sshAttempt(si *srvInfo, auth []ssh.AuthMethod, payload, watch string, hold time.Duration, expectTunnel bool) sshResult {
	var res sshResult
	cfg := &ssh.ClientConfig{User: "v0", Auth: auth, HostKeyCallback: ssh.InsecureIgnoreHostKey(), Timeout: 20 * time.Second}
	cl, err := ssh.Dial("tcp", fmt.Sprintf("127.0.0.1:%d", si.SSHPort), cfg)
	if err != nil {
		res.dialErr = err
		return res
	}
	defer cl.Close()
	ln, err := cl.Listen("tcp", "0.0.0.0:80")
	if err != nil {
		res.dialErr = fmt.Errorf("tcpip-forward: %w", err)
		return res
	}
	go func() {
		for {
			conn, err := ln.Accept()
			if err != nil {
				return
			}
			go func(conn net.Conn) { // ident backend at the ssh client's end
				defer conn.Close()
				nonce := make([]byte, 16)
				if _, err := io.ReadFull(conn, nonce); err != nil {
					return
				}
				_, _ = conn.Write(append([]byte("SSH|x|"), nonce...))
				_, _ = io.Copy(conn, conn)
			}(conn)
		}
	}()
	sess, err := cl.NewSession()
	if err != nil {
		res.dialErr = fmt.Errorf("session: %w", err)
		return res
	}
	out := &lockedBuf{}
	sess.Stdout = out
	if err := sess.Start(payload); err != nil {
		res.dialErr = fmt.Errorf("exec: %w", err)
		return res
	}
	done := make(chan struct{})
	go func() { _ = cl.Wait(); close(done) }()
	deadline := time.Now().Add(hold)
	for time.Now().Before(deadline) {
		snap := si.S.Snapshot()
		for _, n := range snap.ProxyNames {
			if strings.Contains(n, watch) && res.sawState == "" {
				res.sawState = "proxy " + n
				if expectTunnel {
					for port, pn := range snap.TCPPorts.Used {
						if pn == n {
							res.tunnelID, res.tunnelErr = h.AskIdent(fmt.Sprintf("127.0.0.1:%d", port), 20*time.Second)
						}
					}
				}
			}
		}
		for _, s := range snap.Sessions {
			if strings.Contains(s.User, watch) && res.sawState == "" {
				res.sawState = "session of user " + s.User
			}
		}
		if res.sawState != "" {
			break
		}
		select {
		case <-done:
			res.ended = true
		case <-time.After(20 * time.Millisecond):
		}
		if res.ended {
			break
		}
	}
	res.output = out.String()
	return res
}

type lockedBuf struct {
	mu sync.Mutex
	b  []byte
}

func (l *lockedBuf) Write(p []byte) (int, error) {
	l.mu.Lock()
	l.b = append(l.b, p...)
	l.mu.Unlock()
	return len(p), nil
}

func (l *lockedBuf) String() string {
	l.mu.Lock()
	defer l.mu.Unlock()
	return string(l.b)
}

func sshCase(c *h.Case) {
	rng := c.Rng
	tag := fmt.Sprintf("c%d", c.Idx)
	watch := tag + "ssh"
	withKeys := rng.Intn(2) == 0
	si := sshOpen
	if withKeys {
		si = sshKeyed
	}
	var variants []string
	if withKeys {
		variants = []string{"unlisted-key", "no-key", "password", "listed-key"}
	} else {
		variants = []string{"no-token", "wrong-token", "prefix-token", "token-as-user", "right-token"}
	}
	v := variants[rng.Intn(len(variants))]
	c.Data["kind"], c.Data["server"], c.Data["variant"] = "ssh", si.Name, v
	payload := fmt.Sprintf("tcp --remote_port 0 --proxy_name %s --user %su", watch, watch)
	auth := []ssh.AuthMethod{}
	positive := false
	switch v {
	case "unlisted-key":
		auth = []ssh.AuthMethod{ssh.PublicKeys(sshOtherSigner)}
		payload += " --token " + token // knowing nothing else must not help either way; the token is irrelevant here
		if rng.Intn(2) == 0 {
			payload = strings.Replace(payload, " --token "+token, "", 1)
		}
	case "no-key":
	case "password":
		auth = []ssh.AuthMethod{ssh.Password(token)}
	case "listed-key":
		auth = []ssh.AuthMethod{ssh.PublicKeys(sshKnownSigner)}
		positive = true
	case "no-token":
	case "wrong-token":
		payload += " --token not-the-token"
	case "prefix-token":
		payload += " --token " + token[:len(token)-1]
	case "token-as-user":
		payload = fmt.Sprintf("tcp --remote_port 0 --proxy_name %s --user %s", watch, token)
	case "right-token":
		payload += " --token " + token
		positive = true
	}
	c.Ev("ssh-attempt", "variant", v, "payload", strings.ReplaceAll(payload, token, "<token>"))
	hold := 2500 * time.Millisecond
	if positive {
		hold = 8 * time.Second
	}
	res := sshAttempt(si, auth, payload, watch, hold, positive)
	c.Ev("ssh-result", "dial_err", fmt.Sprint(res.dialErr), "ended", res.ended, "saw", res.sawState, "tunnel", res.tunnelID, "output", clip(res.output))
	run.Distinct("ssh|" + si.Name + "|" + v + "|" + fmt.Sprint(strings.Contains(payload, "--token")))
	if positive {
		if res.sawState == "" || res.tunnelErr != nil || !strings.HasPrefix(res.tunnelID, "SSH|") {
			// the gateway gives the virtual client one second to come up: under load this control may fail
			run.Inconclusive("ssh positive control did not come up (" + v + ")")
			run.Count("ssh_positive_failed", 1)
			return
		}
		run.Count("ssh_positive_ok", 1)
		si.SSHLogins.Add(1)
		return
	}
	run.Count("ssh_refused_attempts", 1)
	if res.sawState != "" {
		c.Violation("ssh-gateway-session-without-credentials", "[%s] ssh gateway attempt %q (authorized keys: %v) produced server state: %s", si.Name, v, withKeys, res.sawState)
		return
	}
	if withKeys && res.dialErr == nil {
		c.Violation("ssh-gateway-accepted-unlisted-key", "[%s] ssh handshake succeeded for variant %q although an authorized-keys file is configured", si.Name, v)
	}
	// quiescence: nothing left for this case
	time.Sleep(100 * time.Millisecond)
	snap := si.S.Snapshot()
	for _, n := range snap.ProxyNames {
		if strings.Contains(n, watch) {
			c.Violation("ssh-gateway-session-without-credentials", "[%s] after refused ssh attempt %q the proxy table holds %q", si.Name, v, n)
		}
	}
	for _, s := range snap.Sessions {
		if strings.Contains(s.User, watch) {
			c.Violation("ssh-gateway-session-without-credentials", "[%s] after refused ssh attempt %q the session table holds user %q", si.Name, v, s.User)
		}
	}
}

// sshLegitLogin performs one legitimate login through the gateway of si (authorized key / right token) and
// waits until its session is gone again; up to 5 attempts (the gateway gives its virtual client 1 s to come up).
func sshLegitLogin(si *srvInfo, tag string) bool {
	for i := 0; i < 5; i++ {
		watch := fmt.Sprintf("%sssh%d", tag, i)
		payload := fmt.Sprintf("tcp --remote_port 0 --proxy_name %s --user %su", watch, watch)
		auth := []ssh.AuthMethod{}
		if si.SSHKeys {
			auth = []ssh.AuthMethod{ssh.PublicKeys(sshKnownSigner)}
		} else {
			payload += " --token " + token
		}
		res := sshAttempt(si, auth, payload, watch, 8*time.Second, true)
		if res.sawState != "" && res.tunnelErr == nil && strings.HasPrefix(res.tunnelID, "SSH|") {
			si.SSHLogins.Add(1)
			run.Count("ssh_positive_ok", 1)
			h.Eventually(15*time.Second, func() bool { return len(si.S.Snapshot().Sessions) <= 1 })
			return true
		}
		time.Sleep(200 * time.Millisecond)
	}
	run.Inconclusive("legitimate ssh gateway login did not come up on " + si.Name)
	return false
}
