package main

// Stall cases: (websocket) connections that never send a byte. They are "attempts" that carry no credential at all;
// the server refuses them by its read timeout. While they are pending, an existing session of a server
// without tcp multiplexing must still be able to bring up work connections (each one is a fresh
// connection to the same listener), i.e. its tunnel keeps working.

import (
	"fmt"
	"net"
	"sync"
	"time"

	"verif/h"
)

const stallKey = "idle-unauthenticated-connections-stall-existing-session"

var stallMu sync.Mutex // one stall case at a time: concurrent ones would only add their stalls up

func stallCase(c *h.Case) {
	rng := c.Rng
	si := stallSrv
	k := 4 + rng.Intn(3)
	waitClose := rng.Intn(3) == 0
	first := []string{"nothing", "nothing", "nothing-then-close"}[rng.Intn(3)]
	c.Data["kind"], c.Data["server"], c.Data["idle_connections"], c.Data["mode"] = "stall", si.Name, k, first
	if si.Inc == nil {
		run.Inconclusive("stall server has no working websocket incumbent")
		return
	}
	stallMu.Lock()
	locked := true
	unlock := func() {
		if locked {
			locked = false
			stallMu.Unlock()
		}
	}
	defer unlock()
	if wd(stallKey) < 20*time.Second {
		run.Count("stall_cases_skipped_after_three_findings", 1)
		return
	}
	if _, err := probeTCP(si.IncPort, si.Inc.ID+"|"); err != nil {
		run.Inconclusive("incumbent tunnel not working before the case")
		return
	}
	var idle []net.Conn
	for i := 0; i < k; i++ {
		// a websocket connection (upgrade completed by the transport) on which the peer then stays silent;
		// plain tcp connections are parked by the port multiplexer before they reach the accept loop
		o := transportOpts(si, "websocket")
		o.SkipLogin = true
		p, err := h.DialPeer(o)
		if err != nil {
			run.Inconclusive("idle connection could not be opened")
			break
		}
		idle = append(idle, p.Ctl)
	}
	defer func() {
		for _, x := range idle {
			x.Close()
		}
	}()
	c.Ev("idle-connections-open", "n", len(idle))
	run.Count("idle_connections", int64(len(idle)))
	t0 := time.Now()
	// the server keeps at most one replacement connection pooled for the incumbent (pool count 0): the second
	// and third user connection need fresh work connections, i.e. new connections through the same listener
	var id string
	var err error
	// (connections requested during earlier stalls may have piled up in the pool: drain them first)
	n := 3
	for _, ss := range si.S.Snapshot().Sessions {
		if ss.RunID == si.Inc.P.RunID {
			n = ss.PoolLen + 2
		}
	}
	c.Data["probes"] = n
	for i := 0; i < n && err == nil; i++ {
		id, err = probeTCP(si.IncPort, si.Inc.ID+"|")
		c.Ev("probe", "n", i, "id", id, "err", fmt.Sprint(err), "ms", time.Since(t0).Milliseconds())
	}
	if err != nil {
		wdFired(stallKey)
		c.Violation(stallKey, "[%s] %d websocket connections that never sent a byte were open: the tunnel of the incumbent (a websocket client; tcpMux off, so every work connection is a new connection to the same listener) failed twice in a row within %v: %q %v",
			si.Name, len(idle), time.Since(t0).Round(time.Millisecond), id, err)
	} else {
		run.Count("incumbent_probes_ok", int64(n))
		run.Count("stall_probes_ok", int64(n))
	}
	if first == "nothing-then-close" {
		for _, x := range idle {
			x.Close()
		}
	} else if waitClose && err == nil {
		// the probes passed: waiting for the server's read timeout needs no exclusivity
		unlock()
		// refused = closed by the read timeout (10 s); watchdog 3 x 10 s + 10 s
		key := "idle-connection-not-closed"
		d := 40 * time.Second
		if wd(key) < 20*time.Second {
			d = time.Second
		}
		var wg sync.WaitGroup
		open := make([]bool, len(idle))
		for i, x := range idle {
			wg.Add(1)
			go func(i int, x net.Conn) {
				defer wg.Done()
				closed, _ := readRest(x, d)
				open[i] = !closed
			}(i, x)
		}
		wg.Wait()
		for i := range open {
			if open[i] {
				wdFired(key)
				c.Violation(key, "[%s] a connection that never sent a byte is still open after %v (read timeout 10 s)", si.Name, d)
				break
			}
		}
		run.Count("idle_connections_closed_by_server", int64(len(idle)))
	}
	run.Distinct(fmt.Sprintf("stall|%d|%s|%v", k, first, waitClose))
}
