package main

// Server fleet: one real frps (in-process) per authentication configuration, each with an honest
// incumbent session whose tunnel is probed before / during / after the attacks.

import (
	"crypto/md5"
	"encoding/hex"
	"fmt"
	"math/rand"
	"net"
	"strings"
	"sync"
	"sync/atomic"
	"time"

	"github.com/fatedier/frp/pkg/msg"

	"verif/h"
)

const token = "c04-Secret-Token"
const honestSub = "honest" // OIDC subject of every honest login (logged in once at set-up, sequentially)

type srvInfo struct {
	Name      string
	S         *h.Server
	Port      int
	KCP, QUIC int
	Method    string // token | oidc
	HB, WC    bool   // additional scopes
	Mux       bool
	HBTimeout int
	Token     string // control-cipher key = the server's auth.token ("" with oidc)
	PortLo    int
	PortHi    int
	Web       int
	SSHPort   int
	SSHKeys   bool         // ssh gateway with authorizedKeysFile
	SkipIss   bool         // auth.oidc.skipIssuerCheck
	SkipExp   bool         // auth.oidc.skipExpiryCheck
	NoInc     bool         // no incumbent (oidc skip-option matrix servers)
	Terse     bool         // detailedErrorsToClient = false
	Plugin    string       // address of a Login server plugin ("" = none)
	SSHLogins atomic.Int64 // legitimate logins through this server's ssh gateway so far

	Inc       *honest // scripted incumbent
	IncPort   int
	IncProxy  string
	Real      *h.Client // optional real frpc incumbent
	RealPort  int
	RealIdent string
}

func (s *srvInfo) scopes() string {
	var l []string
	if s.HB {
		l = append(l, `"HeartBeats"`)
	}
	if s.WC {
		l = append(l, `"NewWorkConns"`)
	}
	return "[" + strings.Join(l, ",") + "]"
}

func (s *srvInfo) cfgText() string {
	var b strings.Builder
	fmt.Fprintf(&b, "bindAddr = \"127.0.0.1\"\nbindPort = %d\n", s.Port)
	if s.KCP > 0 {
		fmt.Fprintf(&b, "kcpBindPort = %d\n", s.KCP)
	}
	if s.QUIC > 0 {
		fmt.Fprintf(&b, "quicBindPort = %d\n", s.QUIC)
	}
	fmt.Fprintf(&b, "allowPorts = [{start=%d,end=%d}]\nuserConnTimeout = 10\n", s.PortLo, s.PortHi)
	fmt.Fprintf(&b, "auth.method = \"%s\"\nauth.additionalScopes = %s\n", s.Method, s.scopes())
	if s.Method == "token" {
		fmt.Fprintf(&b, "auth.token = \"%s\"\n", s.Token)
	} else {
		fmt.Fprintf(&b, "auth.oidc.issuer = \"%s\"\nauth.oidc.audience = \"%s\"\n", iss.URL, oidcAudience)
		if s.SkipIss {
			fmt.Fprintf(&b, "auth.oidc.skipIssuerCheck = true\n")
		}
		if s.SkipExp {
			fmt.Fprintf(&b, "auth.oidc.skipExpiryCheck = true\n")
		}
	}
	fmt.Fprintf(&b, "transport.tcpMux = %v\ntransport.maxPoolCount = 5\n", s.Mux)
	if s.Mux {
		fmt.Fprintf(&b, "transport.tcpMuxKeepaliveInterval = 5\n")
	}
	if s.HBTimeout > 0 {
		fmt.Fprintf(&b, "transport.heartbeatTimeout = %d\n", s.HBTimeout)
	} else if !s.Mux {
		fmt.Fprintf(&b, "transport.heartbeatTimeout = -1\n")
	}
	if s.Terse {
		fmt.Fprintf(&b, "detailedErrorsToClient = false\n")
	}
	if s.Web > 0 {
		fmt.Fprintf(&b, "webServer.addr = \"127.0.0.1\"\nwebServer.port = %d\n", s.Web)
	}
	if s.SSHPort > 0 {
		fmt.Fprintf(&b, "sshTunnelGateway.bindPort = %d\nsshTunnelGateway.autoGenPrivateKeyPath = \"%s/ssh_host_%s\"\n", s.SSHPort, h.RunDir(prop), s.Name)
		if s.SSHKeys {
			fmt.Fprintf(&b, "sshTunnelGateway.authorizedKeysFile = \"%s\"\n", sshAuthKeysFile)
		}
	}
	if s.Plugin != "" { // array of tables: must stay the last element of the document
		fmt.Fprintf(&b, "[[httpPlugins]]\nname = \"login-gate\"\naddr = \"%s\"\npath = \"/handler\"\nops = [\"Login\"]\n", s.Plugin)
	}
	return b.String()
}

// ---------------------------------------------------------------------------------------------
// credentials

// goodKey is a key that proves knowledge of the credential for a message stamped ts.
func (s *srvInfo) goodKey(ts int64) string {
	if s.Method == "oidc" {
		return iss.Good(honestSub)
	}
	return h.AuthKey(s.Token, ts)
}

func rawMD5(s string) string { d := md5.Sum([]byte(s)); return hex.EncodeToString(d[:]) }

// badKey returns a key (and the timestamp to send with it) that does NOT match; post = the key is for a
// Ping / NewWorkConn (where a well-signed token of a subject that never logged in is also invalid).
func (s *srvInfo) badKey(rng *rand.Rand, tag string, post bool) (kind, key string, ts int64) {
	ts = time.Now().Unix()
	if s.Method == "oidc" {
		kinds := append([]string{}, oidcBadKinds...)
		kinds = append(kinds, "md5-of-empty-token")
		if post {
			kinds = append(kinds, "valid-token-unknown-subject", "valid-token-unknown-subject")
		}
		kind = kinds[rng.Intn(len(kinds))]
		sub := honestSub
		if rng.Intn(2) == 0 {
			sub = "mallory-" + tag
		}
		switch kind {
		case "md5-of-empty-token":
			return kind, h.AuthKey("", ts), ts
		case "valid-token-unknown-subject":
			return kind, iss.Good(fmt.Sprintf("mallory-%s-%d", tag, rng.Intn(1000))), ts
		}
		return kind, iss.Bad(kind, sub), ts
	}
	good := h.AuthKey(s.Token, ts)
	kinds := []string{"empty", "random-hex", "wrong-token", "empty-token", "prefix-token", "token-plus-char", "case-folded-token",
		"key-of-previous-second", "key-of-next-second", "upper-hex", "truncated", "padded", "leading-space", "md5-token-without-ts",
		"md5-ts-then-token", "ts-zero", "ts-negative", "one-nibble-off"}
	kind = kinds[rng.Intn(len(kinds))]
	switch kind {
	case "empty":
		key = ""
	case "random-hex":
		key = fmt.Sprintf("%016x%016x", rng.Uint64(), rng.Uint64())
	case "wrong-token":
		key = h.AuthKey("some-other-token", ts)
	case "empty-token":
		key = h.AuthKey("", ts)
	case "prefix-token":
		key = h.AuthKey(s.Token[:len(s.Token)-1], ts)
	case "token-plus-char":
		key = h.AuthKey(s.Token+"x", ts)
	case "case-folded-token":
		key = h.AuthKey(strings.ToLower(s.Token), ts)
	case "key-of-previous-second":
		key = h.AuthKey(s.Token, ts-1)
	case "key-of-next-second":
		key = h.AuthKey(s.Token, ts+1)
	case "upper-hex":
		key = strings.ToUpper(good)
		if key == good { // all-digit digest: astronomically unlikely
			key = "X" + good[1:]
		}
	case "truncated":
		key = good[:31]
	case "padded":
		key = good + "0"
	case "leading-space":
		key = " " + good
	case "md5-token-without-ts":
		key = rawMD5(s.Token)
	case "md5-ts-then-token":
		key = rawMD5(fmt.Sprint(ts) + s.Token)
	case "ts-zero":
		ts = 0
		key = h.AuthKey("some-other-token", 0)
	case "ts-negative":
		ts = -ts
		key = good
	case "one-nibble-off":
		b := []byte(good)
		i := rng.Intn(len(b))
		if b[i] == '0' {
			b[i] = '1'
		} else {
			b[i] = '0'
		}
		key = string(b)
	}
	return kind, key, ts
}

// ---------------------------------------------------------------------------------------------
// honest scripted sessions

// honestRunIDs registers every run id the server handed to a login that carried a valid key.
var honestRunIDs sync.Map

// honest is a scripted client that holds valid credentials and supplies signed work connections on request.
type honest struct {
	P        *h.Peer
	si       *srvInfo
	ID       string       // ident answered by its work connections
	SentWork atomic.Int64 // NewWorkConn messages with a valid key sent for this run id (model of the pool ledger)
	Pooled   atomic.Int64 // hits of server.control.registerWorkConn.beforeSend for this run id
	Replaced atomic.Int64 // hits of server.registerControl.afterReplace for this run id
	rm       func()
}

func transportOpts(si *srvInfo, tr string) h.PeerOpts {
	o := h.PeerOpts{ServerPort: si.Port, TCPMux: si.Mux, Token: si.Token}
	switch tr {
	case "tls":
		o.TLS = true
	case "websocket":
		o.Protocol = "websocket"
	case "wss":
		o.Protocol = "websocket"
		o.TLS = true
	case "kcp":
		o.Protocol = "kcp"
		o.ServerPort = si.KCP
	case "quic":
		o.Protocol = "quic"
		o.ServerPort = si.QUIC
	}
	return o
}

func (s *srvInfo) transports() []string {
	l := []string{"tcp", "tls", "websocket", "wss"}
	if s.KCP > 0 {
		l = append(l, "kcp")
	}
	if s.QUIC > 0 {
		l = append(l, "quic")
	}
	return l
}

// loginHonest performs a login with a valid key (the positive control of every case family).
func loginHonest(si *srvInfo, tr, user, id string, pool int) (*honest, error) {
	o := transportOpts(si, tr)
	o.User = user
	o.PoolCount = pool
	o.MutateLogin = func(l *msg.Login) { l.PrivilegeKey = si.goodKey(l.Timestamp) }
	p, err := h.DialPeer(o)
	if err != nil {
		if p != nil {
			p.Close()
		}
		return nil, err
	}
	if !p.LoggedIn() {
		p.Close()
		return nil, fmt.Errorf("login with a valid key refused: %s", p.LoginResp.Error)
	}
	honestRunIDs.Store(p.RunID, si.Name)
	hn := &honest{P: p, si: si, ID: id}
	rid := p.RunID
	hn.rm = h.OnHook("", rid, func(point string, args []any) {
		if len(args) == 0 || args[0] != any(rid) {
			return
		}
		switch point {
		case "server.control.registerWorkConn.beforeSend":
			hn.Pooled.Add(1)
		case "server.registerControl.afterReplace":
			hn.Replaced.Add(1)
		}
	})
	go hn.supplyLoop()
	return hn, nil
}

func (hn *honest) supplyLoop() {
	for {
		_, err := hn.P.WaitMsg(time.Hour, func(m msg.Message) bool { _, ok := m.(*msg.ReqWorkConn); return ok })
		if err != nil {
			if err == h.ErrTimeout {
				continue
			}
			return
		}
		go hn.supplyOne()
	}
}

// validWork builds a NewWorkConn message carrying a valid key.
func (s *srvInfo) validWork(runID string) *msg.NewWorkConn {
	ts := time.Now().Unix()
	return &msg.NewWorkConn{RunID: runID, Timestamp: ts, PrivilegeKey: s.goodKey(ts)}
}

func (s *srvInfo) validPing() *msg.Ping {
	ts := time.Now().Unix()
	return &msg.Ping{Timestamp: ts, PrivilegeKey: s.goodKey(ts)}
}

// supplyOne opens one signed work connection and serves it as an ident backend.
func (hn *honest) supplyOne() {
	hn.SentWork.Add(1)
	wc, err := hn.P.OpenWorkConnMsg(hn.si.validWork(hn.P.RunID))
	if err != nil {
		hn.SentWork.Add(-1)
		return
	}
	if _, err := wc.ReadStart(0); err != nil {
		wc.Conn.Close()
		return
	}
	if wc.Start.Error != "" {
		wc.Conn.Close()
		return
	}
	h.IdentBackend(hn.ID, hn.si.Token, false, false, nil)(hn.P, wc)
}

func (hn *honest) Close() {
	if hn.rm != nil {
		hn.rm()
	}
	hn.P.Close()
}

// probeTCP asks the ident backend behind a remote port; two attempts with a generous timeout, so only a
// tunnel that really stopped working fails.
func probeTCP(port int, want string) (string, error) {
	var id string
	var err error
	for i := 0; i < 2; i++ {
		id, err = h.AskIdent(fmt.Sprintf("127.0.0.1:%d", port), 20*time.Second)
		if err == nil && strings.HasPrefix(id, want) {
			return id, nil
		}
		time.Sleep(300 * time.Millisecond)
	}
	if err == nil {
		err = fmt.Errorf("answered by %q, want %q", id, want)
	}
	return id, err
}

func isTimeout(err error) bool {
	if err == nil {
		return false
	}
	if ne, ok := err.(net.Error); ok && ne.Timeout() {
		return true
	}
	return strings.Contains(err.Error(), "timeout") || strings.Contains(err.Error(), "deadline")
}
