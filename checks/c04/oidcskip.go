package main

// OIDC skip-option matrix: auth.oidc.skipIssuerCheck / skipExpiryCheck each switch off exactly one check.
// Independent expectation (from the option names and frp's documentation): a token is a matching key on a
// server iff it is signed by the issuer's published key, carries the configured audience, and every OTHER
// defect it has (expired, foreign `iss`) is one the server was told to skip. Enumerated, not sampled:
// 4 servers (both additional scopes on) x 9 token classes x {login, heartbeat, work connection}.

import (
	"fmt"
	"time"

	"github.com/fatedier/frp/pkg/msg"

	"verif/h"
)

type tokClass struct {
	name             string
	expired, foreign bool
	wrongAud, badSig bool
}

var skipClasses = []tokClass{
	{name: "valid"},
	{name: "expired", expired: true},
	{name: "foreign-issuer", foreign: true},
	{name: "expired-and-foreign-issuer", expired: true, foreign: true},
	{name: "wrong-audience", wrongAud: true},
	{name: "bad-signature", badSig: true},
	{name: "expired-and-wrong-audience", expired: true, wrongAud: true},
	{name: "foreign-issuer-and-bad-signature", foreign: true, badSig: true},
	{name: "expired-and-bad-signature", expired: true, badSig: true},
}

func (t tokClass) forge(sub string) string {
	cl := iss.std(sub)
	if t.expired {
		cl.Exp = time.Now().Unix() - 3600
		cl.Iat = cl.Exp - 3600
	}
	if t.foreign {
		cl.Iss = "http://127.0.0.1:1/other-tenant"
	}
	if t.wrongAud {
		cl.Aud = "some-other-service"
	}
	k := iss.key
	if t.badSig {
		k = iss.otherKey
	}
	return signRS256(k, map[string]any{"alg": "RS256", "kid": "k1", "typ": "JWT"}, cl)
}

// matches: is the token a matching key on a server with these options?
func (t tokClass) matches(si *srvInfo) bool {
	return !t.wrongAud && !t.badSig && (!t.expired || si.SkipExp) && (!t.foreign || si.SkipIss)
}

// key of the finding when a non-matching token of this class was accepted on si
func (t tokClass) acceptedKey(si *srvInfo, path string) string {
	var k string
	switch {
	case t.badSig:
		k = "oidc-bad-signature-token-accepted"
	case t.wrongAud:
		k = "oidc-wrong-audience-token-accepted"
	case t.expired && !si.SkipExp:
		k = "oidc-expired-token-accepted-without-skip-expiry"
	default:
		k = "oidc-foreign-issuer-accepted-without-skip-issuer"
	}
	if path != "login" {
		k += "-in-" + path
	}
	return k
}

func oidcSkipCase(c *h.Case, si *srvInfo) {
	c.Data["kind"], c.Data["server"], c.Data["skipIssuerCheck"], c.Data["skipExpiryCheck"] = "oidc-skip-matrix", si.Name, si.SkipIss, si.SkipExp
	cfg := fmt.Sprintf("skipIssuerCheck=%v skipExpiryCheck=%v", si.SkipIss, si.SkipExp)
	judge := func(t tokClass, path string, accepted bool, detail string) {
		want := t.matches(si)
		c.Ev("cell", "class", t.name, "path", path, "accepted", accepted, "want", want, "detail", detail)
		run.Distinct(fmt.Sprintf("oidcskip|%s|%s|%s", si.Name, t.name, path))
		run.Count("oidc_skip_cells", 1)
		switch {
		case accepted && !want:
			c.Violation(t.acceptedKey(si, path), "[%s] frps (%s) accepted a %s carrying a %s token: neither skip option covers that defect (%s)", si.Name, cfg, path, t.name, detail)
		case !accepted && want && t.name == "valid":
			run.Inconclusive("oidc skip matrix: valid token refused (positive control)")
		case !accepted && want:
			// over-refusal is not this property's business, but the cell then shows nothing
			run.Inconclusive("oidc skip matrix: configured skip option not honoured (control)")
			run.Count("oidc_skip_option_not_honoured", 1)
		case accepted:
			run.Count("oidc_skip_cells_accepted_as_configured", 1)
		default:
			run.Count("oidc_skip_cells_refused", 1)
		}
	}

	// 1. login
	for _, t := range skipClasses {
		key := t.forge(honestSub)
		o := transportOpts(si, "tcp")
		o.User = fmt.Sprintf("c%d.%s", c.Idx, t.name)
		o.MutateLogin = func(l *msg.Login) { l.PrivilegeKey = key }
		p, err := h.DialPeer(o)
		if p == nil {
			run.Inconclusive("oidc skip matrix: transport failed")
			c.Ev("dial-failed", "err", fmt.Sprint(err))
			continue
		}
		acc := p.LoggedIn()
		if acc {
			honestRunIDs.Store(p.RunID, si.Name) // accepted as configured or reported just below
		}
		judge(t, "login", acc, fmt.Sprintf("LoginResp{run id %q, error %q}", p.LoginResp.RunID, clip(p.LoginResp.Error)))
		p.Close()
	}

	// 2. heartbeats and work connections of a session that logged in with a valid token
	v, err := loginHonest(si, "tcp", fmt.Sprintf("c%d.v", c.Idx), fmt.Sprintf("V-c%d", c.Idx), 0)
	if err != nil {
		run.Inconclusive("oidc skip matrix: positive control login failed")
		return
	}
	defer v.Close()
	for _, t := range skipClasses {
		pong, err := v.P.PingWith(&msg.Ping{PrivilegeKey: t.forge(honestSub), Timestamp: time.Now().Unix()}, 20*time.Second)
		if err != nil {
			run.Inconclusive("oidc skip matrix: no pong")
			continue
		}
		judge(t, "heartbeat", pong.Error == "", fmt.Sprintf("Pong{error %q}", clip(pong.Error)))
	}
	for _, t := range skipClasses {
		before := v.Pooled.Load()
		wc, err := v.P.OpenWorkConnMsg(&msg.NewWorkConn{RunID: v.P.RunID, PrivilegeKey: t.forge(honestSub), Timestamp: time.Now().Unix()})
		if err != nil {
			run.Inconclusive("oidc skip matrix: work connection could not be opened")
			continue
		}
		if t.matches(si) {
			v.SentWork.Add(1)
		}
		type rd struct {
			st  *msg.StartWorkConn
			err error
		}
		ch := make(chan rd, 1)
		go func() { st, err := wc.ReadStart(20 * time.Second); ch <- rd{st, err} }()
		var res *rd
		pooled := h.Eventually(20*time.Second, func() bool {
			select {
			case r := <-ch:
				res = &r
				return true
			default:
			}
			return v.Pooled.Load() > before
		})
		switch {
		case res != nil && res.err == nil && res.st.Error == "":
			judge(t, "workconn", true, "StartWorkConn without error")
		case res != nil:
			judge(t, "workconn", false, fmt.Sprintf("refused: %v %+v", res.err, res.st))
		case pooled:
			judge(t, "workconn", true, "passed verification and was pooled (hook server.control.registerWorkConn.beforeSend)")
		default:
			run.Inconclusive("oidc skip matrix: work connection neither refused nor pooled in 20 s")
		}
		wc.Conn.Close()
	}
	if c.Idx%2 == 0 {
		run.Sample(map[string]any{"kind": "oidc-skip-matrix", "server": si.Name, "classes": len(skipClasses), "paths": 3})
	}
}
