package main

// Heartbeat-liveness cases (servers with the HeartBeats scope and a 3 s heartbeat timeout): three
// sessions log in with valid keys. A then sends only heartbeats WITHOUT a valid key, B sends nothing,
// C sends valid heartbeats. B is the clock (it shows when the server's timeout fires on this machine
// under the current load), C shows that valid heartbeats do keep a session alive, and A must not
// outlive B by more than the grace period.

import (
	"fmt"
	"sync"
	"sync/atomic"
	"time"

	"github.com/fatedier/frp/pkg/msg"

	"verif/h"
)

func hbCase(c *h.Case, si *srvInfo, tr string) {
	rng := c.Rng
	tag := fmt.Sprintf("c%d", c.Idx)
	prefixValid := []int{0, 0, 3, 6}[rng.Intn(4)] // valid heartbeats A sends before switching to invalid ones
	fixedKind := rng.Intn(2) == 0
	kind0, key0, ts0 := si.badKey(rng, tag, true)
	c.Data["kind"], c.Data["server"], c.Data["transport"], c.Data["prefix_valid"], c.Data["fixed_kind"], c.Data["key_kind"] = "heartbeat", si.Name, tr, prefixValid, fixedKind, kind0

	var peers [3]*honest
	for i, n := range []string{"A", "B", "C"} {
		p, err := loginHonest(si, tr, tag+"."+n, n+"-"+tag, 0)
		if err != nil {
			run.Inconclusive("positive control login failed (" + tr + ")")
			for _, q := range peers {
				if q != nil {
					q.Close()
				}
			}
			return
		}
		peers[i] = p
		defer p.Close()
	}
	A, B, C := peers[0], peers[1], peers[2]
	run.Count("honest_logins", 3)
	timeout := time.Duration(si.HBTimeout) * time.Second
	start := time.Now()

	var wg sync.WaitGroup
	stop := make(chan struct{})
	var aSent, aAckOK, aAckErr atomic.Int64
	var kindsMu sync.Mutex
	ackedKinds := map[string]string{}
	// A: collect pongs
	wg.Add(2)
	type sentPing struct {
		kind, key string
		ts        int64
		valid     bool
	}
	var sentMu sync.Mutex
	var sent []sentPing
	go func() {
		defer wg.Done()
		i := 0
		for {
			m, err := A.P.WaitMsg(time.Hour, func(m msg.Message) bool { _, ok := m.(*msg.Pong); return ok })
			if err != nil {
				return
			}
			sentMu.Lock()
			var sp sentPing
			if i < len(sent) {
				sp = sent[i]
			}
			sentMu.Unlock()
			i++
			if sp.valid {
				continue
			}
			if m.(*msg.Pong).Error == "" {
				aAckOK.Add(1)
				kindsMu.Lock()
				ackedKinds[sp.kind] = sp.key
				kindsMu.Unlock()
			} else {
				aAckErr.Add(1)
			}
		}
	}()
	go func() {
		defer wg.Done()
		r := run.RandFor("hbA", c.Idx)
		for i := 0; ; i++ {
			select {
			case <-stop:
				return
			default:
			}
			if A.P.Closed() {
				return
			}
			var m *msg.Ping
			sp := sentPing{}
			if i < prefixValid {
				m = si.validPing()
				sp.valid = true
			} else {
				kind, key, ts := kind0, key0, ts0
				if !fixedKind {
					kind, key, ts = si.badKey(r, tag, true)
				}
				m = &msg.Ping{PrivilegeKey: key, Timestamp: ts}
				sp = sentPing{kind: kind, key: key, ts: ts}
				aSent.Add(1)
			}
			sentMu.Lock()
			sent = append(sent, sp)
			sentMu.Unlock()
			if err := A.P.Send(m); err != nil {
				return
			}
			time.Sleep(250 * time.Millisecond)
		}
	}()
	// C: valid heartbeats
	var cSent atomic.Int64
	wg.Add(1)
	go func() {
		defer wg.Done()
		for {
			select {
			case <-stop:
				return
			default:
			}
			if err := C.P.Send(si.validPing()); err != nil {
				return
			}
			cSent.Add(1)
			time.Sleep(250 * time.Millisecond)
		}
	}()

	// B is silent: the server must close it (watchdog: 3 x timeout + 10 s; a miss is not this property's business)
	lag := startLagMonitor()
	if !B.P.WaitClosed(3*timeout + 10*time.Second) {
		// no clock: the server's heartbeat timeout did not even fire for a silent session. The clause still
		// stands on its own: the configured timeout (x3 + 10 s) has passed, A sent only heartbeats without a
		// valid key for all that time and must be gone — unless this process was starved (scheduler lag).
		waited := time.Since(start)
		aOpen, cAlive := !A.P.Closed(), !C.P.Closed()
		maxLag := lag.stop()
		close(stop)
		c.Ev("no-clock", "waited_ms", waited.Milliseconds(), "a_open", aOpen, "c_alive", cAlive, "max_sched_lag_ms", maxLag.Milliseconds(), "a_invalid_sent", aSent.Load(), "effective_timeout", si.S.Cfg.Transport.HeartbeatTimeout)
		if n := aAckOK.Load(); n > 0 {
			c.Violation("invalid-heartbeat-acknowledged", "[%s/%s] HeartBeats scope on: %d heartbeats without valid key were answered with Pong without error", si.Name, tr, n)
		}
		switch {
		case aOpen && cAlive && maxLag < 2*time.Second:
			c.Violation("session-with-invalid-heartbeats-outlives-configured-heartbeat-timeout", "[%s/%s] transport.heartbeatTimeout = %d s is configured (effective value in the running server: %d): %v after login the session that sent only heartbeats without a valid key (%d sent, all answered with an error Pong) is still open, and so is a session that sent nothing at all; scheduler lag during the wait at most %v",
				si.Name, tr, si.HBTimeout, si.S.Cfg.Transport.HeartbeatTimeout, waited.Round(time.Millisecond), aSent.Load(), maxLag.Round(time.Millisecond))
		case aOpen:
			run.Inconclusive("heartbeat case: no timeout observed, but the process was starved or the valid session died")
		default:
			run.Inconclusive("silent session not closed by the heartbeat timeout")
		}
		run.Distinct(fmt.Sprintf("hb|%s|%s|%d|%v|%s|noclock", si.Name, tr, prefixValid, fixedKind, kind0))
		return
	}
	lag.stop()
	tB := time.Since(start)
	c.Ev("silent-session-closed", "after_ms", tB.Milliseconds())
	// A has been sending invalid heartbeats only since prefixValid*250ms: grace = its own timeout again + 10 s
	grace := timeout + time.Duration(prefixValid)*250*time.Millisecond + 10*time.Second
	aClosed := A.P.WaitClosed(grace)
	tA := time.Since(start)
	cAlive := !C.P.Closed()
	close(stop)
	c.Ev("result", "a_closed", aClosed, "a_after_ms", tA.Milliseconds(), "c_alive", cAlive, "a_invalid_sent", aSent.Load(), "a_acked_ok", aAckOK.Load(), "a_acked_err", aAckErr.Load())
	if n := aAckOK.Load(); n > 0 {
		kindsMu.Lock()
		desc := fmt.Sprint(ackedKinds)
		kindsMu.Unlock()
		c.Violation("invalid-heartbeat-acknowledged", "[%s/%s] HeartBeats scope on: %d heartbeats without valid key were answered with Pong without error (kinds: %s)", si.Name, tr, n, clip(desc))
	}
	switch {
	case !aClosed && cAlive:
		c.Violation("heartbeats-without-valid-key-keep-session-alive", "[%s/%s] timeout %v: the silent session was closed after %v, the session sending only invalid heartbeats (%d sent, kind %s%s) is still open %v later; valid heartbeats kept the control session C alive",
			si.Name, tr, timeout, tB.Round(time.Millisecond), aSent.Load(), kind0, map[bool]string{true: "", false: " and others"}[fixedKind], (tA - tB).Round(time.Millisecond))
	case !aClosed:
		run.Inconclusive("heartbeat case: control session with valid heartbeats died too")
	case !cAlive:
		run.Inconclusive("heartbeat case: session with valid heartbeats was closed (load?)")
	default:
		run.Count("hb_invalid_sessions_closed", 1)
		run.Count("hb_valid_session_survived", 1)
		run.Count("bad_pings", aSent.Load())
		// the server must have forgotten A
		gone := h.Eventually(15*time.Second, func() bool {
			for _, s := range si.S.Snapshot().Sessions {
				if s.RunID == A.P.RunID {
					return false
				}
			}
			return true
		})
		if !gone {
			run.Inconclusive("timed-out session still in the session table after 15 s")
		}
	}
	C.Close()
	wg.Wait()
	run.Distinct(fmt.Sprintf("hb|%s|%s|%d|%v|%s", si.Name, tr, prefixValid, fixedKind, kind0))
	if c.Idx%50 == 0 {
		run.Sample(map[string]any{"kind": "heartbeat", "server": si.Name, "transport": tr, "key_kind": kind0, "silent_closed_after_ms": tB.Milliseconds(), "invalid_closed_after_ms": tA.Milliseconds()})
	}
}

// lagMonitor measures how late a 50 ms ticker fires in this process (load awareness of watchdog verdicts).
type lagMonitor struct {
	done chan struct{}
	res  chan time.Duration
}

func startLagMonitor() *lagMonitor {
	m := &lagMonitor{done: make(chan struct{}), res: make(chan time.Duration, 1)}
	go func() {
		var worst time.Duration
		last := time.Now()
		for {
			select {
			case <-m.done:
				m.res <- worst
				return
			case <-time.After(50 * time.Millisecond):
			}
			now := time.Now()
			if d := now.Sub(last) - 50*time.Millisecond; d > worst {
				worst = d
			}
			last = now
		}
	}()
	return m
}

func (m *lagMonitor) stop() time.Duration {
	select {
	case <-m.done:
		return 0
	default:
	}
	close(m.done)
	return <-m.res
}
