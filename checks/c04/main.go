// C04 — No session, proxy or work connection without valid client credentials.
//
// Monitors (DESIGN.md §5/C04), all over real frps instances running in this process:
//  1. negative transcript oracle: PRNG-generated sequences of logins without a valid key (token and OIDC,
//     claimed client_spec exemptions, hand-written JSON bodies), non-login first messages, work connections
//     for unknown sessions / without a valid key, heartbeats without a valid key — over tcp, tls, websocket,
//     wss, kcp and quic, for every subset of the additional scopes, with and without tcp multiplexing;
//     no success reply may ever arrive and refused connections must be closed.  Every case carries its
//     positive control (the same operation with a valid key is accepted).
//  2. three-way ledger: model (what honest peers were granted) = server tables (verif snapshot) =
//     hook-point ledger (code past the verification ran only for valid keys) = dashboard counters = OS
//     listening sockets, per case and at global quiescence; goroutine / fd residue over all refused attempts.
//  3. traffic probes through an honest incumbent's tunnel and the case's own honest session before,
//     during (barrage cases) and after the attacks; a refused re-login must never replace a session.
//  4. heartbeat liveness: with the HeartBeats scope a session sending only invalid heartbeats is closed
//     like a silent one while a session sending valid heartbeats survives.
//  5. ssh tunnel gateway: unlisted keys never reach frps; without an authorized-keys file the virtual
//     client needs the token.
//  7. oidc skip options: against the four combinations of skipIssuerCheck / skipExpiryCheck every token class
//     (valid, expired, foreign issuer, both, wrong audience, bad signature, mixed) on login, heartbeat and
//     work connection: a skipped check tolerates exactly that defect and nothing else.
//  6. stall: connections that never send a byte must not keep an existing session (tcpMux off, websocket)
//     from bringing up work connections.
package main

import (
	"encoding/json"
	"fmt"
	"io"
	"net/http"
	"os"
	"sort"
	"strings"
	"time"

	"github.com/fatedier/frp/pkg/msg"

	"verif/h"
)

const prop = "C04"

var (
	run        *h.Run
	iss        *issuer
	fleet      []*srvInfo // servers for attack / barrage cases
	hbFleet    []*srvInfo // servers with a short heartbeat timeout
	sshOpen    *srvInfo   // ssh gateway without authorized keys
	sshKeyed   *srvInfo   // ssh gateway with authorized keys
	pluginSrv  *srvInfo   // Login server plugin = stub endpoint of this process
	pluginDown *srvInfo   // Login server plugin nobody listens on
	sshLate    *srvInfo   // like sshKeyed; attacked before and after its first legitimate ssh login
	stallSrv   *srvInfo   // tcpMux off, used only by the stall cases
	skipFleet  []*srvInfo // oidc, both scopes, the four combinations of skipIssuerCheck / skipExpiryCheck
	all        []*srvInfo
	webPort    int
)

func fatal(what string, err error) {
	fmt.Fprintln(os.Stderr, what+":", err)
	os.Exit(h.ExitHarnessError)
}

func main() {
	run = h.NewRun(prop, "exploration")
	run.Rule = "attack cases: PRNG sequence of 4-10 steps (login without valid key x 18 token / 19 OIDC key classes x fuzzed fields x run-id choice {none, fresh, victim's, incumbent's} x pipelined follow-ups; 17 hand-written JSON login bodies; 22 non-login first messages; work connections for 8 unknown-session classes or a known session with an invalid key; heartbeats with invalid keys) against one of 10 server configurations (token/OIDC x scope subsets, mux off) over one of 6 transports; barrage cases: 60-480 concurrent refused attempts while the incumbent's tunnel is probed; heartbeat cases: (server, transport, key class, valid prefix); ssh cases: (gateway kind, variant); stall cases: 4-6 silent websocket connections against a server without tcp multiplexing while the incumbent needs fresh work connections; 1 in 8 attack cases speaks the other multiplexing framing than the listener expects. distinct = distinct (kind, server, transport, multiset of step kinds and key classes)"
	run.Assumptions = []string{
		"a key 'matches' exactly when it equals md5(token||timestamp) for the timestamp sent (token) / is a token the fake issuer signed, unexpired, for the configured audience (OIDC); replay of an old but matching key is not a violation of the property as stated",
		"with the NewWorkConns scope off the run id is the only credential of a work connection (frp's design); only unknown run ids are judged there",
		"OIDC: any subject that ever logged in successfully on a server is accepted for heartbeats and work connections of every session of that server (frp's design, pinned by its unit tests); judged: subjects that never logged in",
		"watchdogs: 20 s for an immediate close/reply, 3x timeout + 10 s for heartbeat closure measured against a silent control session under the same load",
		"hook-point and snapshot accessors (build tag verif) report the server's own state faithfully",
	}
	pa := h.Ports(prop)
	var err error
	if iss, err = startIssuer(pa.Get()); err != nil {
		fatal("issuer", err)
	}
	if err := setupSSHKeys(); err != nil {
		fatal("ssh keys", err)
	}
	mk := func(name, method string, hb, wc, mux bool, hbTimeout int, udp bool) *srvInfo {
		s := &srvInfo{Name: name, Method: method, HB: hb, WC: wc, Mux: mux, HBTimeout: hbTimeout}
		if method == "token" {
			s.Token = token
		}
		s.Port = pa.Get()
		if udp {
			s.KCP, s.QUIC = pa.Get(), pa.Get()
		}
		blk := pa.Block(12)
		s.PortLo, s.PortHi = blk[0], blk[11]
		return s
	}
	// the first server carries the dashboard (it switches the process-wide metrics registry on)
	fleet = []*srvInfo{
		mk("tok", "token", false, false, true, 0, true),
		mk("tok-hb", "token", true, false, true, 0, true),
		mk("tok-wc", "token", false, true, true, 0, true),
		mk("tok-hb-wc", "token", true, true, true, 0, true),
		mk("tok-hb-wc-nomux", "token", true, true, false, 0, false),
		mk("oidc", "oidc", false, false, true, 0, false),
		mk("oidc-hb", "oidc", true, false, true, 0, false),
		mk("oidc-wc", "oidc", false, true, true, 0, false),
		mk("oidc-hb-wc", "oidc", true, true, true, 0, true),
	}
	webPort = pa.Get()
	fleet[0].Web = webPort
	hbFleet = []*srvInfo{
		mk("tok-hb-t3", "token", true, false, true, 3, true),
		mk("tok-hb-wc-t3-nomux", "token", true, true, false, 3, false),
		mk("oidc-hb-t3", "oidc", true, false, true, 3, false),
	}
	// ssh gateways; they are part of the attack lattice (the network listener of a server whose gateway was
	// used legitimately must refuse exactly like any other). Scopes: with authorized keys both (the virtual
	// client is exempt), without only HeartBeats (the gateway's virtual client does not sign work connections).
	sshOpen = mk("ssh-open-hb", "token", true, false, true, 0, false)
	sshOpen.SSHPort = pa.Get()
	sshKeyed = mk("ssh-keyed-hb-wc", "token", true, true, true, 0, false)
	sshKeyed.SSHPort, sshKeyed.SSHKeys = pa.Get(), true
	sshLate = mk("ssh-keyed-late-hb-wc", "token", true, true, true, 0, false) // first ssh login only after batch 1
	sshLate.SSHPort, sshLate.SSHKeys = pa.Get(), true
	fleet[1].Terse, fleet[6].Terse, sshOpen.Terse = true, true, true // tok-hb, oidc-hb
	// Login server plugin (runs before the key check): a stub endpoint in this process, and one nobody listens on
	stubPort, err := startPluginStub(pa.Get())
	if err != nil {
		fatal("plugin stub", err)
	}
	pluginSrv = mk("tok-hb-plugin", "token", true, false, true, 0, false)
	pluginSrv.Plugin = fmt.Sprintf("127.0.0.1:%d", stubPort)
	pluginDown = mk("tok-plugin-unreachable", "token", false, false, true, 0, false)
	pluginDown.Plugin, pluginDown.NoInc = fmt.Sprintf("127.0.0.1:%d", pa.Get()), true
	nReal := len(fleet)
	fleet = append(fleet, sshOpen, sshKeyed, sshLate, pluginSrv)
	stallSrv = mk("tok-nomux-stall", "token", false, false, false, 0, false)
	all = append(append(append([]*srvInfo{}, fleet...), hbFleet...), stallSrv, pluginDown)
	for i := 0; i < 4; i++ {
		s := mk(fmt.Sprintf("oidc-hb-wc-skipiss%v-skipexp%v", i&1 != 0, i&2 != 0), "oidc", true, true, true, 0, false)
		s.SkipIss, s.SkipExp, s.NoInc = i&1 != 0, i&2 != 0, true
		skipFleet = append(skipFleet, s)
		all = append(all, s)
	}

	for _, s := range all {
		if s.S, err = h.StartServerText(prop, s.cfgText()); err != nil {
			fatal("server "+s.Name, err)
		}
	}
	// incumbents (not on the short-timeout servers: nobody would keep them alive)
	for _, s := range all {
		if s.HBTimeout > 0 || s.NoInc {
			continue
		}
		pool := 1
		if s == stallSrv {
			pool = 0
		}
		tr := "tcp"
		if s == stallSrv {
			tr = "websocket"
		}
		inc, err := loginHonest(s, tr, "inc", "INC-"+s.Name, pool)
		if err == nil {
			s.Inc, s.IncPort, s.IncProxy = inc, s.PortLo, "inc."+s.Name+".tcp"
			var resp *msg.NewProxyResp
			if resp, err = inc.P.NewProxy(&msg.NewProxy{ProxyName: s.IncProxy, ProxyType: "tcp", RemotePort: s.IncPort}, 20*time.Second); err == nil && resp.Error != "" {
				err = fmt.Errorf("%s", resp.Error)
			}
			if err == nil {
				_, err = probeTCP(s.IncPort, inc.ID+"|")
			}
		}
		if err != nil && s == stallSrv {
			// the websocket incumbent is needed by the stall cases only
			fmt.Fprintln(os.Stderr, "stall server unusable:", err)
			if s.Inc != nil {
				s.Inc.Close()
			}
			s.Inc = nil
			continue
		}
		if err != nil {
			fatal("incumbent on "+s.Name, err)
		}
	}
	// real frpc incumbents where both scopes are on (real clients sign heartbeats and work connections)
	for _, s := range fleet[:nReal] {
		if s.HB && s.WC && s.Mux {
			if err := startRealClient(s); err != nil {
				fatal("real frpc on "+s.Name, err)
			}
		}
	}
	// history "legitimate ssh login first, attacks afterwards" on both gateway kinds
	if run.OnlyCase < 0 {
		sshLegitLogin(sshOpen, "setup")
		sshLegitLogin(sshKeyed, "setup")
	}
	base := takeBaseline()

	nCases := run.N(330, 4200)
	// oidc skip-option matrix: one case per server, indices after the generated cases
	run.ParallelRange(nCases, len(skipFleet), len(skipFleet), func(c *h.Case) { oidcSkipCase(c, skipFleet[c.Idx-nCases]) })
	batches := run.N(2, 6)
	var warm *residue
	for b := 0; b < batches; b++ {
		lo, hi := b*nCases/batches, (b+1)*nCases/batches
		tb := time.Now()
		run.ParallelRange(lo, hi-lo, 12, dispatch)
		if run.OnlyCase >= 0 {
			continue
		}
		tl := time.Now()
		r := globalLedger(base, fmt.Sprintf("after batch %d", b+1), b == 0 || b == batches-1)
		if b == 0 {
			// history "attacks, legitimate ssh login, attacks again"
			sshLegitLogin(sshLate, "late")
		}
		fmt.Fprintf(os.Stderr, "batch %d: cases %v, ledger %v\n", b+1, tl.Sub(tb).Round(time.Millisecond), time.Since(tl).Round(time.Millisecond))
		if b == 0 {
			warm = r
		} else if b == batches-1 && warm != nil && r != nil {
			judgeResidue(warm, r)
		}
	}
	if run.OnlyCase < 0 {
		for _, s := range all {
			if s.Real != nil {
				s.Real.Close()
			}
			if s.Inc != nil {
				s.Inc.Close()
			}
		}
	}
	for _, s := range all {
		s.S.Close()
	}
	run.Set("oidc_tokens_issued_to_real_clients", iss.Tokens.Load())
	run.Finish(run.N(120, 1200))
}

func dispatch(c *h.Case) {
	rng := c.Rng
	t0 := time.Now()
	defer func() {
		if d := time.Since(t0); d > 12*time.Second {
			fmt.Fprintf(os.Stderr, "slow case %d (%v %v %v): %v\n", c.Idx, c.Data["kind"], c.Data["server"], c.Data["transport"], d.Round(time.Millisecond))
		}
	}()
	switch r := rng.Intn(100); {
	case r < 72:
		si := fleet[rng.Intn(len(fleet))]
		trs := si.transports()
		attackCase(c, si, trs[rng.Intn(len(trs))])
	case r < 80:
		si := fleet[rng.Intn(len(fleet))]
		trs := si.transports()
		barrageCase(c, si, trs[rng.Intn(len(trs))])
	case r < 83:
		if rng.Intn(2) == 0 {
			pluginCase(c)
			return
		}
		stallCase(c)
	case r < 91:
		si := hbFleet[rng.Intn(len(hbFleet))]
		trs := si.transports()
		hbCase(c, si, trs[rng.Intn(len(trs))])
	default:
		sshCase(c)
	}
}

func startRealClient(s *srvInfo) error {
	pa := h.Ports(prop)
	s.RealIdent = "REAL-" + s.Name
	be, err := h.StartTCPBackend(pa.Get(), h.IdentEcho(s.RealIdent))
	if err != nil {
		return err
	}
	s.RealPort = s.PortLo + 1
	auth := fmt.Sprintf("auth.method = \"token\"\nauth.token = \"%s\"\n", s.Token)
	if s.Method == "oidc" {
		auth = fmt.Sprintf("auth.method = \"oidc\"\nauth.oidc.clientID = \"%s\"\nauth.oidc.clientSecret = \"secret-%s\"\nauth.oidc.audience = \"%s\"\nauth.oidc.tokenEndpointURL = \"%s/token\"\n",
			honestSub, honestSub, oidcAudience, iss.URL)
	}
	cli, err := h.StartClientText(prop, fmt.Sprintf(`
serverAddr = "127.0.0.1"
serverPort = %d
user = "real"
loginFailExit = false
%sauth.additionalScopes = ["HeartBeats", "NewWorkConns"]
transport.tls.enable = false
transport.heartbeatInterval = 1
transport.heartbeatTimeout = 90
transport.poolCount = 1
[[proxies]]
name = "t"
type = "tcp"
localIP = "127.0.0.1"
localPort = %d
remotePort = %d
`, s.Port, auth, be.Port, s.RealPort))
	if err != nil {
		return err
	}
	if err := cli.WaitRunning(20*time.Second, "real.t"); err != nil {
		if err2 := cli.WaitRunning(time.Second, "t"); err2 != nil {
			return err
		}
	}
	s.Real = cli
	if _, err := probeTCP(s.RealPort, s.RealIdent+"|"); err != nil {
		return err
	}
	return nil
}

// ---------------------------------------------------------------------------------------------
// global ledger at quiescence

type baseline struct {
	sessions map[string]int // per server
	proxies  map[string][]string
	listen   []int
}

type residue struct {
	goroutines int
	fds        int
	sites      map[string]int
	attempts   int64
}

func ownPorts() []int {
	var l []int
	for p := range h.OwnTCPListenPorts() {
		l = append(l, p)
	}
	sort.Ints(l)
	return l
}

func takeBaseline() *baseline {
	b := &baseline{sessions: map[string]int{}, proxies: map[string][]string{}, listen: ownPorts()}
	for _, s := range all {
		snap := s.S.Snapshot()
		b.sessions[s.Name] = len(snap.Sessions)
		b.proxies[s.Name] = snap.ProxyNames
	}
	return b
}

type serverInfo struct {
	ClientCounts    int64            `json:"clientCounts"`
	ProxyTypeCounts map[string]int64 `json:"proxyTypeCount"`
	CurConns        int64            `json:"curConns"`
}

func dashboard() (*serverInfo, error) {
	resp, err := http.Get(fmt.Sprintf("http://127.0.0.1:%d/api/serverinfo", webPort))
	if err != nil {
		return nil, err
	}
	defer resp.Body.Close()
	b, _ := io.ReadAll(resp.Body)
	var si serverInfo
	if err := json.Unmarshal(b, &si); err != nil {
		return nil, fmt.Errorf("%v: %s", err, b)
	}
	return &si, nil
}

func attemptsSoFar() int64 {
	return run.Counter("bad_logins") + run.Counter("raw_logins") + run.Counter("first_messages") + run.Counter("bad_workconns") + run.Counter("barrage_attempts") + run.Counter("ssh_refused_attempts")
}

// globalLedger: every case has ended; the servers' tables, the dashboard counters and the OS must be back at
// the state the honest incumbents alone account for.
func globalLedger(base *baseline, when string, sample bool) *residue {
	describe := func() (string, bool) {
		var diffs []string
		total := 0
		for _, s := range all {
			snap := s.S.Snapshot()
			total += len(snap.Sessions)
			if len(snap.Sessions) != base.sessions[s.Name] {
				var extra []string
				for _, ss := range snap.Sessions {
					if _, honest := honestRunIDs.Load(ss.RunID); !honest && s.SSHPort > 0 {
						extra = append(extra, fmt.Sprintf("ssh virtual client run id %s user %q", ss.RunID, ss.User))
					} else if !honest {
						extra = append(extra, fmt.Sprintf("UNKNOWN run id %s user %q", ss.RunID, ss.User))
					} else if !(s.Inc != nil && ss.RunID == s.Inc.P.RunID) {
						extra = append(extra, fmt.Sprintf("honest run id %s user %q", ss.RunID, ss.User))
					}
				}
				diffs = append(diffs, fmt.Sprintf("%s: %d sessions, want %d (%s)", s.Name, len(snap.Sessions), base.sessions[s.Name], strings.Join(extra, "; ")))
			}
			if strings.Join(snap.ProxyNames, ",") != strings.Join(base.proxies[s.Name], ",") {
				diffs = append(diffs, fmt.Sprintf("%s: proxies %v, want %v", s.Name, snap.ProxyNames, base.proxies[s.Name]))
			}
		}
		if d, err := dashboard(); err != nil {
			diffs = append(diffs, "dashboard: "+err.Error())
		} else {
			if d.ClientCounts != int64(total) {
				diffs = append(diffs, fmt.Sprintf("dashboard clientCounts %d, session tables hold %d", d.ClientCounts, total))
			}
			nProx := int64(0)
			for _, v := range d.ProxyTypeCounts {
				nProx += v
			}
			want := 0
			for _, p := range base.proxies {
				want += len(p)
			}
			if nProx != int64(want) {
				diffs = append(diffs, fmt.Sprintf("dashboard proxy counts %v, want %d in total", d.ProxyTypeCounts, want))
			}
		}
		if got := ownPorts(); fmt.Sprint(got) != fmt.Sprint(base.listen) {
			diffs = append(diffs, fmt.Sprintf("listening tcp ports %v, want %v", got, base.listen))
		}
		return strings.Join(diffs, " | "), len(diffs) == 0
	}
	ok := h.Eventually(45*time.Second, func() bool { _, ok := describe(); return ok })
	if !ok {
		d, _ := describe()
		if strings.Contains(d, "UNKNOWN run id") {
			run.Violation("session-exists-without-valid-login", "%s, at quiescence: %s", when, d)
		} else if strings.Contains(d, "dashboard clientCounts") && !strings.Contains(d, "sessions, want") {
			run.Violation("dashboard-client-count-drift", "%s, at quiescence (all session tables back at the baseline): %s", when, d)
		} else if strings.Contains(d, "listening tcp ports") && !strings.Contains(d, "proxies") {
			run.Violation("listening-socket-residue", "%s, at quiescence: %s", when, d)
		} else {
			// residue of honest sessions is other properties' business (C10/C12)
			fmt.Fprintln(os.Stderr, "global ledger not back at baseline:", d)
			run.Inconclusive("global ledger not back at baseline (honest residue)")
		}
	} else {
		run.Count("global_ledgers_balanced", 1)
	}
	for _, s := range all {
		if s.Inc != nil {
			if s.Inc.Replaced.Load() > 0 || s.Inc.P.Closed() {
				run.Violation("refused-login-replaced-existing-session", "%s: incumbent of %s was replaced or closed although nobody logged in with its run id and a valid key", when, s.Name)
			}
			// pool ledger of the incumbent: connections past verification == valid ones sent
			h.Eventually(10*time.Second, func() bool { return s.Inc.Pooled.Load() >= s.Inc.SentWork.Load() })
			if p, n := s.Inc.Pooled.Load(), s.Inc.SentWork.Load(); p > n {
				run.Violation("workconn-pooled-without-valid-key", "%s: %d work connections passed verification for the incumbent of %s, only %d carried a valid key", when, p, s.Name, n)
			}
			if id, err := probeTCP(s.IncPort, s.Inc.ID+"|"); err != nil {
				run.Violation("incumbent-tunnel-disturbed", "%s: incumbent tunnel of %s no longer works: %q %v", when, s.Name, id, err)
			}
		}
		if s.Real != nil {
			if id, err := probeTCP(s.RealPort, s.RealIdent+"|"); err != nil {
				run.Violation("incumbent-tunnel-disturbed", "%s: tunnel of the real frpc on %s no longer works: %q %v", when, s.Name, id, err)
			} else {
				run.Count("real_client_probes_ok", 1)
			}
		}
	}
	// residue sample: wait for stragglers (yamux keepalive teardown of vanished kcp peers takes ~15 s)
	var r residue
	best := 1 << 30
	if !sample {
		return nil
	}
	stable := 0
	for i := 0; i < 120 && stable < 8; i++ {
		if g := h.Goroutines(); g < best {
			best, stable = g, 0
			r = residue{goroutines: g, fds: h.FDCount(), sites: h.GoroutinesBySite(), attempts: attemptsSoFar()}
		} else {
			stable++
		}
		time.Sleep(250 * time.Millisecond)
	}
	return &r
}

// judgeResidue: refused attempts, however many, leave nothing behind — goroutines and descriptors must not
// grow with the number of attempts between the first and the last quiescent point.
func judgeResidue(warm, last *residue) {
	att := last.attempts - warm.attempts
	dg, dfd := last.goroutines-warm.goroutines, last.fds-warm.fds
	run.Set("residue", map[string]any{"refused_attempts_between_samples": att, "goroutines_first": warm.goroutines, "goroutines_last": last.goroutines, "fds_first": warm.fds, "fds_last": last.fds})
	if att < 300 {
		return
	}
	if int64(dg) > 150 && int64(dg) > att/6 {
		run.Violation("goroutine-residue-after-refused-attempts", "goroutines grew by %d over %d refused attempts (%d -> %d): %v", dg, att, warm.goroutines, last.goroutines, h.DiffSites(warm.sites, last.sites))
	}
	if int64(dfd) > 150 && int64(dfd) > att/6 {
		run.Violation("fd-residue-after-refused-attempts", "open descriptors grew by %d over %d refused attempts (%d -> %d)", dfd, att, warm.fds, last.fds)
	}
}
