package main

// Adaptive attacker and information monitor. The attacker uses ONLY what frps sent to it: after every
// refusal that carries a text (LoginResp.Error, StartWorkConn.Error, Pong.Error) it harvests every key-like
// word from that text and replays each as privilege_key, with the timestamp of the refused attempt and with
// a fresh one. Independently of acceptance, no text sent to a peer that did not prove knowledge of the
// credential may contain the token, the key matching the timestamp the peer used, or any key that matches
// a timestamp within +-15 minutes (token method) / any token that verifies under the issuer's key (OIDC).

import (
	"crypto"
	"crypto/rsa"
	"crypto/sha256"
	"encoding/base64"
	"encoding/json"
	"fmt"
	"regexp"
	"strings"
	"time"

	"github.com/fatedier/frp/pkg/msg"

	"verif/h"
)

var (
	wordRe = regexp.MustCompile(`[A-Za-z0-9_=+/.\-]{16,}`)
	hex32  = regexp.MustCompile(`[0-9a-fA-F]{32}`)
	jwtRe  = regexp.MustCompile(`[A-Za-z0-9_\-]{8,}\.[A-Za-z0-9_\-]{8,}\.[A-Za-z0-9_\-]{8,}`)
)

// harvest returns the distinct key-like words of text that the peer did not send itself.
func harvest(text string, sent ...string) []string {
	seen := map[string]bool{}
	for _, s := range sent {
		seen[s] = true
	}
	var out []string
	add := func(w string) {
		w = strings.Trim(w, ".")
		if w != "" && !seen[w] {
			seen[w] = true
			out = append(out, w)
		}
	}
	for _, w := range hex32.FindAllString(text, -1) {
		add(w)
	}
	for _, w := range jwtRe.FindAllString(text, -1) {
		add(w)
	}
	for _, w := range wordRe.FindAllString(text, -1) {
		add(w)
	}
	if len(out) > 6 {
		out = out[:6]
	}
	return out
}

// issuerSigned: does w verify as a token under the issuer's published key (any claims)?
func issuerSigned(w string) bool {
	p := strings.Split(w, ".")
	if len(p) != 3 {
		return false
	}
	sig, err := base64.RawURLEncoding.DecodeString(p[2])
	if err != nil {
		return false
	}
	d := sha256.Sum256([]byte(p[0] + "." + p[1]))
	if rsa.VerifyPKCS1v15(&iss.key.PublicKey, crypto.SHA256, d[:], sig) != nil {
		return false
	}
	var cl claims
	b, err := base64.RawURLEncoding.DecodeString(p[1])
	return err == nil && json.Unmarshal(b, &cl) == nil
}

// disclosure checks one text frps sent to a peer without credential. sent = what the peer itself sent.
func (s *srvInfo) disclosure(text string, tsUsed int64, sent ...string) string {
	if text == "" {
		return ""
	}
	mine := map[string]bool{}
	for _, x := range sent {
		mine[strings.ToLower(x)] = true
	}
	if s.Method == "token" {
		if s.Token != "" && strings.Contains(text, s.Token) {
			return "the configured token itself"
		}
		words := hex32.FindAllString(text, -1)
		if len(words) == 0 {
			return ""
		}
		forbidden := map[string]string{h.AuthKey(s.Token, tsUsed): fmt.Sprintf("the key matching the timestamp %d the peer used", tsUsed)}
		now := time.Now().Unix()
		for t := now - 900; t <= now+900; t++ {
			if _, ok := forbidden[h.AuthKey(s.Token, t)]; !ok {
				forbidden[h.AuthKey(s.Token, t)] = fmt.Sprintf("a key matching timestamp %d (within 15 min of now)", t)
			}
		}
		for _, w := range words {
			w = strings.ToLower(w)
			if what, ok := forbidden[w]; ok && !mine[w] {
				return what + ": " + w
			}
		}
		return ""
	}
	for _, w := range jwtRe.FindAllString(text, -1) {
		if !mine[strings.ToLower(w)] && issuerSigned(w) {
			return "a token carrying a valid signature of the issuer: " + clip(w)
		}
	}
	return ""
}

// learn is called with every refusal text an attack step received. path: login | workconn | heartbeat.
func (a *atk) learn(path, text string, ts int64, runID string, sent ...string) {
	if text == "" {
		return
	}
	run.Count("refusal_texts_examined", 1)
	if a.si.Terse {
		run.Count("refusal_texts_examined_terse_server", 1)
	}
	if what := a.si.disclosure(text, ts, sent...); what != "" {
		a.vio("refusal-text-discloses-valid-key", "the %s refusal sent to a peer without credential contains %s (text: %q)", path, what, clip(text))
	}
	words := harvest(text, sent...)
	if len(words) == 0 {
		return
	}
	a.c.Ev("learned-from-refusal", "path", path, "words", words)
	for _, w := range words {
		for _, t := range []int64{ts, time.Now().Unix()} {
			run.Count("replays_of_words_learned_from_refusals", 1)
			a.replay(path, w, t, runID, text)
		}
	}
}

func (a *atk) replay(path, key string, ts int64, runID, learnedFrom string) {
	switch path {
	case "login":
		conn, ok := a.stream()
		if !ok {
			return
		}
		defer conn.Close()
		if err := msg.WriteMsg(conn, &msg.Login{Version: "0.62.1", User: a.tag + ".atk", PrivilegeKey: key, Timestamp: ts}); err != nil {
			return
		}
		_ = conn.SetReadDeadline(time.Now().Add(a.wdog("refused-login-connection-not-closed")))
		var resp msg.LoginResp
		if err := msg.ReadMsgInto(conn, &resp); err == nil {
			if resp.Error == "" {
				a.vio("login-accepted-with-key-learned-from-refusal", "a peer that never held the credential replayed %q (timestamp %d), a word of the refusal text %q, as privilege_key: LoginResp without error, run id %q", clip(key), ts, clip(learnedFrom), resp.RunID)
				return
			}
			if what := a.si.disclosure(resp.Error, ts, key); what != "" {
				a.vio("refusal-text-discloses-valid-key", "the login refusal sent to a peer without credential contains %s (text: %q)", what, clip(resp.Error))
			}
		}
	case "workconn":
		conn, ok := a.stream()
		if !ok {
			return
		}
		defer conn.Close()
		before := a.victim.Pooled.Load()
		if err := msg.WriteMsg(conn, &msg.NewWorkConn{RunID: runID, PrivilegeKey: key, Timestamp: ts}); err != nil {
			return
		}
		d := a.wdog("refused-workconn-connection-not-closed")
		_ = conn.SetReadDeadline(time.Now().Add(d))
		var st msg.StartWorkConn
		t0 := time.Now()
		err := msg.ReadMsgInto(conn, &st)
		accepted := err == nil && st.Error == ""
		if err != nil && !a.flipMux && time.Since(t0) >= d-50*time.Millisecond && isTimeout(err) && runID == a.victim.P.RunID && a.victim.Pooled.Load() > before {
			accepted = true // neither refused nor closed, and it passed the verification hook: pooled
		}
		if accepted {
			a.vio("workconn-accepted-with-key-learned-from-refusal", "a peer that never held the credential replayed %q (timestamp %d), a word of the refusal text %q, as privilege_key of a work connection for run id %s: accepted", clip(key), ts, clip(learnedFrom), runID)
		} else if err == nil {
			if what := a.si.disclosure(st.Error, ts, key); what != "" {
				a.vio("refusal-text-discloses-valid-key", "the work-connection refusal sent to a peer without credential contains %s (text: %q)", what, clip(st.Error))
			}
		}
	case "heartbeat":
		pong, err := a.victim.P.PingWith(&msg.Ping{PrivilegeKey: key, Timestamp: ts}, 20*time.Second)
		if err == nil && pong.Error == "" && a.si.HB {
			a.vio("heartbeat-accepted-with-key-learned-from-refusal", "a heartbeat carrying %q (timestamp %d), a word of the refusal text %q, was acknowledged without error", clip(key), ts, clip(learnedFrom))
		}
	}
}
