package main

// Login server plugin: frps asks an HTTP endpoint before it looks at the key. A login the plugin turns away
// (or whose plugin call fails) is a refused attempt like any other: error reply, closed connection, no
// state, existing sessions untouched. The stub endpoint lives in this process and decides by user name.

import (
	"encoding/json"
	"fmt"
	"io"
	"net"
	"net/http"
	"strings"
	"sync/atomic"
	"time"

	"github.com/fatedier/frp/pkg/msg"

	"verif/h"
)

var pluginCalls atomic.Int64

var pluginModes = []string{"reject", "reject-no-reason", "http500", "http404", "badjson", "emptybody", "hangup", "jsonnull", "wrongtypes"}

func startPluginStub(port int) (int, error) {
	ln, err := net.Listen("tcp", fmt.Sprintf("127.0.0.1:%d", port))
	if err != nil {
		return 0, err
	}
	mux := http.NewServeMux()
	mux.HandleFunc("/handler", func(w http.ResponseWriter, r *http.Request) {
		pluginCalls.Add(1)
		body, _ := io.ReadAll(r.Body)
		var req struct {
			Content struct {
				User string `json:"user"`
			} `json:"content"`
		}
		_ = json.Unmarshal(body, &req)
		u := req.Content.User
		mode := ""
		if i := strings.LastIndex(u, ".plugin-"); i >= 0 {
			mode = u[i+len(".plugin-"):]
		}
		w.Header().Set("Content-Type", "application/json")
		switch mode {
		case "reject":
			_, _ = w.Write([]byte(`{"reject":true,"reject_reason":"user is not welcome"}`))
		case "reject-no-reason":
			_, _ = w.Write([]byte(`{"reject":true}`))
		case "http500":
			w.WriteHeader(500)
			_, _ = w.Write([]byte(`boom`))
		case "http404":
			w.WriteHeader(404)
		case "badjson":
			_, _ = w.Write([]byte(`{"reject":`))
		case "emptybody":
		case "jsonnull":
			_, _ = w.Write([]byte(`null`))
		case "wrongtypes":
			_, _ = w.Write([]byte(`{"reject":"yes","unchange":3}`))
		case "hangup":
			if hj, ok := w.(http.Hijacker); ok {
				if conn, _, err := hj.Hijack(); err == nil {
					conn.Close()
				}
			}
		default:
			_, _ = w.Write([]byte(`{"reject":false,"unchange":true}`))
		}
	})
	go func() { _ = (&http.Server{Handler: mux}).Serve(ln) }()
	return port, nil
}

func pluginCase(c *h.Case) {
	rng := c.Rng
	tag := fmt.Sprintf("c%d", c.Idx)
	si := pluginSrv
	n := 4 + rng.Intn(5)
	c.Data["kind"], c.Data["server"], c.Data["attempts"] = "plugin", si.Name, n
	if _, err := probeTCP(si.IncPort, si.Inc.ID+"|"); err != nil {
		run.Inconclusive("incumbent tunnel not working before the case")
		return
	}
	var sig []string
	attempt := func(s *srvInfo, tr, mode string, valid bool, runID string) {
		o := transportOpts(s, tr)
		o.SkipLogin = true
		p, err := h.DialPeer(o)
		if err != nil {
			run.Inconclusive("attacker transport could not be opened (" + tr + ")")
			return
		}
		defer p.Close()
		ts := time.Now().Unix()
		key := h.AuthKey(s.Token, ts)
		kind := "valid"
		if !valid {
			kind, key, ts = s.badKey(rng, tag, false)
		}
		lm := &msg.Login{Version: "0.62.1", User: tag + ".plugin-" + mode, PrivilegeKey: key, Timestamp: ts, RunID: runID}
		c.Ev("plugin-login", "server", s.Name, "transport", tr, "mode", mode, "key_kind", kind, "run_id", runID)
		sig = append(sig, mode+":"+kind)
		if err := msg.WriteMsg(p.Ctl, lm); err != nil {
			return
		}
		run.Count("plugin_gated_logins", 1)
		wkey := "refused-login-connection-not-closed"
		_ = p.Ctl.SetReadDeadline(time.Now().Add(wd(wkey)))
		var resp msg.LoginResp
		t0 := time.Now()
		err = msg.ReadMsgInto(p.Ctl, &resp)
		switch {
		case err == nil && resp.Error == "" && resp.RunID == "":
			// a plugin that rejects without a reason makes frps send an empty error text; no run id is handed
			// out and (checked below) the connection is closed and no session exists: refused, oddly worded
			run.Count("plugin_rejections_answered_with_empty_error_text", 1)
		case err == nil && resp.Error == "" && !valid:
			c.Violation("login-accepted-without-valid-key-behind-login-plugin", "[%s/%s] login of user %q with key kind %s (plugin answer: %s) was accepted: run id %q", s.Name, tr, lm.User, kind, mode, resp.RunID)
			return
		case err == nil && resp.Error == "":
			// turned away by the plugin but accepted with a valid key: C15's business, the cell shows nothing here
			run.Inconclusive("login plugin turned the login away but frps accepted it (valid key)")
			honestRunIDs.Store(resp.RunID, s.Name)
			return
		case err == nil:
			run.Count("plugin_gated_logins_refused_with_reply", 1)
			if what := s.disclosure(resp.Error, ts, key); what != "" && !valid {
				c.Violation("refusal-text-discloses-valid-key", "[%s/%s] the refusal of a plugin-gated login contains %s (text %q)", s.Name, tr, what, clip(resp.Error))
			}
		case time.Since(t0) >= wd(wkey)-50*time.Millisecond && isTimeout(err):
			wdFired(wkey)
			c.Violation(wkey, "[%s/%s] login turned away by the login plugin (%s): neither answered nor closed within the watchdog", s.Name, tr, mode)
			return
		default:
			run.Count("plugin_gated_logins_refused_by_close", 1)
		}
		if closed, extra := readRest(p.Ctl, wd(wkey)); !closed {
			wdFired(wkey)
			c.Violation(wkey, "[%s/%s] login turned away by the login plugin (%s) was answered with an error but the connection stayed open", s.Name, tr, mode)
		} else if extra > 0 {
			c.Violation("data-sent-after-refusing-login", "[%s/%s] %d bytes after the refusal of a plugin-gated login", s.Name, tr, extra)
		}
	}
	trs := si.transports()
	for i := 0; i < n && c.Violations() == 0; i++ {
		runID := ""
		if rng.Intn(4) == 0 {
			runID = si.Inc.P.RunID
		}
		attempt(si, trs[rng.Intn(len(trs))], pluginModes[rng.Intn(len(pluginModes))], rng.Intn(2) == 0, runID)
	}
	// the endpoint nobody listens on: every login fails in the plugin call, with and without a valid key
	attempt(pluginDown, "tcp", "unreachable", rng.Intn(2) == 0, "")

	// existing sessions and tables
	disturbed := func(format string, args ...any) {
		c.Violation("login-refused-by-plugin-disturbed-existing-session", "[%s] after logins turned away by the login plugin (%v): "+format, append([]any{si.Name, sig}, args...)...)
	}
	if si.Inc.P.Closed() || si.Inc.Replaced.Load() > 0 {
		disturbed("incumbent session closed=%v replaced=%d", si.Inc.P.Closed(), si.Inc.Replaced.Load())
	}
	if id, err := probeTCP(si.IncPort, si.Inc.ID+"|"); err != nil {
		disturbed("incumbent tunnel failed: %q %v", id, err)
	} else {
		run.Count("incumbent_probes_ok", 1)
	}
	for _, s := range []*srvInfo{si, pluginDown} {
		snap := s.S.Snapshot()
		for _, ss := range snap.Sessions {
			if strings.HasPrefix(ss.User, tag+".plugin-") {
				if _, ok := honestRunIDs.Load(ss.RunID); !ok {
					c.Violation("session-exists-for-refused-login", "[%s] session table holds user %q run id %s although that login was turned away", s.Name, ss.User, ss.RunID)
				}
			}
		}
	}
	// the servers still answer
	for _, s := range []*srvInfo{si, pluginDown} {
		o := transportOpts(s, "tcp")
		o.User = tag + ".alive"
		o.MutateLogin = func(l *msg.Login) { l.PrivilegeKey = "not-a-key" }
		p, err := h.DialPeer(o)
		if p != nil {
			p.Close()
		}
		if p == nil || (err != nil && p.LoginResp.Error == "") {
			disturbed("server %s no longer answers logins: %v", s.Name, err)
		}
	}
	run.Distinct(fmt.Sprintf("plugin|%v", sig))
	if c.Idx%40 == 0 {
		run.Sample(map[string]any{"kind": "plugin", "attempts": sig})
	}
}
