package main

// Monitor 9 (multi-route rotation family): the credentials in force on a route are those of the CURRENT
// registration, and a route that is no longer configured serves nothing.
//
// A scripted owner registers a protected http proxy with several routes (customDomains, subdomain,
// locations) and credentials A; every route is verified (A served, anonymous challenged). The proxy is
// closed (CloseProxy + Ping barrier) and registered again under the SAME NAME with credentials B on a
// SUBSET of the routes. Then every route of the old set that is not in the new set must reach no backend
// whatever is presented (A, B, nothing), and on the kept routes A is refused and B served.

import (
	"bytes"
	"fmt"
	"math/rand"
	"strings"
	"time"

	"github.com/fatedier/frp/pkg/msg"

	"verif/h"
)

type rotRoute struct {
	Host string `json:"host"`
	Path string `json:"path"` // request path that selects the route
}

type rotateSpec struct {
	// Variant:
	//   3-domains-keep-last      customDomains [a b c]            -> [c]
	//   3-domains-keep-last-two  customDomains [a b c]            -> [b c]
	//   2-locations-keep-last    locations [/x /y] on one domain  -> [/y]
	//   domain+subdomain         customDomains [a] + subdomain s  -> subdomain s
	//   2x2-keep-last-domain     [a b] x [/x /y]                  -> [b] x [/x /y]
	//   3-domains-keep-first     customDomains [a b c]            -> [a]
	Variant string `json:"variant"`
	// SameCreds: the second registration keeps the credentials (only the route set shrinks).
	SameCreds bool `json:"same_credentials"`
}

const rotSubHost = "subrot.test"

func runRotate(c *h.Case, s *rotateSpec) {
	id := fmt.Sprintf("rot%d", c.Idx)
	a, b, cc := id+"a.rot.test", id+"b.rot.test", id+"c.rot.test"
	credA, credB := alice, alice2
	if s.SameCreds {
		credB = credA
	}
	m1 := &msg.NewProxy{ProxyName: id, ProxyType: "http", HTTPUser: credA.User, HTTPPwd: credA.Pass}
	m2 := &msg.NewProxy{ProxyName: id, ProxyType: "http", HTTPUser: credB.User, HTTPPwd: credB.Pass}
	var oldSet, newSet []rotRoute
	switch s.Variant {
	case "3-domains-keep-last":
		m1.CustomDomains, m2.CustomDomains = []string{a, b, cc}, []string{cc}
		oldSet, newSet = []rotRoute{{a, "/"}, {b, "/"}, {cc, "/"}}, []rotRoute{{cc, "/"}}
	case "3-domains-keep-last-two":
		m1.CustomDomains, m2.CustomDomains = []string{a, b, cc}, []string{b, cc}
		oldSet, newSet = []rotRoute{{a, "/"}, {b, "/"}, {cc, "/"}}, []rotRoute{{b, "/"}, {cc, "/"}}
	case "3-domains-keep-first":
		m1.CustomDomains, m2.CustomDomains = []string{a, b, cc}, []string{a}
		oldSet, newSet = []rotRoute{{a, "/"}, {b, "/"}, {cc, "/"}}, []rotRoute{{a, "/"}}
	case "2-locations-keep-last":
		m1.CustomDomains, m2.CustomDomains = []string{a}, []string{a}
		m1.Locations, m2.Locations = []string{"/x", "/y"}, []string{"/y"}
		oldSet, newSet = []rotRoute{{a, "/x/1"}, {a, "/y/1"}}, []rotRoute{{a, "/y/1"}}
	case "domain+subdomain":
		m1.CustomDomains, m1.SubDomain, m2.SubDomain = []string{a}, id+"s", id+"s"
		sh := id + "s." + rotSubHost
		oldSet, newSet = []rotRoute{{a, "/"}, {sh, "/"}}, []rotRoute{{sh, "/"}}
	case "2x2-keep-last-domain":
		m1.CustomDomains, m2.CustomDomains = []string{a, b}, []string{b}
		m1.Locations, m2.Locations = []string{"/x", "/y"}, []string{"/x", "/y"}
		oldSet = []rotRoute{{a, "/x/1"}, {a, "/y/1"}, {b, "/x/1"}, {b, "/y/1"}}
		newSet = []rotRoute{{b, "/x/1"}, {b, "/y/1"}}
	}
	bk := virtualBackend(id, cred{"(current)", "(current)"})
	owner, err := h.DialPeer(h.PeerOpts{ServerPort: envC.BindPort, TCPMux: true, Token: token, AutoWork: true, WorkHandler: workHTTP(bk)})
	if err != nil || !owner.LoggedIn() {
		run.Inconclusive("rotation family: owner login failed")
		return
	}
	defer owner.Close()
	addr := fmt.Sprintf("127.0.0.1:%d", envC.HTTPPort)
	sub := 0
	type answer struct {
		status  int
		reached bool
	}
	// ask sends one request; `legit` tells the oracle whether the request presents the credentials in force on a configured route.
	ask := func(r rotRoute, with cred, legit bool) answer {
		sub++
		tag := tagFor(c, sub)
		var bb bytes.Buffer
		fmt.Fprintf(&bb, "GET %s HTTP/1.1\r\nHost: %s\r\n", r.Path, r.Host)
		for _, l := range aLine(with) {
			fmt.Fprintf(&bb, "%s: %s\r\n", l.Name, l.Value)
		}
		fmt.Fprintf(&bb, "X-Verif-Tag: %s\r\nConnection: close\r\n\r\n", tag)
		register(c, tag, aLine(with), func(seenRec, *backend) string { return "vhost-http-leftover-route-serves-replaced-credentials" }, func(cred) bool { return legit })
		resp := doRaw(addr, bb.Bytes(), "GET", 20*time.Second)
		ids := judgeSeen(c, tag)
		c.Ev("ask", "host", r.Host, "path", r.Path, "with", with.String(), "legit", legit, "status", resp.Status, "reached", len(ids) > 0, "err", fmt.Sprint(resp.Err))
		run.Count("rotation_requests", 1)
		if resp.Err == errTimeout {
			run.Inconclusive("rotation family: no answer within 20 s")
		}
		return answer{resp.Status, len(ids) > 0}
	}

	// ---- first registration: A on every route
	if resp, err := owner.NewProxy(m1, 10*time.Second); err != nil || resp.Error != "" {
		run.Inconclusive("rotation family: first registration failed")
		return
	}
	for _, r := range oldSet {
		if x := ask(r, credA, true); !x.reached || x.status != 200 {
			run.Inconclusive("rotation family: a route of the first registration does not serve its credentials")
			return
		}
		if x := ask(r, cred{}, false); x.status != 401 && c.Violations() == 0 {
			c.Violation("vhost-http-no-challenge", "route %s%s of a proxy protected by %v answered an anonymous request with status %d", r.Host, r.Path, credA, x.status)
		}
	}
	run.Count("rotation_routes_verified_before", int64(len(oldSet)))

	// ---- close, then the same name again with B on a subset
	_ = owner.CloseProxy(id)
	if _, err := owner.Ping(10 * time.Second); err != nil {
		run.Inconclusive("rotation family: close barrier missing")
		return
	}
	if resp, err := owner.NewProxy(m2, 10*time.Second); err != nil || resp.Error != "" {
		msgText := ""
		if resp != nil {
			msgText = resp.Error
		}
		c.Ev("second-registration-refused", "error", msgText)
		if strings.Contains(msgText, "conflict") {
			// the proxy's own closed routes block its re-registration: they are still in the table. No proxy of
			// this name is registered now, so none of the old routes may reach anything.
			for _, r := range oldSet {
				for _, w := range []cred{credA, {}} {
					if x := ask(r, w, false); c.Violations() == 0 && x.status/100 == 2 {
						c.Violation("vhost-http-leftover-route-serves-replaced-credentials", "proxy %s was closed and its re-registration refused (%s), yet route %s%s answered a request presenting %v with status %d", id, msgText, r.Host, r.Path, w, x.status)
					}
				}
			}
			run.Count("rotation_reregistration_refused_conflict", 1)
		}
		run.Inconclusive("rotation family: second registration failed")
		return
	}
	kept := map[rotRoute]bool{}
	for _, r := range newSet {
		kept[r] = true
	}
	for _, r := range oldSet {
		if kept[r] {
			continue
		}
		// a route that is no longer configured: nothing may come through, whatever is presented
		for _, w := range []cred{credA, credB, {}} {
			x := ask(r, w, false)
			if c.Violations() == 0 && x.status/100 == 2 {
				c.Violation("vhost-http-leftover-route-serves-replaced-credentials", "route %s%s was dropped when proxy %s was registered again, yet a request presenting %v got status %d", r.Host, r.Path, id, w, x.status)
			}
			if x.status == 404 {
				run.Count("rotation_dropped_route_not_found", 1)
			}
		}
		run.Count("rotation_dropped_routes_checked", 1)
	}
	for _, r := range newSet {
		if !s.SameCreds {
			if x := ask(r, credA, false); x.status/100 == 2 && c.Violations() == 0 {
				c.Violation("vhost-http-leftover-route-serves-replaced-credentials", "kept route %s%s of proxy %s (now %v) served the replaced credentials %v: status %d", r.Host, r.Path, id, credB, credA, x.status)
			}
		}
		x := ask(r, credB, true)
		for try := 1; try <= 2 && !(x.reached && x.status == 200) && x.status != 401; try++ {
			time.Sleep(time.Duration(try) * 500 * time.Millisecond)
			x = ask(r, credB, true)
		}
		if !(x.reached && x.status == 200) {
			if x.status == 401 {
				c.Violation("vhost-http-exact-credentials-refused", "kept route %s%s of proxy %s registered with %v refuses these credentials", r.Host, r.Path, id, credB)
			} else {
				run.Inconclusive("rotation family: kept route does not serve the new credentials")
			}
		} else {
			run.Count("rotation_kept_routes_serving_new_credentials", 1)
		}
	}
	run.Count("rotation_cases", 1)
	run.Distinct(fmt.Sprintf("rotate|%s|%v", s.Variant, s.SameCreds))
	if c.Idx%3 == 0 {
		run.Sample(map[string]any{"surface": "vhost-http/multi-route-rotation", "spec": s, "old_routes": oldSet, "new_routes": newSet})
	}
}

func genRotate(rng *rand.Rand) []spec {
	var out []spec
	reps := run.N(2, 10)
	for r := 0; r < reps; r++ {
		for _, v := range []string{"3-domains-keep-last", "3-domains-keep-last-two", "3-domains-keep-first", "2-locations-keep-last", "domain+subdomain", "2x2-keep-last-domain"} {
			out = append(out, spec{Rotate: &rotateSpec{Variant: v, SameCreds: r%3 == 2}})
		}
	}
	_ = rng
	return out
}
