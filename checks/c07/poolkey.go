package main

// Monitor 8: a request whose Host spells the reverse proxy's internal backend-pool key of a protected
// route. frps keeps idle work connections per route under the key
// "<domain>.<b64 location>.<b64 routeByHTTPUser>.<b64 endpoint>.<route id>"; every byte of it is legal in
// a Host header. A request that matches no route is not credential-checked, so it must never be able to
// pick up such an idle connection. Right after a legitimate authenticated request left an idle
// connection, requests WITHOUT / with WRONG credentials are sent with that key as Host (origin-form),
// as absolute-form target and as CONNECT authority, for every route id in a range around the plausible
// value (the id is a small registration counter).

import (
	"bytes"
	"encoding/base64"
	"fmt"
	"math/rand"
	"strings"
	"time"

	"verif/h"
)

type poolKeySpec struct {
	Route    string `json:"route"`              // proxy name of the protected route
	Endpoint string `json:"endpoint,omitempty"` // group member name ("" for plain routes)
	Form     string `json:"form"`               // origin | absolute | connect
	IDFrom   int    `json:"id_from"`
	IDTo     int    `json:"id_to"`
}

func b64s(s string) string { return base64.StdEncoding.EncodeToString([]byte(s)) }

// concreteHost gives a host name a requester would use for the route.
func concreteHost(r *route) string {
	switch {
	case r.Sub != "":
		return r.Sub + ".sub.test"
	case strings.HasPrefix(r.Domain, "*."):
		return "x" + r.Domain[1:]
	}
	return r.Domain
}

func registeredDomain(r *route) string {
	if r.Sub != "" {
		return r.Sub + ".sub.test"
	}
	return r.Domain
}

func runPoolKey(c *h.Case, s *poolKeySpec) {
	r := routeOf(s.Route)
	addr := fmt.Sprintf("127.0.0.1:%d", envA.HTTPPort)
	loc := ""
	path := "/"
	if len(r.Locations) > 0 {
		loc = r.Locations[0]
		path = loc
	}
	host := concreteHost(r)
	sub := 0
	// prime: legitimate authenticated requests (in the form under test) leave idle pooled connections
	prime := func(n int) bool {
		ok := false
		for i := 0; i < n; i++ {
			sub++
			tag := tagFor(c, sub)
			lines := aLine(r.Cred)
			var b bytes.Buffer
			if s.Form == "absolute" {
				fmt.Fprintf(&b, "GET http://%s%s HTTP/1.1\r\nHost: %s\r\n", host, path, host)
			} else {
				fmt.Fprintf(&b, "GET %s HTTP/1.1\r\nHost: %s\r\n", path, host)
			}
			for _, l := range lines {
				fmt.Fprintf(&b, "%s: %s\r\n", l.Name, l.Value)
			}
			fmt.Fprintf(&b, "X-Verif-Tag: %s\r\nConnection: close\r\n\r\n", tag)
			register(c, tag, lines, vhostKey(s.Form == "absolute", false, lines), nil)
			resp := doRaw(addr, b.Bytes(), "GET", 20*time.Second)
			judgeSeen(c, tag)
			if resp.Status == 200 && resp.Header.Get("X-Verif-Backend") != "" {
				ok = true
			}
		}
		return ok
	}
	members := 1
	if r.Group != "" {
		members = 3
	}
	if !prime(2 * members) {
		run.Inconclusive("pool-key family: the legitimate request was not served")
		return
	}
	run.Count("poolkey_routes_primed", 1)
	statuses := map[int]int{}
	for id := s.IDFrom; id <= s.IDTo; id++ {
		if (id-s.IDFrom)%24 == 23 {
			prime(members) // keep idle connections around
		}
		key := registeredDomain(r) + "." + b64s(loc) + "." + b64s(r.RouteBy) + "." + b64s(s.Endpoint) + "." + fmt.Sprint(id)
		for _, k := range []credKind{kAbsent, kWrongPw} {
			sub++
			tag := tagFor(c, sub)
			lines := authLines("Authorization", k1(k), r.Cred, mallory)
			var b bytes.Buffer
			method := "GET"
			switch s.Form {
			case "absolute":
				fmt.Fprintf(&b, "GET http://%s%s HTTP/1.1\r\nHost: %s\r\n", key, path, key)
			case "connect":
				fmt.Fprintf(&b, "CONNECT %s:80 HTTP/1.1\r\nHost: %s:80\r\n", key, key)
				method = "CONNECT"
			default:
				fmt.Fprintf(&b, "GET %s HTTP/1.1\r\nHost: %s\r\n", path, key)
			}
			for _, l := range lines {
				fmt.Fprintf(&b, "%s: %s\r\n", l.Name, l.Value)
			}
			fmt.Fprintf(&b, "X-Verif-Tag: %s\r\nConnection: close\r\n\r\n", tag)
			register(c, tag, lines, func(seenRec, *backend) string { return "vhost-http-pool-key-host-reaches-protected-backend" }, nil)
			resp := doRaw(addr, b.Bytes(), method, 20*time.Second)
			run.Count("poolkey_requests", 1)
			statuses[resp.Status]++
			before := c.Violations()
			ids := judgeSeen(c, tag)
			if resp.Err == errTimeout {
				run.Inconclusive("pool-key family: no answer within 20 s")
			}
			if c.Violations() > before {
				run.Count("poolkey_hits_"+s.Form, 1)
				kind := "plain"
				switch {
				case r.Group != "":
					kind = "group"
				case r.RouteBy != "":
					kind = "user_routed"
				case loc != "":
					kind = "location"
				}
				run.Count("poolkey_hits_route_"+kind, 1)
				c.Ev("witness", "request", b.String(), "status", resp.Status, "backends", ids)
			} else if resp.Err == nil && resp.Status/100 == 2 {
				c.Ev("witness", "request", b.String(), "status", resp.Status, "backend", resp.Header.Get("X-Verif-Backend"))
				c.Violation("vhost-http-pool-key-host-reaches-protected-backend", "request without the credentials %v and Host %q (the pool key of route %s with id %d) was answered with status %d by %q instead of the not-found page",
					r.Cred, key, r.Name, id, resp.Status, resp.Header.Get("X-Verif-Backend"))
			}
			if resp.Status == 404 {
				run.Count("poolkey_not_found_answers", 1)
			}
		}
	}
	c.Ev("statuses", "by_code", fmt.Sprint(statuses))
	run.Distinct(fmt.Sprintf("poolkey|%s|%s|%s|%d-%d", s.Route, s.Endpoint, s.Form, s.IDFrom, s.IDTo))
	if c.Idx%7 == 0 {
		run.Sample(map[string]any{"surface": "vhost-http/pool-key-host", "spec": s, "answers_by_status": fmt.Sprint(statuses)})
	}
}

func genPoolKey(rng *rand.Rand) []spec {
	var out []spec
	maxID := run.N(64, 256)
	for _, r := range allRoutes {
		if r.Type != "http" || !r.Cred.protected() || r.b == nil {
			continue
		}
		if r.Name == "b1.p" || (r.MayBeRefused && !registered[r.Name]) {
			continue // server B has a catch-all route: every Host matches a route there
		}
		if r.RouteBy != "" && r.RouteBy != r.Cred.User {
			continue // not reachable with one Authorization header: no legitimate request to leave a connection
		}
		if r.Late && r.Group != "" {
			continue // the group's route is enumerated once, through its first member, with every member as endpoint
		}
		endpoints := []string{""}
		if r.Group != "" {
			endpoints = nil
			for _, m := range allRoutes {
				if m.Group == r.Group && !(m.MayBeRefused && !registered[m.Name]) {
					endpoints = append(endpoints, m.Name)
				}
			}
		}
		for _, ep := range endpoints {
			loc := ""
			if len(r.Locations) > 0 {
				loc = r.Locations[0]
			}
			if strings.ContainsAny(b64s(ep)+b64s(r.RouteBy)+b64s(loc), "/") {
				continue
			}
			for _, f := range []string{"origin", "absolute", "connect"} {
				for from := 1; from <= maxID; from += 32 {
					out = append(out, spec{PoolKey: &poolKeySpec{Route: r.Name, Endpoint: ep, Form: f, IDFrom: from, IDTo: from + 31}})
				}
			}
		}
	}
	_ = rng
	return out
}
