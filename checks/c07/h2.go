package main

// Monitor 1b: frps vhost http proxies over h2c (prior knowledge and HTTP/1.1 Upgrade), with a
// minimal HTTP/2 client on top of the x/net framer so that every stream's header set is under
// the generator's control.

import (
	"bufio"
	"bytes"
	"fmt"
	"io"
	"math/rand"
	"net"
	"net/http"
	"strconv"
	"strings"
	"time"

	"golang.org/x/net/http2"
	"golang.org/x/net/http2/hpack"

	"verif/h"
)

type h2Stream struct {
	T      target     `json:"target"`
	A      []credKind `json:"authorization"`
	PA     []credKind `json:"proxy_authorization"`
	Method string     `json:"method"`
}

type h2Spec struct {
	Mode    string     `json:"mode"` // prior | upgrade
	Streams []h2Stream `json:"streams"`
}

func (s h2Stream) lines() []hdrLine {
	// HTTP/2 field names are lower case on the wire
	return append(authLines("authorization", s.A, s.T.Focus, s.T.Other), authLines("proxy-authorization", s.PA, s.T.Focus, s.T.Other)...)
}

type h2Client struct {
	conn net.Conn
	br   *bufio.Reader
	fr   *http2.Framer
	enc  *hpack.Encoder
	ebuf bytes.Buffer
	dec  *hpack.Decoder
	// responses by stream id
	status map[uint32]int
	hdr    map[uint32]http.Header
	body   map[uint32][]byte
	done   map[uint32]bool
	cur    uint32
	goaway bool
}

func newH2Client(conn net.Conn, br *bufio.Reader) *h2Client {
	cl := &h2Client{conn: conn, br: br, status: map[uint32]int{}, hdr: map[uint32]http.Header{}, body: map[uint32][]byte{}, done: map[uint32]bool{}}
	cl.fr = http2.NewFramer(conn, br)
	cl.enc = hpack.NewEncoder(&cl.ebuf)
	cl.dec = hpack.NewDecoder(4096, func(f hpack.HeaderField) {
		if f.Name == ":status" {
			cl.status[cl.cur], _ = strconv.Atoi(f.Value)
			return
		}
		if cl.hdr[cl.cur] == nil {
			cl.hdr[cl.cur] = http.Header{}
		}
		cl.hdr[cl.cur].Add(f.Name, f.Value)
	})
	return cl
}

func (cl *h2Client) preface() error {
	if _, err := io.WriteString(cl.conn, http2.ClientPreface); err != nil {
		return err
	}
	return cl.fr.WriteSettings()
}

func (cl *h2Client) sendRequest(id uint32, method, authority, path string, lines []hdrLine, tag string) error {
	cl.ebuf.Reset()
	w := func(n, v string) { _ = cl.enc.WriteField(hpack.HeaderField{Name: n, Value: v}) }
	w(":method", method)
	w(":scheme", "http")
	w(":authority", authority)
	w(":path", path)
	for _, l := range lines {
		w(strings.ToLower(l.Name), l.Value)
	}
	w("x-verif-tag", tag)
	return cl.fr.WriteHeaders(http2.HeadersFrameParam{StreamID: id, BlockFragment: cl.ebuf.Bytes(), EndStream: true, EndHeaders: true})
}

// await reads frames until stream id is complete.
func (cl *h2Client) await(id uint32, timeout time.Duration) error {
	_ = cl.conn.SetReadDeadline(time.Now().Add(timeout))
	for !cl.done[id] {
		if cl.goaway {
			return fmt.Errorf("GOAWAY")
		}
		f, err := cl.fr.ReadFrame()
		if err != nil {
			return err
		}
		switch f := f.(type) {
		case *http2.SettingsFrame:
			if !f.IsAck() {
				_ = cl.fr.WriteSettingsAck()
			}
		case *http2.PingFrame:
			if !f.IsAck() {
				_ = cl.fr.WritePing(true, f.Data)
			}
		case *http2.HeadersFrame:
			cl.cur = f.StreamID
			if _, err := cl.dec.Write(f.HeaderBlockFragment()); err != nil {
				return err
			}
			if !f.HeadersEnded() {
				return fmt.Errorf("CONTINUATION not supported by the mini client")
			}
			if f.StreamEnded() {
				cl.done[f.StreamID] = true
			}
		case *http2.DataFrame:
			cl.body[f.StreamID] = append(cl.body[f.StreamID], f.Data()...)
			if n := len(f.Data()); n > 0 {
				_ = cl.fr.WriteWindowUpdate(0, uint32(n))
			}
			if f.StreamEnded() {
				cl.done[f.StreamID] = true
			}
		case *http2.RSTStreamFrame:
			cl.done[f.StreamID] = true
			if cl.status[f.StreamID] == 0 {
				cl.status[f.StreamID] = -1
			}
		case *http2.GoAwayFrame:
			cl.goaway = true
		}
	}
	return nil
}

func runH2(c *h.Case, s *h2Spec) {
	// a positive control that fails without an authentication refusal (lost work connection on a loaded
	// machine) is repeated once on a new connection before it counts
	if runH2Once(c, s, 0, false) {
		time.Sleep(time.Second)
		run.Count("positive_control_retries", 1)
		runH2Once(c, s, 100, true)
	}
}

func runH2Once(c *h.Case, s *h2Spec, base int, final bool) (controlFailed bool) {
	e := env(s.Streams[0].T.Server)
	conn, err := net.DialTimeout("tcp", fmt.Sprintf("127.0.0.1:%d", e.HTTPPort), 5*time.Second)
	if err != nil {
		run.Inconclusive("h2c: dial failed")
		return
	}
	defer conn.Close()
	_ = conn.SetDeadline(time.Now().Add(60 * time.Second))
	br := bufio.NewReader(conn)
	tags := make([]string, len(s.Streams))
	linesOf := make([][]hdrLine, len(s.Streams))
	for i, st := range s.Streams {
		tags[i] = tagFor(c, base+i)
		linesOf[i] = st.lines()
		register(c, tags[i], linesOf[i], vhostKey(false, s.Mode == "prior" || i > 0, linesOf[i]), nil)
	}
	statuses := make([]int, len(s.Streams))
	hdrs := make([]http.Header, len(s.Streams))
	for i := range statuses {
		statuses[i] = -2 // not sent
	}
	var cl *h2Client
	next := uint32(1)
	first := 0
	switch s.Mode {
	case "upgrade":
		st := s.Streams[0]
		var b bytes.Buffer
		fmt.Fprintf(&b, "%s %s HTTP/1.1\r\nHost: %s\r\nConnection: Upgrade, HTTP2-Settings\r\nUpgrade: h2c\r\nHTTP2-Settings: AAMAAABkAAQCAAAAAAIAAAAA\r\n", st.Method, st.T.Path, st.T.Host)
		for _, l := range linesOf[0] {
			fmt.Fprintf(&b, "%s: %s\r\n", l.Name, l.Value)
		}
		fmt.Fprintf(&b, "X-Verif-Tag: %s\r\n\r\n", tags[0])
		c.Ev("upgrade-request", "raw", b.String())
		if _, err := conn.Write(b.Bytes()); err != nil {
			run.Inconclusive("h2c: write failed")
			return
		}
		resp, err := http.ReadResponse(br, &http.Request{Method: st.Method})
		if err != nil {
			run.Count("h2c_upgrade_no_response", 1)
			c.Ev("upgrade-response", "err", err.Error())
			judgeSeen(c, tags[0])
			return
		}
		statuses[0], hdrs[0] = resp.StatusCode, resp.Header
		c.Ev("upgrade-response", "status", resp.StatusCode)
		if resp.StatusCode != 101 {
			_, _ = io.Copy(io.Discard, io.LimitReader(resp.Body, 1<<20))
			resp.Body.Close()
			run.Count("h2c_upgrade_refused", 1)
			first = len(s.Streams) // nothing more can be sent on this connection as HTTP/2
			break
		}
		run.Count("h2c_upgrades", 1)
		cl = newH2Client(conn, br)
		if err := cl.preface(); err != nil {
			run.Inconclusive("h2c: preface write failed")
			return
		}
		if err := cl.await(1, 20*time.Second); err != nil {
			c.Ev("stream", "id", 1, "err", err.Error())
		}
		statuses[0], hdrs[0] = cl.status[1], cl.hdr[1]
		next, first = 3, 1
	case "prior":
		cl = newH2Client(conn, br)
		if err := cl.preface(); err != nil {
			run.Inconclusive("h2c: preface write failed")
			return
		}
		run.Count("h2c_prior_knowledge_connections", 1)
	}
	for i := first; i < len(s.Streams); i++ {
		st := s.Streams[i]
		path := st.T.Path
		if err := cl.sendRequest(next, st.Method, st.T.Host, path, linesOf[i], tags[i]); err != nil {
			c.Ev("stream", "id", next, "write-err", err.Error())
			break
		}
		err := cl.await(next, 20*time.Second)
		statuses[i], hdrs[i] = cl.status[next], cl.hdr[next]
		c.Ev("stream", "id", next, "host", st.T.Host, "status", cl.status[next], "err", fmt.Sprint(err), "body", string(cl.body[next]))
		run.Count("h2c_streams", 1)
		next += 2
		if err != nil {
			if isTimeout(err) {
				run.Inconclusive("h2c: stream got no response within 20 s")
			}
			break
		}
	}
	var sig []string
	for i, st := range s.Streams {
		ids := judgeSeen(c, tags[i])
		has := carries(linesOf[i], st.T.Focus)
		if st.T.Simple && !has && statuses[i] > 0 && statuses[i] != 400 && c.Violations() == 0 {
			// a stream (or the upgrade request itself) aimed at an all-protected host without credentials
			ch := hdrs[i] != nil && hasBasicChallenge(hdrs[i], "Www-Authenticate")
			ok := statuses[i] == 401 && ch
			h2only := s.Mode == "prior" || i > 0
			if h2only && statuses[i] == 404 {
				ok = true // refused without reaching anything (h2c connections are routed by their first request)
			}
			if !ok {
				key := "vhost-http-h2c-no-challenge"
				if h2only {
					key = "vhost-http-h2c-stream-not-checked"
				}
				c.Violation(key, "h2c (%s) request #%d without the credentials %v to %s (all matching routes protected) was answered with status %d by backend %q (challenge %v) instead of a 401 challenge",
					s.Mode, i, st.T.Focus, st.T.Host, statuses[i], hdrs[i].Get("X-Verif-Backend"), ch)
			}
			run.Count("h2c_challenges_checked", 1)
		}
		// positive control: a stream with the plain exact credentials is served by the right backend
		if st.T.Control != "" && st.Method == "GET" && statuses[i] != -2 && len(linesOf[i]) == 1 && linesOf[i][0].Name == "authorization" &&
			linesOf[i][0].Value == "Basic "+b64(st.T.Focus.User+":"+st.T.Focus.Pass) {
			good := statuses[i] == 200 && hdrs[i] != nil && hdrs[i].Get("X-Verif-Backend") == st.T.Control
			seenCtl := false
			for _, id := range ids {
				if id == st.T.Control {
					seenCtl = true
				}
			}
			if !good || !seenCtl {
				if statuses[i] == 401 || final {
					key := "vhost-http-exact-credentials-refused"
					if s.Mode == "prior" || i > 0 {
						key = "vhost-http-h2c-stream-not-checked" // streams are not routed / checked on their own
					}
					by := ""
					if hdrs[i] != nil {
						by = hdrs[i].Get("X-Verif-Backend")
					}
					c.Violation(key, "h2c (%s) request #%d with the exact credentials %v to %s: status %d, answered by %q, backends that saw it %v (want %s)",
						s.Mode, i, st.T.Focus, st.T.Host, statuses[i], by, ids, st.T.Control)
				} else {
					controlFailed = true
				}
			}
			if base == 0 {
				run.Count("h2c_positive_controls", 1)
			}
		}
		sig = append(sig, fmt.Sprintf("%s:%s:%s:%s", st.T.Table, st.Method, kindsSig(st.A), kindsSig(st.PA)))
	}
	if base == 0 {
		run.Distinct("h2c|" + s.Mode + "|" + strings.Join(sig, ","))
		if c.Idx%997 == 0 {
			run.Sample(map[string]any{"surface": "vhost-h2c", "mode": s.Mode, "streams": s.Streams, "statuses": statuses})
		}
	}
	return controlFailed
}

func genH2(rng *rand.Rand) []spec {
	var out []spec
	var prot, any []target
	for _, t := range httpTargets {
		if t.Server != "A" {
			continue
		}
		any = append(any, t)
		if t.Control != "" {
			prot = append(prot, t)
		}
	}
	var bT []target
	for _, t := range httpTargets {
		if t.Server == "B" {
			bT = append(bT, t)
		}
	}
	open := target{Table: "t0", Server: "A", Host: "open.test", Path: "/", Focus: alice, Other: mallory}
	// systematic: authenticated (or unprotected) first request, then streams without / with wrong credentials
	for _, t := range prot {
		for _, k := range []credKind{kAbsent, kWrongPw, kOtherExact, kEmptyPw} {
			out = append(out, spec{H2: &h2Spec{Mode: "upgrade", Streams: []h2Stream{
				{T: t, A: []credKind{kExact}, PA: []credKind{kAbsent}, Method: "GET"},
				{T: t, A: []credKind{k}, PA: []credKind{kAbsent}, Method: "GET"},
				{T: t, A: []credKind{kAbsent}, PA: []credKind{k}, Method: "GET"}}}})
			out = append(out, spec{H2: &h2Spec{Mode: "upgrade", Streams: []h2Stream{
				{T: open, A: []credKind{kAbsent}, PA: []credKind{kAbsent}, Method: "GET"},
				{T: t, A: []credKind{k}, PA: []credKind{kAbsent}, Method: "GET"},
				{T: t, A: []credKind{kExact}, PA: []credKind{kAbsent}, Method: "GET"}}}})
			out = append(out, spec{H2: &h2Spec{Mode: "prior", Streams: []h2Stream{
				{T: t, A: []credKind{k}, PA: []credKind{kAbsent}, Method: "GET"},
				{T: t, A: []credKind{kExact}, PA: []credKind{kAbsent}, Method: "GET"}}}})
		}
	}
	n := run.N(500, 15000)
	for i := 0; i < n; i++ {
		s := &h2Spec{Mode: pick(rng, []string{"upgrade", "upgrade", "prior"})}
		k := 2 + rng.Intn(3)
		pool := any
		if rng.Intn(6) == 0 {
			pool = bT // server B: catch-all route
		}
		for j := 0; j < k; j++ {
			t := pick(rng, pool)
			if j == 0 && pool[0].Server == "A" && rng.Intn(4) == 0 {
				t = open
			}
			a, p := randKinds(rng), randKinds(rng)
			if j == 0 && rng.Intn(2) == 0 {
				a = []credKind{kExact}
			}
			s.Streams = append(s.Streams, h2Stream{T: t, A: a, PA: p, Method: pick(rng, []string{"GET", "GET", "HEAD", "DELETE"})})
		}
		out = append(out, spec{H2: s})
	}
	return out
}
