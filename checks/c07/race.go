package main

// Monitor 6 (forced family): the route a request was credential-checked against must be the route it is
// forwarded to even when the route table changes while the request waits for a work connection.
//
// On a dedicated frps with userConnTimeout = 2 s and scripted owners: the owner of route R1 never
// supplies a work connection, so an accepted request hangs in frps' dial; meanwhile R1 is closed (or
// kept) and another session registers a PROTECTED route R2 that the same host / path / user now
// resolves to. When the wait expires the request must be refused — R2's backend must never see its tag.

import (
	"bufio"
	"bytes"
	"fmt"
	"math/rand"
	"net/http"
	"strconv"
	"time"

	"github.com/fatedier/frp/pkg/msg"

	"verif/h"
)

type raceSpec struct {
	// Variant: how R2 relates to R1:
	//   same-location     R1 closed, R2 registers the same host and location
	//   longer-prefix     R1 = location "/" , R2 = location "/app" (request path /app/x)
	//   user-routed       R1 = no routeByHTTPUser, R2 = routeByHTTPUser of the request's Authorization user
	Variant string `json:"variant"`
	// Kept: R1 stays registered (possible for longer-prefix and user-routed: no conflict with R2).
	Kept bool `json:"r1_kept"`
	// Mirror: R1 is protected too and the request presents R1's exact credentials; R2 has other credentials.
	Mirror bool `json:"mirror"`
	// DelayMs: pause between the owner being asked for a work connection and the table change.
	DelayMs int `json:"delay_ms"`
}

var envC *serverEnv

const raceUserConnTimeout = 2

func setupRaceServer(pa *h.PortAlloc) {
	e := &serverEnv{ID: "C", BindPort: pa.Get(), HTTPPort: pa.Get()}
	srv, err := h.StartServerText(prop, fmt.Sprintf(`
bindAddr = "127.0.0.1"
proxyBindAddr = "127.0.0.1"
bindPort = %d
vhostHTTPPort = %d
auth.token = %s
userConnTimeout = %d
subDomainHost = "subrot.test"
allowPorts = [{start=%d,end=%d}]
`, e.BindPort, e.HTTPPort, tomlStr(token), raceUserConnTimeout, e.BindPort, e.BindPort))
	if err != nil {
		fatal("server C: %v", err)
	}
	e.Srv = srv
	if err := h.WaitTCP(fmt.Sprintf("127.0.0.1:%d", e.HTTPPort), 5*time.Second); err != nil {
		fatal("server C vhost: %v", err)
	}
	envC = e
}

// virtualBackend registers a backend that lives on a scripted owner's work connections.
func virtualBackend(id string, c cred) *backend {
	b := &backend{ID: id, Cred: c, Surface: "vhost-http"}
	backendsMu.Lock()
	backends[id] = b
	backendsMu.Unlock()
	return b
}

// workHTTP plays an HTTP backend on a work connection: logs the request under its tag, answers 200.
func workHTTP(b *backend) func(p *h.Peer, wc *h.WorkConn) {
	return func(p *h.Peer, wc *h.WorkConn) {
		defer wc.Conn.Close()
		_ = wc.Conn.SetDeadline(time.Now().Add(30 * time.Second))
		br := bufio.NewReader(wc.Conn)
		for {
			r, err := http.ReadRequest(br)
			if err != nil {
				return
			}
			tag := tagOf(r)
			rec := seenRec{Backend: b.ID, Method: r.Method, URI: r.RequestURI, Host: r.Host, Proto: r.Proto,
				Auth: r.Header.Values("Authorization"), PAuth: r.Header.Values("Proxy-Authorization"), T: h.Now()}
			seenMu.Lock()
			seenByTag[tag] = append(seenByTag[tag], rec)
			seenTotal++
			seenMu.Unlock()
			body := "backend=" + b.ID + " tag=" + tag + "\n"
			fmt.Fprintf(wc.Conn, "HTTP/1.1 200 OK\r\nX-Verif-Backend: %s\r\nContent-Type: text/plain\r\nContent-Length: %d\r\nConnection: close\r\n\r\n%s", b.ID, len(body), body)
			return
		}
	}
}

func runRace(c *h.Case, s *raceSpec) {
	host := fmt.Sprintf("r%d.race.test", c.Idx)
	port := envC.BindPort
	r1Cred, r2Cred := cred{}, bob
	if s.Mirror {
		r1Cred = alice
	}
	b2 := virtualBackend(fmt.Sprintf("race%d.r2", c.Idx), r2Cred)
	b1 := virtualBackend(fmt.Sprintf("race%d.r1", c.Idx), r1Cred)
	_ = b1
	owner1, err := h.DialPeer(h.PeerOpts{ServerPort: port, TCPMux: true, Token: token, AutoWork: false})
	if err != nil || !owner1.LoggedIn() {
		run.Inconclusive("race family: owner 1 login failed")
		return
	}
	defer owner1.Close()
	owner2, err := h.DialPeer(h.PeerOpts{ServerPort: port, TCPMux: true, Token: token, AutoWork: true, WorkHandler: workHTTP(b2)})
	if err != nil || !owner2.LoggedIn() {
		run.Inconclusive("race family: owner 2 login failed")
		return
	}
	defer owner2.Close()

	r1 := &msg.NewProxy{ProxyName: fmt.Sprintf("race%d.r1", c.Idx), ProxyType: "http", CustomDomains: []string{host}, HTTPUser: r1Cred.User, HTTPPwd: r1Cred.Pass}
	r2 := &msg.NewProxy{ProxyName: fmt.Sprintf("race%d.r2", c.Idx), ProxyType: "http", CustomDomains: []string{host}, HTTPUser: r2Cred.User, HTTPPwd: r2Cred.Pass}
	path := "/"
	// the request's Authorization: R1's credentials (mirror) or nothing / an arbitrary user (R1 unprotected)
	var lines []hdrLine
	if s.Mirror {
		lines = authLines("Authorization", k1(kExact), r1Cred, r2Cred)
	}
	switch s.Variant {
	case "longer-prefix":
		r1.Locations, r2.Locations, path = []string{"/"}, []string{"/app"}, "/app/x"
	case "user-routed":
		if s.Mirror {
			r2.RouteByHTTPUser = r1Cred.User // the request's user is alice: R2 = alice-routed, but protected by bob's credentials
		} else {
			r2.RouteByHTTPUser = r2Cred.User
			lines = authLines("Authorization", k1(kWrongPw), r2Cred, r1Cred) // names bob, wrong password: fine for the open R1
		}
	}
	resp1, err := owner1.NewProxy(r1, 10*time.Second)
	if err != nil || resp1.Error != "" {
		run.Inconclusive("race family: R1 not registered")
		return
	}
	c.Ev("registered", "r1", r1)

	tag := tagFor(c, 0)
	var b bytes.Buffer
	fmt.Fprintf(&b, "GET %s HTTP/1.1\r\nHost: %s\r\n", path, host)
	for _, l := range lines {
		fmt.Fprintf(&b, "%s: %s\r\n", l.Name, l.Value)
	}
	fmt.Fprintf(&b, "X-Verif-Tag: %s\r\nConnection: close\r\n\r\n", tag)
	c.Ev("request", "raw", b.String())
	register(c, tag, lines, func(seenRec, *backend) string {
		return "vhost-http-request-forwarded-to-route-registered-after-its-check"
	}, nil)
	before := owner1.ReqWorkConnSeen.Load()
	done := make(chan rawResp, 1)
	go func() {
		// bounded-progress watchdog: 3 x userConnTimeout + 10 s
		done <- doRaw(fmt.Sprintf("127.0.0.1:%d", envC.HTTPPort), b.Bytes(), "GET", time.Duration(3*raceUserConnTimeout+10)*time.Second)
	}()
	// the request has passed the credential check against R1 and hangs in the dial once frps asks R1's owner
	if !h.Eventually(10*time.Second, func() bool { return owner1.ReqWorkConnSeen.Load() > before }) {
		run.Inconclusive("race family: frps never asked R1's owner for a work connection")
		<-done
		return
	}
	run.Count("race_requests_parked_in_dial", 1)
	time.Sleep(time.Duration(s.DelayMs) * time.Millisecond)
	if !s.Kept {
		_ = owner1.CloseProxy(r1.ProxyName)
		if _, err := owner1.Ping(10 * time.Second); err != nil {
			run.Inconclusive("race family: close barrier missing")
			<-done
			return
		}
		c.Ev("closed", "r1", r1.ProxyName)
	}
	resp2, err := owner2.NewProxy(r2, 10*time.Second)
	if err != nil || resp2.Error != "" {
		c.Ev("r2-refused", "err", fmt.Sprint(err), "resp", resp2)
		run.Inconclusive("race family: R2 not registered")
		<-done
		return
	}
	tReg := h.Now()
	c.Ev("registered", "r2", r2)
	resp := <-done
	tResp := h.Now()
	c.Ev("response", "status", resp.Status, "header", resp.Header, "err", fmt.Sprint(resp.Err), "body", string(resp.Body), "after_r2_ms", (tResp-tReg)/1e6)
	if resp.Err == errTimeout {
		run.Inconclusive("race family: no answer within 3 x userConnTimeout + 10 s")
	}
	if tResp-tReg < int64(200*time.Millisecond) {
		// the dial gave up before (or right when) R2 appeared: the interleaving was not forced
		run.Count("race_table_change_too_late", 1)
	} else {
		run.Count("race_table_changed_while_parked", 1)
	}
	ids := judgeSeen(c, tag)
	if c.Violations() == 0 && resp.Err == nil && resp.Status/100 == 2 {
		c.Violation("vhost-http-request-forwarded-to-route-registered-after-its-check", "request checked against R1 (%v) got status %d from backend %q after the route table changed (variant %s, R1 kept %v)",
			r1Cred, resp.Status, resp.Header.Get("X-Verif-Backend"), s.Variant, s.Kept)
	}
	// positive control: R2 is really serving (otherwise the negative above says nothing)
	tag2 := tagFor(c, 1)
	lines2 := authLines("Authorization", k1(kExact), r2Cred, r1Cred)
	var b2r bytes.Buffer
	fmt.Fprintf(&b2r, "GET %s HTTP/1.1\r\nHost: %s\r\n%s: %s\r\nX-Verif-Tag: %s\r\nConnection: close\r\n\r\n", path, host, lines2[0].Name, lines2[0].Value, tag2)
	if s.Variant == "user-routed" && s.Mirror {
		// R2 is routed by user alice but protected by bob's credentials: not reachable with one Authorization header; skip
		run.Count("race_controls_skipped", 1)
	} else {
		register(c, tag2, lines2, func(seenRec, *backend) string { return "vhost-http-forwarded-without-credentials" }, nil)
		ctl := doRaw(fmt.Sprintf("127.0.0.1:%d", envC.HTTPPort), b2r.Bytes(), "GET", 20*time.Second)
		c.Ev("control", "status", ctl.Status, "backend", ctl.Header.Get("X-Verif-Backend"), "err", fmt.Sprint(ctl.Err))
		judgeSeen(c, tag2)
		if ctl.Status != 200 || ctl.Header.Get("X-Verif-Backend") != b2.ID {
			run.Inconclusive("race family: R2 does not serve its own credentials")
		} else {
			run.Count("race_positive_controls", 1)
		}
	}
	run.Distinct("race|" + s.Variant + "|" + strconv.FormatBool(s.Kept) + "|" + strconv.FormatBool(s.Mirror) + "|" + strconv.Itoa(s.DelayMs))
	if c.Idx%3 == 0 {
		run.Sample(map[string]any{"surface": "vhost-http/route-change-while-dialing", "spec": s, "status": resp.Status, "backends": ids})
	}
}

func genRace(rng *rand.Rand) []spec {
	var out []spec
	type v struct {
		variant string
		kept    bool
	}
	vs := []v{{"same-location", false}, {"longer-prefix", false}, {"longer-prefix", true}, {"user-routed", false}, {"user-routed", true}}
	reps := run.N(2, 12)
	for r := 0; r < reps; r++ {
		for _, x := range vs {
			for _, mirror := range []bool{false, true} {
				out = append(out, spec{Race: &raceSpec{Variant: x.variant, Kept: x.kept, Mirror: mirror, DelayMs: []int{0, 50, 300, 800}[rng.Intn(4)]}})
			}
		}
	}
	return out
}
