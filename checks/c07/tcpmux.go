package main

// Monitor 2: tcpmux (HTTP CONNECT) proxies. After the CONNECT exchange the requester sends a tagged
// HTTP request through the tunnel; a backend that logs the tag was reached.

import (
	"bufio"
	"bytes"
	"fmt"
	"io"
	"math/rand"
	"net"
	"net/http"
	"time"

	"verif/h"
)

type muxSpec struct {
	T         target     `json:"target"`
	Method    string     `json:"method"` // CONNECT | connect | GET
	Version   string     `json:"version"`
	HostStyle string     `json:"host_style"`
	HostHdr   string     `json:"host_header"` // same | decoy | absent
	A         []credKind `json:"authorization"`
	PA        []credKind `json:"proxy_authorization"`
	AName     string     `json:"authorization_name"`
	PAName    string     `json:"proxy_authorization_name"`
}

func (s *muxSpec) lines() []hdrLine {
	return append(authLines(s.AName, s.A, s.T.Focus, s.T.Other), authLines(s.PAName, s.PA, s.T.Focus, s.T.Other)...)
}

// tunnelResult is what the requester observed on a CONNECT-style exchange.
type tunnelResult struct {
	Statuses           []int  // status codes of the response heads read, in order
	Backend            string // X-Verif-Backend of the tagged request's answer ("" = none)
	Closed             bool   // the server closed the connection (EOF / reset)
	TimedOut           bool
	ProxyAuthChallenge bool
}

// driveTunnel writes head (the CONNECT request), then plays the requester: after a 2xx answer it sends
// the tagged request through the tunnel and keeps reading until the backend answers, the server closes,
// or the watchdog fires.
func driveTunnel(c *h.Case, conn net.Conn, br *bufio.Reader, head []byte, tag string, watchdog time.Duration) tunnelResult {
	var res tunnelResult
	_ = conn.SetDeadline(time.Now().Add(watchdog))
	if _, err := conn.Write(head); err != nil {
		res.Closed = true
		return res
	}
	sentTagged := false
	for len(res.Statuses) < 4 {
		resp, err := http.ReadResponse(br, &http.Request{Method: "CONNECT"})
		if err != nil {
			if isTimeout(err) {
				res.TimedOut = true
			} else {
				res.Closed = true
			}
			return res
		}
		res.Statuses = append(res.Statuses, resp.StatusCode)
		if hasBasicChallenge(resp.Header, "Proxy-Authenticate") {
			res.ProxyAuthChallenge = true
		}
		if bk := resp.Header.Get("X-Verif-Backend"); bk != "" {
			res.Backend = bk
			if sentTagged { // the answer to the tagged request sent through the tunnel
				if resp.ContentLength > 0 {
					_, _ = io.CopyN(io.Discard, br, resp.ContentLength)
				}
				return res
			}
		}
		if resp.StatusCode/100 == 2 && !sentTagged {
			if resp.ContentLength > 0 {
				_, _ = io.CopyN(io.Discard, br, resp.ContentLength)
			}
			req := fmt.Sprintf("GET /through-tunnel HTTP/1.1\r\nHost: tunnel.test\r\nX-Verif-Tag: %s\r\nX-Verif-Get: 1\r\n\r\n", tag)
			if _, err := conn.Write([]byte(req)); err != nil {
				res.Closed = true
				return res
			}
			sentTagged = true
			continue
		}
		if resp.StatusCode/100 != 2 {
			// refusal: drain whatever body there is, then wait for the close
			if resp.ContentLength > 0 {
				_, _ = io.CopyN(io.Discard, br, resp.ContentLength)
			}
		}
	}
	return res
}

func runMux(c *h.Case, s *muxSpec) {
	e := env(s.T.Server)
	lines := s.lines()
	host := styleHost(s.T.Host, s.HostStyle, e.MuxPort)
	var b bytes.Buffer
	build := func(tag string) []byte {
		b.Reset()
		switch s.Method {
		case "GET":
			fmt.Fprintf(&b, "GET http://%s/ HTTP/%s\r\n", host, s.Version)
		default:
			authority := host
			if s.HostStyle != "port" {
				authority = host + ":443"
			}
			fmt.Fprintf(&b, "%s %s HTTP/%s\r\n", s.Method, authority, s.Version)
		}
		switch s.HostHdr {
		case "same":
			fmt.Fprintf(&b, "Host: %s\r\n", host)
		case "decoy":
			b.WriteString("Host: open.mw.test\r\n")
		}
		for _, l := range lines {
			fmt.Fprintf(&b, "%s: %s\r\n", l.Name, l.Value)
		}
		fmt.Fprintf(&b, "X-Verif-Tag: %s\r\n\r\n", tag)
		return b.Bytes()
	}
	exchange := func(sub int) (tunnelResult, []string, bool) {
		tag := tagFor(c, sub)
		raw := build(tag)
		c.Ev("request", "raw", string(raw))
		register(c, tag, lines, func(rec seenRec, bk *backend) string {
			if bk.Cred.User == "" {
				return "tcpmux-password-only-not-enforced"
			}
			return "tcpmux-forwarded-without-credentials"
		}, nil)
		conn, err := net.DialTimeout("tcp", fmt.Sprintf("127.0.0.1:%d", e.MuxPort), 5*time.Second)
		if err != nil {
			return tunnelResult{}, nil, false
		}
		defer conn.Close()
		res := driveTunnel(c, conn, bufio.NewReader(conn), raw, tag, 15*time.Second)
		c.Ev("result", "res", res)
		run.Count("tcpmux_connects", 1)
		return res, judgeSeen(c, tag), true
	}
	res, ids, dialed := exchange(0)
	if !dialed {
		run.Inconclusive("tcpmux: dial failed")
		return
	}
	has := carries(lines, s.T.Focus)
	if s.T.Simple && !has && c.Violations() == 0 {
		if res.Backend != "" {
			c.Violation("tcpmux-forwarded-without-credentials", "tcpmux CONNECT to %s without the credentials %v was answered by backend %s", s.T.Host, s.T.Focus, res.Backend)
		} else if res.TimedOut {
			c.Violation("tcpmux-refused-connection-not-closed", "tcpmux CONNECT to %s without the credentials %v: responses %v, then the connection stayed open for 15 s", s.T.Host, s.T.Focus, res.Statuses)
		}
		run.Count("tcpmux_refusals_checked", 1)
	}
	if s.T.Control != "" && s.Method == "CONNECT" && s.Version == "1.1" && s.HostStyle == "plain" && s.HostHdr == "same" && canonicalProxyAuth(lines, s.T.Focus) {
		good := func() bool {
			if res.Backend != s.T.Control {
				return false
			}
			for _, id := range ids {
				if id == s.T.Control {
					return true
				}
			}
			return false
		}
		refusedAuth := func() bool {
			for _, st := range res.Statuses {
				if st == 407 {
					return true
				}
			}
			return false
		}
		for try := 1; try <= 2 && !good() && !refusedAuth(); try++ {
			time.Sleep(time.Duration(try) * 500 * time.Millisecond)
			run.Count("positive_control_retries", 1)
			res, ids, _ = exchange(try)
		}
		if !good() {
			c.Violation("tcpmux-exact-credentials-refused", "tcpmux CONNECT to %s with the exact credentials %v in Proxy-Authorization: responses %v, tunnel answered by %q, backends that saw it %v (want %s)",
				s.T.Host, s.T.Focus, res.Statuses, res.Backend, ids, s.T.Control)
		}
		run.Count("tcpmux_positive_controls", 1)
	}
	if res.TimedOut && (has || !s.T.Simple) {
		run.Count("tcpmux_open_after_15s", 1)
	}
	run.Distinct(fmt.Sprintf("tcpmux|%s|%s|%s|%s|%s|%s|A=%s/%s|PA=%s/%s", s.T.Server, s.T.Table, s.Method, s.Version, s.HostStyle, s.HostHdr, kindsSig(s.A), s.AName, kindsSig(s.PA), s.PAName))
	if c.Idx%1999 == 0 {
		run.Sample(map[string]any{"surface": "tcpmux", "request": string(build("tag")), "result": res, "backends": ids})
	}
}

func genMux(rng *rand.Rand) []spec {
	var out []spec
	kinds := coreKinds
	if run.Thorough() {
		kinds = allKinds()
	}
	for _, t := range muxTargets {
		for _, p := range kinds {
			for _, a := range []credKind{kAbsent, kExact, kWrongPw} {
				out = append(out, spec{Mux: &muxSpec{T: t, Method: "CONNECT", Version: "1.1", HostStyle: "plain", HostHdr: "same",
					A: []credKind{a}, PA: []credKind{p}, AName: "Authorization", PAName: "Proxy-Authorization"}})
			}
		}
	}
	n := run.N(800, 30000)
	for i := 0; i < n; i++ {
		out = append(out, spec{Mux: &muxSpec{T: pick(rng, muxTargets), Method: pick(rng, []string{"CONNECT", "CONNECT", "CONNECT", "connect", "GET"}),
			Version: pick(rng, []string{"1.1", "1.1", "1.0"}), HostStyle: pick(rng, []string{"plain", "plain", "upper", "port", "dot"}),
			HostHdr: pick(rng, []string{"same", "same", "decoy", "absent"}), A: randKinds(rng), PA: randKinds(rng), AName: pick(rng, aNames), PAName: pick(rng, paNames)}})
	}
	return out
}
