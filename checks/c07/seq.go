package main

// Monitor 5: request SEQUENCES on one connection and split / delayed first bytes.
//
// Credential checks that live in a first-bytes peek (http_proxy plugin's Handle) or that are made once
// per connection would let a later request of a keep-alive connection, a pipelined request, or a
// request whose first bytes arrive in two TCP segments through. The oracle is unchanged and
// per request: a backend saw the tag of request i  =>  request i itself carried the exact credentials
// (credentials on an earlier request of the same connection do not count).

import (
	"bufio"
	"bytes"
	"fmt"
	"io"
	"math/rand"
	"net"
	"net/http"
	"strings"
	"time"

	"verif/h"
)

type seqStep struct {
	Kind string     `json:"kind"`             // get | connect
	T    *target    `json:"target,omitempty"` // vhost / tcpmux: where this request is aimed
	Path string     `json:"path,omitempty"`   // static_file / web
	A    []credKind `json:"authorization"`
	PA   []credKind `json:"proxy_authorization"`
}

type seqSpec struct {
	Surface string    `json:"surface"` // http_proxy | vhost | tcpmux | static_file | web
	Plugin  string    `json:"plugin,omitempty"`
	API     string    `json:"api,omitempty"`
	Steps   []seqStep `json:"steps"`
	Mode    string    `json:"mode"` // serial | pipelined | split
	SplitAt int       `json:"split_at,omitempty"`
	PauseMs int       `json:"pause_ms,omitempty"`
}

type seqResult struct {
	Sent          bool        `json:"sent"`
	Status        int         `json:"status"`
	Header        http.Header `json:"header,omitempty"`
	Body          string      `json:"body,omitempty"`
	Err           string      `json:"err,omitempty"`
	TunnelStatus  int         `json:"tunnel_status,omitempty"`
	TunnelBackend string      `json:"tunnel_backend,omitempty"`
	TimedOut      bool        `json:"timed_out,omitempty"`
}

type seqReq struct {
	raw     []byte
	method  string
	connect bool
	tunnel  []byte // sent through the tunnel after a 2xx answer to a CONNECT
}

func tunnelGet(tag string) []byte {
	return []byte(fmt.Sprintf("GET /through-tunnel HTTP/1.1\r\nHost: tunnel.test\r\nX-Verif-Tag: %s\r\nConnection: close\r\n\r\n", tag))
}

// driveSeq plays the requests on one connection.
func driveSeq(c *h.Case, addr string, reqs []seqReq, mode string, splitAt int, pause time.Duration) ([]seqResult, bool) {
	out := make([]seqResult, len(reqs))
	conn, err := net.DialTimeout("tcp", addr, 5*time.Second)
	if err != nil {
		return out, false
	}
	defer conn.Close()
	br := bufio.NewReader(conn)
	write := func(b []byte, split bool) error {
		_ = conn.SetWriteDeadline(time.Now().Add(10 * time.Second))
		if split && splitAt > 0 && splitAt < len(b) {
			if _, err := conn.Write(b[:splitAt]); err != nil {
				return err
			}
			time.Sleep(pause)
			_, err := conn.Write(b[splitAt:])
			return err
		}
		_, err := conn.Write(b)
		return err
	}
	// readOne reads the answer to request i; it returns false when the connection is finished.
	readOne := func(i int, tunnelAlreadySent bool) bool {
		r := &out[i]
		_ = conn.SetReadDeadline(time.Now().Add(15 * time.Second))
		resp, err := http.ReadResponse(br, &http.Request{Method: reqs[i].method})
		if err != nil {
			r.Err = err.Error()
			r.TimedOut = isTimeout(err)
			return false
		}
		r.Status, r.Header = resp.StatusCode, resp.Header
		if reqs[i].connect && resp.StatusCode/100 == 2 {
			if bk := resp.Header.Get("X-Verif-Backend"); bk != "" {
				r.TunnelBackend = bk // a passed-through CONNECT answered by the backend itself
				if resp.ContentLength > 0 {
					_, _ = io.CopyN(io.Discard, br, resp.ContentLength)
				}
			}
			if reqs[i].tunnel == nil {
				return false
			}
			if !tunnelAlreadySent {
				if err := write(reqs[i].tunnel, false); err != nil {
					return false
				}
			}
			_ = conn.SetReadDeadline(time.Now().Add(5 * time.Second))
			tr, err := http.ReadResponse(br, &http.Request{Method: "GET"})
			if err != nil {
				return false
			}
			r.TunnelStatus = tr.StatusCode
			if bk := tr.Header.Get("X-Verif-Backend"); bk != "" {
				r.TunnelBackend = bk
			}
			return false // the connection is a tunnel now (or was refused after the 200)
		}
		body, _ := io.ReadAll(io.LimitReader(resp.Body, 1<<20))
		resp.Body.Close()
		r.Body = string(body)
		return !resp.Close
	}
	switch mode {
	case "pipelined":
		var all []byte
		for i, q := range reqs {
			all = append(all, q.raw...)
			out[i].Sent = true
			if q.connect && q.tunnel != nil {
				all = append(all, q.tunnel...)
				break
			}
		}
		if err := write(all, false); err != nil {
			return out, true
		}
		for i := range reqs {
			if !out[i].Sent || !readOne(i, true) {
				break
			}
		}
	default:
		for i, q := range reqs {
			out[i].Sent = true
			if err := write(q.raw, mode == "split" && i == 0); err != nil {
				out[i].Err = err.Error()
				break
			}
			if !readOne(i, false) {
				break
			}
		}
	}
	return out, true
}

func seqBase(surface string, w *webAPI) string {
	switch surface {
	case "http_proxy":
		return "plugin-http_proxy"
	case "vhost":
		return "vhost-http"
	case "tcpmux":
		return "tcpmux"
	case "static_file":
		return "plugin-static_file"
	case "web":
		if w != nil && w.Kind == "frpc" {
			return "frpc-admin"
		}
		return "frps-dashboard"
	}
	return surface
}

// seqKeyFor names the finding for request i of the sequence.
func seqKeyFor(s *seqSpec, i int, w *webAPI) string {
	base := seqBase(s.Surface, w)
	later := i > 0
	split := s.Mode == "split" && i == 0
	if s.Surface == "http_proxy" && s.Steps[i].Kind == "connect" {
		switch {
		case later:
			return "plugin-http_proxy-connect-after-first-request-unchecked"
		case split:
			return "plugin-http_proxy-connect-split-first-bytes-unchecked"
		}
	}
	switch {
	case later:
		return base + "-later-request-on-connection-unchecked"
	case split:
		return base + "-split-first-bytes-unchecked"
	}
	switch s.Surface {
	case "http_proxy":
		return "plugin-http_proxy-relayed-without-credentials"
	case "static_file", "web":
		return base + "-served-without-credentials"
	}
	return base + "-forwarded-without-credentials"
}

func runSeq(c *h.Case, s *seqSpec) {
	var (
		addr   string
		focus  = make([]cred, len(s.Steps))
		lines  = make([][]hdrLine, len(s.Steps))
		reqs   = make([]seqReq, len(s.Steps))
		tags   = make([]string, len(s.Steps))
		p      *pluginInst
		w      *webAPI
		served func(r seqResult) bool // surfaces without a backend: was content delivered?
	)
	switch s.Surface {
	case "http_proxy", "static_file":
		p = pluginByID(s.Plugin)
		addr = fmt.Sprintf("127.0.0.1:%d", p.Port)
	case "web":
		w = apiByID(s.API)
		addr = w.Addr
	case "vhost":
		addr = fmt.Sprintf("127.0.0.1:%d", env(s.Steps[0].T.Server).HTTPPort)
	case "tcpmux":
		addr = fmt.Sprintf("127.0.0.1:%d", env(s.Steps[0].T.Server).MuxPort)
	}
	for i, st := range s.Steps {
		tags[i] = tagFor(c, i)
		var other cred
		switch {
		case p != nil:
			focus[i], other = p.Cred, otherOf(p.Cred)
		case w != nil:
			focus[i], other = w.Cred, otherOf(w.Cred)
		default:
			focus[i], other = st.T.Focus, st.T.Other
		}
		lines[i] = append(authLines("Authorization", st.A, focus[i], other), authLines("Proxy-Authorization", st.PA, focus[i], other)...)
		var b bytes.Buffer
		q := seqReq{method: "GET"}
		switch s.Surface {
		case "http_proxy":
			taddr := fmt.Sprintf("127.0.0.1:%d", p.Target.Port)
			if st.Kind == "connect" {
				fmt.Fprintf(&b, "CONNECT %s HTTP/1.1\r\nHost: %s\r\n", taddr, taddr)
			} else {
				fmt.Fprintf(&b, "GET http://%s/seq HTTP/1.1\r\nHost: %s\r\n", taddr, taddr)
			}
		case "vhost":
			if st.Kind == "connect" {
				fmt.Fprintf(&b, "CONNECT %s:80 HTTP/1.1\r\nHost: %s:80\r\n", st.T.Host, st.T.Host)
			} else {
				fmt.Fprintf(&b, "GET %s HTTP/1.1\r\nHost: %s\r\n", st.T.Path, st.T.Host)
			}
		case "tcpmux":
			if st.Kind == "connect" {
				fmt.Fprintf(&b, "CONNECT %s:443 HTTP/1.1\r\nHost: %s\r\n", st.T.Host, st.T.Host)
			} else {
				fmt.Fprintf(&b, "GET http://%s/ HTTP/1.1\r\nHost: %s\r\n", st.T.Host, st.T.Host)
			}
		case "static_file":
			fmt.Fprintf(&b, "GET %s HTTP/1.1\r\nHost: files.test\r\n", st.Path)
		case "web":
			fmt.Fprintf(&b, "GET %s HTTP/1.1\r\nHost: %s\r\n", st.Path, w.Addr)
		}
		for _, l := range lines[i] {
			fmt.Fprintf(&b, "%s: %s\r\n", l.Name, l.Value)
		}
		fmt.Fprintf(&b, "X-Verif-Tag: %s\r\n\r\n", tags[i])
		q.raw = b.Bytes()
		if st.Kind == "connect" {
			q.method, q.connect, q.tunnel = "CONNECT", true, tunnelGet(tags[i])
		}
		reqs[i] = q
		i := i
		urlHost := st.Kind == "connect"
		keyFn := func(rec seenRec, bk *backend) string { return seqKeyFor(s, i, w) }
		if s.Surface == "vhost" && i == 0 && s.Mode == "serial" {
			keyFn = vhostKey(urlHost, false, lines[i])
		}
		if s.Surface == "tcpmux" && i == 0 && s.Mode == "serial" {
			keyFn = func(rec seenRec, bk *backend) string {
				if bk.Cred.User == "" {
					return "tcpmux-password-only-not-enforced"
				}
				return "tcpmux-forwarded-without-credentials"
			}
		}
		register(c, tags[i], lines[i], keyFn, nil)
	}
	switch s.Surface {
	case "static_file":
		served = func(r seqResult) bool {
			return r.Status >= 200 && r.Status < 300 || strings.Contains(r.Body, staticMarker) || strings.Contains(r.Body, `href="secret.txt"`)
		}
	case "web":
		served = func(r seqResult) bool {
			return r.Status >= 200 && r.Status < 300 || strings.Contains(r.Body, assetMarker) || strings.Contains(r.Body, `"version"`)
		}
	}
	var rawAll []string
	for _, q := range reqs {
		rawAll = append(rawAll, string(q.raw))
	}
	c.Ev("sequence", "mode", s.Mode, "split_at", s.SplitAt, "requests", rawAll)
	res, dialed := driveSeq(c, addr, reqs, s.Mode, s.SplitAt, time.Duration(s.PauseMs)*time.Millisecond)
	if !dialed {
		run.Inconclusive("sequence: dial failed")
		return
	}
	c.Ev("results", "res", res)
	run.Count("sequence_connections", 1)
	var sig []string
	for i, st := range s.Steps {
		r := res[i]
		if r.Sent {
			run.Count("sequence_requests_sent", 1)
		}
		if r.Status != 0 {
			run.Count("sequence_requests_answered", 1)
		}
		if i > 0 && r.Status != 0 {
			run.Count("sequence_later_requests_answered", 1)
		}
		if r.TimedOut {
			run.Inconclusive("sequence: no answer within 15 s")
		}
		ids := judgeSeen(c, tags[i])
		has := carries(lines[i], focus[i])
		if st.Path == "/healthz" {
			has = true // registered outside the authentication on purpose: not judged
		}
		if has && len(ids) > 0 {
			run.Count("sequence_requests_with_exact_credentials_served", 1)
		}
		if !has && c.Violations() == 0 {
			switch {
			case r.TunnelBackend != "" && backends[r.TunnelBackend] != nil && backends[r.TunnelBackend].Cred.protected() && !carries(lines[i], backends[r.TunnelBackend].Cred):
				c.Violation(seqKeyFor(s, i, w), "%s: request #%d (%s, mode %s, split at %d) without the credentials %v opened a tunnel answered by protected backend %s; statuses %d/%d; the connection's requests: %q",
					seqBase(s.Surface, w), i, st.Kind, s.Mode, s.SplitAt, focus[i], r.TunnelBackend, r.Status, r.TunnelStatus, rawAll)
			case served != nil && r.Status != 0 && served(r):
				c.Violation(seqKeyFor(s, i, w), "%s: request #%d (mode %s, split at %d) without the credentials %v was served: status %d body %.120q; the connection's requests: %q",
					seqBase(s.Surface, w), i, s.Mode, s.SplitAt, focus[i], r.Status, r.Body, rawAll)
			case s.Surface == "http_proxy" && r.Status != 0 && r.Status != 407 && r.Status != 400:
				c.Violation("plugin-http_proxy-no-refusal", "http_proxy plugin %s: request #%d (%s, mode %s, split at %d) without the credentials %v answered with status %d (want 407); the connection's requests: %q",
					p.ID, i, st.Kind, s.Mode, s.SplitAt, focus[i], r.Status, rawAll)
			case (s.Surface == "static_file" || s.Surface == "web") && r.Status != 0 && r.Status != 401 && r.Status != 400:
				c.Violation(seqBase(s.Surface, w)+"-no-challenge", "%s: request #%d (mode %s, split at %d) without the credentials %v answered with status %d (want a 401 challenge)",
					seqBase(s.Surface, w), i, s.Mode, s.SplitAt, focus[i], r.Status)
			case s.Surface == "vhost" && st.T.Simple && st.Kind == "get" && r.Status != 0 && r.Status != 401 && r.Status != 400:
				c.Violation("vhost-http-no-challenge", "vhost http: request #%d (mode %s, split at %d) without the credentials %v to %s%s answered with status %d (want a 401 challenge)",
					i, s.Mode, s.SplitAt, focus[i], st.T.Host, st.T.Path, r.Status)
			}
			if r.Status != 0 {
				run.Count("sequence_refusals_checked", 1)
			}
		}
		tbl := st.Path
		if st.T != nil {
			tbl = st.T.Server + st.T.Table
		}
		sig = append(sig, fmt.Sprintf("%s:%s:%s:%s", st.Kind, tbl, kindsSig(st.A), kindsSig(st.PA)))
	}
	run.Distinct(fmt.Sprintf("seq|%s|%s%s|%s|%d|%s", s.Surface, s.Plugin, s.API, s.Mode, s.SplitAt, strings.Join(sig, ",")))
	if c.Idx%1789 == 0 {
		run.Sample(map[string]any{"surface": "sequence/" + s.Surface, "mode": s.Mode, "split_at": s.SplitAt, "requests": rawAll, "results": res})
	}
}

// ---------------------------------------------------------------------------------------------
// generation

func k1(k credKind) []credKind { return []credKind{k} }

var none = []credKind{kAbsent}

func genSeq(rng *rand.Rand) []spec {
	var out []spec
	add := func(s *seqSpec) { out = append(out, spec{Seq: s}) }
	kinds := []credKind{kAbsent, kWrongPw, kOtherExact, kEmptyPw, kExact, kUserCase, kPwPrefix}
	splitKinds := []credKind{kAbsent, kWrongPw, kExact}
	pause := 150
	maxPos := 2
	if run.Thorough() {
		kinds = allKinds()
		splitKinds = []credKind{kAbsent, kWrongPw, kExact, kOtherExact, kEmptyPw, kSchemeLower}
		maxPos = 3
	}
	// ---- http_proxy plugin: credentials travel in Proxy-Authorization
	for _, p := range pluginsOf("http_proxy") {
		get := func(pa credKind) seqStep { return seqStep{Kind: "get", A: none, PA: k1(pa)} }
		con := func(pa credKind) seqStep { return seqStep{Kind: "connect", A: none, PA: k1(pa)} }
		preds := [][]seqStep{
			{get(kAbsent)},               // answered 407, connection stays open
			{get(kExact)},                // authenticated predecessor
			{get(kWrongPw), get(kExact)}, // refused, then authenticated
			{get(kExact), get(kAbsent)},  // authenticated, then refused
			{get(kAbsent), get(kAbsent)}, // two refusals
			{get(kExact), get(kExact), get(kAbsent)},
		}
		for pi, pr := range preds {
			if len(pr) > maxPos {
				continue
			}
			for _, k := range kinds {
				for _, last := range []seqStep{con(k), get(k)} {
					add(&seqSpec{Surface: "http_proxy", Plugin: p.ID, Mode: "serial", Steps: append(append([]seqStep{}, pr...), last)})
					if pi < 2 {
						add(&seqSpec{Surface: "http_proxy", Plugin: p.ID, Mode: "pipelined", Steps: append(append([]seqStep{}, pr...), last)})
					}
				}
			}
		}
		for at := 1; at <= 16; at++ {
			for _, k := range splitKinds {
				add(&seqSpec{Surface: "http_proxy", Plugin: p.ID, Mode: "split", SplitAt: at, PauseMs: pause, Steps: []seqStep{con(k)}})
				add(&seqSpec{Surface: "http_proxy", Plugin: p.ID, Mode: "split", SplitAt: at, PauseMs: pause, Steps: []seqStep{get(k), con(kAbsent)}})
			}
		}
	}

	// ---- vhost http: every request of a keep-alive connection is routed and checked on its own
	open := &target{Table: "t0", Server: "A", Host: "open.test", Path: "/", Focus: alice, Other: mallory}
	var prot []*target
	for i := range httpTargets {
		t := &httpTargets[i]
		if t.Control != "" && t.Server == "A" {
			prot = append(prot, t)
		}
	}
	for ti, t := range prot {
		g := func(tt *target, a credKind) seqStep { return seqStep{Kind: "get", T: tt, A: k1(a), PA: none} }
		cn := func(tt *target, a, pa credKind) seqStep { return seqStep{Kind: "connect", T: tt, A: k1(a), PA: k1(pa)} }
		for _, k := range kinds {
			add(&seqSpec{Surface: "vhost", Mode: "serial", Steps: []seqStep{g(t, kExact), g(t, k)}})
			add(&seqSpec{Surface: "vhost", Mode: "serial", Steps: []seqStep{g(t, kAbsent), g(t, k), g(t, kExact), g(t, k)}})
			add(&seqSpec{Surface: "vhost", Mode: "serial", Steps: []seqStep{g(open, kAbsent), g(t, k)}})
			add(&seqSpec{Surface: "vhost", Mode: "serial", Steps: []seqStep{g(t, kExact), cn(t, k, kAbsent)}})
			add(&seqSpec{Surface: "vhost", Mode: "serial", Steps: []seqStep{g(t, kExact), cn(t, kAbsent, k)}})
			add(&seqSpec{Surface: "vhost", Mode: "pipelined", Steps: []seqStep{g(t, kExact), g(t, k), g(open, kAbsent), g(t, k)}})
			// another protected host on the same connection
			o := prot[(ti+1)%len(prot)]
			add(&seqSpec{Surface: "vhost", Mode: "serial", Steps: []seqStep{g(o, kExact), g(t, k)}})
		}
		if ti < 4 || run.Thorough() {
			for at := 1; at <= 16; at++ {
				for _, k := range splitKinds {
					add(&seqSpec{Surface: "vhost", Mode: "split", SplitAt: at, PauseMs: pause, Steps: []seqStep{g(t, k)}})
					add(&seqSpec{Surface: "vhost", Mode: "split", SplitAt: at, PauseMs: pause, Steps: []seqStep{cn(t, k, kAbsent)}})
				}
			}
		}
	}

	// ---- tcpmux: the CONNECT is the only request the muxer sees; split first bytes, non-CONNECT first
	for i := range muxTargets {
		t := &muxTargets[i]
		if t.Control == "" {
			continue
		}
		cn := func(pa credKind) seqStep { return seqStep{Kind: "connect", T: t, A: none, PA: k1(pa)} }
		gt := func(pa credKind) seqStep { return seqStep{Kind: "get", T: t, A: none, PA: k1(pa)} }
		for _, k := range kinds {
			add(&seqSpec{Surface: "tcpmux", Mode: "pipelined", Steps: []seqStep{cn(k)}})
			add(&seqSpec{Surface: "tcpmux", Mode: "pipelined", Steps: []seqStep{gt(kExact), cn(k)}})
			add(&seqSpec{Surface: "tcpmux", Mode: "serial", Steps: []seqStep{gt(kExact), cn(k)}})
		}
		if t.Table == "m1" || t.Table == "m2" || t.Table == "m3" || run.Thorough() {
			for at := 1; at <= 16; at++ {
				for _, k := range splitKinds {
					add(&seqSpec{Surface: "tcpmux", Mode: "split", SplitAt: at, PauseMs: pause, Steps: []seqStep{cn(k)}})
				}
			}
		}
	}

	// ---- static_file plugin and the web servers: net/http servers, checked per request
	for _, p := range pluginsOf("static_file") {
		path := staticPaths(p)[0].p
		g := func(a credKind) seqStep { return seqStep{Kind: "get", Path: path, A: k1(a), PA: none} }
		for _, k := range kinds {
			add(&seqSpec{Surface: "static_file", Plugin: p.ID, Mode: "serial", Steps: []seqStep{g(kExact), g(k)}})
			add(&seqSpec{Surface: "static_file", Plugin: p.ID, Mode: "serial", Steps: []seqStep{g(kAbsent), g(k), g(kExact), g(k)}})
			add(&seqSpec{Surface: "static_file", Plugin: p.ID, Mode: "pipelined", Steps: []seqStep{g(kExact), g(k), g(k)}})
		}
		for at := 1; at <= 16; at += 3 {
			for _, k := range splitKinds {
				add(&seqSpec{Surface: "static_file", Plugin: p.ID, Mode: "split", SplitAt: at, PauseMs: pause, Steps: []seqStep{g(k)}})
			}
		}
	}
	for _, w := range webAPIs {
		path := "/api/serverinfo"
		if w.Kind == "frpc" {
			path = "/api/status"
		}
		g := func(pth string, a credKind) seqStep { return seqStep{Kind: "get", Path: pth, A: k1(a), PA: none} }
		for _, k := range kinds {
			add(&seqSpec{Surface: "web", API: w.ID, Mode: "serial", Steps: []seqStep{g(path, kExact), g(path, k)}})
			add(&seqSpec{Surface: "web", API: w.ID, Mode: "serial", Steps: []seqStep{g("/healthz", kAbsent), g(path, k), g("/static/index.html", k)}})
			add(&seqSpec{Surface: "web", API: w.ID, Mode: "pipelined", Steps: []seqStep{g(path, kExact), g(path, k), g("/healthz", kAbsent), g(path, k)}})
		}
		for at := 1; at <= 16; at += 5 {
			add(&seqSpec{Surface: "web", API: w.ID, Mode: "split", SplitAt: at, PauseMs: pause, Steps: []seqStep{g(path, kAbsent)}})
		}
	}

	// ---- sampled: longer random sequences (thorough: more)
	n := run.N(300, 6000)
	for i := 0; i < n; i++ {
		mode := pick(rng, []string{"serial", "serial", "pipelined", "split"})
		s := &seqSpec{Mode: mode}
		if mode == "split" {
			s.SplitAt, s.PauseMs = 1+rng.Intn(16), pick(rng, []int{60, 150, 300})
		}
		ln := 2 + rng.Intn(3)
		rk := func() []credKind { return k1(credKind(rng.Intn(int(nCredKinds)))) }
		switch rng.Intn(3) {
		case 0:
			s.Surface, s.Plugin = "http_proxy", pick(rng, pluginsOf("http_proxy")).ID
			for j := 0; j < ln; j++ {
				st := seqStep{Kind: pick(rng, []string{"get", "get", "connect"}), A: none, PA: rk()}
				if rng.Intn(3) == 0 {
					st.PA = pick(rng, [][]credKind{none, k1(kExact)})
				}
				if rng.Intn(4) == 0 {
					st.A = rk()
				}
				s.Steps = append(s.Steps, st)
			}
		case 1:
			s.Surface = "vhost"
			for j := 0; j < ln; j++ {
				t := pick(rng, prot)
				if rng.Intn(5) == 0 {
					t = open
				}
				st := seqStep{Kind: pick(rng, []string{"get", "get", "get", "connect"}), T: t, A: rk(), PA: none}
				if rng.Intn(3) == 0 {
					st.A = pick(rng, [][]credKind{none, k1(kExact)})
				}
				if st.Kind == "connect" && rng.Intn(2) == 0 {
					st.PA = rk()
				}
				s.Steps = append(s.Steps, st)
			}
		default:
			s.Surface, s.Plugin = "static_file", pick(rng, pluginsOf("static_file")).ID
			for j := 0; j < ln; j++ {
				sp := pick(rng, staticPaths(pluginByID(s.Plugin)))
				for !sp.exists {
					sp = pick(rng, staticPaths(pluginByID(s.Plugin)))
				}
				st := seqStep{Kind: "get", Path: sp.p, A: rk(), PA: none}
				if rng.Intn(3) == 0 {
					st.A = pick(rng, [][]credKind{none, k1(kExact)})
				}
				s.Steps = append(s.Steps, st)
			}
		}
		add(s)
	}
	return out
}
