package main

// Environment of the C07 check: real frps / frpc services in this process, tag-indexed HTTP
// backends, the route tables (protected / unprotected / user-routed proxies on shared hosts),
// the tcpmux tables, the plugin proxies and the web servers (frps dashboard, frpc admin).

import (
	"fmt"
	"io"
	"net"
	"net/http"
	"os"
	"path/filepath"
	"strconv"
	"strings"
	"sync"
	"time"

	"verif/h"
)

const token = "c07-token"

// cred is a configured (user, password) pair; the zero value means "not protected".
type cred struct {
	User string `json:"user"`
	Pass string `json:"pass"`
}

func (c cred) protected() bool { return c.User != "" || c.Pass != "" }
func (c cred) String() string  { return fmt.Sprintf("%q:%q", c.User, c.Pass) }

var (
	alice   = cred{"alice", "Pw-Alice1"}
	bob     = cred{"bob", "Pw-Bob22"}
	alice2  = cred{"alice", "Pw-Other6"}   // same user, another password (group member)
	mallory = cred{"mallory", "Pw-Mal333"} // configured nowhere
	pwOnly  = cred{"", "Only-Pw4"}
	usrOnly = cred{"carol", ""}
	admin   = cred{"admin", "Adm-Pw55"}
)

// ---------------------------------------------------------------------------------------------
// backends: one per protected resource; every request seen is indexed by its tag

type seenRec struct {
	Backend string      `json:"backend"`
	Method  string      `json:"method"`
	URI     string      `json:"uri"`
	Host    string      `json:"host"`
	Proto   string      `json:"proto"`
	Auth    []string    `json:"authorization,omitempty"`
	PAuth   []string    `json:"proxy_authorization,omitempty"`
	T       int64       `json:"t_ns"`
	hdr     http.Header `json:"-"`
}

type backend struct {
	ID   string
	Port int
	Cred cred // credentials that protect the way to this backend (zero: unprotected)
	// Surface names the mechanism in front of the backend (for violation keys).
	Surface string
	srv     *http.Server
}

var (
	backends   = map[string]*backend{}
	backendsMu sync.Mutex
	seenMu     sync.Mutex
	seenByTag  = map[string][]seenRec{}
	seenTotal  int64
)

func tagOf(r *http.Request) string {
	if t := r.Header.Get("X-Verif-Tag"); t != "" {
		return t
	}
	return r.URL.Query().Get("tag")
}

func (b *backend) serve(w http.ResponseWriter, r *http.Request) {
	_, _ = io.Copy(io.Discard, r.Body)
	tag := tagOf(r)
	rec := seenRec{Backend: b.ID, Method: r.Method, URI: r.RequestURI, Host: r.Host, Proto: r.Proto,
		Auth: r.Header.Values("Authorization"), PAuth: r.Header.Values("Proxy-Authorization"), T: h.Now()}
	seenMu.Lock()
	seenByTag[tag] = append(seenByTag[tag], rec)
	seenTotal++
	seenMu.Unlock()
	w.Header().Set("X-Verif-Backend", b.ID)
	w.Header().Set("X-Verif-Method", r.Method)
	w.Header().Set("Content-Type", "text/plain")
	body := "backend=" + b.ID + " tag=" + tag + "\n"
	w.Header().Set("Content-Length", strconv.Itoa(len(body)))
	w.WriteHeader(200)
	if r.Method != http.MethodHead {
		_, _ = io.WriteString(w, body)
	}
}

func seen(tag string) []seenRec {
	seenMu.Lock()
	defer seenMu.Unlock()
	return append([]seenRec(nil), seenByTag[tag]...)
}

func newBackend(pa *h.PortAlloc, id, surface string, c cred) *backend {
	port := pa.Get()
	l, err := net.Listen("tcp", "127.0.0.1:"+strconv.Itoa(port))
	if err != nil {
		fatal("backend %s: %v", id, err)
	}
	b := &backend{ID: id, Port: port, Cred: c, Surface: surface}
	b.srv = &http.Server{Handler: http.HandlerFunc(b.serve), ReadHeaderTimeout: 30 * time.Second}
	go b.srv.Serve(l)
	backendsMu.Lock()
	backends[id] = b
	backendsMu.Unlock()
	return b
}

func fatal(format string, a ...any) {
	fmt.Fprintf(os.Stderr, "C07 harness: "+format+"\n", a...)
	os.Exit(h.ExitHarnessError)
}

// ---------------------------------------------------------------------------------------------
// route tables

type route struct {
	Name      string   `json:"name"`
	Type      string   `json:"type"` // http | tcpmux
	Domain    string   `json:"domain,omitempty"`
	Sub       string   `json:"subdomain,omitempty"`
	Locations []string `json:"locations,omitempty"`
	RouteBy   string   `json:"route_by_http_user,omitempty"`
	Cred      cred     `json:"cred"`
	Group     string   `json:"group,omitempty"`
	Late      bool     `json:"late,omitempty"` // registered by the second client, after the first one runs
	// MayBeRefused: a group member whose credentials differ from the group's first member; a server
	// that refuses the registration protects the property as well as one that enforces both.
	MayBeRefused bool `json:"may_be_refused,omitempty"`
	b            *backend
}

// target is one thing to aim requests at: a host (as the requester writes it), a path, and the
// credentials of the protected route in focus (request credential variants are derived from them).
type target struct {
	Table  string `json:"table"`
	Server string `json:"server"` // A | B
	Host   string `json:"host"`
	Path   string `json:"path"`
	Focus  cred   `json:"focus"` // credentials the variants are built around
	Other  cred   `json:"other"` // another identity configured in the same table (or mallory)
	// Simple: every route that can match this host/path is protected by Focus and not user-routed:
	// a request without Focus must be answered with a challenge (http) / closed (tcpmux).
	Simple bool `json:"simple"`
	// Control: backend id that a canonical request with Focus must reach ("" = not judged).
	Control string `json:"control,omitempty"`
}

type serverEnv struct {
	ID          string
	Srv         *h.Server
	BindPort    int
	HTTPPort    int
	MuxPort     int
	DashPort    int
	DashCred    cred
	Passthrough bool
}

var (
	envA, envB  *serverEnv
	httpTargets []target
	muxTargets  []target
	allRoutes   []*route
	clients     []*h.Client
	assetsDir   string
	staticDir   string
)

const (
	assetMarker  = "C07-ASSET-MARKER-7f3a"
	staticMarker = "C07-STATIC-SECRET-91bc"
)

type pluginInst struct {
	ID     string `json:"id"`
	Kind   string `json:"kind"` // http_proxy | socks5 | static_file
	Cred   cred   `json:"cred"`
	Port   int    `json:"port"` // remote port on frps A
	Target *backend
}

var plugins []*pluginInst

// registered tells whether a MayBeRefused proxy was accepted by the server.
var registered = map[string]bool{}

type webAPI struct {
	ID   string `json:"id"`
	Kind string `json:"kind"` // frps | frpc
	Addr string `json:"addr"`
	Cred cred   `json:"cred"`
}

var webAPIs []*webAPI

func httpRoutes() []*route {
	return []*route{
		{Name: "t0.u", Type: "http", Domain: "open.test"},
		{Name: "t1.p", Type: "http", Domain: "t1.test", Cred: alice},
		{Name: "t2.p", Type: "http", Domain: "t2.test", RouteBy: "alice", Cred: alice},
		{Name: "t3.u", Type: "http", Domain: "t3.test"},
		{Name: "t3.pa", Type: "http", Domain: "t3.test", RouteBy: "alice", Cred: alice},
		{Name: "t3.pb", Type: "http", Domain: "t3.test", RouteBy: "bob", Cred: bob},
		{Name: "t4.u", Type: "http", Domain: "t4.test", Locations: []string{"/"}},
		{Name: "t4.p", Type: "http", Domain: "t4.test", Locations: []string{"/admin"}, Cred: alice},
		{Name: "t4.u2", Type: "http", Domain: "t4.test", Locations: []string{"/admin/public"}},
		{Name: "t5.p", Type: "http", Domain: "*.w.test", Cred: alice},
		{Name: "t5.u", Type: "http", Domain: "open.w.test"},
		{Name: "t6.p", Type: "http", Domain: "t6.test", Cred: pwOnly},
		{Name: "t7.p", Type: "http", Domain: "t7.test", Cred: usrOnly},
		{Name: "t8.u", Type: "http", Domain: "t8.test", Group: "g8"},
		{Name: "t8.p", Type: "http", Domain: "t8.test", Group: "g8", Cred: alice, Late: true, MayBeRefused: true},
		{Name: "t8b.pa", Type: "http", Domain: "t8b.test", Group: "g8b", Cred: alice},
		{Name: "t8b.pb", Type: "http", Domain: "t8b.test", Group: "g8b", Cred: bob, Late: true, MayBeRefused: true},
		{Name: "t8c.p1", Type: "http", Domain: "t8c.test", Group: "g8c", Cred: alice},
		{Name: "t8c.p2", Type: "http", Domain: "t8c.test", Group: "g8c", Cred: alice2, Late: true, MayBeRefused: true},
		{Name: "t9.p", Type: "http", Sub: "s9", Cred: alice},
		{Name: "t10.p", Type: "http", Domain: "t10.test", RouteBy: "bob", Cred: alice},
		{Name: "t11.pa", Type: "http", Domain: "t11.test", Cred: alice},
		{Name: "t11.pb", Type: "http", Domain: "t11.test", RouteBy: "bob", Cred: bob},
		{Name: "t12.p1", Type: "http", Domain: "t12.test", Group: "g12", Cred: alice},
		{Name: "t12.p2", Type: "http", Domain: "t12.test", Group: "g12", Cred: alice, Late: true},
	}
}

func buildHTTPTargets() []target {
	return []target{
		{Table: "t1", Server: "A", Host: "t1.test", Path: "/", Focus: alice, Other: mallory, Simple: true, Control: "t1.p"},
		{Table: "t2", Server: "A", Host: "t2.test", Path: "/", Focus: alice, Other: mallory, Control: "t2.p"},
		{Table: "t3a", Server: "A", Host: "t3.test", Path: "/x", Focus: alice, Other: bob, Control: "t3.pa"},
		{Table: "t3b", Server: "A", Host: "t3.test", Path: "/", Focus: bob, Other: alice, Control: "t3.pb"},
		{Table: "t4", Server: "A", Host: "t4.test", Path: "/admin", Focus: alice, Other: mallory, Simple: true, Control: "t4.p"},
		{Table: "t4s", Server: "A", Host: "t4.test", Path: "/admin/secret?x=1", Focus: alice, Other: mallory, Simple: true, Control: "t4.p"},
		{Table: "t4enc", Server: "A", Host: "t4.test", Path: "/%61dmin/x", Focus: alice, Other: mallory, Simple: true, Control: "t4.p"},
		{Table: "t4pub", Server: "A", Host: "t4.test", Path: "/admin/public/../secret", Focus: alice, Other: mallory},
		{Table: "t4dot", Server: "A", Host: "t4.test", Path: "/./admin", Focus: alice, Other: mallory},
		{Table: "t4case", Server: "A", Host: "t4.test", Path: "/ADMIN", Focus: alice, Other: mallory},
		{Table: "t5", Server: "A", Host: "x.w.test", Path: "/", Focus: alice, Other: mallory, Simple: true, Control: "t5.p"},
		{Table: "t5deep", Server: "A", Host: "a.b.w.test", Path: "/", Focus: alice, Other: mallory, Simple: true, Control: "t5.p"},
		{Table: "t5open", Server: "A", Host: "open.w.test", Path: "/", Focus: alice, Other: mallory},
		{Table: "t6", Server: "A", Host: "t6.test", Path: "/", Focus: pwOnly, Other: alice, Simple: true, Control: "t6.p"},
		{Table: "t7", Server: "A", Host: "t7.test", Path: "/", Focus: usrOnly, Other: alice, Simple: true, Control: "t7.p"},
		{Table: "t8", Server: "A", Host: "t8.test", Path: "/", Focus: alice, Other: mallory},
		{Table: "t8b", Server: "A", Host: "t8b.test", Path: "/", Focus: alice, Other: bob},
		{Table: "t8bb", Server: "A", Host: "t8b.test", Path: "/", Focus: bob, Other: alice},
		{Table: "t8c", Server: "A", Host: "t8c.test", Path: "/", Focus: alice, Other: alice2},
		{Table: "t8cc", Server: "A", Host: "t8c.test", Path: "/", Focus: alice2, Other: alice},
		{Table: "t9", Server: "A", Host: "s9.sub.test", Path: "/", Focus: alice, Other: mallory, Simple: true, Control: "t9.p"},
		{Table: "t10", Server: "A", Host: "t10.test", Path: "/", Focus: alice, Other: bob},
		{Table: "t11a", Server: "A", Host: "t11.test", Path: "/", Focus: alice, Other: bob, Control: "t11.pa"},
		{Table: "t11b", Server: "A", Host: "t11.test", Path: "/", Focus: bob, Other: alice, Control: "t11.pb"},
		{Table: "t12", Server: "A", Host: "t12.test", Path: "/", Focus: alice, Other: mallory, Simple: true},
		// server B: catch-all unprotected route next to a protected host
		{Table: "b1", Server: "B", Host: "b1.test", Path: "/", Focus: alice, Other: mallory, Simple: true, Control: "b1.p"},
		{Table: "bstar", Server: "B", Host: "unknown.example", Path: "/", Focus: alice, Other: mallory},
	}
}

func muxRoutes(sfx string) []*route {
	return []*route{
		{Name: "m1.p" + sfx, Type: "tcpmux", Domain: "m1.test", Cred: alice},
		{Name: "m2.u" + sfx, Type: "tcpmux", Domain: "m2.test"},
		{Name: "m2.p" + sfx, Type: "tcpmux", Domain: "m2.test", RouteBy: "alice", Cred: alice},
		{Name: "m3.p" + sfx, Type: "tcpmux", Domain: "m3.test", Cred: pwOnly},
		{Name: "m4.p" + sfx, Type: "tcpmux", Domain: "m4.test", Cred: usrOnly},
		{Name: "m5.p1" + sfx, Type: "tcpmux", Domain: "m5.test", Group: "gm5", Cred: alice},
		{Name: "m5.p2" + sfx, Type: "tcpmux", Domain: "m5.test", Group: "gm5", Cred: alice, Late: true},
		{Name: "m6.p" + sfx, Type: "tcpmux", Domain: "*.mw.test", Cred: alice},
		{Name: "m6.u" + sfx, Type: "tcpmux", Domain: "open.mw.test"},
		{Name: "m7.pa" + sfx, Type: "tcpmux", Domain: "m7.test", Cred: alice},
		{Name: "m7.pb" + sfx, Type: "tcpmux", Domain: "m7.test", RouteBy: "bob", Cred: bob},
	}
}

func buildMuxTargets() []target {
	var out []target
	for _, s := range []string{"A", "B"} {
		sfx := strings.ToLower(s)
		out = append(out,
			target{Table: "m1", Server: s, Host: "m1.test", Focus: alice, Other: mallory, Simple: true, Control: "m1.p" + sfx},
			target{Table: "m2", Server: s, Host: "m2.test", Focus: alice, Other: mallory, Control: "m2.p" + sfx},
			target{Table: "m3", Server: s, Host: "m3.test", Focus: pwOnly, Other: alice, Simple: true, Control: "m3.p" + sfx},
			target{Table: "m4", Server: s, Host: "m4.test", Focus: usrOnly, Other: alice, Simple: true, Control: "m4.p" + sfx},
			target{Table: "m5", Server: s, Host: "m5.test", Focus: alice, Other: mallory, Simple: true},
			target{Table: "m6", Server: s, Host: "x.mw.test", Focus: alice, Other: mallory, Simple: true, Control: "m6.p" + sfx},
			target{Table: "m6open", Server: s, Host: "open.mw.test", Focus: alice, Other: mallory},
			target{Table: "m7a", Server: s, Host: "m7.test", Focus: alice, Other: bob, Control: "m7.pa" + sfx},
			target{Table: "m7b", Server: s, Host: "m7.test", Focus: bob, Other: alice, Control: "m7.pb" + sfx},
		)
	}
	return out
}

func tomlStr(s string) string { return strconv.Quote(s) }

func proxyTOML(r *route) string {
	var sb strings.Builder
	fmt.Fprintf(&sb, "\n[[proxies]]\nname = %s\ntype = %s\nlocalIP = \"127.0.0.1\"\nlocalPort = %d\n", tomlStr(r.Name), tomlStr(r.Type), r.b.Port)
	if r.Domain != "" {
		fmt.Fprintf(&sb, "customDomains = [%s]\n", tomlStr(r.Domain))
	}
	if r.Sub != "" {
		fmt.Fprintf(&sb, "subdomain = %s\n", tomlStr(r.Sub))
	}
	if r.Type == "tcpmux" {
		sb.WriteString("multiplexer = \"httpconnect\"\n")
	}
	if len(r.Locations) > 0 {
		var q []string
		for _, l := range r.Locations {
			q = append(q, tomlStr(l))
		}
		fmt.Fprintf(&sb, "locations = [%s]\n", strings.Join(q, ","))
	}
	if r.Cred.User != "" {
		fmt.Fprintf(&sb, "httpUser = %s\n", tomlStr(r.Cred.User))
	}
	if r.Cred.Pass != "" {
		fmt.Fprintf(&sb, "httpPassword = %s\n", tomlStr(r.Cred.Pass))
	}
	if r.RouteBy != "" {
		fmt.Fprintf(&sb, "routeByHTTPUser = %s\n", tomlStr(r.RouteBy))
	}
	if r.Group != "" {
		fmt.Fprintf(&sb, "loadBalancer.group = %s\nloadBalancer.groupKey = \"gk\"\n", tomlStr(r.Group))
	}
	return sb.String()
}

func pluginTOML(p *pluginInst) string {
	var sb strings.Builder
	fmt.Fprintf(&sb, "\n[[proxies]]\nname = %s\ntype = \"tcp\"\nremotePort = %d\n[proxies.plugin]\ntype = %s\n", tomlStr("plug."+p.ID), p.Port, tomlStr(p.Kind))
	switch p.Kind {
	case "socks5":
		if p.Cred.User != "" {
			fmt.Fprintf(&sb, "username = %s\n", tomlStr(p.Cred.User))
		}
		if p.Cred.Pass != "" {
			fmt.Fprintf(&sb, "password = %s\n", tomlStr(p.Cred.Pass))
		}
	default:
		if p.Kind == "static_file" {
			fmt.Fprintf(&sb, "localPath = %s\n", tomlStr(staticDir))
			if strings.HasSuffix(p.ID, "-strip") {
				sb.WriteString("stripPrefix = \"files\"\n")
			}
		}
		if p.Cred.User != "" {
			fmt.Fprintf(&sb, "httpUser = %s\n", tomlStr(p.Cred.User))
		}
		if p.Cred.Pass != "" {
			fmt.Fprintf(&sb, "httpPassword = %s\n", tomlStr(p.Cred.Pass))
		}
	}
	return sb.String()
}

func clientHead(bindPort int) string {
	return fmt.Sprintf("serverAddr = \"127.0.0.1\"\nserverPort = %d\nauth.token = %s\nloginFailExit = false\ntransport.poolCount = 3\n", bindPort, tomlStr(token))
}

func startClient(text string, names []string) *h.Client {
	cli, err := h.StartClientText(prop, text)
	if err != nil {
		fatal("client: %v", err)
	}
	if err := cli.WaitRunning(30*time.Second, names...); err != nil {
		fatal("client proxies: %v", err)
	}
	clients = append(clients, cli)
	return cli
}

func setupEnv() {
	// the property's port range, split in two so that a mutation-mode run (VERIF_REPO) can run next to a normal one
	sub := 0
	if os.Getenv("VERIF_EVIDENCE_DIR") != "" {
		sub = 1
	}
	pa := h.PortsSub(prop, sub, 2)
	rd := h.RunDir(prop)
	assetsDir = filepath.Join(rd, "assets")
	staticDir = filepath.Join(rd, "static")
	_ = os.MkdirAll(filepath.Join(staticDir, "sub"), 0o755)
	_ = os.MkdirAll(assetsDir, 0o755)
	_ = os.WriteFile(filepath.Join(assetsDir, "index.html"), []byte("<html>"+assetMarker+"</html>\n"), 0o644)
	_ = os.WriteFile(filepath.Join(assetsDir, "favicon.ico"), []byte(assetMarker), 0o644)
	_ = os.WriteFile(filepath.Join(staticDir, "secret.txt"), []byte(staticMarker+"\n"), 0o644)
	_ = os.WriteFile(filepath.Join(staticDir, "sub", "deep.txt"), []byte(staticMarker+" deep\n"), 0o644)

	remote := pa.Block(48)
	mk := func(id string, passthrough bool, dash cred) *serverEnv {
		e := &serverEnv{ID: id, BindPort: pa.Get(), HTTPPort: pa.Get(), MuxPort: pa.Get(), DashPort: pa.Get(), DashCred: dash, Passthrough: passthrough}
		text := fmt.Sprintf(`
bindAddr = "127.0.0.1"
proxyBindAddr = "127.0.0.1"
bindPort = %d
vhostHTTPPort = %d
tcpmuxHTTPConnectPort = %d
tcpmuxPassthrough = %v
subDomainHost = "sub.test"
auth.token = %s
allowPorts = [{start=%d,end=%d}]
enablePrometheus = true
webServer.addr = "127.0.0.1"
webServer.port = %d
webServer.assetsDir = %s
`, e.BindPort, e.HTTPPort, e.MuxPort, passthrough, tomlStr(token), remote[0], remote[len(remote)-1], e.DashPort, tomlStr(assetsDir))
		if dash.User != "" {
			text += fmt.Sprintf("webServer.user = %s\n", tomlStr(dash.User))
		}
		if dash.Pass != "" {
			text += fmt.Sprintf("webServer.password = %s\n", tomlStr(dash.Pass))
		}
		srv, err := h.StartServerText(prop, text)
		if err != nil {
			fatal("server %s: %v", id, err)
		}
		e.Srv = srv
		if err := h.WaitTCP(fmt.Sprintf("127.0.0.1:%d", e.HTTPPort), 5*time.Second); err != nil {
			fatal("server %s vhost: %v", id, err)
		}
		if err := h.WaitTCP(fmt.Sprintf("127.0.0.1:%d", e.DashPort), 5*time.Second); err != nil {
			fatal("server %s dashboard: %v", id, err)
		}
		return e
	}
	envA = mk("A", false, admin)
	envB = mk("B", true, pwOnly)

	// ---- routes on A
	early, late := clientHead(envA.BindPort), clientHead(envA.BindPort)
	var earlyNames, lateNames, optional []string
	add := func(r *route, surface string) {
		r.b = newBackend(pa, r.Name, surface, r.Cred)
		allRoutes = append(allRoutes, r)
	}
	for _, r := range httpRoutes() {
		add(r, "vhost-http")
		if r.Late {
			late += proxyTOML(r)
			if r.MayBeRefused {
				optional = append(optional, r.Name)
			} else {
				lateNames = append(lateNames, r.Name)
			}
		} else {
			early += proxyTOML(r)
			earlyNames = append(earlyNames, r.Name)
		}
	}
	for _, r := range muxRoutes("a") {
		add(r, "tcpmux")
		if r.Late {
			late += proxyTOML(r)
			lateNames = append(lateNames, r.Name)
		} else {
			early += proxyTOML(r)
			earlyNames = append(earlyNames, r.Name)
		}
	}
	// ---- plugins on A
	i := 0
	for _, kind := range []string{"http_proxy", "socks5", "static_file"} {
		for _, v := range []struct {
			sfx string
			c   cred
		}{{"full", alice}, {"pwonly", pwOnly}, {"useronly", usrOnly}} {
			p := &pluginInst{ID: kind + "-" + v.sfx, Kind: kind, Cred: v.c, Port: remote[i]}
			i++
			if kind != "static_file" {
				p.Target = newBackend(pa, "behind."+p.ID, "plugin-"+kind, v.c)
			}
			plugins = append(plugins, p)
			early += pluginTOML(p)
			earlyNames = append(earlyNames, "plug."+p.ID)
		}
	}
	{
		p := &pluginInst{ID: "static_file-strip", Kind: "static_file", Cred: alice, Port: remote[i]}
		i++
		plugins = append(plugins, p)
		early += pluginTOML(p)
		earlyNames = append(earlyNames, "plug."+p.ID)
	}
	// frpc admin API: a dedicated client (a served /api/stop must not take the proxies of the other monitors down)
	adminPort := pa.Get()
	startClient(clientHead(envA.BindPort)+fmt.Sprintf("webServer.addr = \"127.0.0.1\"\nwebServer.port = %d\nwebServer.user = %s\nwebServer.password = %s\nwebServer.assetsDir = %s\n\n[[proxies]]\nname = \"adm.a\"\ntype = \"stcp\"\nsecretKey = \"k\"\nlocalIP = \"127.0.0.1\"\nlocalPort = 9\n",
		adminPort, tomlStr(admin.User), tomlStr(admin.Pass), tomlStr(assetsDir)), []string{"adm.a"})
	startClient(early, earlyNames)
	lateCli := startClient(late, lateNames)
	for _, n := range optional {
		n := n
		h.Eventually(15*time.Second, func() bool {
			ph := lateCli.ProxyPhase(n)
			return ph == "running" || ph == "start error" || ph == "check failed"
		})
		registered[n] = lateCli.ProxyPhase(n) == "running"
	}

	// ---- routes on B
	earlyB, lateB := clientHead(envB.BindPort), clientHead(envB.BindPort)
	var earlyBN, lateBN []string
	for _, r := range []*route{{Name: "b1.p", Type: "http", Domain: "b1.test", Cred: alice}, {Name: "bstar.u", Type: "http", Domain: "*"}} {
		add(r, "vhost-http")
		earlyB += proxyTOML(r)
		earlyBN = append(earlyBN, r.Name)
	}
	for _, r := range muxRoutes("b") {
		add(r, "tcpmux")
		if r.Late {
			lateB += proxyTOML(r)
			lateBN = append(lateBN, r.Name)
		} else {
			earlyB += proxyTOML(r)
			earlyBN = append(earlyBN, r.Name)
		}
	}
	adminPortB := pa.Get()
	startClient(clientHead(envB.BindPort)+fmt.Sprintf("webServer.addr = \"127.0.0.1\"\nwebServer.port = %d\nwebServer.user = %s\nwebServer.assetsDir = %s\n\n[[proxies]]\nname = \"adm.b\"\ntype = \"stcp\"\nsecretKey = \"k\"\nlocalIP = \"127.0.0.1\"\nlocalPort = 9\n",
		adminPortB, tomlStr(usrOnly.User), tomlStr(assetsDir)), []string{"adm.b"})
	startClient(earlyB, earlyBN)
	startClient(lateB, lateBN)

	setupRaceServer(pa)
	setupReload(pa, remote[16:])
	httpTargets = buildHTTPTargets()
	muxTargets = buildMuxTargets()
	webAPIs = []*webAPI{
		{ID: "frps-A", Kind: "frps", Addr: fmt.Sprintf("127.0.0.1:%d", envA.DashPort), Cred: admin},
		{ID: "frps-B", Kind: "frps", Addr: fmt.Sprintf("127.0.0.1:%d", envB.DashPort), Cred: pwOnly},
		{ID: "frpc-A", Kind: "frpc", Addr: fmt.Sprintf("127.0.0.1:%d", adminPort), Cred: admin},
		{ID: "frpc-B", Kind: "frpc", Addr: fmt.Sprintf("127.0.0.1:%d", adminPortB), Cred: usrOnly},
	}
	for _, w := range webAPIs {
		if err := h.WaitTCP(w.Addr, 5*time.Second); err != nil {
			fatal("web api %s: %v", w.ID, err)
		}
	}
	for _, p := range plugins {
		if err := h.WaitTCP(fmt.Sprintf("127.0.0.1:%d", p.Port), 5*time.Second); err != nil {
			fatal("plugin %s: %v", p.ID, err)
		}
	}
}

func env(id string) *serverEnv {
	if id == "B" {
		return envB
	}
	return envA
}

func teardownEnv() {
	for _, c := range clients {
		c.Close()
	}
	envA.Srv.Close()
	envB.Srv.Close()
	envC.Srv.Close()
}
