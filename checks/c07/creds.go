package main

// Credential variants of the request grammar and the oracle's notion of "presents exactly the
// configured user name and password" (the weakest reading: some Authorization or
// Proxy-Authorization header line carries a token that base64-decodes to "user:password").

import (
	"encoding/base64"
	"strings"
)

type credKind int

const (
	kAbsent credKind = iota
	kExact
	kWrongPw
	kOtherExact    // the other identity's own correct credentials
	kOtherUserPw   // other user, this password
	kUserOtherPw   // this user, other password
	kEmptyUser     // ":password"
	kEmptyPw       // "user:"
	kEmptyBoth     // ":"
	kMalformedB64  // not base64 at all
	kNoColon       // base64("userpassword")
	kSchemeLower   // "basic <exact>"
	kSchemeUpper   // "BASIC <exact>"
	kSchemeBearer  // "Bearer <exact>"
	kSchemeOnly    // "Basic"
	kUserCase      // USER:password
	kPwCase        // user:PASSWORD
	kPwPrefix      // user:passwor
	kPwSuffix      // user:passwordx
	kPwColonSuffix // user:password:x
	kUserSpace     // "user :password"
	kDoubleSpace   // "Basic  <exact>"
	kRawB64        // exact, base64 without padding
	kTab           // "Basic\t<exact>"
	kURLB64        // exact in URL-safe alphabet with a char that differs (falls back to exact if none)
	kNulSuffix     // user:password\x00
	kUserOnlyToken // base64("user")
	kExactTrailing // "Basic <exact> trailing"
	nCredKinds
)

var credKindName = [...]string{"absent", "exact", "wrong-pw", "other-exact", "other-user-this-pw", "this-user-other-pw", "empty-user", "empty-pw", "empty-both",
	"malformed-b64", "no-colon", "scheme-lower", "scheme-upper", "scheme-bearer", "scheme-only", "user-case", "pw-case", "pw-prefix", "pw-suffix", "pw-colon-suffix",
	"user-space", "double-space", "raw-b64", "tab", "url-b64", "nul-suffix", "user-only-token", "exact-trailing"}

func (k credKind) String() string { return credKindName[k] }

// coreKinds: the variants enumerated exhaustively in the quick tier.
var coreKinds = []credKind{kAbsent, kExact, kWrongPw, kOtherExact, kEmptyUser, kEmptyPw, kMalformedB64, kSchemeLower, kUserCase, kPwCase, kPwPrefix, kUserOtherPw}

func allKinds() []credKind {
	out := make([]credKind, 0, nCredKinds)
	for k := credKind(0); k < nCredKinds; k++ {
		out = append(out, k)
	}
	return out
}

func b64(s string) string { return base64.StdEncoding.EncodeToString([]byte(s)) }

func swapCase(s string) string {
	out := []rune(s)
	changed := false
	for i, r := range out {
		switch {
		case r >= 'a' && r <= 'z':
			out[i] = r - 32
			changed = true
		case r >= 'A' && r <= 'Z':
			out[i] = r + 32
			changed = true
		}
	}
	if !changed {
		return s + "X"
	}
	return string(out)
}

// renderCred gives the header value of variant k built around the focus identity f (other = o);
// ok=false: no header line.
func renderCred(k credKind, f, o cred) (string, bool) {
	up := f.User + ":" + f.Pass
	switch k {
	case kAbsent:
		return "", false
	case kExact:
		return "Basic " + b64(up), true
	case kWrongPw:
		return "Basic " + b64(f.User+":wrong-"+f.Pass), true
	case kOtherExact:
		return "Basic " + b64(o.User+":"+o.Pass), true
	case kOtherUserPw:
		return "Basic " + b64(o.User+":"+f.Pass), true
	case kUserOtherPw:
		return "Basic " + b64(f.User+":"+o.Pass), true
	case kEmptyUser:
		if f.User == "" { // would be exact: use a non-empty wrong user instead
			return "Basic " + b64("x:"+f.Pass), true
		}
		return "Basic " + b64(":"+f.Pass), true
	case kEmptyPw:
		if f.Pass == "" {
			return "Basic " + b64(f.User+":x"), true
		}
		return "Basic " + b64(f.User+":"), true
	case kEmptyBoth:
		return "Basic " + b64(":"), true
	case kMalformedB64:
		return "Basic !!" + strings.TrimRight(b64(up), "=") + "*", true
	case kNoColon:
		return "Basic " + b64(f.User+f.Pass), true
	case kSchemeLower:
		return "basic " + b64(up), true
	case kSchemeUpper:
		return "BASIC " + b64(up), true
	case kSchemeBearer:
		return "Bearer " + b64(up), true
	case kSchemeOnly:
		return "Basic", true
	case kUserCase:
		return "Basic " + b64(swapCase(f.User)+":"+f.Pass), true
	case kPwCase:
		return "Basic " + b64(f.User+":"+swapCase(f.Pass)), true
	case kPwPrefix:
		if len(f.Pass) == 0 {
			return "Basic " + b64(f.User), true
		}
		return "Basic " + b64(f.User+":"+f.Pass[:len(f.Pass)-1]), true
	case kPwSuffix:
		return "Basic " + b64(up+"x"), true
	case kPwColonSuffix:
		return "Basic " + b64(up+":x"), true
	case kUserSpace:
		return "Basic " + b64(f.User+" :"+f.Pass), true
	case kDoubleSpace:
		return "Basic  " + b64(up), true
	case kRawB64:
		return "Basic " + base64.RawStdEncoding.EncodeToString([]byte(up)), true
	case kTab:
		return "Basic\t" + b64(up), true
	case kURLB64:
		return "Basic " + base64.URLEncoding.EncodeToString([]byte(up)), true
	case kNulSuffix:
		return "Basic " + b64(up+"\x00"), true
	case kUserOnlyToken:
		return "Basic " + b64(f.User), true
	case kExactTrailing:
		return "Basic " + b64(up) + " trailing", true
	}
	return "", false
}

// hdrLine is one literal header line of a generated request.
type hdrLine struct {
	Name  string `json:"name"`
	Value string `json:"value"`
}

func isAuthName(n string) bool {
	return strings.EqualFold(n, "Authorization") || strings.EqualFold(n, "Proxy-Authorization")
}

var decoders = []*base64.Encoding{base64.StdEncoding, base64.RawStdEncoding, base64.URLEncoding, base64.RawURLEncoding}

// carries: does any credential header line of the request carry exactly c?
func carries(lines []hdrLine, c cred) bool {
	want := c.User + ":" + c.Pass
	for _, l := range lines {
		if !isAuthName(l.Name) {
			continue
		}
		for _, tok := range strings.Fields(l.Value) {
			for _, d := range decoders {
				if b, err := d.DecodeString(tok); err == nil && string(b) == want {
					return true
				}
			}
		}
	}
	return false
}

// canonicalAuth: the request is the plainest way to present c: exactly one Authorization line
// "Basic base64(user:password)" and nothing in Proxy-Authorization.
func canonicalAuth(lines []hdrLine, c cred) bool {
	n := 0
	for _, l := range lines {
		if !isAuthName(l.Name) {
			continue
		}
		n++
		if l.Name != "Authorization" || l.Value != "Basic "+b64(c.User+":"+c.Pass) {
			return false
		}
	}
	return n == 1
}

// canonicalProxyAuth: exactly one Proxy-Authorization line with the plain exact value, no Authorization.
func canonicalProxyAuth(lines []hdrLine, c cred) bool {
	n := 0
	for _, l := range lines {
		if !isAuthName(l.Name) {
			continue
		}
		n++
		if l.Name != "Proxy-Authorization" || l.Value != "Basic "+b64(c.User+":"+c.Pass) {
			return false
		}
	}
	return n == 1
}

func kindsSig(ks []credKind) string {
	if len(ks) == 0 {
		return "-"
	}
	var s []string
	for _, k := range ks {
		s = append(s, k.String())
	}
	return strings.Join(s, "+")
}

// authLines renders the variants as header lines named `name` (one line per variant; absent = none).
func authLines(name string, ks []credKind, f, o cred) []hdrLine {
	var out []hdrLine
	for _, k := range ks {
		if v, ok := renderCred(k, f, o); ok {
			out = append(out, hdrLine{name, v})
		}
	}
	return out
}
