package main

// Monitor 1a: frps vhost http proxies, HTTP/1.x request forms.

import (
	"bufio"
	"bytes"
	"errors"
	"fmt"
	"io"
	"math/rand"
	"net"
	"net/http"
	"strings"
	"time"

	"verif/h"
)

type vhostSpec struct {
	T         target     `json:"target"`
	Form      string     `json:"form"` // origin | absolute | absolute-decoy-host | absolute-url-open | connect
	Method    string     `json:"method"`
	Version   string     `json:"version"`    // 1.1 | 1.0
	HostStyle string     `json:"host_style"` // plain | upper | port | dot
	Scheme    string     `json:"scheme"`     // http | HTTP | https (absolute forms)
	A         []credKind `json:"authorization"`
	PA        []credKind `json:"proxy_authorization"`
	AName     string     `json:"authorization_name"`
	PAName    string     `json:"proxy_authorization_name"`
	PAFirst   bool       `json:"proxy_authorization_first"`
	Core      bool       `json:"core"`
}

func styleHost(host, style string, port int) string {
	switch style {
	case "upper":
		return strings.ToUpper(host)
	case "port":
		return fmt.Sprintf("%s:%d", host, port)
	case "dot":
		return host + "."
	}
	return host
}

func (s *vhostSpec) lines() []hdrLine {
	a := authLines(s.AName, s.A, s.T.Focus, s.T.Other)
	p := authLines(s.PAName, s.PA, s.T.Focus, s.T.Other)
	if s.PAFirst {
		return append(p, a...)
	}
	return append(a, p...)
}

func (s *vhostSpec) build(tag string) ([]byte, []hdrLine) {
	e := env(s.T.Server)
	host := styleHost(s.T.Host, s.HostStyle, e.HTTPPort)
	var b bytes.Buffer
	hostHdr := host
	switch s.Form {
	case "origin":
		fmt.Fprintf(&b, "%s %s HTTP/%s\r\n", s.Method, s.T.Path, s.Version)
	case "absolute":
		fmt.Fprintf(&b, "%s %s://%s%s HTTP/%s\r\n", s.Method, s.Scheme, host, s.T.Path, s.Version)
	case "absolute-decoy-host": // the URL names the protected host, the Host header an unprotected one
		fmt.Fprintf(&b, "%s %s://%s%s HTTP/%s\r\n", s.Method, s.Scheme, host, s.T.Path, s.Version)
		hostHdr = "open.test"
	case "absolute-url-open": // the URL names an unprotected host, the Host header the protected one
		fmt.Fprintf(&b, "%s %s://open.test%s HTTP/%s\r\n", s.Method, s.Scheme, s.T.Path, s.Version)
	case "connect":
		fmt.Fprintf(&b, "CONNECT %s:80 HTTP/%s\r\n", s.T.Host, s.Version)
		hostHdr = s.T.Host + ":80"
	}
	fmt.Fprintf(&b, "Host: %s\r\n", hostHdr)
	lines := s.lines()
	for _, l := range lines {
		fmt.Fprintf(&b, "%s: %s\r\n", l.Name, l.Value)
	}
	fmt.Fprintf(&b, "X-Verif-Tag: %s\r\nUser-Agent: c07\r\n", tag)
	if s.Form != "connect" {
		b.WriteString("Connection: close\r\n")
	}
	if s.Method == "POST" {
		b.WriteString("Content-Length: 5\r\n\r\nhello")
	} else {
		b.WriteString("\r\n")
	}
	return b.Bytes(), lines
}

type rawResp struct {
	Status int
	Header http.Header
	Body   []byte
	Err    error
	// Closed: the server closed the connection after the response (EOF / reset seen).
	Closed bool
}

var errTimeout = errors.New("timeout")

func isTimeout(err error) bool {
	var ne net.Error
	return errors.As(err, &ne) && ne.Timeout()
}

// doRaw sends raw on a fresh connection and reads one response.
func doRaw(addr string, raw []byte, method string, timeout time.Duration) rawResp {
	conn, err := net.DialTimeout("tcp", addr, 5*time.Second)
	if err != nil {
		return rawResp{Err: fmt.Errorf("dial: %w", err)}
	}
	defer conn.Close()
	_ = conn.SetDeadline(time.Now().Add(timeout))
	if _, err := conn.Write(raw); err != nil {
		return rawResp{Err: err}
	}
	br := bufio.NewReader(conn)
	resp, err := http.ReadResponse(br, &http.Request{Method: method})
	if err != nil {
		if isTimeout(err) {
			return rawResp{Err: errTimeout}
		}
		return rawResp{Err: err, Closed: true}
	}
	out := rawResp{Status: resp.StatusCode, Header: resp.Header}
	if method == "CONNECT" && resp.StatusCode == 200 {
		return out
	}
	body, _ := io.ReadAll(io.LimitReader(resp.Body, 1<<20))
	resp.Body.Close()
	out.Body = body
	return out
}

func hasBasicChallenge(hd http.Header, name string) bool {
	for _, v := range hd.Values(name) {
		if len(v) >= 5 && strings.EqualFold(v[:5], "Basic") {
			return true
		}
	}
	return false
}

// goBasicUser parses a header value the way net/http's BasicAuth does and returns the user.
func goBasicUser(v string) string {
	const prefix = "Basic "
	if len(v) < len(prefix) || !strings.EqualFold(v[:len(prefix)], prefix) {
		return ""
	}
	for _, d := range decoders[:1] {
		if b, err := d.DecodeString(v[len(prefix):]); err == nil {
			if i := bytes.IndexByte(b, ':'); i >= 0 {
				return string(b[:i])
			}
		}
	}
	return ""
}

func firstLine(lines []hdrLine, name string) (string, bool) {
	for _, l := range lines {
		if strings.EqualFold(l.Name, name) {
			return l.Value, true
		}
	}
	return "", false
}

func routeOf(backendID string) *route {
	for _, r := range allRoutes {
		if r.Name == backendID {
			return r
		}
	}
	return nil
}

// vhostKey names the finding: the known mechanisms get their own narrow keys.
func vhostKey(urlHasHost bool, laterH2Stream bool, lines []hdrLine) func(seenRec, *backend) string {
	return func(rec seenRec, b *backend) string {
		if r := routeOf(b.ID); r != nil && r.Group != "" {
			// explained by the group defect iff the request legitimately passes the check of the group's registered (first) member
			if first, differ := groupFirstCred(r.Group); differ && (!first.protected() || carries(lines, first)) {
				return "vhost-http-group-member-credentials-not-enforced"
			}
		}
		if laterH2Stream {
			return "vhost-http-h2c-stream-not-checked"
		}
		if urlHasHost {
			pa, _ := firstLine(lines, "Proxy-Authorization")
			a, _ := firstLine(lines, "Authorization")
			if u := goBasicUser(pa); u != "" && u != goBasicUser(a) {
				// the forwarder routes by the Proxy-Authorization user, the check looked at Authorization
				return "vhost-http-proxy-authorization-selects-route-unchecked"
			}
		}
		return "vhost-http-forwarded-without-credentials"
	}
}

// groupFirstCred returns the credentials of the group's first registered member and whether some
// registered member has different ones.
func groupFirstCred(group string) (cred, bool) {
	var first *cred
	differ := false
	for _, r := range allRoutes {
		if r.Group != group || (r.MayBeRefused && !registered[r.Name]) {
			continue
		}
		if first == nil {
			c := r.Cred
			first = &c
		} else if r.Cred != *first {
			differ = true
		}
	}
	if first == nil {
		return cred{}, false
	}
	return *first, differ
}

func runVhost(c *h.Case, s *vhostSpec) {
	_, lines := s.build("")
	urlHost := s.Form != "origin"
	method := s.Method
	if s.Form == "connect" {
		method = "CONNECT"
	}
	e := env(s.T.Server)
	var raw []byte
	exchange := func(sub int) (rawResp, []string) {
		tag := tagFor(c, sub)
		raw, _ = s.build(tag)
		c.Ev("request", "raw", string(raw))
		register(c, tag, lines, vhostKey(urlHost, false, lines), nil)
		resp := doRaw(fmt.Sprintf("127.0.0.1:%d", e.HTTPPort), raw, method, 20*time.Second)
		c.Ev("response", "status", resp.Status, "header", resp.Header, "err", fmt.Sprint(resp.Err), "body", string(resp.Body))
		run.Count("vhost_http_requests", 1)
		return resp, judgeSeen(c, tag)
	}
	resp, ids := exchange(0)
	if resp.Err == errTimeout {
		run.Inconclusive("vhost http: no response within 20 s")
	} else if resp.Err != nil {
		run.Count("vhost_http_no_response", 1)
	}
	has := carries(lines, s.T.Focus)
	if has {
		run.Count("vhost_http_requests_with_exact_credentials", 1)
	}
	if resp.Status == 401 {
		run.Count("vhost_http_401", 1)
	}

	// challenge monitor: every route that can match is protected by Focus
	if s.T.Simple && !has && resp.Err == nil && (s.Form == "origin" || s.Form == "absolute" || s.Form == "absolute-decoy-host") && c.Violations() == 0 {
		if resp.Status != 400 && resp.Status != 505 {
			if resp.Status != 401 || !hasBasicChallenge(resp.Header, "Www-Authenticate") {
				c.Violation("vhost-http-no-challenge", "request without the credentials %v to %s%s (all matching routes protected) was answered with status %d, WWW-Authenticate %q instead of a 401 challenge",
					s.T.Focus, s.T.Host, s.T.Path, resp.Status, resp.Header.Values("Www-Authenticate"))
			}
			run.Count("vhost_http_challenges_checked", 1)
		}
	}
	// positive control
	if s.T.Control != "" && s.Form == "origin" && s.Version == "1.1" && s.HostStyle == "plain" && (s.Method == "GET" || s.Method == "POST") && canonicalAuth(lines, s.T.Focus) {
		good := func() bool {
			if resp.Err != nil || resp.Status != 200 || resp.Header.Get("X-Verif-Backend") != s.T.Control {
				return false
			}
			for _, id := range ids {
				if id == s.T.Control {
					return true
				}
			}
			return false
		}
		// an authentication refusal is final; anything else (lost work connection on a loaded machine) is retried
		for try := 1; try <= 2 && !good() && resp.Status != 401; try++ {
			time.Sleep(time.Duration(try) * 500 * time.Millisecond)
			run.Count("positive_control_retries", 1)
			resp, ids = exchange(try)
		}
		if !good() {
			c.Violation("vhost-http-exact-credentials-refused", "plain request with the exact credentials %v to %s%s: status %d, answered by %q, backends that saw it %v (want %s); err %v",
				s.T.Focus, s.T.Host, s.T.Path, resp.Status, resp.Header.Get("X-Verif-Backend"), ids, s.T.Control, resp.Err)
		}
		run.Count("vhost_http_positive_controls", 1)
	}
	run.Distinct(fmt.Sprintf("vhost|%s|%s|%s|%s|%s|%s|%s|A=%s/%s|PA=%s/%s|%v", s.T.Table, s.Form, s.Method, s.Version, s.HostStyle, s.Scheme, s.T.Path, kindsSig(s.A), s.AName, kindsSig(s.PA), s.PAName, s.PAFirst))
	if c.Idx%2503 == 0 {
		run.Sample(map[string]any{"surface": "vhost-http", "request": string(raw), "status": resp.Status, "backends": ids})
	}
}

var (
	aNames  = []string{"Authorization", "authorization", "AUTHORIZATION", "AuThOrIzAtIoN"}
	paNames = []string{"Proxy-Authorization", "proxy-authorization", "PROXY-AUTHORIZATION", "Proxy-authorization"}
)

func randKinds(rng *rand.Rand) []credKind {
	switch rng.Intn(10) {
	case 0: // duplicated header line
		return []credKind{credKind(rng.Intn(int(nCredKinds))), credKind(rng.Intn(int(nCredKinds)))}
	case 1, 2:
		return []credKind{kAbsent}
	default:
		return []credKind{credKind(rng.Intn(int(nCredKinds)))}
	}
}

func genVhost(rng *rand.Rand) []spec {
	var out []spec
	kinds := coreKinds
	versions := []string{"1.1", "1.0"}
	forms := []string{"origin", "absolute", "connect", "absolute-decoy-host"}
	if run.Thorough() {
		kinds = allKinds()
	}
	// core: exhaustive product of credential variants per form and table
	for _, t := range httpTargets {
		for _, f := range forms {
			for _, v := range versions {
				for _, a := range kinds {
					for _, p := range kinds {
						out = append(out, spec{Vhost: &vhostSpec{T: t, Form: f, Method: "GET", Version: v, HostStyle: "plain", Scheme: "http",
							A: []credKind{a}, PA: []credKind{p}, AName: "Authorization", PAName: "Proxy-Authorization", Core: true}})
					}
				}
			}
		}
	}
	// sampled: the rest of the grammar
	n := run.N(5000, 300000)
	allForms := []string{"origin", "absolute", "absolute", "absolute-decoy-host", "absolute-url-open", "connect"}
	for i := 0; i < n; i++ {
		s := &vhostSpec{T: pick(rng, httpTargets), Form: pick(rng, allForms), Method: pick(rng, []string{"GET", "GET", "POST", "HEAD", "OPTIONS", "DELETE"}),
			Version: pick(rng, []string{"1.1", "1.1", "1.0"}), HostStyle: pick(rng, []string{"plain", "plain", "upper", "port", "dot"}),
			Scheme: pick(rng, []string{"http", "http", "HTTP", "https"}), A: randKinds(rng), PA: randKinds(rng),
			AName: pick(rng, aNames), PAName: pick(rng, paNames), PAFirst: rng.Intn(2) == 0}
		out = append(out, spec{Vhost: s})
	}
	return out
}
