// C07 — Password-protected endpoints serve only requests carrying the exact credentials.
//
// Monitors (DESIGN.md §5/C07), all of the shape "backend saw the request ⇒ the request carried exactly
// the credentials configured in front of that backend" over an enumerated request-shape grammar:
//  1. frps vhost http proxies (httpUser/httpPassword, routeByHTTPUser, locations, wildcard and
//     sub-domains, groups): HTTP/1.0, HTTP/1.1 origin-/absolute-/authority-form, h2c (prior knowledge
//     and Upgrade), every combination of Authorization / Proxy-Authorization variants;
//     challenge monitor (401 + WWW-Authenticate) and positive control (exact credentials are served by
//     the right backend).
//  2. tcpmux (HTTP CONNECT) proxies on a passthrough and a non-passthrough server: relay ⇒ credentials;
//     refused connections are closed.
//  3. frpc plugins http_proxy (absolute-form and CONNECT), socks5 (RFC 1928/1929 wire client) and
//     static_file, each with user+password, password-only and user-only configurations.
//  4. every route of the frps dashboard and the frpc admin API (and path/method mutations of them).
//  5. request sequences on one connection (keep-alive, pipelined) and first bytes split over two TCP
//     segments, on the http_proxy and static_file plugins, the vhost http port, tcpmux and the web
//     servers (seq.go); socks5 sessions with split and pipelined messages. Judged per request.
//  6. forced family (race.go): the route table changes (R1 closed or kept, protected R2 registered for the
//     same host / longer location / user) while an accepted request waits in frps for a work connection
//     of R1: R2's backend must never see it.
//  7. reload family (reload.go): a real frpc is reloaded from plugin credentials A to B (static_file,
//     http_proxy, socks5); fresh connections and connections opened before the reload must not be served
//     with the replaced credentials.
//  8. pool-key family (poolkey.go): requests without / with wrong credentials whose Host (or absolute-form /
//     CONNECT authority) spells the reverse proxy's backend-pool key of a protected route, for a range of
//     route ids, right after a legitimate request left an idle pooled connection.
//  9. multi-route rotation family (rotate.go): a protected proxy with several routes is closed and registered
//     again under the same name with other credentials on a subset of its routes; dropped routes must reach
//     nothing, kept routes refuse the replaced credentials.
package main

import (
	"fmt"
	"math/rand"
	"sort"
	"sync"
	"time"

	"verif/h"
)

const prop = "C07"

var run *h.Run

// specs is the deterministic case list of this (seed, tier).
var specs []spec

// spec is one generated case: exactly one of the pointers is set.
type spec struct {
	Vhost   *vhostSpec   `json:"vhost,omitempty"`
	H2      *h2Spec      `json:"h2c,omitempty"`
	Mux     *muxSpec     `json:"tcpmux,omitempty"`
	HP      *hpSpec      `json:"http_proxy,omitempty"`
	Socks   *socksSpec   `json:"socks5,omitempty"`
	Static  *staticSpec  `json:"static_file,omitempty"`
	Web     *webSpec     `json:"web,omitempty"`
	Seq     *seqSpec     `json:"sequence,omitempty"`
	Race    *raceSpec    `json:"route_change_while_dialing,omitempty"`
	Reload  *reloadSpec  `json:"plugin_reload,omitempty"`
	PoolKey *poolKeySpec `json:"pool_key_host,omitempty"`
	Rotate  *rotateSpec  `json:"multi_route_rotation,omitempty"`
}

// pending: what every tag of the run carried, for the end-of-run sweep over the backend logs
// (a request forwarded after its requester gave up is still a violation).
type pendingReq struct {
	Idx    int
	Lines  []hdrLine
	Judged int
	Key    func(rec seenRec, b *backend) string
	// Presented overrides carries(Lines, cred) (socks5: credentials travel in the sub-negotiation).
	Presented func(c cred) bool
}

var (
	pendMu  sync.Mutex
	pending = map[string]*pendingReq{}
)

func register(c *h.Case, tag string, lines []hdrLine, key func(seenRec, *backend) string, presented func(cred) bool) *pendingReq {
	p := &pendingReq{Idx: c.Idx, Lines: lines, Key: key, Presented: presented}
	pendMu.Lock()
	pending[tag] = p
	pendMu.Unlock()
	return p
}

func (p *pendingReq) presented(c cred) bool {
	if p.Presented != nil {
		return p.Presented(c)
	}
	return carries(p.Lines, c)
}

// judgeSeen applies the central oracle to everything the backends logged for tag so far.
// It returns the backend ids that saw the tag.
func judgeSeen(c *h.Case, tag string) []string {
	pendMu.Lock()
	p := pending[tag]
	pendMu.Unlock()
	recs := seen(tag)
	var ids []string
	for i, rec := range recs {
		ids = append(ids, rec.Backend)
		if i < p.Judged {
			continue
		}
		b := backends[rec.Backend]
		c.Ev("backend-saw", "tag", tag, "rec", rec)
		run.Count("requests_reaching_a_backend", 1)
		if b.Cred.protected() {
			run.Count("requests_reaching_a_protected_backend", 1)
			if !p.presented(b.Cred) {
				c.Violation(p.Key(rec, b), "%s: backend %s is protected by %v, yet it received %s %s (host %s, Authorization %q, Proxy-Authorization %q) for a request that carried these credential lines: %v",
					b.Surface, b.ID, b.Cred, rec.Method, rec.URI, rec.Host, rec.Auth, rec.PAuth, p.Lines)
			}
		}
	}
	pendMu.Lock()
	p.Judged = len(recs)
	pendMu.Unlock()
	return ids
}

func main() {
	run = h.NewRun(prop, "exploration")
	run.Rule = "request shapes enumerated from a finite grammar: (request form: origin / absolute / absolute with decoy Host / authority-CONNECT / h2c prior-knowledge / h2c Upgrade + later streams) x (HTTP/1.0, 1.1) x (Authorization variants) x (Proxy-Authorization variants) x (header-name casing, duplicated lines, host spelling, method) x route tables mixing protected, unprotected, user-routed, location-, wildcard-, subdomain- and group-routed proxies on one host; the core product (12 x 12 credential variants [thorough: 28 x 28] x 4 forms x HTTP/1.0, 1.1 x every table) is enumerated exhaustively, the rest is PRNG-sampled; same for tcpmux CONNECT (passthrough on/off), the http_proxy / socks5 / static_file plugins (user+password, password-only, user-only) and every route of the frps dashboard / frpc admin API; distinct = distinct (surface, table, shape) tuple"
	run.Assumptions = []string{
		"'presents exactly that user name and password' is read in the weakest way: some Authorization or Proxy-Authorization line of the request has a token that base64-decodes (any alphabet, padding optional) to user:password; for socks5: the RFC 1929 sub-negotiation sent exactly user and password",
		"a protected backend is 'reached' when its HTTP server logs a request carrying the case's unique tag (every relayed byte stream of the check starts with a tagged HTTP request)",
		"/healthz of the web servers is deliberately registered outside the authentication middleware (liveness probe, empty body) and is not judged; pprof routes (webServer.pprofEnable, off by default) are not part of the dashboard/admin API and are not judged",
		"refused connections must be closed within 15 s (bounded-progress watchdog; no timer is configured on these paths)",
		"credentialed requests are never sent to frpc's /api/stop, PUT /api/config and /api/reload (they would stop or rewrite the client under test)",
	}
	setupEnv()

	specs = generate()
	run.Set("cases_by_surface", surfaceCounts(specs))
	workers := 24
	run.Parallel(len(specs), workers, func(c *h.Case) {
		s := specs[c.Idx]
		c.Data["spec"] = s
		switch {
		case s.Vhost != nil:
			runVhost(c, s.Vhost)
		case s.H2 != nil:
			runH2(c, s.H2)
		case s.Mux != nil:
			runMux(c, s.Mux)
		case s.HP != nil:
			runHP(c, s.HP)
		case s.Socks != nil:
			runSocks(c, s.Socks)
		case s.Static != nil:
			runStatic(c, s.Static)
		case s.Web != nil:
			runWeb(c, s.Web)
		case s.Seq != nil:
			runSeq(c, s.Seq)
		case s.Race != nil:
			runRace(c, s.Race)
		case s.Reload != nil:
			runReload(c, s.Reload)
		case s.PoolKey != nil:
			runPoolKey(c, s.PoolKey)
		case s.Rotate != nil:
			runRotate(c, s.Rotate)
		}
	})

	// end-of-run sweep: anything a backend logged after its case had been judged
	time.Sleep(500 * time.Millisecond)
	pendMu.Lock()
	tags := make([]string, 0, len(pending))
	for t := range pending {
		tags = append(tags, t)
	}
	pendMu.Unlock()
	sort.Strings(tags)
	for _, t := range tags {
		pendMu.Lock()
		p := pending[t]
		pendMu.Unlock()
		if len(seen(t)) > p.Judged {
			c := run.NewCase(p.Idx)
			c.Data["spec"] = specs[p.Idx]
			c.Ev("late-sweep", "tag", t)
			judgeSeen(c, t)
			run.Count("late_backend_sightings", 1)
		}
	}
	seenMu.Lock()
	for t := range seenByTag {
		if _, ok := pending[t]; !ok && t != "" {
			run.Count("backend_requests_with_unknown_tag", 1)
		}
	}
	seenMu.Unlock()
	if len(registered) > 0 {
		run.Set("group_members_with_different_credentials_registered", registered)
	}
	teardownEnv()
	run.Finish(200)
}

func surfaceOf(s spec) string {
	switch {
	case s.Vhost != nil:
		return "vhost-http"
	case s.H2 != nil:
		return "vhost-h2c"
	case s.Mux != nil:
		return "tcpmux"
	case s.HP != nil:
		return "plugin-http_proxy"
	case s.Socks != nil:
		return "plugin-socks5"
	case s.Static != nil:
		return "plugin-static_file"
	case s.Web != nil:
		return "web-api"
	case s.Seq != nil:
		return "sequence/" + s.Seq.Surface
	case s.Race != nil:
		return "vhost-http/route-change-while-dialing"
	case s.Reload != nil:
		return "plugin-reload/" + s.Reload.Kind
	case s.PoolKey != nil:
		return "vhost-http/pool-key-host"
	case s.Rotate != nil:
		return "vhost-http/multi-route-rotation"
	}
	return "?"
}

func surfaceCounts(specs []spec) map[string]int {
	m := map[string]int{}
	for _, s := range specs {
		m[surfaceOf(s)]++
	}
	return m
}

// generate builds the deterministic case list of this (seed, tier).
func generate() []spec {
	rng := run.RandFor("generate", 0)
	var out []spec
	out = append(out, genVhost(rng)...)
	out = append(out, genH2(rng)...)
	out = append(out, genMux(rng)...)
	out = append(out, genHP(rng)...)
	out = append(out, genSocks(rng)...)
	out = append(out, genStatic(rng)...)
	out = append(out, genWeb(rng)...)
	out = append(out, genSeq(run.RandFor("generate-sequences", 0))...)
	out = append(out, genRace(run.RandFor("generate-race", 0))...)
	out = append(out, genReload(run.RandFor("generate-reload", 0))...)
	out = append(out, genPoolKey(run.RandFor("generate-poolkey", 0))...)
	out = append(out, genRotate(run.RandFor("generate-rotate", 0))...)
	// interleave the surfaces (the ones with a 200 ms failure delay overlap with the fast ones)
	rng.Shuffle(len(out), func(i, j int) { out[i], out[j] = out[j], out[i] })
	return out
}

func pick[T any](rng *rand.Rand, xs []T) T { return xs[rng.Intn(len(xs))] }

func tagFor(c *h.Case, sub int) string { return fmt.Sprintf("s%dc%dx%d", run.Seed, c.Idx, sub) }
