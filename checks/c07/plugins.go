package main

// Monitor 3: frpc plugins http_proxy, socks5, static_file behind tcp proxies of frps A.

import (
	"bufio"
	"bytes"
	"fmt"
	"io"
	"math/rand"
	"net"
	"strings"
	"time"

	"verif/h"
)

func pluginsOf(kind string) []*pluginInst {
	var out []*pluginInst
	for _, p := range plugins {
		if p.Kind == kind {
			out = append(out, p)
		}
	}
	return out
}

func pluginByID(id string) *pluginInst {
	for _, p := range plugins {
		if p.ID == id {
			return p
		}
	}
	return nil
}

func otherOf(c cred) cred {
	if c == alice {
		return bob
	}
	return alice
}

// ---------------------------------------------------------------------------------------------
// http_proxy

type hpSpec struct {
	Plugin  string     `json:"plugin"`
	Form    string     `json:"form"` // absolute | origin | connect | connect-lower
	Method  string     `json:"method"`
	Version string     `json:"version"`
	A       []credKind `json:"authorization"`
	PA      []credKind `json:"proxy_authorization"`
	AName   string     `json:"authorization_name"`
	PAName  string     `json:"proxy_authorization_name"`
}

func runHP(c *h.Case, s *hpSpec) {
	p := pluginByID(s.Plugin)
	lines := append(authLines(s.AName, s.A, p.Cred, otherOf(p.Cred)), authLines(s.PAName, s.PA, p.Cred, otherOf(p.Cred))...)
	taddr := fmt.Sprintf("127.0.0.1:%d", p.Target.Port)
	addr := fmt.Sprintf("127.0.0.1:%d", p.Port)
	has := carries(lines, p.Cred)
	run.Distinct(fmt.Sprintf("hp|%s|%s|%s|%s|A=%s/%s|PA=%s/%s", s.Plugin, s.Form, s.Method, s.Version, kindsSig(s.A), s.AName, kindsSig(s.PA), s.PAName))
	tunnelForm := s.Form == "connect" || s.Form == "connect-lower"
	var b bytes.Buffer
	build := func(tag string) []byte {
		b.Reset()
		switch s.Form {
		case "absolute":
			fmt.Fprintf(&b, "%s http://%s/via-http-proxy HTTP/%s\r\nHost: %s\r\n", s.Method, taddr, s.Version, taddr)
		case "origin":
			fmt.Fprintf(&b, "%s /via-http-proxy HTTP/%s\r\nHost: %s\r\n", s.Method, s.Version, taddr)
		case "connect":
			fmt.Fprintf(&b, "CONNECT %s HTTP/%s\r\nHost: %s\r\n", taddr, s.Version, taddr)
		default:
			fmt.Fprintf(&b, "connect %s HTTP/%s\r\nHost: %s\r\n", taddr, s.Version, taddr)
		}
		for _, l := range lines {
			fmt.Fprintf(&b, "%s: %s\r\n", l.Name, l.Value)
		}
		if tunnelForm {
			b.WriteString("\r\n")
		} else {
			fmt.Fprintf(&b, "X-Verif-Tag: %s\r\nConnection: close\r\n\r\n", tag)
		}
		return b.Bytes()
	}
	type outcome struct {
		resp   rawResp
		res    tunnelResult
		ids    []string
		dialed bool
	}
	exchange := func(sub int) outcome {
		tag := tagFor(c, sub)
		raw := build(tag)
		c.Ev("request", "raw", string(raw))
		register(c, tag, lines, func(seenRec, *backend) string { return "plugin-http_proxy-relayed-without-credentials" }, nil)
		run.Count("http_proxy_plugin_requests", 1)
		var o outcome
		if !tunnelForm {
			o.dialed = true
			o.resp = doRaw(addr, raw, s.Method, 20*time.Second)
			c.Ev("response", "status", o.resp.Status, "header", o.resp.Header, "err", fmt.Sprint(o.resp.Err))
		} else {
			conn, err := net.DialTimeout("tcp", addr, 5*time.Second)
			if err != nil {
				return o
			}
			o.dialed = true
			o.res = driveTunnel(c, conn, bufio.NewReader(conn), raw, tag, 15*time.Second)
			conn.Close()
			c.Ev("result", "res", o.res)
		}
		o.ids = judgeSeen(c, tag)
		return o
	}
	o := exchange(0)
	if !o.dialed {
		run.Inconclusive("http_proxy plugin: dial failed")
		return
	}
	if !tunnelForm {
		resp := o.resp
		if resp.Err == errTimeout {
			run.Inconclusive("http_proxy plugin: no response within 20 s")
		}
		if !has && resp.Err == nil && c.Violations() == 0 && resp.Status != 400 {
			if resp.Status != 407 || len(resp.Header.Values("Proxy-Authenticate")) == 0 {
				c.Violation("plugin-http_proxy-no-refusal", "http_proxy plugin %s: request without the credentials %v answered with status %d, Proxy-Authenticate %q (want 407)", p.ID, p.Cred, resp.Status, resp.Header.Values("Proxy-Authenticate"))
			}
			run.Count("http_proxy_plugin_refusals_checked", 1)
		}
		if s.Form == "absolute" && s.Version == "1.1" && s.Method == "GET" && canonicalProxyAuth(lines, p.Cred) {
			good := func() bool {
				return o.resp.Status == 200 && o.resp.Header.Get("X-Verif-Backend") == p.Target.ID && len(o.ids) > 0
			}
			for try := 1; try <= 2 && !good() && o.resp.Status != 407; try++ {
				time.Sleep(time.Duration(try) * 500 * time.Millisecond)
				run.Count("positive_control_retries", 1)
				o = exchange(try)
			}
			if !good() {
				c.Violation("plugin-http_proxy-exact-credentials-refused", "http_proxy plugin %s: exact credentials %v in Proxy-Authorization: status %d, backend %q, err %v", p.ID, p.Cred, o.resp.Status, o.resp.Header.Get("X-Verif-Backend"), o.resp.Err)
			}
			run.Count("http_proxy_plugin_positive_controls", 1)
		}
	} else {
		res := o.res
		if !has && c.Violations() == 0 {
			if res.Backend != "" {
				c.Violation("plugin-http_proxy-relayed-without-credentials", "http_proxy plugin %s: CONNECT without the credentials %v was relayed to %s", p.ID, p.Cred, res.Backend)
			} else if res.TimedOut {
				c.Violation("plugin-http_proxy-refused-connection-not-closed", "http_proxy plugin %s: CONNECT without the credentials %v: responses %v, connection still open after 15 s", p.ID, p.Cred, res.Statuses)
			} else if len(res.Statuses) > 0 && res.Statuses[0] != 407 && res.Statuses[0] != 400 {
				c.Violation("plugin-http_proxy-no-refusal", "http_proxy plugin %s: CONNECT without the credentials %v answered %v (want 407)", p.ID, p.Cred, res.Statuses)
			}
			run.Count("http_proxy_plugin_refusals_checked", 1)
		}
		if s.Form == "connect" && s.Version == "1.1" && canonicalProxyAuth(lines, p.Cred) {
			good := func() bool { return o.res.Backend == p.Target.ID && len(o.ids) > 0 }
			refusedAuth := func() bool { return len(o.res.Statuses) > 0 && o.res.Statuses[0] == 407 }
			for try := 1; try <= 2 && !good() && !refusedAuth(); try++ {
				time.Sleep(time.Duration(try) * 500 * time.Millisecond)
				run.Count("positive_control_retries", 1)
				o = exchange(try)
			}
			if !good() {
				c.Violation("plugin-http_proxy-exact-credentials-refused", "http_proxy plugin %s: CONNECT with the exact credentials %v: responses %v, tunnel answered by %q", p.ID, p.Cred, o.res.Statuses, o.res.Backend)
			}
			run.Count("http_proxy_plugin_positive_controls", 1)
		}
	}
	if c.Idx%1499 == 0 {
		run.Sample(map[string]any{"surface": "plugin-http_proxy", "request": string(build("tag"))})
	}
}

func genHP(rng *rand.Rand) []spec {
	var out []spec
	kinds := coreKinds
	if run.Thorough() {
		kinds = allKinds()
	}
	for _, p := range pluginsOf("http_proxy") {
		for _, f := range []string{"absolute", "connect"} {
			for _, k := range kinds {
				for _, a := range []credKind{kAbsent, kExact} {
					out = append(out, spec{HP: &hpSpec{Plugin: p.ID, Form: f, Method: "GET", Version: "1.1", A: []credKind{a}, PA: []credKind{k}, AName: "Authorization", PAName: "Proxy-Authorization"}})
				}
			}
		}
	}
	n := run.N(400, 8000)
	for i := 0; i < n; i++ {
		out = append(out, spec{HP: &hpSpec{Plugin: pick(rng, pluginsOf("http_proxy")).ID, Form: pick(rng, []string{"absolute", "absolute", "origin", "connect", "connect-lower"}),
			Method: pick(rng, []string{"GET", "GET", "HEAD", "POST"}), Version: pick(rng, []string{"1.1", "1.1", "1.0"}), A: randKinds(rng), PA: randKinds(rng), AName: pick(rng, aNames), PAName: pick(rng, paNames)}})
	}
	return out
}

// ---------------------------------------------------------------------------------------------
// socks5 (RFC 1928 / RFC 1929 by hand)

type socksSpec struct {
	Plugin  string `json:"plugin"`
	Methods []byte `json:"methods"`
	Stage   string `json:"stage"`    // normal | skip-auth | no-greeting
	AuthVer byte   `json:"auth_ver"` // version byte of the sub-negotiation (1 is the standard)
	Kind    string `json:"kind"`     // which user/password is sent
	User    string `json:"user"`
	Pass    string `json:"pass"`
	// Split > 0: every message is written in two TCP segments, cut after Split bytes, 100 ms apart.
	Split int `json:"split,omitempty"`
	// Pipelined: greeting, sub-negotiation, CONNECT request and the tagged request are written in one segment.
	Pipelined bool `json:"pipelined,omitempty"`
}

func socksCreds(kind string, f cred) (string, string) {
	o := otherOf(f)
	switch kind {
	case "exact":
		return f.User, f.Pass
	case "wrong-pw":
		return f.User, "wrong-" + f.Pass
	case "other-exact":
		return o.User, o.Pass
	case "other-user-this-pw":
		return o.User, f.Pass
	case "empty-user":
		if f.User == "" {
			return "x", f.Pass
		}
		return "", f.Pass
	case "empty-pw":
		if f.Pass == "" {
			return f.User, "x"
		}
		return f.User, ""
	case "empty-both":
		return "", ""
	case "user-case":
		return swapCase(f.User), f.Pass
	case "pw-case":
		return f.User, swapCase(f.Pass)
	case "pw-prefix":
		if f.Pass == "" {
			return f.User + "x", ""
		}
		return f.User, f.Pass[:len(f.Pass)-1]
	case "pw-suffix":
		return f.User, f.Pass + "x"
	case "pw-nul":
		return f.User, f.Pass + "\x00"
	case "long":
		return strings.Repeat("u", 255), strings.Repeat("p", 255)
	case "swapped":
		return f.Pass, f.User
	}
	return f.User, f.Pass
}

var socksKinds = []string{"exact", "wrong-pw", "other-exact", "other-user-this-pw", "empty-user", "empty-pw", "empty-both", "user-case", "pw-case", "pw-prefix", "pw-suffix", "pw-nul", "long", "swapped"}

type socksOutcome struct {
	sentAuth, authRefused, refused, closed, timedOut, dialed bool
	wrongAccepted                                            bool
	relayed                                                  string
	trace                                                    []string
}

// socksSession plays one RFC 1928 / 1929 session as described by s and reports what happened.
func socksSession(c *h.Case, s *socksSpec, p *pluginInst, tag string, exact bool) (o socksOutcome) {
	conn, err := net.DialTimeout("tcp", fmt.Sprintf("127.0.0.1:%d", p.Port), 5*time.Second)
	if err != nil {
		return o
	}
	o.dialed = true
	defer conn.Close()
	_ = conn.SetDeadline(time.Now().Add(15 * time.Second))
	br := bufio.NewReader(conn)
	note := func(f string, a ...any) {
		o.trace = append(o.trace, fmt.Sprintf(f, a...))
		c.Ev("socks", "step", fmt.Sprintf(f, a...))
	}
	readN := func(n int) ([]byte, bool) {
		buf := make([]byte, n)
		if _, err := io.ReadFull(br, buf); err != nil {
			if isTimeout(err) {
				o.timedOut = true
			} else {
				o.closed = true
			}
			return nil, false
		}
		return buf, true
	}
	send := func(b []byte) {
		if s.Split > 0 && s.Split < len(b) {
			_, _ = conn.Write(b[:s.Split])
			time.Sleep(100 * time.Millisecond)
			_, _ = conn.Write(b[s.Split:])
			return
		}
		_, _ = conn.Write(b)
	}
	connectReq := func() []byte {
		port := p.Target.Port
		return []byte{5, 1, 0, 1, 127, 0, 0, 1, byte(port >> 8), byte(port)}
	}
	authMsg := func() []byte {
		m := []byte{s.AuthVer, byte(len(s.User))}
		m = append(m, s.User...)
		m = append(m, byte(len(s.Pass)))
		return append(m, s.Pass...)
	}
	tunnel := func() {
		rep, ok := readN(10)
		if !ok {
			return
		}
		note("connect reply %v", rep)
		if rep[1] != 0 {
			o.refused = true
			return
		}
		fmt.Fprintf(conn, "GET /via-socks5 HTTP/1.1\r\nHost: tunnel.test\r\nX-Verif-Tag: %s\r\nConnection: close\r\n\r\n", tag)
		line, err := br.ReadString('\n')
		if err == nil && strings.HasPrefix(line, "HTTP/1.1 200") {
			o.relayed = p.Target.ID
		}
		note("tunnel answer %q", strings.TrimSpace(line))
	}
	func() {
		if s.Stage == "no-greeting" {
			_, _ = conn.Write(connectReq())
			if sel, ok := readN(2); ok {
				note("answer to a request without greeting: %v", sel)
			}
			return
		}
		if s.Pipelined {
			// everything at once; the sub-negotiation bytes are on the wire whatever the server selects
			all := append([]byte{5, byte(len(s.Methods))}, s.Methods...)
			all = append(all, authMsg()...)
			all = append(all, connectReq()...)
			all = append(all, []byte(fmt.Sprintf("GET /via-socks5 HTTP/1.1\r\nHost: tunnel.test\r\nX-Verif-Tag: %s\r\nConnection: close\r\n\r\n", tag))...)
			o.sentAuth = true
			send(all)
			sel, ok := readN(2)
			if !ok {
				return
			}
			note("pipelined: method selection %v", sel)
			if sel[1] != 0x02 {
				o.refused = sel[1] == 0xff
				if sel[1] == 0x00 {
					// the server skipped authentication: whatever follows is parsed as a request
					rest, _ := io.ReadAll(io.LimitReader(br, 4096))
					note("pipelined: after no-auth selection: %q", rest)
					if bytes.Contains(rest, []byte("HTTP/1.1 200")) {
						o.relayed = p.Target.ID
					}
				}
				return
			}
			st, ok := readN(2)
			if !ok {
				return
			}
			note("pipelined: auth status %v", st)
			if st[1] != 0 {
				o.refused, o.authRefused = true, true
				return
			}
			if !exact {
				o.wrongAccepted = true
			}
			rep, ok := readN(10)
			if !ok {
				return
			}
			note("pipelined: connect reply %v", rep)
			if rep[1] != 0 {
				o.refused = true
				return
			}
			line, err := br.ReadString('\n')
			if err == nil && strings.HasPrefix(line, "HTTP/1.1 200") {
				o.relayed = p.Target.ID
			}
			note("pipelined: tunnel answer %q", strings.TrimSpace(line))
			return
		}
		send(append([]byte{5, byte(len(s.Methods))}, s.Methods...))
		sel, ok := readN(2)
		if !ok {
			return
		}
		note("method selection %v", sel)
		switch sel[1] {
		case 0xff:
			o.refused = true
		case 0x00: // "no authentication required" selected
			_, _ = conn.Write(connectReq())
			tunnel()
		case 0x02:
			if s.Stage == "skip-auth" {
				_, _ = conn.Write(connectReq())
				tunnel()
				return
			}
			o.sentAuth = true
			send(authMsg())
			st, ok := readN(2)
			if !ok {
				return
			}
			note("auth status %v", st)
			if st[1] != 0 {
				o.refused, o.authRefused = true, true
				return
			}
			if !exact {
				o.wrongAccepted = true
			}
			send(connectReq())
			tunnel()
		default:
			o.refused = true
		}
	}()
	if o.refused && !o.closed {
		// a refusing server must close: wait for EOF
		if _, err := br.ReadByte(); err != nil {
			if isTimeout(err) {
				o.timedOut = true
			} else {
				o.closed = true
			}
		}
	}
	return o
}

func runSocks(c *h.Case, s *socksSpec) {
	p := pluginByID(s.Plugin)
	exact := s.User == p.Cred.User && s.Pass == p.Cred.Pass
	run.Distinct(fmt.Sprintf("socks|%s|%v|%s|%d|%s|%d|%v", s.Plugin, s.Methods, s.Stage, s.AuthVer, s.Kind, s.Split, s.Pipelined))
	exchange := func(sub int) socksOutcome {
		tag := tagFor(c, sub)
		sent := new(bool)
		register(c, tag, nil, func(seenRec, *backend) string { return "plugin-socks5-relayed-without-credentials" },
			func(cr cred) bool { return *sent && s.User == cr.User && s.Pass == cr.Pass })
		run.Count("socks5_plugin_sessions", 1)
		// the sub-negotiation is only reached when the server selects method 2; until the session reports otherwise
		// nothing was presented
		o := socksSession(c, s, p, tag, exact)
		*sent = o.sentAuth
		judgeSeen(c, tag)
		return o
	}
	o := exchange(0)
	if !o.dialed {
		run.Inconclusive("socks5 plugin: dial failed")
		return
	}
	if o.wrongAccepted {
		c.Violation("plugin-socks5-wrong-credentials-accepted", "socks5 plugin %s (configured %v): sub-negotiation with user %q password %q (version byte %d) was answered with success", p.ID, p.Cred, s.User, s.Pass, s.AuthVer)
	}
	presented := o.sentAuth && exact
	if !presented && c.Violations() == 0 {
		if o.relayed != "" {
			c.Violation("plugin-socks5-relayed-without-credentials", "socks5 plugin %s: session %v was relayed without the credentials %v", p.ID, o.trace, p.Cred)
		} else if o.timedOut {
			c.Violation("plugin-socks5-refused-connection-not-closed", "socks5 plugin %s: session %v without the credentials %v: connection still open after 15 s", p.ID, o.trace, p.Cred)
		}
		run.Count("socks5_plugin_refusals_checked", 1)
	}
	if exact && s.AuthVer == 1 && s.Stage == "normal" && len(s.Methods) == 1 && s.Methods[0] == 2 && !s.Pipelined {
		for try := 1; try <= 2 && o.relayed == "" && !o.authRefused; try++ {
			time.Sleep(time.Duration(try) * 500 * time.Millisecond)
			run.Count("positive_control_retries", 1)
			o = exchange(try)
		}
		if o.relayed == "" {
			c.Violation("plugin-socks5-exact-credentials-refused", "socks5 plugin %s: exact credentials %v were not relayed: %v", p.ID, p.Cred, o.trace)
		}
		run.Count("socks5_plugin_positive_controls", 1)
	}
	if c.Idx%1201 == 0 {
		run.Sample(map[string]any{"surface": "plugin-socks5", "spec": s, "trace": o.trace})
	}
}

func genSocks(rng *rand.Rand) []spec {
	var out []spec
	methodSets := [][]byte{{2}, {0}, {0, 2}, {2, 0}, {}, {1}, {0x80, 0}, {0, 0, 0}, {2, 2}}
	for _, p := range pluginsOf("socks5") {
		for _, k := range socksKinds {
			u, pw := socksCreds(k, p.Cred)
			out = append(out, spec{Socks: &socksSpec{Plugin: p.ID, Methods: []byte{2}, Stage: "normal", AuthVer: 1, Kind: k, User: u, Pass: pw}})
		}
		for _, ms := range methodSets {
			u, pw := socksCreds("wrong-pw", p.Cred)
			out = append(out, spec{Socks: &socksSpec{Plugin: p.ID, Methods: ms, Stage: "normal", AuthVer: 1, Kind: "wrong-pw", User: u, Pass: pw}})
			out = append(out, spec{Socks: &socksSpec{Plugin: p.ID, Methods: ms, Stage: "skip-auth", AuthVer: 1, Kind: "none", User: "", Pass: "\x01"}})
		}
		out = append(out, spec{Socks: &socksSpec{Plugin: p.ID, Methods: nil, Stage: "no-greeting", AuthVer: 1, Kind: "none", User: "", Pass: "\x01"}})
		// split and pipelined messages
		for _, k := range []string{"exact", "wrong-pw", "empty-pw", "other-exact"} {
			u, pw := socksCreds(k, p.Cred)
			for split := 1; split <= 4; split++ {
				out = append(out, spec{Socks: &socksSpec{Plugin: p.ID, Methods: []byte{2}, Stage: "normal", AuthVer: 1, Kind: k, User: u, Pass: pw, Split: split}})
			}
			for _, ms := range [][]byte{{2}, {0, 2}, {0}} {
				out = append(out, spec{Socks: &socksSpec{Plugin: p.ID, Methods: ms, Stage: "normal", AuthVer: 1, Kind: k, User: u, Pass: pw, Pipelined: true}})
			}
		}
	}
	n := run.N(300, 8000)
	for i := 0; i < n; i++ {
		p := pick(rng, pluginsOf("socks5"))
		k := pick(rng, socksKinds)
		u, pw := socksCreds(k, p.Cred)
		out = append(out, spec{Socks: &socksSpec{Plugin: p.ID, Methods: pick(rng, methodSets), Stage: pick(rng, []string{"normal", "normal", "normal", "skip-auth"}),
			AuthVer: pick(rng, []byte{1, 1, 1, 5, 0}), Kind: k, User: u, Pass: pw}})
	}
	return out
}

// ---------------------------------------------------------------------------------------------
// static_file

type staticSpec struct {
	Plugin  string     `json:"plugin"`
	Path    string     `json:"path"`
	Exists  bool       `json:"exists"` // the path names a file or directory the plugin would serve to GET
	Form    string     `json:"form"`   // origin | absolute
	Method  string     `json:"method"`
	Version string     `json:"version"`
	A       []credKind `json:"authorization"`
	PA      []credKind `json:"proxy_authorization"`
	AName   string     `json:"authorization_name"`
	PAName  string     `json:"proxy_authorization_name"`
}

func runStatic(c *h.Case, s *staticSpec) {
	p := pluginByID(s.Plugin)
	lines := append(authLines(s.AName, s.A, p.Cred, otherOf(p.Cred)), authLines(s.PAName, s.PA, p.Cred, otherOf(p.Cred))...)
	var b bytes.Buffer
	if s.Form == "absolute" {
		fmt.Fprintf(&b, "%s http://files.test%s HTTP/%s\r\nHost: files.test\r\n", s.Method, s.Path, s.Version)
	} else {
		fmt.Fprintf(&b, "%s %s HTTP/%s\r\nHost: files.test\r\n", s.Method, s.Path, s.Version)
	}
	for _, l := range lines {
		fmt.Fprintf(&b, "%s: %s\r\n", l.Name, l.Value)
	}
	b.WriteString("Connection: close\r\n\r\n")
	c.Ev("request", "raw", b.String())
	var resp rawResp
	exchange := func() {
		resp = doRaw(fmt.Sprintf("127.0.0.1:%d", p.Port), b.Bytes(), s.Method, 20*time.Second)
		c.Ev("response", "status", resp.Status, "header", resp.Header, "err", fmt.Sprint(resp.Err), "body", string(resp.Body))
		run.Count("static_file_plugin_requests", 1)
	}
	exchange()
	if resp.Err == errTimeout {
		run.Inconclusive("static_file plugin: no response within 20 s")
	}
	has := carries(lines, p.Cred)
	leakedOf := func(r rawResp) bool {
		return bytes.Contains(r.Body, []byte(staticMarker)) || bytes.Contains(r.Body, []byte(`href="secret.txt"`)) || bytes.Contains(r.Body, []byte(`href="deep.txt"`)) || bytes.Contains(r.Body, []byte(`href="sub/"`))
	}
	leaked := leakedOf(resp)
	if !has && resp.Err == nil {
		if leaked || (resp.Status >= 200 && resp.Status < 300) {
			c.Violation("plugin-static_file-served-without-credentials", "static_file plugin %s: %s %s without the credentials %v was served: status %d, body %q", p.ID, s.Method, s.Path, p.Cred, resp.Status, resp.Body)
		} else if s.Exists && s.Method == "GET" && resp.Status != 400 && (resp.Status != 401 || !hasBasicChallenge(resp.Header, "Www-Authenticate")) {
			c.Violation("plugin-static_file-no-challenge", "static_file plugin %s: GET %s without the credentials %v answered with status %d, WWW-Authenticate %q (want a 401 challenge)", p.ID, s.Path, p.Cred, resp.Status, resp.Header.Values("Www-Authenticate"))
		}
		run.Count("static_file_plugin_refusals_checked", 1)
	}
	if s.Exists && s.Method == "GET" && s.Form == "origin" && s.Version == "1.1" && canonicalAuth(lines, p.Cred) {
		for try := 1; try <= 2 && resp.Status != 200 && resp.Status != 401; try++ {
			time.Sleep(time.Duration(try) * 500 * time.Millisecond)
			run.Count("positive_control_retries", 1)
			exchange()
		}
		if resp.Status != 200 || !leakedOf(resp) {
			c.Violation("plugin-static_file-exact-credentials-refused", "static_file plugin %s: GET %s with the exact credentials %v: status %d body %q err %v", p.ID, s.Path, p.Cred, resp.Status, resp.Body, resp.Err)
		}
		run.Count("static_file_plugin_positive_controls", 1)
	}
	run.Distinct(fmt.Sprintf("static|%s|%s|%s|%s|%s|A=%s/%s|PA=%s/%s", s.Plugin, s.Path, s.Form, s.Method, s.Version, kindsSig(s.A), s.AName, kindsSig(s.PA), s.PAName))
	if c.Idx%1301 == 0 {
		run.Sample(map[string]any{"surface": "plugin-static_file", "request": b.String(), "status": resp.Status})
	}
}

type staticPath struct {
	p      string
	exists bool
}

func staticPaths(p *pluginInst) []staticPath {
	if strings.HasSuffix(p.ID, "-strip") {
		return []staticPath{{"/files/secret.txt", true}, {"/files/", true}, {"/files/sub/deep.txt", true}, {"/secret.txt", false}, {"/files/../files/secret.txt", false}, {"/files//secret.txt", false}, {"/files", false}}
	}
	return []staticPath{{"/secret.txt", true}, {"/", true}, {"/sub/", true}, {"/sub/deep.txt", true}, {"/sub/../secret.txt", false}, {"//secret.txt", false}, {"/secret.txt?x=1", true}, {"/%73ecret.txt", true}, {"/nonexistent", false}}
}

func genStatic(rng *rand.Rand) []spec {
	var out []spec
	kinds := coreKinds
	if run.Thorough() {
		kinds = allKinds()
	}
	for _, p := range pluginsOf("static_file") {
		for _, sp := range staticPaths(p)[:2] {
			for _, a := range kinds {
				for _, pa := range []credKind{kAbsent, kExact} {
					out = append(out, spec{Static: &staticSpec{Plugin: p.ID, Path: sp.p, Exists: sp.exists, Form: "origin", Method: "GET", Version: "1.1", A: []credKind{a}, PA: []credKind{pa}, AName: "Authorization", PAName: "Proxy-Authorization"}})
				}
			}
		}
	}
	n := run.N(400, 8000)
	for i := 0; i < n; i++ {
		p := pick(rng, pluginsOf("static_file"))
		sp := pick(rng, staticPaths(p))
		out = append(out, spec{Static: &staticSpec{Plugin: p.ID, Path: sp.p, Exists: sp.exists, Form: pick(rng, []string{"origin", "origin", "absolute"}), Method: pick(rng, []string{"GET", "GET", "GET", "HEAD", "POST"}),
			Version: pick(rng, []string{"1.1", "1.1", "1.0"}), A: randKinds(rng), PA: randKinds(rng), AName: pick(rng, aNames), PAName: pick(rng, paNames)}})
	}
	return out
}
