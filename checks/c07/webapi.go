package main

// Monitor 4: the frps dashboard and frpc admin web servers — every registered route, and path /
// method mutations of them, with every credential variant.

import (
	"bytes"
	"fmt"
	"math/rand"
	"strings"
	"time"

	"verif/h"
)

type webRoute struct {
	Method string
	Path   string
	// Known: a registered (method, path) behind the authentication middleware.
	Known bool
	// Dangerous: never sent with acceptable credentials (would stop / rewrite the client under test).
	Dangerous bool
	Body      string
}

func webRoutes(kind string) []webRoute {
	common := []webRoute{
		{Method: "GET", Path: "/", Known: true},
		{Method: "GET", Path: "/favicon.ico", Known: true},
		{Method: "GET", Path: "/static/", Known: true},
		{Method: "GET", Path: "/static/index.html", Known: true},
		{Method: "HEAD", Path: "/", Known: true},
		{Method: "POST", Path: "/", Known: true},
		// mutations: never to be answered with content
		{Method: "GET", Path: "//static/index.html"},
		{Method: "GET", Path: "/static/../static/index.html"},
		{Method: "GET", Path: "/static/./index.html"},
		{Method: "GET", Path: "/STATIC/index.html"},
		{Method: "GET", Path: "/static%2findex.html"},
		{Method: "GET", Path: "/healthz/../static/index.html"},
		{Method: "GET", Path: "/healthz/../api/status"},
		{Method: "GET", Path: "/healthz/../api/serverinfo"},
	}
	if kind == "frps" {
		return append(common,
			webRoute{Method: "GET", Path: "/api/serverinfo", Known: true},
			webRoute{Method: "GET", Path: "/api/proxy/tcp", Known: true},
			webRoute{Method: "GET", Path: "/api/proxy/http", Known: true},
			webRoute{Method: "GET", Path: "/api/proxy/http/t1.p", Known: true},
			webRoute{Method: "GET", Path: "/api/proxy/tcpmux/m1.pa", Known: true},
			webRoute{Method: "GET", Path: "/api/traffic/t1.p", Known: true},
			webRoute{Method: "DELETE", Path: "/api/proxies?status=offline", Known: true},
			webRoute{Method: "GET", Path: "/metrics", Known: true},
			webRoute{Method: "GET", Path: "/api/serverinfo?x=/healthz", Known: true},
			webRoute{Method: "GET", Path: "//api/serverinfo"},
			webRoute{Method: "GET", Path: "/api/serverinfo/"},
			webRoute{Method: "GET", Path: "/api/./serverinfo"},
			webRoute{Method: "GET", Path: "/API/serverinfo"},
			webRoute{Method: "POST", Path: "/api/serverinfo"},
			webRoute{Method: "HEAD", Path: "/api/serverinfo"},
			webRoute{Method: "GET", Path: "/api/proxies"},
			webRoute{Method: "GET", Path: "/api/%73erverinfo"},
		)
	}
	return append(common,
		webRoute{Method: "GET", Path: "/api/status", Known: true},
		webRoute{Method: "GET", Path: "/api/config", Known: true},
		webRoute{Method: "GET", Path: "/api/reload", Known: true, Dangerous: true},
		webRoute{Method: "GET", Path: "/api/reload?strictConfig=true", Known: true, Dangerous: true},
		webRoute{Method: "POST", Path: "/api/stop", Known: true, Dangerous: true},
		webRoute{Method: "PUT", Path: "/api/config", Known: true, Dangerous: true, Body: "serverAddr = \"127.0.0.1\"\n"},
		webRoute{Method: "GET", Path: "//api/status"},
		webRoute{Method: "GET", Path: "/api/status/"},
		webRoute{Method: "GET", Path: "/api/../api/status"},
		webRoute{Method: "POST", Path: "/api/status"},
		webRoute{Method: "GET", Path: "/api/stop", Dangerous: true},
		webRoute{Method: "POST", Path: "//api/stop", Dangerous: true},
		webRoute{Method: "GET", Path: "/api/%73tatus"},
	)
}

type webSpec struct {
	API       string     `json:"api"`
	Method    string     `json:"method"`
	Path      string     `json:"path"`
	Known     bool       `json:"known"`
	Dangerous bool       `json:"dangerous"`
	Body      string     `json:"body,omitempty"`
	Form      string     `json:"form"` // origin | absolute
	Version   string     `json:"version"`
	A         []credKind `json:"authorization"`
	PA        []credKind `json:"proxy_authorization"`
	AName     string     `json:"authorization_name"`
	PAName    string     `json:"proxy_authorization_name"`
}

func apiByID(id string) *webAPI {
	for _, w := range webAPIs {
		if w.ID == id {
			return w
		}
	}
	return nil
}

func (s *webSpec) lines(w *webAPI) []hdrLine {
	o := otherOf(w.Cred)
	return append(authLines(s.AName, s.A, w.Cred, o), authLines(s.PAName, s.PA, w.Cred, o)...)
}

func runWeb(c *h.Case, s *webSpec) {
	w := apiByID(s.API)
	lines := s.lines(w)
	has := carries(lines, w.Cred)
	if has && s.Dangerous {
		// the generator avoids this; a replayed / sampled shape that would carry credentials is skipped
		run.Count("web_dangerous_shapes_skipped", 1)
		return
	}
	var b bytes.Buffer
	if s.Form == "absolute" {
		fmt.Fprintf(&b, "%s http://%s%s HTTP/%s\r\nHost: %s\r\n", s.Method, w.Addr, s.Path, s.Version, w.Addr)
	} else {
		fmt.Fprintf(&b, "%s %s HTTP/%s\r\nHost: %s\r\n", s.Method, s.Path, s.Version, w.Addr)
	}
	for _, l := range lines {
		fmt.Fprintf(&b, "%s: %s\r\n", l.Name, l.Value)
	}
	b.WriteString("Connection: close\r\n")
	if s.Body != "" {
		fmt.Fprintf(&b, "Content-Length: %d\r\n\r\n%s", len(s.Body), s.Body)
	} else {
		b.WriteString("\r\n")
	}
	c.Ev("request", "raw", b.String())
	resp := doRaw(w.Addr, b.Bytes(), s.Method, 20*time.Second)
	c.Ev("response", "status", resp.Status, "header", resp.Header, "err", fmt.Sprint(resp.Err), "body", string(resp.Body))
	run.Count("web_api_requests", 1)
	if resp.Err != nil {
		if resp.Err == errTimeout {
			run.Inconclusive("web api: no response within 20 s")
		} else {
			run.Inconclusive("web api: unreachable")
		}
		return
	}
	surface := "frps-dashboard"
	if w.Kind == "frpc" {
		surface = "frpc-admin"
	}
	content := resp.Status >= 200 && resp.Status < 300 || bytes.Contains(resp.Body, []byte(assetMarker)) || bytes.Contains(resp.Body, []byte(`"version"`)) || bytes.Contains(resp.Body, []byte("frp_server_"))
	if !has {
		switch {
		case content:
			c.Violation(surface+"-served-without-credentials", "%s %s: %s %s without the credentials %v was served: status %d, body %.200q", surface, w.ID, s.Method, s.Path, w.Cred, resp.Status, resp.Body)
		case s.Known && resp.Status == 301 && s.Path == "/":
			c.Violation(surface+"-served-without-credentials", "%s %s: %s / without the credentials %v was answered by the handler behind the authentication (redirect to %q)", surface, w.ID, s.Method, w.Cred, resp.Header.Get("Location"))
		case s.Known && resp.Status != 400 && (resp.Status != 401 || !hasBasicChallenge(resp.Header, "Www-Authenticate")):
			c.Violation(surface+"-no-challenge", "%s %s: %s %s without the credentials %v answered with status %d, WWW-Authenticate %q (want a 401 challenge)", surface, w.ID, s.Method, s.Path, w.Cred, resp.Status, resp.Header.Values("Www-Authenticate"))
		}
		run.Count("web_api_refusals_checked", 1)
	}
	if s.Known && !s.Dangerous && s.Form == "origin" && s.Version == "1.1" && canonicalAuth(lines, w.Cred) {
		if resp.Status == 401 || resp.Status == 403 {
			c.Violation(surface+"-exact-credentials-refused", "%s %s: %s %s with the exact credentials %v answered %d", surface, w.ID, s.Method, s.Path, w.Cred, resp.Status)
		}
		run.Count("web_api_positive_controls", 1)
	}
	run.Distinct(fmt.Sprintf("web|%s|%s|%s|%s|%s|A=%s/%s|PA=%s/%s", s.API, s.Method, s.Path, s.Form, s.Version, kindsSig(s.A), s.AName, kindsSig(s.PA), s.PAName))
	if c.Idx%1103 == 0 {
		run.Sample(map[string]any{"surface": surface, "request": strings.SplitN(b.String(), "\r\n", 2)[0], "status": resp.Status})
	}
}

// safeKinds replaces variants that carry the exact credentials for routes that must not be executed.
func safeKinds(ks []credKind, dangerous bool) []credKind {
	if !dangerous {
		return ks
	}
	out := make([]credKind, len(ks))
	for i, k := range ks {
		switch k {
		case kExact, kSchemeLower, kSchemeUpper, kSchemeBearer, kDoubleSpace, kRawB64, kTab, kURLB64, kExactTrailing:
			out[i] = kWrongPw
		default:
			out[i] = k
		}
	}
	return out
}

func genWeb(rng *rand.Rand) []spec {
	var out []spec
	kinds := coreKinds
	if run.Thorough() {
		kinds = allKinds()
	}
	for _, w := range webAPIs {
		for _, r := range webRoutes(w.Kind) {
			ks := kinds
			if !r.Known && !run.Thorough() {
				ks = []credKind{kAbsent, kWrongPw, kEmptyPw}
			}
			for _, a := range ks {
				for _, pa := range []credKind{kAbsent, kExact} {
					if pa == kExact && !(a == kAbsent || a == kWrongPw) {
						continue
					}
					out = append(out, spec{Web: &webSpec{API: w.ID, Method: r.Method, Path: r.Path, Known: r.Known, Dangerous: r.Dangerous, Body: r.Body, Form: "origin", Version: "1.1",
						A: safeKinds([]credKind{a}, r.Dangerous), PA: safeKinds([]credKind{pa}, r.Dangerous), AName: "Authorization", PAName: "Proxy-Authorization"}})
				}
			}
		}
	}
	n := run.N(400, 10000)
	for i := 0; i < n; i++ {
		w := pick(rng, webAPIs)
		r := pick(rng, webRoutes(w.Kind))
		out = append(out, spec{Web: &webSpec{API: w.ID, Method: r.Method, Path: r.Path, Known: r.Known, Dangerous: r.Dangerous, Body: r.Body, Form: pick(rng, []string{"origin", "origin", "absolute"}),
			Version: pick(rng, []string{"1.1", "1.1", "1.0"}), A: safeKinds(randKinds(rng), r.Dangerous), PA: safeKinds(randKinds(rng), r.Dangerous), AName: pick(rng, aNames), PAName: pick(rng, paNames)}})
	}
	return out
}
