package main

// Monitor 7 (reload family): the credentials in force are those of the CURRENT configuration.
//
// A dedicated real frpc per case runs one tcp proxy with a credential-carrying plugin (static_file,
// http_proxy, socks5) configured with credentials A. A user connection is opened before the reload
// (used = already served a request with A / idle = nothing sent yet / greeted = socks5 method selected),
// then the client is reloaded (Service.UpdateAllConfigurer, what `frpc reload` and /api/reload do) to
// credentials B (password changed, or credentials added where there were none). Once the new registration
// runs and a fresh connection is served with B: A must be refused on fresh connections, and on the OLD
// connection a request presenting A (or nothing) must not be served / relayed — a closed connection or a
// 401 / 407 are both fine.

import (
	"bufio"
	"bytes"
	"fmt"
	"io"
	"math/rand"
	"net"
	"net/http"
	"strings"
	"time"

	"verif/h"
)

type reloadSpec struct {
	Kind    string `json:"kind"`    // static_file | http_proxy | socks5
	Variant string `json:"variant"` // password-changed | credentials-added
	// State of the old connection at reload time: used | idle | greeted (socks5: method 2 selected, sub-negotiation not yet sent)
	State string `json:"state"`
	// After: what is sent on the old connection after the reload: get | connect (http_proxy) | session (socks5)
	After string `json:"after"`
}

var (
	reloadPorts  chan int
	reloadTarget *backend
)

func setupReload(pa *h.PortAlloc, ports []int) {
	reloadPorts = make(chan int, len(ports))
	for _, p := range ports {
		reloadPorts <- p
	}
	// the target behind the http_proxy / socks5 plugins of this family; the credentials in front of it change
	// during a case, so every tag registers its own notion of "presented" (see register's last argument)
	reloadTarget = newBackend(pa, "behind.reload", "plugin-reload", cred{"(current)", "(current)"})
}

func reloadKey(kind string, fresh bool) string {
	k := map[string]string{
		"static_file": "plugin-static_file-served-replaced-credentials-after-reload",
		"http_proxy":  "plugin-http_proxy-relayed-replaced-credentials-after-reload",
		"socks5":      "plugin-socks5-relayed-replaced-credentials-after-reload",
	}[kind]
	if fresh {
		k += "-on-fresh-connection"
	}
	return k
}

func paLine(c cred) []hdrLine {
	if !c.protected() {
		return nil
	}
	return []hdrLine{{"Proxy-Authorization", "Basic " + b64(c.User+":"+c.Pass)}}
}

func aLine(c cred) []hdrLine {
	if !c.protected() {
		return nil
	}
	return []hdrLine{{"Authorization", "Basic " + b64(c.User+":"+c.Pass)}}
}

// reloadProbe is one request on a given connection; it reports whether it was served / relayed.
type reloadProbe struct {
	served bool
	status int
	detail string
	closed bool
}

func httpOnConn(conn net.Conn, br *bufio.Reader, raw []byte, method string, timeout time.Duration) (int, http.Header, []byte, error) {
	_ = conn.SetDeadline(time.Now().Add(timeout))
	if _, err := conn.Write(raw); err != nil {
		return 0, nil, nil, err
	}
	resp, err := http.ReadResponse(br, &http.Request{Method: method})
	if err != nil {
		return 0, nil, nil, err
	}
	if method == "CONNECT" && resp.StatusCode/100 == 2 {
		return resp.StatusCode, resp.Header, nil, nil
	}
	body, _ := io.ReadAll(io.LimitReader(resp.Body, 1<<20))
	resp.Body.Close()
	return resp.StatusCode, resp.Header, body, nil
}

func runReload(c *h.Case, s *reloadSpec) {
	port := <-reloadPorts
	defer func() { reloadPorts <- port }()
	credA, credB := alice, alice2
	if s.Variant == "credentials-added" {
		credA = cred{}
	}
	name := fmt.Sprintf("rl%d", c.Idx)
	cfgText := func(cr cred) string {
		return clientHead(envA.BindPort) + pluginTOML(&pluginInst{ID: name, Kind: s.Kind, Cred: cr, Port: port})
	}
	cli, err := h.StartClientText(prop, cfgText(credA))
	if err != nil {
		run.Inconclusive("reload family: client did not start")
		return
	}
	defer cli.Close()
	pname := "plug." + name
	addr := fmt.Sprintf("127.0.0.1:%d", port)
	if err := cli.WaitRunning(20*time.Second, pname); err != nil || h.WaitTCP(addr, 5*time.Second) != nil {
		run.Inconclusive("reload family: proxy not running")
		return
	}
	current := credA // credentials in force (changed by the reload below)
	sub := 0
	taddr := fmt.Sprintf("127.0.0.1:%d", reloadTarget.Port)

	// probe sends one request presenting `with` on conn (nil = fresh connection) and reports whether it was served.
	probe := func(conn net.Conn, br *bufio.Reader, with cred, after string, fresh bool) reloadProbe {
		sub++
		tag := tagFor(c, sub)
		inForce := current
		presents := with == inForce
		register(c, tag, nil, func(seenRec, *backend) string { return reloadKey(s.Kind, fresh) }, func(cred) bool { return presents })
		own := conn == nil
		if own {
			var err error
			conn, err = net.DialTimeout("tcp", addr, 5*time.Second)
			if err != nil {
				return reloadProbe{detail: "dial: " + err.Error(), closed: true}
			}
			defer conn.Close()
			br = bufio.NewReader(conn)
		}
		var p reloadProbe
		switch s.Kind {
		case "static_file":
			var b bytes.Buffer
			b.WriteString("GET /secret.txt HTTP/1.1\r\nHost: files.test\r\n")
			for _, l := range aLine(with) {
				fmt.Fprintf(&b, "%s: %s\r\n", l.Name, l.Value)
			}
			b.WriteString("\r\n")
			st, _, body, err := httpOnConn(conn, br, b.Bytes(), "GET", 10*time.Second)
			if err != nil {
				p.closed, p.detail = true, err.Error()
				break
			}
			p.status = st
			p.served = st/100 == 2 || bytes.Contains(body, []byte(staticMarker))
			p.detail = fmt.Sprintf("status %d body %.60q", st, body)
		case "http_proxy":
			var b bytes.Buffer
			if after == "connect" {
				fmt.Fprintf(&b, "CONNECT %s HTTP/1.1\r\nHost: %s\r\n", taddr, taddr)
			} else {
				fmt.Fprintf(&b, "GET http://%s/reload HTTP/1.1\r\nHost: %s\r\nX-Verif-Tag: %s\r\n", taddr, taddr, tag)
			}
			for _, l := range paLine(with) {
				fmt.Fprintf(&b, "%s: %s\r\n", l.Name, l.Value)
			}
			b.WriteString("\r\n")
			m := "GET"
			if after == "connect" {
				m = "CONNECT"
			}
			st, hd, _, err := httpOnConn(conn, br, b.Bytes(), m, 10*time.Second)
			if err != nil {
				p.closed, p.detail = true, err.Error()
				break
			}
			p.status = st
			p.detail = fmt.Sprintf("status %d", st)
			if after == "connect" && st/100 == 2 {
				st2, hd2, _, err := httpOnConn(conn, br, tunnelGet(tag), "GET", 5*time.Second)
				p.detail += fmt.Sprintf(", through the tunnel: status %d err %v", st2, err)
				p.served = err == nil && hd2.Get("X-Verif-Backend") != ""
			} else {
				p.served = hd.Get("X-Verif-Backend") != ""
			}
		case "socks5":
			_ = conn.SetDeadline(time.Now().Add(10 * time.Second))
			rd := func(n int) []byte {
				buf := make([]byte, n)
				if _, err := io.ReadFull(br, buf); err != nil {
					p.closed = true
					return nil
				}
				return buf
			}
			needAuth := true
			if after != "auth-only" { // "auth-only": the greeting was exchanged before the reload
				_, _ = conn.Write([]byte{5, 2, 0, 2})
				sel := rd(2)
				if sel == nil {
					p.detail = "closed at the greeting"
					break
				}
				p.detail = fmt.Sprintf("method %d", sel[1])
				if sel[1] == 0xff {
					break
				}
				needAuth = sel[1] != 0
			}
			if needAuth {
				m := []byte{1, byte(len(with.User))}
				m = append(m, with.User...)
				m = append(m, byte(len(with.Pass)))
				m = append(m, with.Pass...)
				_, _ = conn.Write(m)
				st := rd(2)
				if st == nil {
					p.detail += ", closed at the sub-negotiation"
					break
				}
				p.detail += fmt.Sprintf(", auth status %d", st[1])
				if st[1] != 0 {
					break
				}
			}
			_, _ = conn.Write([]byte{5, 1, 0, 1, 127, 0, 0, 1, byte(reloadTarget.Port >> 8), byte(reloadTarget.Port)})
			if rep := rd(10); rep == nil || rep[1] != 0 {
				p.detail += ", connect refused"
				break
			}
			_, _ = conn.Write(tunnelGet(tag))
			line, err := br.ReadString('\n')
			p.served = err == nil && strings.HasPrefix(line, "HTTP/1.1 200")
			p.detail += fmt.Sprintf(", tunnel answer %q", strings.TrimSpace(line))
		}
		c.Ev("probe", "fresh", own, "with", with.String(), "in_force", inForce.String(), "served", p.served, "closed", p.closed, "detail", p.detail)
		judgeSeen(c, tag)
		return p
	}

	// ---- before the reload: the old connection
	old, err := net.DialTimeout("tcp", addr, 5*time.Second)
	if err != nil {
		run.Inconclusive("reload family: dial failed")
		return
	}
	defer old.Close()
	oldBr := bufio.NewReader(old)
	switch s.State {
	case "used":
		if p := probe(old, oldBr, credA, "get", false); !p.served {
			run.Inconclusive("reload family: the connection was not served before the reload")
			return
		}
		run.Count("reload_old_connection_served_before_reload", 1)
	case "greeted":
		_ = old.SetDeadline(time.Now().Add(10 * time.Second))
		_, _ = old.Write([]byte{5, 1, 2})
		sel := make([]byte, 2)
		if _, err := io.ReadFull(oldBr, sel); err != nil || sel[1] != 2 {
			if s.Variant == "credentials-added" {
				run.Count("reload_cases_not_applicable", 1) // no credentials yet: method 2 is not on offer
			} else {
				run.Inconclusive("reload family: socks5 greeting failed before the reload")
			}
			return
		}
	default: // idle: give the connection time to reach the plugin (frps -> work connection -> Handle)
		time.Sleep(300 * time.Millisecond)
	}

	// ---- reload to B
	_, ps, vs, err := h.LoadClientConfig(prop, cfgText(credB))
	if err != nil {
		run.Inconclusive("reload family: new configuration does not load")
		return
	}
	if err := cli.Svc.UpdateAllConfigurer(ps, vs); err != nil {
		run.Inconclusive("reload family: UpdateAllConfigurer failed")
		return
	}
	current = credB
	c.Ev("reloaded", "from", credA.String(), "to", credB.String())
	okB := h.Eventually(20*time.Second, func() bool {
		if cli.ProxyPhase(pname) != "running" {
			return false
		}
		return probe(nil, nil, credB, "get", true).served
	})
	if !okB {
		run.Inconclusive("reload family: the new configuration never served its own credentials")
		return
	}
	run.Count("reload_new_credentials_served", 1)

	// ---- after the reload: fresh connections refuse A
	if p := probe(nil, nil, credA, "get", true); p.served {
		c.Violation(reloadKey(s.Kind, true), "%s plugin reloaded from %v to %v: a fresh connection presenting the replaced credentials was served (%s)", s.Kind, credA, credB, p.detail)
	}
	// ---- and the connection from before the reload must not be served with A either
	after := s.After
	if s.State == "greeted" {
		after = "auth-only"
	}
	p := probe(old, oldBr, credA, after, false)
	if p.served && c.Violations() == 0 {
		c.Violation(reloadKey(s.Kind, false), "%s plugin reloaded from %v to %v: on the connection opened before the reload (%s) a request presenting the replaced credentials was served (%s)",
			s.Kind, credA, credB, s.State, p.detail)
	}
	if p.closed {
		run.Count("reload_old_connection_closed", 1)
	} else if !p.served {
		run.Count("reload_old_connection_refused", 1)
	}
	run.Count("reload_cases", 1)
	run.Distinct(fmt.Sprintf("reload|%s|%s|%s|%s", s.Kind, s.Variant, s.State, s.After))
	run.Sample(map[string]any{"surface": "plugin-reload", "spec": s, "old_connection": p.detail, "closed": p.closed})
}

func genReload(rng *rand.Rand) []spec {
	var out []spec
	reps := run.N(1, 6)
	for r := 0; r < reps; r++ {
		for _, v := range []string{"password-changed", "credentials-added"} {
			for _, st := range []string{"used", "idle"} {
				out = append(out, spec{Reload: &reloadSpec{Kind: "static_file", Variant: v, State: st, After: "get"}})
				out = append(out, spec{Reload: &reloadSpec{Kind: "http_proxy", Variant: v, State: st, After: "get"}})
				out = append(out, spec{Reload: &reloadSpec{Kind: "http_proxy", Variant: v, State: st, After: "connect"}})
			}
			out = append(out, spec{Reload: &reloadSpec{Kind: "socks5", Variant: v, State: "idle", After: "session"}})
			out = append(out, spec{Reload: &reloadSpec{Kind: "socks5", Variant: v, State: "greeted", After: "session"}})
		}
	}
	_ = rng
	return out
}
