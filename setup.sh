#!/bin/bash
# Builds the framework offline from files on disk (warms the Go build cache with -race -tags verif).
set -e
cd "$(dirname "$0")"
export GOFLAGS=-mod=mod GOPROXY=off GOSUMDB=off GOTOOLCHAIN=local CGO_ENABLED=1
mkdir -p .bin .run evidence replays
go build -race -tags verif -o .bin/vnode ./cmd/vnode
for d in checks/c[0-9][0-9]; do
  [ -d "$d" ] || continue
  n=$(basename "$d")
  [ "$n" = "c00" ] && continue
  go build -race -tags verif -o ".bin/$n" "./$d"
done
echo "setup ok"
