#!/bin/bash
# Builds the framework offline from files on disk (warms the Go build cache with -race -tags verif).
set -e
cd "$(dirname "$0")"
export GOFLAGS=-mod=mod GOPROXY=off GOSUMDB=off GOTOOLCHAIN=local CGO_ENABLED=1
mkdir -p .bin .run evidence replays
go build -race -tags verif -o .bin/vnode ./cmd/vnode
for id in $(jq -r '.checks[].property_id' MANIFEST.json); do
  n=$(echo "$id" | tr 'A-Z' 'a-z')
  go build -race -tags verif -o ".bin/$n" "./checks/$n"
done
echo "setup ok"
